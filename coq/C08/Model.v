(* C08: executable models of HeaderSet, Headers, MultiDict, ImmutableMultiDict, CombinedMultiDict and
   EnvironHeaders (werkzeug.datastructures).  Definitions only.
   The case-folded comparisons, the set keys, the mutator-blocking tables and the environ key mapping come from
   C08/Gen.v, regenerated from /repo on every run.
   Conventions: a Python dict is an insertion-ordered association list with unique keys; a Python set of
   strings is a sorted duplicate-free list (canonical, so it can be compared with sorted(set)); every operation
   returns the new state and a result (Ok value / Err exception); a state after a raised exception is the state
   the implementation is left in (partial updates are kept). *)
From Coq Require Import ZArith.
From Wz Require Import lib.Bytes C08.LibStr C08.Gen.
Open Scope N_scope.

(* ------------------------------------------------------------------ observable values *)
Inductive out :=
| ONone
| OBool (b : bool)
| OInt (z : Z)
| OStr (s : str)
| OList (l : list str)
| OPair (k v : str)
| OPairs (l : list (str * str))
| OKList (k : str) (l : list str)
| OLists (l : list (str * list str))
| OErr (e : err).

Definition out_of_res (r : res out) : out := match r with Ok o => o | Err e => OErr e end.

(* ------------------------------------------------------------------ list helpers (Python list semantics) *)
Fixpoint remove_nth {A} (n : nat) (l : list A) : list A :=
  match n, l with
  | _, [] => []
  | O, _ :: r => r
  | S n', x :: r => x :: remove_nth n' r
  end.

Fixpoint set_nth {A} (n : nat) (v : A) (l : list A) : list A :=
  match n, l with
  | _, [] => []
  | O, _ :: r => v :: r
  | S n', x :: r => x :: set_nth n' v r
  end.

Fixpoint remove_first {A} (p : A -> bool) (l : list A) : list A :=
  match l with
  | [] => []
  | x :: r => if p x then r else x :: remove_first p r
  end.

Fixpoint find_index {A} (p : A -> bool) (l : list A) : option nat :=
  match l with
  | [] => None
  | x :: r => if p x then Some O else option_map S (find_index p r)
  end.

(* l[i] index normalisation: negative indices count from the end; None = IndexError *)
Definition norm_index (len : nat) (i : Z) : option nat :=
  let n := Z.of_nat len in
  let j := if (i <? 0)%Z then (i + n)%Z else i in
  if ((0 <=? j) && (j <? n))%Z then Some (Z.to_nat j) else None.

(* slice bound with step None: clamp into [0, len] *)
Definition clamp (len : nat) (x : option Z) (dflt : nat) : nat :=
  match x with
  | None => dflt
  | Some i =>
      let n := Z.of_nat len in
      let j := if (i <? 0)%Z then (i + n)%Z else i in
      Z.to_nat (Z.max 0 (Z.min n j))
  end.

Definition slice_get {A} (l : list A) (a b : option Z) : list A :=
  let s := clamp (length l) a O in
  let e := clamp (length l) b (length l) in
  firstn (e - s) (skipn s l).

(* l[a:b] = new : when a > b the slice is empty at a *)
Definition slice_set {A} (l : list A) (a b : option Z) (new : list A) : list A :=
  let s := clamp (length l) a O in
  let e := Nat.max s (clamp (length l) b (length l)) in
  firstn s l ++ new ++ skipn e l.

Definition slice_del {A} (l : list A) (a b : option Z) : list A := slice_set l a b [].

(* ------------------------------------------------------------------ Python set of str *)
Fixpoint set_insert (x : str) (s : list str) : list str :=
  match s with
  | [] => [x]
  | y :: r => if str_ltb x y then x :: s else y :: set_insert x r
  end.
Definition set_add (x : str) (s : list str) : list str := if smem x s then s else set_insert x s.
Definition set_remove (x : str) (s : list str) : list str := filter (fun y => negb (list_eqb x y)) s.
Definition set_of_list (l : list str) : list str := fold_left (fun s x => set_add x s) l [].

(* ------------------------------------------------------------------ quote_header_value / to_header *)
Definition DQ : N := 34.
Definition BS : N := 92.
Definition is_token_char (c : N) : bool := in_ranges c token_chars.
Definition escape_q (s : str) : str :=
  flat_map (fun c => if (c =? BS) || (c =? DQ) then [BS; c] else [c]) s.
Definition quote_header_value (allow_token : bool) (v : str) : str :=
  match v with
  | [] => [DQ; DQ]
  | _ => if allow_token && forallb is_token_char v then v else DQ :: escape_q v ++ [DQ]
  end.
Definition COMMA_SP : str := [44; 32].

(* ================================================================== HeaderSet *)
Record hset := { hs_headers : list str; hs_set : list str }.

Definition hs_init (l : list str) : hset :=
  {| hs_headers := l; hs_set := set_of_list (map hs_init_key l) |}.

Inductive hsop :=
| HAdd (h : str) | HRemove (h : str) | HUpdate (l : list str) | HDiscard (h : str) | HClear
| HDelItem (i : Z) | HSetItem (i : Z) (v : str).

Fixpoint hs_update_go (l : list str) (hs st : list str) (ins : bool) : list str * list str * bool :=
  match l with
  | [] => (hs, st, ins)
  | h :: r => if hs_update_new h st
              then hs_update_go r (hs ++ [hs_update_item h]) (set_add (hs_update_key h) st) true
              else hs_update_go r hs st ins
  end.

Definition hs_update (s : hset) (l : list str) : hset * res out * bool :=
  let '(hs, st, ins) := hs_update_go l (hs_headers s) (hs_set s) false in
  ({| hs_headers := hs; hs_set := st |}, Ok ONone, ins).

(* remove: KeyError when the folded key is not in _set; the third component says whether on_update fires *)
Definition hs_remove (s : hset) (h : str) : hset * res out * bool :=
  if hs_remove_missing h (hs_set s) then (s, Err KeyError, false)
  else if negb (smem (hs_remove_key h) (hs_set s)) then (s, Err KeyError, false)
  else ({| hs_headers := remove_first (fun item => hs_remove_match item h) (hs_headers s);
           hs_set := set_remove (hs_remove_key h) (hs_set s) |}, Ok ONone, true).

Definition hs_step (s : hset) (o : hsop) : hset * res out * bool :=
  match o with
  | HAdd h => hs_update s [h]
  | HUpdate l => hs_update s l
  | HRemove h => hs_remove s h
  | HDiscard h => let '(s', r, f) := hs_remove s h in (s', Ok ONone, f)
  | HClear => ({| hs_headers := []; hs_set := [] |}, Ok ONone, true)
  | HDelItem i =>
      match norm_index (length (hs_headers s)) i with
      | None => (s, Err IndexError, false)
      | Some n =>
          let rv := nth n (hs_headers s) [] in
          let hs := remove_nth n (hs_headers s) in
          if smem (hs_delitem_key rv) (hs_set s)
          then ({| hs_headers := hs; hs_set := set_remove (hs_delitem_key rv) (hs_set s) |}, Ok ONone, true)
          else ({| hs_headers := hs; hs_set := hs_set s |}, Err KeyError, false)
      end
  | HSetItem i v =>
      match norm_index (length (hs_headers s)) i with
      | None => (s, Err IndexError, false)
      | Some n =>
          let old := nth n (hs_headers s) [] in
          if smem (hs_setitem_oldkey old) (hs_set s)
          then ({| hs_headers := set_nth n v (hs_headers s);
                   hs_set := set_add (hs_setitem_newkey v) (set_remove (hs_setitem_oldkey old) (hs_set s)) |},
                Ok ONone, true)
          else (s, Err KeyError, false)
      end
  end.

(* reads *)
Definition hs_find (s : hset) (h : str) : Z :=
  match find_index (fun item => hs_find_match item h) (hs_headers s) with
  | Some n => Z.of_nat n
  | None => (-1)%Z
  end.
Definition hs_index (s : hset) (h : str) : res out :=
  if (hs_find s h <? 0)%Z then Err IndexError else Ok (OInt (hs_find s h)).
Definition hs_len (s : hset) : nat := length (hs_set s).
Definition hs_bool (s : hset) : bool := negb (Nat.eqb (length (hs_set s)) 0).
Definition hs_getitem (s : hset) (i : Z) : res out :=
  match norm_index (length (hs_headers s)) i with
  | None => Err IndexError
  | Some n => Ok (OStr (nth n (hs_headers s) []))
  end.
Definition hs_to_header (s : hset) : str := join COMMA_SP (map (quote_header_value true) (hs_headers s)).

Definition hs_obs (keys : list str) (idxs : list Z) (s : hset) : list out :=
  [OList (hs_headers s); OList (hs_set s); OInt (Z.of_nat (hs_len s)); OBool (hs_bool s);
   OStr (hs_to_header s); OList (set_of_list (hs_headers s))]
  ++ map (fun k => OInt (hs_find s k)) keys
  ++ map (fun k => out_of_res (hs_index s k)) keys
  ++ map (fun k => OBool (hs_contains k (hs_set s))) keys
  ++ map (fun i => out_of_res (hs_getitem s i)) idxs.

Fixpoint hs_run (keys : list str) (idxs : list Z) (s : hset) (ops : list hsop) : list (list out) :=
  match ops with
  | [] => []
  | o :: r => let '(s', rs, fired) := hs_step s o in
              (out_of_res rs :: OBool fired :: hs_obs keys idxs s') :: hs_run keys idxs s' r
  end.

(* ================================================================== Headers *)
Definition headers := list (str * str).

Inductive hval := VStr (s : str) | VInt (z : Z).

Definition has_newline (s : str) : bool := existsb (fun c => in_ranges c newline_class) s.

(* _str_header_value *)
Definition str_header_value (v : hval) : res str :=
  let s := match v with VStr s => s | VInt z => dec_of_Z z end in
  if has_newline s then Err ValueError else Ok s.

(* a value in a mapping passed to extend / update / the constructor *)
Inductive hmval := HScalar (v : hval) | HMany (l : list hval).
Definition mdict := list (str * list str).
Inductive harg :=
| HAPairs (l : list (str * hval))
| HADict (l : list (str * hmval))
| HAMulti (d : mdict)
| HAHeaders (h : headers).

Definition hd_get_key (h : headers) (key : str) : option str :=
  option_map snd (find (fun kv => hd_get_match (fst kv) key) h).
Definition hd_getlist (h : headers) (key : str) : list str :=
  map snd (filter (fun kv => hd_getlist_match (fst kv) key) h).
Definition hd_contains (h : headers) (key : str) : bool :=
  match hd_get_key h key with Some _ => true | None => false end.
Definition hd_del_key (h : headers) (key : str) : headers := filter (fun kv => hd_del_keep (fst kv) key) h.

(* primitives: state and an optional exception *)
Definition hstat := (headers * option err)%type.
Definition hseq (a : hstat) (f : headers -> hstat) : hstat :=
  match a with (h, None) => f h | (h, Some e) => (h, Some e) end.

Definition hd_add (h : headers) (k : str) (v : hval) : hstat :=
  match str_header_value v with
  | Err e => (h, Some e)
  | Ok s => (h ++ [(k, s)], None)
  end.

Fixpoint hd_set_go (h : headers) (k s : str) : option headers :=
  match h with
  | [] => None
  | (ok, ov) :: r =>
      if hd_set_match ok k then Some ((k, s) :: filter (fun t => hd_set_keep (fst t) k) r)
      else option_map (cons (ok, ov)) (hd_set_go r k s)
  end.
Definition hd_set_str (h : headers) (k s : str) : headers :=
  match hd_set_go h k s with Some h' => h' | None => h ++ [(k, s)] end.
Definition hd_set (h : headers) (k : str) (v : hval) : hstat :=
  match str_header_value v with
  | Err e => (h, Some e)
  | Ok s => (hd_set_str h k s, None)
  end.

Fixpoint hd_add_all (h : headers) (k : str) (vs : list hval) : hstat :=
  match vs with
  | [] => (h, None)
  | v :: r => hseq (hd_add h k v) (fun h' => hd_add_all h' k r)
  end.
Definition hd_setlist (h : headers) (k : str) (vs : list hval) : hstat :=
  match vs with
  | [] => (hd_del_key h k, None)
  | v :: r => hseq (hd_set h k v) (fun h' => hd_add_all h' k r)
  end.

(* iter_multi_items *)
Definition hflatten (l : list (str * hmval)) : list (str * hval) :=
  flat_map (fun kv => match snd kv with HScalar v => [(fst kv, v)] | HMany vs => map (fun v => (fst kv, v)) vs end) l.
Definition md_items_multi (d : mdict) : list (str * str) :=
  flat_map (fun kv => map (fun v => (fst kv, v)) (snd kv)) d.
Definition harg_items (a : harg) : list (str * hval) :=
  match a with
  | HAPairs l => l
  | HADict l => hflatten l
  | HAMulti d => map (fun kv => (fst kv, VStr (snd kv))) (md_items_multi d)
  | HAHeaders h => map (fun kv => (fst kv, VStr (snd kv))) h
  end.

Fixpoint hd_extend_items (h : headers) (l : list (str * hval)) : hstat :=
  match l with
  | [] => (h, None)
  | (k, v) :: r => hseq (hd_add h k v) (fun h' => hd_extend_items h' r)
  end.
Definition hd_extend (h : headers) (a : harg) : hstat := hd_extend_items h (harg_items a).
Definition hd_init (a : option harg) : hstat :=
  match a with None => ([], None) | Some a => hd_extend [] a end.

Fixpoint hd_update_sets (h : headers) (l : list (str * hval)) : hstat :=
  match l with
  | [] => (h, None)
  | (k, v) :: r => hseq (hd_set h k v) (fun h' => hd_update_sets h' r)
  end.
Fixpoint hd_update_dict (h : headers) (l : list (str * hmval)) : hstat :=
  match l with
  | [] => (h, None)
  | (k, HScalar v) :: r => hseq (hd_set h k v) (fun h' => hd_update_dict h' r)
  | (k, HMany vs) :: r => hseq (hd_setlist h k vs) (fun h' => hd_update_dict h' r)
  end.
(* for key in arg.keys(): self.setlist(key, arg.getlist(key)) *)
Fixpoint hd_update_lists (h : headers) (l : list (str * list str)) : hstat :=
  match l with
  | [] => (h, None)
  | (k, vs) :: r => hseq (hd_setlist h k (map VStr vs)) (fun h' => hd_update_lists h' r)
  end.
Definition hd_update (h : headers) (a : harg) : hstat :=
  match a with
  | HAPairs l => hd_update_sets h l
  | HADict l => hd_update_dict h l
  | HAMulti d => hd_update_lists h d
  | HAHeaders h2 => hd_update_lists h (map (fun kv => (fst kv, hd_getlist h2 (fst kv))) h2)
  end.

Fixpoint hd_str_pairs (l : list (str * hval)) : res headers :=
  match l with
  | [] => Ok []
  | (k, v) :: r =>
      match str_header_value v with
      | Err e => Err e
      | Ok s => match hd_str_pairs r with Ok t => Ok ((k, s) :: t) | Err e => Err e end
      end
  end.

Inductive hop :=
| HdAdd (k : str) (v : hval)
| HdSet (k : str) (v : hval)
| HdSetList (k : str) (vs : list hval)
| HdSetDefault (k : str) (v : hval)
| HdSetListDefault (k : str) (vs : list hval)
| HdExtend (a : harg)
| HdUpdate (a : harg)
| HdIor (a : harg)
| HdDelKey (k : str) | HdDelIdx (i : Z) | HdDelSlice (a b : option Z)
| HdRemove (k : str)
| HdPop | HdPopIdx (i : Z) | HdPopKey (k : str) (d : option str) | HdPopItem
| HdClear
| HdSetItemKey (k : str) (v : hval)
| HdSetItemIdx (i : Z) (k : str) (v : hval)
| HdSetItemSlice (a b : option Z) (l : list (str * hval)).

Definition hfin (a : hstat) (o : out) : headers * res out :=
  match a with (h, None) => (h, Ok o) | (h, Some e) => (h, Err e) end.

Definition hd_step (h : headers) (o : hop) : headers * res out :=
  match o with
  | HdAdd k v => hfin (hd_add h k v) ONone
  | HdSet k v | HdSetItemKey k v => hfin (hd_set h k v) ONone
  | HdSetList k vs => hfin (hd_setlist h k vs) ONone
  | HdSetDefault k v =>
      match hd_get_key h k with
      | Some x => (h, Ok (OStr x))
      | None =>
          match hd_set h k v with
          | (h', Some e) => (h', Err e)
          | (h', None) => (h', match hd_get_key h' k with Some x => Ok (OStr x) | None => Err KeyError end)
          end
      end
  | HdSetListDefault k vs =>
      if hd_contains h k then (h, Ok (OList (hd_getlist h k)))
      else match hd_setlist h k vs with
           | (h', Some e) => (h', Err e)
           | (h', None) => (h', Ok (OList (hd_getlist h' k)))
           end
  | HdExtend a => hfin (hd_extend h a) ONone
  | HdUpdate a | HdIor a => hfin (hd_update h a) ONone
  | HdDelKey k | HdRemove k => (hd_del_key h k, Ok ONone)
  | HdDelIdx i =>
      match norm_index (length h) i with
      | None => (h, Err IndexError)
      | Some n => (remove_nth n h, Ok ONone)
      end
  | HdDelSlice a b => (slice_del h a b, Ok ONone)
  | HdPop | HdPopItem =>
      match rev h with
      | [] => (h, Err IndexError)
      | (k, v) :: _ => (removelast h, Ok (OPair k v))
      end
  | HdPopIdx i =>
      match norm_index (length h) i with
      | None => (h, Err IndexError)
      | Some n => (remove_nth n h, Ok (let kv := nth n h ([], []) in OPair (fst kv) (snd kv)))
      end
  | HdPopKey k d =>
      match hd_get_key h k with
      | Some x => (hd_del_key h k, Ok (OStr x))
      | None => (h, match d with Some x => Ok (OStr x) | None => Err KeyError end)
      end
  | HdClear => ([], Ok ONone)
  | HdSetItemIdx i k v =>
      match str_header_value v with
      | Err e => (h, Err e)
      | Ok s => match norm_index (length h) i with
                | None => (h, Err IndexError)
                | Some n => (set_nth n (k, s) h, Ok ONone)
                end
      end
  | HdSetItemSlice a b l =>
      match hd_str_pairs l with
      | Err e => (h, Err e)
      | Ok new => (slice_set h a b new, Ok ONone)
      end
  end.

(* reads *)
Definition hd_getitem_idx (h : headers) (i : Z) : res out :=
  match norm_index (length h) i with
  | None => Err IndexError
  | Some n => Ok (let kv := nth n h ([], []) in OPair (fst kv) (snd kv))
  end.
Definition hd_or (h : headers) (a : harg) : res out :=
  match a with
  | HADict _ | HAMulti _ => match hd_update h a with (h', None) => Ok (OPairs h') | (_, Some e) => Err e end
  | _ => Err TypeError
  end.
Definition CRLF : str := [13; 10].
Definition hd_to_str (h : headers) : str :=
  join CRLF (map (fun kv => fst kv ++ [58; 32] ++ snd kv) h ++ [CRLF]).

Definition hd_obs (keys : list str) (idxs : list Z) (h : headers) : list out :=
  [OPairs h; OInt (Z.of_nat (length h)); OList (map fst h); OList (map (fun kv => lower (fst kv)) h);
   OList (map snd h); OPairs (map (fun kv => (lower (fst kv), snd kv)) h); OStr (hd_to_str h)]
  ++ map (fun k => match hd_get_key h k with Some v => OStr v | None => OErr KeyError end) keys
  ++ map (fun k => match hd_get_key h k with Some v => OStr v | None => ONone end) keys
  ++ map (fun k => OList (hd_getlist h k)) keys
  ++ map (fun k => OBool (hd_contains h k)) keys
  ++ map (fun i => out_of_res (hd_getitem_idx h i)) idxs
  ++ [OPairs (slice_get h (Some 1%Z) None); OPairs (slice_get h None (Some (-1)%Z));
      OPairs (slice_get h (Some (-2)%Z) (Some 5%Z)); OPairs (slice_get h (Some 2%Z) (Some 1%Z))].

Fixpoint hd_run (keys : list str) (idxs : list Z) (h : headers) (ops : list hop) : list (list out) :=
  match ops with
  | [] => []
  | o :: r => let '(h', rs) := hd_step h o in (out_of_res rs :: hd_obs keys idxs h') :: hd_run keys idxs h' r
  end.

(* ================================================================== MultiDict *)
Fixpoint d_get (k : str) (d : mdict) : option (list str) :=
  match d with
  | [] => None
  | (k', v) :: r => if list_eqb k k' then Some v else d_get k r
  end.
Fixpoint d_set (k : str) (v : list str) (d : mdict) : mdict :=
  match d with
  | [] => [(k, v)]
  | (k', v') :: r => if list_eqb k k' then (k', v) :: r else (k', v') :: d_set k v r
  end.
Definition d_del (k : str) (d : mdict) : mdict := filter (fun kv => negb (list_eqb k (fst kv))) d.
Definition d_mem (k : str) (d : mdict) : bool := match d_get k d with Some _ => true | None => false end.
(* dict.setdefault(k, []).append(v) *)
Definition d_append (k v : str) (d : mdict) : mdict :=
  match d_get k d with
  | Some l => d_set k (l ++ [v]) d
  | None => d ++ [(k, [v])]
  end.

Inductive mval := Scalar (v : str) | Many (l : list str).
Inductive marg :=
| APairs (l : list (str * str))
| ADict (l : list (str * mval))
| AMulti (d : mdict).

Definition mflatten (l : list (str * mval)) : list (str * str) :=
  flat_map (fun kv => match snd kv with Scalar v => [(fst kv, v)] | Many vs => map (fun v => (fst kv, v)) vs end) l.
Definition marg_items (a : marg) : list (str * str) :=
  match a with
  | APairs l => l
  | ADict l => mflatten l
  | AMulti d => md_items_multi d
  end.
Definition md_add_all (d : mdict) (l : list (str * str)) : mdict :=
  fold_left (fun d kv => d_append (fst kv) (snd kv) d) l d.

Definition md_init (a : option marg) : mdict :=
  match a with
  | None => []
  | Some (AMulti d) => d
  | Some (ADict l) =>
      fold_left (fun d kv => match snd kv with
                             | Scalar v => d_set (fst kv) [v] d
                             | Many [] => d
                             | Many vs => d_set (fst kv) vs d
                             end) l []
  | Some (APairs l) => md_add_all [] l
  end.

Inductive mop :=
| MSetItem (k v : str) | MAdd (k v : str) | MSetList (k : str) (vs : list str)
| MSetDefault (k v : str) | MSetListDefault (k : str) (dl : option (list str))
| MUpdate (a : marg) | MIor (a : marg)
| MPop (k : str) (d : option str) | MPopItem | MPopList (k : str) | MPopItemList
| MClear | MDelItem (k : str).

Definition md_getitem (d : mdict) (k : str) : res out :=
  match d_get k d with
  | Some (v :: _) => Ok (OStr v)
  | _ => Err KeyError
  end.

Definition md_step (d : mdict) (o : mop) : mdict * res out :=
  match o with
  | MSetItem k v => (d_set k [v] d, Ok ONone)
  | MAdd k v => (d_append k v d, Ok ONone)
  | MSetList k vs => (d_set k vs d, Ok ONone)
  | MSetDefault k v =>
      let d' := if d_mem k d then d else d_set k [v] d in (d', md_getitem d' k)
  | MSetListDefault k dl =>
      let d' := if d_mem k d then d else d_set k (match dl with Some l => l | None => [] end) d in
      (d', match d_get k d' with Some l => Ok (OList l) | None => Err KeyError end)
  | MUpdate a | MIor a => (md_add_all d (marg_items a), Ok ONone)
  | MPop k dflt =>
      match d_get k d with
      | Some (v :: _) => (d_del k d, Ok (OStr v))
      | Some [] => (d_del k d, match dflt with Some x => Ok (OStr x) | None => Err KeyError end)
      | None => (d, match dflt with Some x => Ok (OStr x) | None => Err KeyError end)
      end
  | MPopItem =>
      match rev d with
      | [] => (d, Err KeyError)
      | (k, v :: _) :: _ => (removelast d, Ok (OPair k v))
      | (k, []) :: _ => (removelast d, Err KeyError)
      end
  | MPopList k =>
      match d_get k d with
      | Some l => (d_del k d, Ok (OList l))
      | None => (d, Ok (OList []))
      end
  | MPopItemList =>
      match rev d with
      | [] => (d, Err KeyError)
      | (k, l) :: _ => (removelast d, Ok (OKList k l))
      end
  | MClear => ([], Ok ONone)
  | MDelItem k => if d_mem k d then (d_del k d, Ok ONone) else (d, Err KeyError)
  end.

(* reads *)
Definition md_getlist (d : mdict) (k : str) : list str := match d_get k d with Some l => l | None => [] end.
Definition md_keys (d : mdict) : list str := map fst d.
(* items() / values(): values[0] raises IndexError on an empty list *)
Fixpoint md_items (d : mdict) : res (list (str * str)) :=
  match d with
  | [] => Ok []
  | (k, []) :: _ => Err IndexError
  | (k, v :: _) :: r => match md_items r with Ok t => Ok ((k, v) :: t) | Err e => Err e end
  end.
Definition md_items_out (d : mdict) : out :=
  match md_items d with Ok l => OPairs l | Err e => OErr e end.
Definition md_values_out (d : mdict) : out :=
  match md_items d with Ok l => OList (map snd l) | Err e => OErr e end.
Definition md_or (d : mdict) (a : marg) : res out :=
  match a with
  | ADict _ | AMulti _ => Ok (OLists (md_add_all d (marg_items a)))
  | APairs _ => Err TypeError
  end.

Definition md_obs (keys : list str) (d : mdict) : list out :=
  [OLists d; OInt (Z.of_nat (length d)); OList (md_keys d); md_items_out d; OPairs (md_items_multi d);
   md_values_out d; OList (map (fun kv => join [43] (snd kv)) d)]
  ++ map (fun k => out_of_res (md_getitem d k)) keys
  ++ map (fun k => match md_getitem d k with Ok o => o | Err _ => ONone end) keys
  ++ map (fun k => OList (md_getlist d k)) keys
  ++ map (fun k => OBool (d_mem k d)) keys.

Fixpoint md_run (keys : list str) (d : mdict) (ops : list mop) : list (list out) :=
  match ops with
  | [] => []
  | o :: r => let '(d', rs) := md_step d o in (out_of_res rs :: md_obs keys d') :: md_run keys d' r
  end.

(* ------------------------------------------------------------------ ImmutableMultiDict *)
Definition nm_setitem : str := [95; 95; 115; 101; 116; 105; 116; 101; 109; 95; 95].
Definition nm_add : str := [97; 100; 100].
Definition nm_setlist : str := [115; 101; 116; 108; 105; 115; 116].
Definition nm_setdefault : str := [115; 101; 116; 100; 101; 102; 97; 117; 108; 116].
Definition nm_setlistdefault : str := [115; 101; 116; 108; 105; 115; 116; 100; 101; 102; 97; 117; 108; 116].
Definition nm_update : str := [117; 112; 100; 97; 116; 101].
Definition nm_ior : str := [95; 95; 105; 111; 114; 95; 95].
Definition nm_pop : str := [112; 111; 112].
Definition nm_popitem : str := [112; 111; 112; 105; 116; 101; 109].
Definition nm_poplist : str := [112; 111; 112; 108; 105; 115; 116].
Definition nm_popitemlist : str := [112; 111; 112; 105; 116; 101; 109; 108; 105; 115; 116].
Definition nm_delitem : str := [95; 95; 100; 101; 108; 105; 116; 101; 109; 95; 95].
Definition nm_clear : str := [99; 108; 101; 97; 114].
Definition nm_set : str := [115; 101; 116].
Definition nm_add_header : str := [97; 100; 100; 95; 104; 101; 97; 100; 101; 114].
Definition nm_remove : str := [114; 101; 109; 111; 118; 101].
Definition nm_extend : str := [101; 120; 116; 101; 110; 100].
Definition nm_insert : str := [105; 110; 115; 101; 114; 116].

(* the Python method an operation goes through *)
Definition mop_name (o : mop) : str :=
  match o with
  | MSetItem _ _ => nm_setitem | MAdd _ _ => nm_add | MSetList _ _ => nm_setlist
  | MSetDefault _ _ => nm_setdefault | MSetListDefault _ _ => nm_setlistdefault
  | MUpdate _ => nm_update | MIor _ => nm_ior | MPop _ _ => nm_pop | MPopItem => nm_popitem
  | MPopList _ => nm_poplist | MPopItemList => nm_popitemlist | MClear => nm_clear | MDelItem _ => nm_delitem
  end.

(* a method named in the mixins' tables raises TypeError before touching anything; any other goes to MultiDict *)
Definition imd_step (d : mdict) (o : mop) : mdict * res out :=
  if smem (mop_name o) immutable_multidict_blocked then (d, Err TypeError) else md_step d o.

Fixpoint imd_run (keys : list str) (d : mdict) (ops : list mop) : list (list out) :=
  match ops with
  | [] => []
  | o :: r => let '(d', rs) := imd_step d o in (out_of_res rs :: md_obs keys d') :: imd_run keys d' r
  end.

(* ------------------------------------------------------------------ CombinedMultiDict *)
Definition cmd := list mdict.

Fixpoint cmd_first (c : cmd) (k : str) : option mdict :=
  match c with
  | [] => None
  | d :: r => if d_mem k d then Some d else cmd_first r k
  end.
Definition cmd_getitem (c : cmd) (k : str) : res out :=
  match cmd_first c k with Some d => md_getitem d k | None => Err KeyError end.
(* get(): d[key] is not guarded, so an empty list raises KeyError out of get() *)
Definition cmd_get (c : cmd) (k : str) : res out :=
  match cmd_first c k with Some d => md_getitem d k | None => Ok ONone end.
Definition cmd_getlist (c : cmd) (k : str) : list str := flat_map (fun d => md_getlist d k) c.
Definition cmd_keys (c : cmd) : list str := set_of_list (flat_map md_keys c).
Definition cmd_contains (c : cmd) (k : str) : bool := existsb (d_mem k) c.

Fixpoint cmd_items_go (c : cmd) (found : list str) : res (list (str * str)) :=
  match c with
  | [] => Ok []
  | d :: r =>
      (fix inner (l : mdict) (found : list str) : res (list (str * str)) :=
         match l with
         | [] => cmd_items_go r found
         | (k, []) :: _ => Err IndexError
         | (k, v :: _) :: t =>
             if smem k found then inner t found
             else match inner t (k :: found) with Ok x => Ok ((k, v) :: x) | Err e => Err e end
         end) d found
  end.
Definition cmd_items (c : cmd) : res (list (str * str)) := cmd_items_go c [].
Definition cmd_items_multi (c : cmd) : list (str * str) := flat_map md_items_multi c.
(* lists(): rv.setdefault(key, []).extend(values) over all dicts *)
Definition d_extend (k : str) (vs : list str) (d : mdict) : mdict :=
  match d_get k d with
  | Some l => d_set k (l ++ vs) d
  | None => d ++ [(k, vs)]
  end.
Definition cmd_lists (c : cmd) : mdict :=
  fold_left (fun rv d => fold_left (fun rv kv => d_extend (fst kv) (snd kv) rv) d rv) c [].

Definition cmd_obs (keys : list str) (c : cmd) : list out :=
  [OLists (cmd_lists c); OInt (Z.of_nat (length (cmd_keys c))); OList (cmd_keys c);
   match cmd_items c with Ok l => OPairs l | Err e => OErr e end;
   OPairs (cmd_items_multi c);
   match cmd_items c with Ok l => OList (map snd l) | Err e => OErr e end;
   OList (map (fun kv => join [43] (snd kv)) (cmd_lists c))]
  ++ map (fun k => out_of_res (cmd_getitem c k)) keys
  ++ map (fun k => out_of_res (cmd_get c k)) keys
  ++ map (fun k => OList (cmd_getlist c k)) keys
  ++ map (fun k => OBool (cmd_contains c k)) keys.

(* an operation on a CombinedMultiDict: a mutation of the j-th wrapped dict (visible through the view),
   or a mutator called on the view itself (blocked) *)
Inductive cop := CInner (j : nat) (o : mop) | COuter (o : mop).
Fixpoint upd_nth {A} (n : nat) (f : A -> A) (l : list A) : list A :=
  match n, l with
  | _, [] => []
  | O, x :: r => f x :: r
  | S n', x :: r => x :: upd_nth n' f r
  end.
Definition cmd_step (c : cmd) (o : cop) : cmd * res out :=
  match o with
  | CInner j m =>
      match nth_error c j with
      | Some d => let '(d', r) := md_step d m in (upd_nth j (fun _ => d') c, r)
      | None => (c, Err IndexError)
      end
  | COuter m => if smem (mop_name m) immutable_multidict_blocked then (c, Err TypeError) else (c, Ok ONone)
  end.
Fixpoint cmd_run (keys : list str) (c : cmd) (ops : list cop) : list (list out) :=
  match ops with
  | [] => []
  | o :: r => let '(c', rs) := cmd_step c o in (out_of_res rs :: cmd_obs keys c') :: cmd_run keys c' r
  end.

(* ================================================================== EnvironHeaders *)
Definition environ := list (str * str).
Fixpoint env_lookup (e : environ) (k : str) : option str :=
  match e with
  | [] => None
  | (k', v) :: r => if list_eqb k k' then Some v else env_lookup r k
  end.
Definition eh_get_key (e : environ) (key : str) : option str :=
  let k := env_key key in
  if env_key_plain k then env_lookup e k else env_lookup e (env_key_http k).
Definition eh_iter (e : environ) : headers :=
  flat_map (fun kv =>
    if env_iter_http (fst kv) (snd kv) then [(env_iter_http_name (fst kv), snd kv)]
    else if env_iter_plain (fst kv) (snd kv) then [(env_iter_plain_name (fst kv), snd kv)]
    else []) e.
Definition eh_getlist (e : environ) (key : str) : list str :=
  map snd (filter (fun kv => hd_getlist_match (fst kv) key) (eh_iter e)).

(* the Python method a Headers operation goes through *)
Definition hop_name (o : hop) : str :=
  match o with
  | HdAdd _ _ => nm_add | HdSet _ _ => nm_set | HdSetList _ _ => nm_setlist
  | HdSetDefault _ _ => nm_setdefault | HdSetListDefault _ _ => nm_setlistdefault
  | HdExtend _ => nm_extend | HdUpdate _ => nm_update | HdIor _ => nm_ior
  | HdDelKey _ | HdDelIdx _ | HdDelSlice _ _ => nm_delitem
  | HdRemove _ => nm_remove
  | HdPop | HdPopIdx _ | HdPopKey _ _ => nm_pop | HdPopItem => nm_popitem
  | HdClear => nm_clear
  | HdSetItemKey _ _ | HdSetItemIdx _ _ _ | HdSetItemSlice _ _ _ => nm_setitem
  end.
(* a method named in ImmutableHeadersMixin raises TypeError; one that is not would run the Headers method on the
   private (always empty) pair list: the view is unchanged and nothing is raised by the mixin (C08_immutable
   proves this branch dead for the regenerated table) *)
Definition eh_step (e : environ) (o : hop) : environ * res out :=
  if smem (hop_name o) immutable_headers_blocked then (e, Err TypeError) else (e, Ok ONone).

Definition eh_obs (keys : list str) (e : environ) : list out :=
  let it := eh_iter e in
  [OPairs it; OInt (Z.of_nat (length it)); OList (map fst it); OList (map snd it)]
  ++ map (fun k => match eh_get_key e k with Some v => OStr v | None => OErr KeyError end) keys
  ++ map (fun k => match eh_get_key e k with Some v => OStr v | None => ONone end) keys
  ++ map (fun k => OList (eh_getlist e k)) keys
  ++ map (fun k => OBool (match eh_get_key e k with Some _ => true | None => false end)) keys.
Definition eh_run (keys : list str) (e : environ) (ops : list hop) : list (list out) :=
  map (fun o => let '(e', rs) := eh_step e o in out_of_res rs :: eh_obs keys e') ops.

(* ================================================================== equality, copies, pickling (as values) *)
Fixpoint rows_eqb (a b : list str) : bool :=
  match a, b with
  | [], [] => true
  | x :: a', y :: b' => list_eqb x y && rows_eqb a' b'
  | _, _ => false
  end.
(* dict.__eq__ (MultiDict, ImmutableMultiDict): same number of keys, every key of the left in the right with an
   equal row; the key order is irrelevant *)
Definition md_eqb (d1 d2 : mdict) : bool :=
  Nat.eqb (length d1) (length d2) &&
  forallb (fun kv => match d_get (fst kv) d2 with Some l => rows_eqb (snd kv) l | None => false end) d1.
(* CombinedMultiDict inherits dict.__eq__, which looks at its own, always empty, dict storage: any two compare equal *)
Definition cmd_eqb (c1 c2 : cmd) : bool := true.

(* the three ways a MultiDict is rebuilt: copy() / MultiDict(md) row by row; deepcopy() through to_dict(flat=False) and
   the constructor's mapping branch; ImmutableMultiDict.__reduce_ex__ (pickle, copy.deepcopy) through its pairs *)
Definition md_copy (d : mdict) : mdict := md_init (Some (AMulti d)).
Definition md_deepcopy (d : mdict) : mdict := md_init (Some (ADict (map (fun kv => (fst kv, Many (snd kv))) d))).
Definition imd_reduce (d : mdict) : mdict := md_init (Some (APairs (md_items_multi d))).
(* MultiDict.__getstate__ / __setstate__: dict(self.lists()), then clear() and dict.update(state) *)
Definition md_getstate (d : mdict) : mdict := d.
Definition md_setstate (old state : mdict) : mdict := fold_left (fun acc kv => d_set (fst kv) (snd kv) acc) state [].

(* Headers.__eq__: the sets of (lower-cased key, value) pairs are equal *)
Definition pair_mem (p : str * str) (l : list (str * str)) : bool :=
  existsb (fun q => list_eqb (fst p) (fst q) && list_eqb (snd p) (snd q)) l.
Definition hd_lowered (h : headers) : list (str * str) := map (fun kv => (lower (fst kv), snd kv)) h.
Definition hd_eqb (h1 h2 : headers) : bool :=
  forallb (fun p => pair_mem p (hd_lowered h2)) (hd_lowered h1) && forallb (fun p => pair_mem p (hd_lowered h1)) (hd_lowered h2).
Definition hd_copy (h : headers) : hstat := hd_init (Some (HAHeaders h)).

(* HeaderSet: collections.abc.Set.__eq__: equal len() and every item of the left is in the right *)
Definition hs_eqb (s1 s2 : hset) : bool :=
  Nat.eqb (hs_len s1) (hs_len s2) && forallb (fun x => hs_contains x (hs_set s2)) (hs_headers s1).
