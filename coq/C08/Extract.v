From Coq Require Extraction ExtrOcamlBasic.
From Wz Require Import lib.Bytes lib.ExtractBase C08.LibStr C08.Gen C08.Model.
Extraction Language OCaml.
Extraction "C08/model_extracted.ml" force_types hs_init hs_obs hs_run hd_init hd_obs hd_run hd_or
  md_init md_obs md_run md_or imd_run cmd_obs cmd_run eh_obs eh_run
  md_eqb hd_eqb hs_eqb md_deepcopy imd_reduce md_setstate.
