(* C08: the abstract (documented) models the concrete models are compared with.  Definitions only.
   HeaderSet  -> a case-insensitive ordered set: a list of items, no two equal up to ASCII case
   Headers    -> an ordered list of (key, value) pairs, keys compared case-insensitively
   MultiDict  -> an insertion-ordered multimap: a list of (key, value) pairs grouped by first occurrence of the key *)
From Coq Require Import ZArith.
From Wz Require Import lib.Bytes C08.LibStr C08.Gen C08.Model.
Open Scope N_scope.

(* ------------------------------------------------------------------ case-insensitive ordered set *)
Definition ci_mem (h : str) (l : list str) : bool := existsb (fun x => ci_eqb x h) l.
Definition ci_nodup (l : list str) : Prop := NoDup (map lower l).
Fixpoint ci_nodupb (l : list str) : bool :=
  match l with
  | [] => true
  | x :: r => negb (ci_mem x r) && ci_nodupb r
  end.

Definition spec_add (h : str) (l : list str) : list str := if ci_mem h l then l else l ++ [h].
Definition spec_update (hs : list str) (l : list str) : list str := fold_left (fun l h => spec_add h l) hs l.
Definition spec_remove (h : str) (l : list str) : list str := remove_first (fun x => ci_eqb x h) l.

(* (items, result, whether the set changed so that a change notification is due) *)
Definition spec_step (l : list str) (o : hsop) : list str * res out * bool :=
  match o with
  | HAdd h => (spec_add h l, Ok ONone, negb (ci_mem h l))
  | HUpdate hs => (spec_update hs l, Ok ONone, negb (Nat.eqb (length (spec_update hs l)) (length l)))
  | HRemove h => if ci_mem h l then (spec_remove h l, Ok ONone, true) else (l, Err KeyError, false)
  | HDiscard h => if ci_mem h l then (spec_remove h l, Ok ONone, true) else (l, Ok ONone, false)
  | HClear => ([], Ok ONone, true)
  | HDelItem i =>
      match norm_index (length l) i with
      | None => (l, Err IndexError, false)
      | Some n => (remove_nth n l, Ok ONone, true)
      end
  | HSetItem i v =>
      match norm_index (length l) i with
      | None => (l, Err IndexError, false)
      | Some n => (set_nth n v l, Ok ONone, true)
      end
  end.

(* item assignment is defined by the abstract set only when the new item does not collide, up to case,
   with another item of the set *)
Definition setitem_ok (l : list str) (o : hsop) : bool :=
  match o with
  | HSetItem i v =>
      match norm_index (length l) i with
      | Some n => negb (ci_mem v (remove_nth n l))
      | None => true
      end
  | _ => true
  end.

(* the representation invariant of the concrete HeaderSet: _set is exactly the set of folded items and no
   two items fold to the same key *)
Definition RI (s : hset) : Prop :=
  NoDup (hs_set s) /\ NoDup (map lower (hs_headers s)) /\
  (forall x, In x (hs_set s) <-> In x (map lower (hs_headers s))).
Definition abs (s : hset) : list str := hs_headers s.

(* run a list of operations *)
Definition hs_exec (s : hset) (ops : list hsop) : hset := fold_left (fun s o => fst (fst (hs_step s o))) ops s.
Fixpoint ops_ok (s : hset) (ops : list hsop) : bool :=
  match ops with
  | [] => true
  | o :: r => setitem_ok (abs s) o && ops_ok (fst (fst (hs_step s o))) r
  end.

(* ------------------------------------------------------------------ insertion-ordered multimap *)
(* the abstraction of a MultiDict state: its (key, value) pairs in row order *)
Definition md_abs (d : mdict) : list (str * str) := md_items_multi d.
(* keys of a pair list in order of first occurrence *)
Fixpoint first_keys (l : list (str * str)) (seen : list str) : list str :=
  match l with
  | [] => []
  | (k, _) :: r => if smem k seen then first_keys r seen else k :: first_keys r (k :: seen)
  end.
Definition mm_getlist (l : list (str * str)) (k : str) : list str :=
  map snd (filter (fun kv => list_eqb k (fst kv)) l).
(* well-formed concrete state: unique keys (Python dict) *)
Definition md_wf (d : mdict) : Prop := NoDup (map fst d).
Definition nonempty_row (l : list str) : bool := match l with [] => false | _ => true end.
Definition md_nonempty (d : mdict) : Prop := forall k l, In (k, l) d -> l <> [].

(* ------------------------------------------------------------------ EnvironHeaders *)
(* a WSGI environ key as servers produce them: upper-case letters, digits and underscore *)
Definition wsgi_key (k : str) : bool := forallb (fun c => is_upper c || is_digit c || (c =? 95)) k.

(* ------------------------------------------------------------------ the abstract multimap as a step function *)
(* the abstract state is the pair list; its keys (first occurrences) and rows are read off it, an operation is
   described by the keys and rows afterwards, and the new pair list is rebuilt from them *)
Definition mm_rebuild (ks : list str) (g : str -> list str) : list (str * str) :=
  flat_map (fun k => map (pair k) (g k)) ks.
Definition mm_keys (l : list (str * str)) : list str := first_keys l [].
Definition ks_remove (k : str) (ks : list str) : list str := filter (fun k' => negb (list_eqb k k')) ks.
Definition ks_add (k : str) (ks : list str) : list str := if smem k ks then ks else ks ++ [k].

Definition mm_setrow (l : list (str * str)) (k : str) (row : list str) : list (str * str) :=
  mm_rebuild (ks_add k (mm_keys l)) (fun k' => if list_eqb k k' then row else mm_getlist l k').
Definition mm_add (l : list (str * str)) (kv : str * str) : list (str * str) :=
  mm_setrow l (fst kv) (mm_getlist l (fst kv) ++ [snd kv]).
Definition mm_delrow (l : list (str * str)) (k : str) : list (str * str) :=
  mm_rebuild (ks_remove k (mm_keys l)) (mm_getlist l).

Definition mm_step (l : list (str * str)) (o : mop) : list (str * str) * res out :=
  let ks := mm_keys l in
  let g := mm_getlist l in
  match o with
  | MSetItem k v => (mm_setrow l k [v], Ok ONone)
  | MAdd k v => (mm_add l (k, v), Ok ONone)
  | MSetList k vs => (mm_setrow l k vs, Ok ONone)
  | MSetDefault k v =>
      if smem k ks then (l, Ok (OStr (hd [] (g k)))) else (mm_setrow l k [v], Ok (OStr v))
  | MSetListDefault k dl =>
      if smem k ks then (l, Ok (OList (g k)))
      else let row := match dl with Some x => x | None => [] end in (mm_setrow l k row, Ok (OList row))
  | MUpdate a | MIor a => (fold_left mm_add (marg_items a) l, Ok ONone)
  | MPop k dflt =>
      if smem k ks then (mm_delrow l k, Ok (OStr (hd [] (g k))))
      else (l, match dflt with Some x => Ok (OStr x) | None => Err KeyError end)
  | MPopItem =>
      match rev ks with
      | [] => (l, Err KeyError)
      | k :: _ => (mm_delrow l k, Ok (OPair k (hd [] (g k))))
      end
  | MPopList k => if smem k ks then (mm_delrow l k, Ok (OList (g k))) else (l, Ok (OList []))
  | MPopItemList =>
      match rev ks with
      | [] => (l, Err KeyError)
      | k :: _ => (mm_delrow l k, Ok (OKList k (g k)))
      end
  | MClear => ([], Ok ONone)
  | MDelItem k => if smem k ks then (mm_delrow l k, Ok ONone) else (l, Err KeyError)
  end.

(* the known finding as the explicit guard: an operation that would store an empty row *)
Definition mop_ok (o : mop) : bool :=
  match o with
  | MSetList _ [] => false
  | MSetListDefault _ None | MSetListDefault _ (Some []) => false
  | _ => true
  end.
Definition md_exec (d : mdict) (ops : list mop) : mdict := fold_left (fun d o => fst (md_step d o)) ops d.
Definition mm_exec (l : list (str * str)) (ops : list mop) : list (str * str) := fold_left (fun l o => fst (mm_step l o)) ops l.
Definition md_nonemptyb (d : mdict) : bool := forallb (fun kv => nonempty_row (snd kv)) d.
