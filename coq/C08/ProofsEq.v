(* C08 proofs, part 4: equality, hashing, rebuilding (copy / deepcopy / pickle) as values; states holding an empty row. *)
From Coq Require Import ZArith Lia ZifyBool ZifyN.
From Wz Require Import lib.Bytes lib.BytesFacts C08.LibStr C08.LibStrFacts C08.Gen C08.Model C08.Spec C08.Proofs C08.ProofsMD C08.ProofsMM.
Open Scope N_scope.

Lemma rows_eqb_eq a b : rows_eqb a b = true <-> a = b.
Proof.
  split.
  - revert b. induction a as [|x a IH]; intros [|y b]; cbn [rows_eqb]; intro H; try discriminate; [reflexivity|].
    apply andb_prop in H. destruct H as [H1 H2]. apply list_eqb_eq in H1. subst. f_equal. apply IH. exact H2.
  - intros ->. induction b as [|y b IH]; cbn [rows_eqb]; [reflexivity|]. rewrite list_eqb_refl, IH. reflexivity.
Qed.

Lemma incl_both_length {A} (l1 l2 : list A) : NoDup l1 -> NoDup l2 -> incl l1 l2 -> incl l2 l1 -> length l1 = length l2.
Proof. intros N1 N2 I1 I2. apply Nat.le_antisymm; apply NoDup_incl_length; assumption. Qed.

(* ------------------------------------------------------------------ MultiDict / ImmutableMultiDict equality *)
Theorem md_eq_spec d1 d2 : md_wf d1 -> md_wf d2 ->
  (md_eqb d1 d2 = true <-> forall k, d_get k d1 = d_get k d2).
Proof.
  intros W1 W2. unfold md_eqb. rewrite andb_true_iff, Nat.eqb_eq, forallb_forall. split.
  - intros [Hlen Hall] k.
    assert (I12 : incl (map fst d1) (map fst d2)).
    { intros x Hx. apply in_map_iff in Hx. destruct Hx as [[k0 l0] [E Hin]]. cbn [fst] in E. subst k0.
      specialize (Hall _ Hin). cbn [fst snd] in Hall. destruct (d_get x d2) as [l|] eqn:G; [|discriminate].
      apply d_get_In in G. apply (in_map fst) in G. exact G. }
    assert (I21 : incl (map fst d2) (map fst d1)).
    { apply NoDup_length_incl; [exact W1|rewrite !map_length; lia|exact I12]. }
    destruct (d_get k d1) as [l|] eqn:G1.
    + pose proof (d_get_In _ _ _ G1) as Hin. specialize (Hall _ Hin). cbn [fst snd] in Hall.
      destruct (d_get k d2) as [l2|]; [|discriminate]. apply rows_eqb_eq in Hall. subst. reflexivity.
    + destruct (d_get k d2) as [l2|] eqn:G2; [|reflexivity]. exfalso. apply d_get_None in G1. apply G1. apply I21.
      apply d_get_In in G2. apply (in_map fst) in G2. exact G2.
  - intro H. assert (K : forall x, In x (map fst d1) <-> In x (map fst d2)).
    { intro x. rewrite <- !d_mem_In. unfold d_mem. rewrite H. reflexivity. }
    split.
    + rewrite <- (map_length fst d1), <- (map_length fst d2).
      apply incl_both_length; try assumption; intros x Hx; apply K; exact Hx.
    + intros [k l] Hin. cbn [fst snd]. rewrite <- H, (In_d_get k l d1 W1 Hin). apply rows_eqb_eq. reflexivity.
Qed.

Theorem md_eq_equivalence :
  (forall d, md_wf d -> md_eqb d d = true) /\
  (forall d1 d2, md_wf d1 -> md_wf d2 -> md_eqb d1 d2 = md_eqb d2 d1) /\
  (forall d1 d2 d3, md_wf d1 -> md_wf d2 -> md_wf d3 -> md_eqb d1 d2 = true -> md_eqb d2 d3 = true -> md_eqb d1 d3 = true).
Proof.
  split; [|split].
  - intros d W. apply (md_eq_spec d d W W). reflexivity.
  - intros d1 d2 W1 W2. destruct (md_eqb d1 d2) eqn:E.
    + symmetry. apply (md_eq_spec d2 d1 W2 W1). intro k. symmetry. apply (proj1 (md_eq_spec d1 d2 W1 W2) E).
    + destruct (md_eqb d2 d1) eqn:E2; [|reflexivity]. rewrite <- E. apply (md_eq_spec d1 d2 W1 W2).
      intro k. symmetry. apply (proj1 (md_eq_spec d2 d1 W2 W1) E2).
  - intros d1 d2 d3 W1 W2 W3 E12 E23. apply (md_eq_spec d1 d3 W1 W3). intro k.
    rewrite (proj1 (md_eq_spec d1 d2 W1 W2) E12 k). apply (proj1 (md_eq_spec d2 d3 W2 W3) E23).
Qed.

(* equal values have the same set of (key, value) pairs: whatever is computed from that set agrees *)
Lemma items_multi_In d k v : md_wf d -> (In (k, v) (md_items_multi d) <-> exists l, d_get k d = Some l /\ In v l).
Proof.
  intro W. unfold md_items_multi. rewrite in_flat_map. split.
  - intros [[k0 l0] [Hin Hv]]. cbn [fst snd] in Hv. apply in_map_iff in Hv. destruct Hv as [x [E Hx]]. inversion E; subst.
    exists l0. split; [apply In_d_get; assumption|exact Hx].
  - intros [l [G Hv]]. exists (k, l). split; [apply d_get_In; exact G|]. cbn [fst snd]. apply in_map_iff. exists v. split; [reflexivity|exact Hv].
Qed.

Theorem md_eq_same_pairs d1 d2 : md_wf d1 -> md_wf d2 -> md_eqb d1 d2 = true ->
  forall p, In p (md_items_multi d1) <-> In p (md_items_multi d2).
Proof.
  intros W1 W2 E [k v]. rewrite (items_multi_In d1 k v W1), (items_multi_In d2 k v W2).
  rewrite (proj1 (md_eq_spec d1 d2 W1 W2) E k). reflexivity.
Qed.

Section Hash.
  (* hash(frozenset(items)): any function of the SET of items (contract of frozenset hashing) *)
  Variable hash_fs : list (str * str) -> Z.
  Hypothesis hash_of_set : forall l1 l2, (forall p, In p l1 <-> In p l2) -> hash_fs l1 = hash_fs l2.
  Definition imd_hash (d : mdict) : Z := hash_fs (md_items_multi d).
  Theorem imd_eq_hash d1 d2 : md_wf d1 -> md_wf d2 -> md_eqb d1 d2 = true -> imd_hash d1 = imd_hash d2.
  Proof. intros W1 W2 E. apply hash_of_set. apply md_eq_same_pairs; assumption. Qed.
End Hash.

(* ------------------------------------------------------------------ rebuilding a MultiDict *)
Definition live (d : mdict) : mdict := filter (fun kv => nonempty_row (snd kv)) d.

Lemma d_get_app_fresh k (acc : mdict) row : ~ In k (map fst acc) -> d_get k (acc ++ [(k, row)]) = Some row.
Proof.
  induction acc as [|[k0 l0] acc IH]; cbn [app d_get map fst In]; intro H; [rewrite list_eqb_refl; reflexivity|].
  destruct (list_eqb k k0) eqn:E; [apply list_eqb_eq in E; subst; exfalso; apply H; left; reflexivity|].
  apply IH. intro A. apply H. right. exact A.
Qed.

Lemma d_set_app_fresh k (acc : mdict) row row' : ~ In k (map fst acc) -> d_set k row' (acc ++ [(k, row)]) = acc ++ [(k, row')].
Proof.
  induction acc as [|[k0 l0] acc IH]; cbn [app d_set map fst In]; intro H; [rewrite list_eqb_refl; reflexivity|].
  destruct (list_eqb k k0) eqn:E; [apply list_eqb_eq in E; subst; exfalso; apply H; left; reflexivity|].
  f_equal. apply IH. intro A. apply H. right. exact A.
Qed.

Lemma d_set_fresh k (acc : mdict) row : ~ In k (map fst acc) -> d_set k row acc = acc ++ [(k, row)].
Proof.
  induction acc as [|[k0 l0] acc IH]; cbn [app d_set map fst In]; intro H; [reflexivity|].
  destruct (list_eqb k k0) eqn:E; [apply list_eqb_eq in E; subst; exfalso; apply H; left; reflexivity|].
  f_equal. apply IH. intro A. apply H. right. exact A.
Qed.

Lemma add_row_more k (acc : mdict) l : forall cur, ~ In k (map fst acc) ->
  md_add_all (acc ++ [(k, cur)]) (map (pair k) l) = acc ++ [(k, cur ++ l)].
Proof.
  unfold md_add_all. induction l as [|v l IH]; intros cur H; cbn [map fold_left fst snd]; [rewrite app_nil_r; reflexivity|].
  unfold d_append at 2. rewrite (d_get_app_fresh k acc cur H), (d_set_app_fresh k acc cur (cur ++ [v]) H).
  rewrite (IH (cur ++ [v]) H), <- app_assoc. reflexivity.
Qed.

Lemma add_row k (acc : mdict) l : ~ In k (map fst acc) ->
  md_add_all acc (map (pair k) l) = match l with [] => acc | _ => acc ++ [(k, l)] end.
Proof.
  intro H. destruct l as [|v l]; [reflexivity|]. unfold md_add_all. cbn [map fold_left fst snd].
  unfold d_append at 2. replace (d_get k acc) with (@None (list str)) by (symmetry; apply d_get_None; exact H).
  apply (add_row_more k acc l [v] H).
Qed.

Lemma live_keys_incl d : incl (map fst (live d)) (map fst d).
Proof. intros x H. apply in_map_iff in H. destruct H as [kv [E Hin]]. apply filter_In in Hin. subst. apply in_map. apply Hin. Qed.

Lemma reduce_acc d : forall acc, NoDup (map fst (acc ++ d)) -> md_add_all acc (md_items_multi d) = acc ++ live d.
Proof.
  induction d as [|[k l] d IH]; intros acc N; [cbn; rewrite app_nil_r; reflexivity|].
  change (md_items_multi ((k, l) :: d)) with (map (pair k) l ++ md_items_multi d).
  unfold md_add_all. rewrite fold_left_app. fold (md_add_all acc (map (pair k) l)).
  assert (Hf : ~ In k (map fst acc)).
  { rewrite map_app in N. cbn [map fst] in N. apply NoDup_remove_2 in N. intro A. apply N. apply in_or_app. left. exact A. }
  rewrite (add_row k acc l Hf). cbn [live filter snd]. destruct l as [|v l]; cbn [nonempty_row].
  - apply IH. rewrite map_app in *. cbn [map fst] in N. apply NoDup_remove_1 in N. exact N.
  - fold (md_add_all (acc ++ [(k, v :: l)]) (md_items_multi d)). rewrite IH by (rewrite <- app_assoc; exact N).
    rewrite <- app_assoc. reflexivity.
Qed.

Lemma deepcopy_acc d : forall acc, NoDup (map fst (acc ++ d)) ->
  fold_left (fun d0 kv => match snd kv with Scalar v => d_set (fst kv) [v] d0 | Many [] => d0 | Many vs => d_set (fst kv) vs d0 end)
    (map (fun kv => (fst kv, Many (snd kv))) d) acc = acc ++ live d.
Proof.
  induction d as [|[k l] d IH]; intros acc N; [cbn; rewrite app_nil_r; reflexivity|].
  cbn [map fold_left fst snd live filter].
  assert (Hf : ~ In k (map fst acc)).
  { rewrite map_app in N. cbn [map fst] in N. apply NoDup_remove_2 in N. intro A. apply N. apply in_or_app. left. exact A. }
  destruct l as [|v l]; cbn [nonempty_row].
  - apply IH. rewrite map_app in *. cbn [map fst] in N. apply NoDup_remove_1 in N. exact N.
  - rewrite (d_set_fresh k acc (v :: l) Hf). rewrite IH by (rewrite <- app_assoc; exact N). rewrite <- app_assoc. reflexivity.
Qed.

Lemma live_good d : md_good d -> live d = d.
Proof.
  intros [_ N]. unfold live. apply forallb_filter_id. apply forallb_forall. intros [k l] Hin. cbn [snd].
  destruct l; [exfalso; apply (N k [] Hin); reflexivity|reflexivity].
Qed.

(* copy keeps the rows as they are; deepcopy and the immutable variant's pickle rebuild the value from its pairs and so
   keep exactly the non-empty rows: on a state without empty rows all three are the identity *)
Theorem md_rebuild d : md_wf d ->
  md_copy d = d /\ md_deepcopy d = live d /\ imd_reduce d = live d /\ md_setstate [] (md_getstate d) = d.
Proof.
  intro W. split; [reflexivity|]. split; [apply (deepcopy_acc d [] W)|]. split; [apply (reduce_acc d [] W)|].
  unfold md_setstate, md_getstate.
  assert (G : forall acc, NoDup (map fst (acc ++ d)) -> fold_left (fun a kv => d_set (fst kv) (snd kv) a) d acc = acc ++ d).
  { clear W. induction d as [|[k l] d IH]; intros acc N; cbn [fold_left fst snd]; [rewrite app_nil_r; reflexivity|].
    assert (Hf : ~ In k (map fst acc)).
    { rewrite map_app in N. cbn [map fst] in N. apply NoDup_remove_2 in N. intro A. apply N. apply in_or_app. left. exact A. }
    rewrite (d_set_fresh k acc l Hf), IH by (rewrite <- app_assoc; exact N). rewrite <- app_assoc. reflexivity. }
  apply (G [] W).
Qed.

Theorem md_rebuild_good d : md_good d -> md_copy d = d /\ md_deepcopy d = d /\ imd_reduce d = d.
Proof.
  intro G. destruct (md_rebuild d (proj1 G)) as (A & B & C & _). rewrite (live_good d G) in B, C. repeat split; assumption.
Qed.

Theorem md_rebuild_refuted : exists d, md_wf d /\ md_copy d = d /\ md_deepcopy d <> d /\ imd_reduce d <> d.
Proof. exists [([107], [])]. split; [repeat constructor; intros []|]. vm_compute. repeat split; discriminate. Qed.

(* ------------------------------------------------------------------ Headers equality and copy *)
Lemma pair_mem_In p l : pair_mem p l = true <-> In p l.
Proof.
  unfold pair_mem. rewrite existsb_exists. split.
  - intros [q [Hq E]]. apply andb_prop in E. destruct E as [E1 E2]. apply list_eqb_eq in E1. apply list_eqb_eq in E2.
    destruct p, q. cbn [fst snd] in *. subst. exact Hq.
  - intro H. exists p. split; [exact H|]. rewrite !list_eqb_refl. reflexivity.
Qed.

Theorem hd_eq_spec h1 h2 : hd_eqb h1 h2 = true <-> (forall p, In p (hd_lowered h1) <-> In p (hd_lowered h2)).
Proof.
  unfold hd_eqb. rewrite andb_true_iff, !forallb_forall. split.
  - intros [A B] p. split; intro H; [apply pair_mem_In, A|apply pair_mem_In, B]; exact H.
  - intro H. split; intros p Hp; apply pair_mem_In; apply H; exact Hp.
Qed.

Theorem hd_eq_equivalence :
  (forall h, hd_eqb h h = true) /\ (forall h1 h2, hd_eqb h1 h2 = hd_eqb h2 h1) /\
  (forall h1 h2 h3, hd_eqb h1 h2 = true -> hd_eqb h2 h3 = true -> hd_eqb h1 h3 = true).
Proof.
  split; [|split].
  - intro h. apply hd_eq_spec. intro p. reflexivity.
  - intros h1 h2. unfold hd_eqb. apply andb_comm.
  - intros h1 h2 h3 A B. apply hd_eq_spec. intro p. rewrite (proj1 (hd_eq_spec h1 h2) A p). apply (proj1 (hd_eq_spec h2 h3) B).
Qed.

(* equal Headers answer getlist with the same values up to order and multiplicity *)
Theorem hd_eq_reads h1 h2 k v : hd_eqb h1 h2 = true -> (In v (hd_getlist h1 k) <-> In v (hd_getlist h2 k)).
Proof.
  intro E. assert (G : forall h, In v (hd_getlist h k) <-> In (lower k, v) (hd_lowered h)).
  { intro h. unfold hd_getlist, hd_lowered, hd_getlist_match. rewrite !in_map_iff. split.
    - intros [[a x] [Ex Hin]]. apply filter_In in Hin. destruct Hin as [Hin M]. cbn [fst snd] in *. subst x. apply list_eqb_eq in M.
      exists (a, v). cbn [fst snd]. rewrite M. split; [reflexivity|exact Hin].
    - intros [[a x] [Ex Hin]]. cbn [fst snd] in Ex. injection Ex as E1 E2. subst x. exists (a, v). split; [reflexivity|].
      apply filter_In. split; [exact Hin|]. cbn [fst]. apply list_eqb_eq. exact E1. }
  rewrite !G. apply (proj1 (hd_eq_spec h1 h2) E).
Qed.

Theorem hd_copy_clean h : clean h -> hd_copy h = (h, None).
Proof.
  intro C. unfold hd_copy, hd_init, hd_extend, harg_items.
  assert (G : forall acc, hd_extend_items acc (map (fun kv => (fst kv, VStr (snd kv))) h) = (acc ++ h, None)).
  { induction h as [|[k v] h IH]; intro acc; cbn [map hd_extend_items fst snd]; [rewrite app_nil_r; reflexivity|].
    assert (Hv : has_newline v = false) by (apply (C k v); left; reflexivity).
    unfold hd_add, str_header_value. rewrite Hv. cbn [hseq].
    rewrite IH by (intros k' v' H'; apply (C k' v'); right; exact H'). rewrite <- app_assoc. reflexivity. }
  apply (G []).
Qed.

(* ------------------------------------------------------------------ HeaderSet equality (collections.abc.Set.__eq__) *)
Theorem hs_eq_spec s1 s2 : RI s1 -> RI s2 ->
  (hs_eqb s1 s2 = true <-> forall x, In x (hs_set s1) <-> In x (hs_set s2)).
Proof.
  intros (N1 & _ & I1) (N2 & _ & I2). unfold hs_eqb, hs_len, hs_contains. rewrite andb_true_iff, Nat.eqb_eq, forallb_forall. split.
  - intros [Hlen Hall].
    assert (A : incl (hs_set s1) (hs_set s2)).
    { intros x Hx. apply I1 in Hx. apply in_map_iff in Hx. destruct Hx as [y [E Hy]]. subst x. apply smem_In. apply Hall. exact Hy. }
    assert (B : incl (hs_set s2) (hs_set s1)) by (apply NoDup_length_incl; [exact N1|lia|exact A]).
    intro x. split; [apply A|apply B].
  - intro H. split.
    + apply incl_both_length; try assumption; intros x Hx; apply H; exact Hx.
    + intros y Hy. apply smem_In. apply H. apply I1. apply in_map. exact Hy.
Qed.

Theorem hs_eq_equivalence :
  (forall s, RI s -> hs_eqb s s = true) /\
  (forall s1 s2, RI s1 -> RI s2 -> hs_eqb s1 s2 = true -> hs_eqb s2 s1 = true) /\
  (forall s1 s2 s3, RI s1 -> RI s2 -> RI s3 -> hs_eqb s1 s2 = true -> hs_eqb s2 s3 = true -> hs_eqb s1 s3 = true).
Proof.
  split; [|split].
  - intros s R. apply (hs_eq_spec s s R R). intro x. reflexivity.
  - intros s1 s2 R1 R2 E. apply (hs_eq_spec s2 s1 R2 R1). intro x. symmetry. apply (proj1 (hs_eq_spec s1 s2 R1 R2) E).
  - intros s1 s2 s3 R1 R2 R3 A B. apply (hs_eq_spec s1 s3 R1 R3). intro x.
    rewrite (proj1 (hs_eq_spec s1 s2 R1 R2) A x). apply (proj1 (hs_eq_spec s2 s3 R2 R3) B).
Qed.

(* equal HeaderSets contain the same items up to case *)
Theorem hs_eq_contains s1 s2 h : RI s1 -> RI s2 -> hs_eqb s1 s2 = true -> ci_mem h (abs s1) = ci_mem h (abs s2).
Proof.
  intros R1 R2 E. unfold abs. rewrite <- (RI_mem s1 h R1), <- (RI_mem s2 h R2).
  pose proof (proj1 (hs_eq_spec s1 s2 R1 R2) E (lower h)) as K.
  destruct (smem (lower h) (hs_set s1)) eqn:A, (smem (lower h) (hs_set s2)) eqn:B; try reflexivity.
  - apply smem_In in A. apply K in A. apply smem_In in A. congruence.
  - apply smem_In in B. apply K in B. apply smem_In in B. congruence.
Qed.

(* CombinedMultiDict: == holds between any two views, whatever they show (known finding) *)
Theorem cmd_eq_refuted : exists c1 c2 k, cmd_eqb c1 c2 = true /\ cmd_getlist c1 k <> cmd_getlist c2 k.
Proof. exists [[([97], [[49]])]], [[([98], [[50]])]], [97]. split; [reflexivity|vm_compute; discriminate]. Qed.

(* ================================================================== states that hold an empty row *)
Lemma abs_live d : md_abs (live d) = md_abs d.
Proof.
  unfold md_abs, md_items_multi, live. induction d as [|[k l] d IH]; [reflexivity|]. cbn [filter snd flat_map fst].
  destruct l as [|v l]; cbn [nonempty_row]; [exact IH|]. cbn [flat_map fst snd]. rewrite IH. reflexivity.
Qed.

Lemma live_wf d : md_wf d -> md_good (live d).
Proof.
  intro W. split; [apply filter_fst_NoDup; exact W|]. intros k l H. apply filter_In in H. destruct H as [_ H]. cbn [snd] in H.
  destruct l; [discriminate|discriminate].
Qed.

(* the reads that still agree with the abstract multimap in every well-formed state, empty rows or not *)
Theorem emptyrow_reads_agree d : md_wf d ->
  md_items_multi d = md_abs d /\
  (forall k, md_getlist d k = mm_getlist (md_abs d) k) /\
  (forall k, md_getitem d k = match mm_getlist (md_abs d) k with v :: _ => Ok (OStr v) | [] => Err KeyError end) /\
  map fst (live d) = mm_keys (md_abs d).
Proof.
  intro W. split; [reflexivity|]. split; [intro k; apply md_getlist_abs; exact W|]. split.
  - intro k. rewrite <- (md_getlist_abs d k W). unfold md_getitem, md_getlist. destruct (d_get k d) as [[|v t]|]; reflexivity.
  - rewrite <- (abs_live d). symmetry. apply good_keys. apply live_wf. exact W.
Qed.

(* the reads that deviate: keys / len / in count the phantom key; items() / values() / to_dict() raise *)
Theorem emptyrow_items d : md_wf d ->
  (md_items d = Err IndexError <-> exists k, In (k, []) d) /\
  ((forall k, ~ In (k, []) d) -> md_items d = Ok (map (fun kv => (fst kv, hd [] (snd kv))) d)).
Proof.
  intros _. split.
  - induction d as [|[k l] d IH]; cbn [md_items]; [split; [discriminate|intros [k []]]|].
    destruct l as [|v l].
    + split; [intros _; exists k; left; reflexivity|reflexivity].
    + destruct (md_items d) as [t|e] eqn:E.
      * split; [discriminate|]. intros [k0 [H|H]]; [discriminate|]. assert (X : Ok t = Err IndexError) by (apply IH; exists k0; exact H). discriminate.
      * assert (Ee : e = IndexError).
        { clear -E. revert e E. induction d as [|[k l] d IH]; intros e E; cbn [md_items] in E; [discriminate|].
          destruct l; [inversion E; reflexivity|]. destruct (md_items d); [discriminate|]. inversion E; subst. apply IH. reflexivity. }
        subst e. split; [intros _|reflexivity]. destruct (proj1 IH eq_refl) as [k0 H]. exists k0. right. exact H.
  - intro H. apply md_items_nonempty. intros k l Hin E. subst l. apply (H k Hin).
Qed.

Theorem emptyrow_keys_refuted :
  exists d k, md_wf d /\ d_mem k d = true /\ smem k (mm_keys (md_abs d)) = false /\ length d <> length (mm_keys (md_abs d)).
Proof. exists [([107], [])], [107]. split; [repeat constructor; intros []|]. vm_compute. repeat split; discriminate. Qed.

(* an operation on such a state can also differ from the abstract multimap in the ORDER of the pairs: add to a
   phantom key fills the phantom's position *)
Theorem emptyrow_add_position_refuted :
  exists d k v, md_wf d /\ md_abs (fst (md_step d (MAdd k v))) <> fst (mm_step (md_abs d) (MAdd k v)).
Proof. exists [([97], []); ([98], [[49]])], [97], [50]. split; [repeat constructor; cbn; intuition discriminate|vm_compute; discriminate]. Qed.

(* pop / popitem on an empty row: the key is removed and KeyError (or the default) results *)
Theorem emptyrow_pop d k dflt : d_get k d = Some [] ->
  md_step d (MPop k dflt) = (d_del k d, match dflt with Some x => Ok (OStr x) | None => Err KeyError end).
Proof. intro H. cbn [md_step]. rewrite H. reflexivity. Qed.
