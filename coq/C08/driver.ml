(* C08 driver: one case per line, `<kind> <probe keys> <probe indexes> <constructor input> <op> <op> ...` *)
let sub1 t = String.sub t 1 (String.length t - 1)
let split c t = String.split_on_char c t
let s_of t = nlist_of_csv t
let lst sep t = if t = "~" then [] else List.map s_of (split sep t)
let zi t = z_of_int (int_of_string t)
let oz t = if t = "n" then None else Some (zi t)
let hval t = match t.[0] with 's' -> VStr (s_of (sub1 t)) | 'i' -> VInt (zi (sub1 t)) | _ -> failwith "hval"
let hvals sep t = if t = "~" then [] else List.map hval (split sep t)
let kv f t = let i = String.index t '=' in (s_of (String.sub t 0 i), f (String.sub t (i + 1) (String.length t - i - 1)))
let kvs f t = if t = "~" then [] else List.map (kv f) (split '/' t)
let hmval t = match t.[0] with 'v' -> HScalar (hval (sub1 t)) | 'l' -> HMany (hvals '+' (sub1 t)) | _ -> failwith "hmval"
let mval t = match t.[0] with 'v' -> Scalar (s_of (sub1 t)) | 'l' -> Many (lst '+' (sub1 t)) | _ -> failwith "mval"
let klists t = kvs (lst '+') t
let harg t = match t.[0] with
  | 'p' -> HAPairs (kvs hval (sub1 t)) | 'd' -> HADict (kvs hmval (sub1 t))
  | 'm' -> HAMulti (klists (sub1 t)) | 'h' -> HAHeaders (kvs s_of (sub1 t)) | _ -> failwith "harg"
let marg t = match t.[0] with
  | 'p' -> APairs (kvs s_of (sub1 t)) | 'd' -> ADict (kvs mval (sub1 t)) | 'm' -> AMulti (klists (sub1 t)) | _ -> failwith "marg"
let hsop t = match split ':' t with
  | ["add"; h] -> HAdd (s_of h) | ["remove"; h] -> HRemove (s_of h) | ["update"; l] -> HUpdate (lst '/' l)
  | ["discard"; h] -> HDiscard (s_of h) | ["clear"] -> HClear | ["del"; i] -> HDelItem (zi i)
  | ["set"; i; v] -> HSetItem (zi i, s_of v) | _ -> failwith ("hsop " ^ t)
let hop t = match split ':' t with
  | ["add"; k; v] -> HdAdd (s_of k, hval v) | ["set"; k; v] -> HdSet (s_of k, hval v)
  | ["setlist"; k; l] -> HdSetList (s_of k, hvals '/' l) | ["setdefault"; k; v] -> HdSetDefault (s_of k, hval v)
  | ["setlistdefault"; k; l] -> HdSetListDefault (s_of k, hvals '/' l)
  | ["extend"; a] -> HdExtend (harg a) | ["update"; a] -> HdUpdate (harg a) | ["ior"; a] -> HdIor (harg a)
  | ["delkey"; k] -> HdDelKey (s_of k) | ["delidx"; i] -> HdDelIdx (zi i) | ["delslice"; a; b] -> HdDelSlice (oz a, oz b)
  | ["remove"; k] -> HdRemove (s_of k) | ["pop"] -> HdPop | ["popidx"; i] -> HdPopIdx (zi i)
  | ["popkey"; k] -> HdPopKey (s_of k, None) | ["popkeyd"; k; d] -> HdPopKey (s_of k, Some (s_of d))
  | ["popitem"] -> HdPopItem | ["clear"] -> HdClear | ["setkey"; k; v] -> HdSetItemKey (s_of k, hval v)
  | ["setidx"; i; k; v] -> HdSetItemIdx (zi i, s_of k, hval v)
  | ["setslice"; a; b; l] -> HdSetItemSlice (oz a, oz b, kvs hval l) | _ -> failwith ("hop " ^ t)
let mop t = match split ':' t with
  | ["setitem"; k; v] -> MSetItem (s_of k, s_of v) | ["add"; k; v] -> MAdd (s_of k, s_of v)
  | ["setlist"; k; l] -> MSetList (s_of k, lst '/' l) | ["setdefault"; k; v] -> MSetDefault (s_of k, s_of v)
  | ["setlistdefault"; k; l] -> MSetListDefault (s_of k, if l = "n" then None else Some (lst '/' l))
  | ["update"; a] -> MUpdate (marg a) | ["ior"; a] -> MIor (marg a)
  | ["pop"; k] -> MPop (s_of k, None) | ["popd"; k; d] -> MPop (s_of k, Some (s_of d)) | ["popitem"] -> MPopItem
  | ["poplist"; k] -> MPopList (s_of k) | ["popitemlist"] -> MPopItemList | ["clear"] -> MClear
  | ["del"; k] -> MDelItem (s_of k) | _ -> failwith ("mop " ^ t)
let cop t = match t.[0] with
  | 'o' -> COuter (mop (sub1 t))
  | 'i' -> let i = String.index t '.' in CInner (nat_of_int (int_of_string (String.sub t 1 (i - 1))), mop (String.sub t (i + 1) (String.length t - i - 1)))
  | _ -> failwith "cop"
let ps s = csv_of_nlist s
let pl sep l = if l = [] then "~" else String.concat sep (List.map ps l)
let cat sep f l = if l = [] then "~" else String.concat sep (List.map f l)
let pout = function
  | ONone -> "N" | OBool b -> if b then "B1" else "B0" | OInt z -> "I" ^ string_of_int (int_of_z z)
  | OStr s -> "S" ^ ps s | OList l -> "L" ^ pl "/" l | OPair (k, v) -> "P" ^ ps k ^ "=" ^ ps v
  | OPairs l -> "Q" ^ cat "/" (fun (k, v) -> ps k ^ "=" ^ ps v) l
  | OKList (k, l) -> "K" ^ ps k ^ "=" ^ pl "+" l
  | OLists l -> "M" ^ cat "/" (fun (k, l) -> ps k ^ "=" ^ pl "+" l) l
  | OErr e -> "E" ^ (match e with KeyError -> "KeyError" | IndexError -> "IndexError" | TypeError -> "TypeError" | ValueError -> "ValueError")
let pstep l = String.concat "|" (List.map pout l)
let pruns first l = String.concat " " (pstep first :: List.map pstep l)
let zl t = if t = "~" then [] else List.map zi (split ',' t)
let () = iter_lines (fun line ->
  match fields line with
  | "hs" :: keys :: idxs :: init :: ops ->
      let k = lst '/' keys and ix = zl idxs in let s = hs_init (lst '/' init) in
      pruns (hs_obs k ix s) (hs_run k ix s (List.map hsop ops))
  | "hd" :: keys :: idxs :: init :: ops ->
      let k = lst '/' keys and ix = zl idxs in
      (match hd_init (if init = "n" then None else Some (harg init)) with
       | (_, Some e) -> pout (OErr e)
       | (h, None) -> pruns (hd_obs k ix h) (hd_run k ix h (List.map hop ops)))
  | ["hdor"; init; a] ->
      (match hd_init (Some (harg init)) with (h, None) -> pout (match hd_or h (harg a) with Ok o -> o | Err e -> OErr e) | (_, Some e) -> pout (OErr e))
  | "md" :: keys :: init :: ops ->
      let k = lst '/' keys in let d = md_init (if init = "n" then None else Some (marg init)) in
      pruns (md_obs k d) (md_run k d (List.map mop ops))
  | ["mdeq"; a; b] -> pout (OBool (md_eqb (klists a) (klists b)))
  | ["hdeq"; a; b] -> pout (OBool (hd_eqb (kvs s_of a) (kvs s_of b)))
  | ["hseq"; a; b] -> pout (OBool (hs_eqb (hs_init (lst '/' a)) (hs_init (lst '/' b))))
  | ["mdrebuild"; a] -> let d = klists a in
      pstep [OLists (md_deepcopy d); OLists (imd_reduce d)]
  | ["mdor"; init; a] -> let d = md_init (Some (marg init)) in pout (match md_or d (marg a) with Ok o -> o | Err e -> OErr e)
  | "imd" :: keys :: init :: ops ->
      let k = lst '/' keys in let d = md_init (if init = "n" then None else Some (marg init)) in
      pruns (md_obs k d) (imd_run k d (List.map mop ops))
  | "cmd" :: keys :: n :: rest ->
      let k = lst '/' keys in let n = int_of_string n in
      let ds = List.filteri (fun i _ -> i < n) rest and ops = List.filteri (fun i _ -> i >= n) rest in
      let c = List.map (fun t -> md_init (Some (marg t))) ds in
      pruns (cmd_obs k c) (cmd_run k c (List.map cop ops))
  | "eh" :: keys :: env :: ops ->
      let k = lst '/' keys in let e = kvs s_of env in
      pruns (eh_obs k e) (eh_run k e (List.map hop ops))
  | _ -> "bad-command")
