(* C08 proofs, part 3: every MultiDict operation refines the abstract insertion-ordered multimap (a pair list),
   lifted to operation sequences.  Guard: no operation stores an empty row (the known empty-list finding). *)
From Coq Require Import ZArith Lia ZifyBool ZifyN.
From Wz Require Import lib.Bytes lib.BytesFacts C08.LibStr C08.LibStrFacts C08.Gen C08.Model C08.Spec C08.Proofs C08.ProofsMD.
Open Scope N_scope.

(* well-formed state without empty rows *)
Definition md_good (d : mdict) : Prop := md_wf d /\ md_nonempty d.

Lemma rebuild_cong ks g g' : (forall k, In k ks -> g k = g' k) -> mm_rebuild ks g = mm_rebuild ks g'.
Proof.
  unfold mm_rebuild. induction ks as [|k ks IH]; intro H; cbn [flat_map]; [reflexivity|].
  rewrite (H k (or_introl eq_refl)), IH; [reflexivity|]. intros k' Hk. apply H. right. exact Hk.
Qed.

Lemma md_getlist_cons_other k0 l0 d k : list_eqb k k0 = false -> md_getlist ((k0, l0) :: d) k = md_getlist d k.
Proof. intro H. unfold md_getlist. cbn [d_get]. rewrite H. reflexivity. Qed.

Lemma abs_rebuild d : md_wf d -> md_abs d = mm_rebuild (map fst d) (md_getlist d).
Proof.
  unfold md_wf. induction d as [|[k l] d IH]; intro H; [reflexivity|]. inversion H as [|? ? N1 N2]; subst.
  rewrite md_abs_cons. unfold mm_rebuild. cbn [map fst flat_map]. f_equal.
  - unfold md_getlist. cbn [d_get]. rewrite list_eqb_refl. reflexivity.
  - rewrite (IH N2). apply rebuild_cong. intros k' Hk. symmetry. apply md_getlist_cons_other.
    apply list_eqb_neq. intro E. subst. contradiction.
Qed.

Lemma good_keys d : md_good d -> mm_keys (md_abs d) = map fst d.
Proof. intros [W N]. unfold mm_keys. apply first_keys_rows; [exact W|intros ? ? []|exact N]. Qed.

Lemma good_getlist d k : md_good d -> mm_getlist (md_abs d) k = md_getlist d k.
Proof. intros [W _]. symmetry. apply md_getlist_abs. exact W. Qed.

(* the concrete state is determined by its keys and rows *)
Lemma abs_from_reads d ks g :
  md_wf d -> map fst d = ks -> (forall k, In k ks -> md_getlist d k = g k) -> md_abs d = mm_rebuild ks g.
Proof. intros W Ek Eg. rewrite (abs_rebuild d W), Ek. apply rebuild_cong. exact Eg. Qed.

Lemma smem_keys k d : smem k (map fst d) = d_mem k d.
Proof.
  destruct (d_mem k d) eqn:E.
  - apply smem_In. apply d_mem_In. exact E.
  - apply smem_false. intro A. apply d_mem_In in A. congruence.
Qed.

(* ------------------------------------------------------------------ keys of the dict primitives *)
Lemma d_del_keys k d : map fst (d_del k d) = ks_remove k (map fst d).
Proof.
  unfold d_del, ks_remove. induction d as [|[k0 l0] d IH]; cbn [filter map fst]; [reflexivity|].
  destruct (list_eqb k k0); cbn [negb map fst]; [exact IH|f_equal; exact IH].
Qed.

Lemma d_append_keys k v d : map fst (d_append k v d) = ks_add k (map fst d).
Proof.
  unfold d_append, ks_add. rewrite smem_keys. unfold d_mem. destruct (d_get k d) eqn:E.
  - rewrite d_set_keys. unfold d_mem. rewrite E. reflexivity.
  - rewrite map_app. reflexivity.
Qed.

Lemma d_set_keys' k v d : map fst (d_set k v d) = ks_add k (map fst d).
Proof. rewrite d_set_keys. unfold ks_add. rewrite smem_keys. reflexivity. Qed.

Lemma map_removelast {A B} (f : A -> B) l : map f (removelast l) = removelast (map f l).
Proof. induction l as [|a l IH]; [reflexivity|]. cbn [removelast map]. destruct l; [reflexivity|]. cbn [map] in *. f_equal. exact IH. Qed.

(* ------------------------------------------------------------------ non-emptiness *)
Lemma nonempty_set k v d : v <> [] -> md_nonempty d -> md_nonempty (d_set k v d).
Proof.
  intros Hv N. unfold md_nonempty in *. induction d as [|[k0 l0] d IH]; cbn [d_set].
  - intros k' l [E|[]]. inversion E; subst. exact Hv.
  - destruct (list_eqb k k0).
    + intros k' l [E|A]; [inversion E; subst; exact Hv|apply (N k' l); right; exact A].
    + intros k' l [E|A]; [apply (N k' l); left; exact E|].
      apply (IH (fun a b H => N a b (or_intror H)) k' l A).
Qed.

Lemma nonempty_filter (p : str * list str -> bool) d : md_nonempty d -> md_nonempty (filter p d).
Proof. intros N k l H. apply filter_In in H. apply (N k l). apply H. Qed.

Lemma In_removelast {A} (x : A) l : In x (removelast l) -> In x l.
Proof.
  induction l as [|a l IH]; cbn [removelast]; [intros []|]. destruct l; [intros []|].
  intros [E|H]; [left; exact E|right; apply IH; exact H].
Qed.

Lemma nonempty_removelast d : md_nonempty d -> md_nonempty (removelast d).
Proof. intros N k l H. apply (N k l). apply In_removelast. exact H. Qed.

Lemma nonempty_append k v d : md_nonempty d -> md_nonempty (d_append k v d).
Proof.
  intro N. unfold d_append. destruct (d_get k d) as [l|] eqn:E.
  - apply nonempty_set; [destruct l; discriminate|exact N].
  - intros k' l H. apply in_app_or in H. destruct H as [H|[H|[]]]; [apply (N k' l H)|inversion H; discriminate].
Qed.

Lemma good_append k v d : md_good d -> md_good (d_append k v d).
Proof. intros [W N]. split; [apply d_append_wf; exact W|apply nonempty_append; exact N]. Qed.

Lemma good_set k v d : v <> [] -> md_good d -> md_good (d_set k v d).
Proof. intros Hv [W N]. split; [apply d_set_wf; exact W|apply nonempty_set; assumption]. Qed.

Lemma good_del k d : md_good d -> md_good (d_del k d).
Proof. intros [W N]. split; [apply d_del_wf; exact W|apply nonempty_filter; exact N]. Qed.

Lemma good_removelast d : md_good d -> md_good (removelast d).
Proof. intros [W N]. split; [apply removelast_wf; exact W|apply nonempty_removelast; exact N]. Qed.

Lemma good_nil : md_good [].
Proof. split; [constructor|intros ? ? []]. Qed.

(* ------------------------------------------------------------------ the three shapes of update *)
Lemma refine_setrow d k row :
  md_good d -> md_abs (d_set k row d) = mm_setrow (md_abs d) k row.
Proof.
  intro G. unfold mm_setrow. rewrite (good_keys d G).
  apply abs_from_reads; [apply d_set_wf; apply G|apply d_set_keys'|].
  intros k' _. rewrite md_setlist_law, (good_getlist d k' G). reflexivity.
Qed.

Lemma refine_add d k v : md_good d -> md_abs (d_append k v d) = mm_add (md_abs d) (k, v).
Proof.
  intro G. unfold mm_add, mm_setrow. cbn [fst snd]. rewrite (good_keys d G), (good_getlist d k G).
  apply abs_from_reads; [apply d_append_wf; apply G|apply d_append_keys|].
  intros k' _. rewrite md_add_law, (good_getlist d k' G). destruct (list_eqb k k') eqn:E; [|apply app_nil_r].
  apply list_eqb_eq in E. subst. reflexivity.
Qed.

Lemma refine_delrow d k : md_good d -> md_abs (d_del k d) = mm_delrow (md_abs d) k.
Proof.
  intro G. unfold mm_delrow. rewrite (good_keys d G).
  apply abs_from_reads; [apply d_del_wf; apply G|apply d_del_keys|].
  intros k' Hk. rewrite md_del_law, (good_getlist d k' G). unfold ks_remove in Hk. apply filter_In in Hk. destruct Hk as [_ Hk].
  apply negb_true_iff in Hk. rewrite Hk. reflexivity.
Qed.

Lemma refine_add_all l : forall d, md_good d ->
  md_abs (md_add_all d l) = fold_left mm_add l (md_abs d) /\ md_good (md_add_all d l).
Proof.
  unfold md_add_all. induction l as [|[k v] l IH]; intros d G; cbn [fold_left fst snd]; [split; [reflexivity|exact G]|].
  rewrite <- (refine_add d k v G). apply IH. apply good_append. exact G.
Qed.

Lemma forallb_filter_id {A} (p : A -> bool) l : forallb p l = true -> filter p l = l.
Proof.
  induction l as [|a l IH]; cbn [forallb filter]; intro H; [reflexivity|].
  apply andb_prop in H. destruct H as [Ha Hl]. rewrite Ha, (IH Hl). reflexivity.
Qed.

(* the last row *)
Lemma rev_last_row (d : mdict) k l r : rev d = (k, l) :: r ->
  In (k, l) d /\ rev (map fst d) = k :: map fst r /\ removelast d = rev r.
Proof.
  intro H. assert (E : d = rev r ++ [(k, l)]) by (rewrite <- (rev_involutive d), H; reflexivity).
  split; [rewrite E; apply in_or_app; right; left; reflexivity|]. split.
  - rewrite <- map_rev, H. reflexivity.
  - rewrite E. apply removelast_last.
Qed.

Lemma refine_removelast d k l r :
  md_good d -> rev d = (k, l) :: r -> md_abs (removelast d) = mm_delrow (md_abs d) k /\ md_getlist d k = l.
Proof.
  intros G H. destruct (rev_last_row d k l r H) as (Hin & Hk & Hr). destruct G as [W N].
  assert (E : d = rev r ++ [(k, l)]) by (rewrite <- (rev_involutive d), H; reflexivity).
  assert (Gl : md_getlist d k = l) by (unfold md_getlist; rewrite (In_d_get k l d W Hin); reflexivity).
  split; [|exact Gl]. unfold mm_delrow. rewrite (good_keys d (conj W N)).
  assert (Kn : ~ In k (map fst (rev r))).
  { unfold md_wf in W. rewrite E, map_app in W. cbn [map fst] in W. apply NoDup_remove_2 in W. rewrite app_nil_r in W. exact W. }
  assert (Kr : ks_remove k (map fst d) = map fst (removelast d)).
  { rewrite Hr, E, map_app. cbn [map fst]. unfold ks_remove. rewrite filter_app. cbn [filter]. rewrite list_eqb_refl. cbn [negb].
    rewrite app_nil_r. apply forallb_filter_id. apply forallb_forall. intros x Hx. apply negb_true_iff. apply list_eqb_neq.
    intro A. subst. contradiction. }
  apply abs_from_reads; [apply removelast_wf; exact W|symmetry; exact Kr|].
  intros k' Hk'. rewrite (good_getlist d k' (conj W N)). rewrite Kr in Hk'.
  apply in_map_iff in Hk'. destruct Hk' as [[k2 l2] [E2 H2]]. cbn [fst] in E2. subst k2.
  unfold md_getlist. rewrite (In_d_get k' l2 (removelast d) (removelast_wf d W) H2).
  rewrite (In_d_get k' l2 d W (In_removelast _ _ H2)). reflexivity.
Qed.

Lemma good_row_hd d k l : md_good d -> d_get k d = Some l -> exists v t, l = v :: t.
Proof.
  intros [_ N] E. apply d_get_In in E. destruct l as [|v t]; [exfalso; apply (N k [] E); reflexivity|]. exists v, t. reflexivity.
Qed.

Lemma smem_abs_keys d k : md_good d -> smem k (mm_keys (md_abs d)) = d_mem k d.
Proof. intro G. rewrite (good_keys d G). apply smem_keys. Qed.

(* ------------------------------------------------------------------ every operation *)
Theorem md_step_refines d o :
  md_good d -> mop_ok o = true ->
  md_abs (fst (md_step d o)) = fst (mm_step (md_abs d) o) /\
  snd (md_step d o) = snd (mm_step (md_abs d) o) /\
  md_good (fst (md_step d o)).
Proof.
  intros G Hok. pose proof (smem_abs_keys d) as SK.
  destruct o as [k v|k v|k vs|k v|k dl|a|a|k dflt| |k| | |k]; cbn [md_step mm_step mop_ok] in *.
  - cbn [fst snd]. split; [apply refine_setrow; exact G|]. split; [reflexivity|apply good_set; [discriminate|exact G]].
  - cbn [fst snd]. split; [apply refine_add; exact G|]. split; [reflexivity|apply good_append; exact G].
  - cbn [fst snd]. split; [apply refine_setrow; exact G|]. split; [reflexivity|].
    apply good_set; [destruct vs; [discriminate|discriminate]|exact G].
  - rewrite (SK k G). unfold d_mem. destruct (d_get k d) as [l|] eqn:E; cbn [fst snd].
    + destruct (good_row_hd d k l G E) as (x & t & El). subst l.
      split; [reflexivity|]. split; [|exact G]. unfold md_getitem. rewrite E, (good_getlist d k G). unfold md_getlist. rewrite E. reflexivity.
    + split; [apply refine_setrow; exact G|]. split; [|apply good_set; [discriminate|exact G]].
      unfold md_getitem. rewrite d_get_set, list_eqb_refl. reflexivity.
  - rewrite (SK k G). unfold d_mem. destruct (d_get k d) as [l|] eqn:E; cbn [fst snd].
    + split; [reflexivity|]. split; [|exact G]. rewrite E, (good_getlist d k G). unfold md_getlist. rewrite E. reflexivity.
    + destruct dl as [[|x t]|]; try discriminate.
      split; [apply refine_setrow; exact G|]. split; [|apply good_set; [discriminate|exact G]].
      rewrite d_get_set, list_eqb_refl. reflexivity.
  - cbn [fst snd]. destruct (refine_add_all (marg_items a) d G) as [A B]. split; [exact A|split; [reflexivity|exact B]].
  - cbn [fst snd]. destruct (refine_add_all (marg_items a) d G) as [A B]. split; [exact A|split; [reflexivity|exact B]].
  - rewrite (SK k G). unfold d_mem. destruct (d_get k d) as [l|] eqn:E.
    + destruct (good_row_hd d k l G E) as (x & t & El). subst l. cbn [fst snd].
      split; [apply refine_delrow; exact G|]. split; [|apply good_del; exact G].
      rewrite (good_getlist d k G). unfold md_getlist. rewrite E. reflexivity.
    + cbn [fst snd]. split; [reflexivity|split; [reflexivity|exact G]].
  - rewrite (good_keys d G). destruct (rev d) as [|[k l] r] eqn:E.
    + assert (d = []) by (rewrite <- (rev_involutive d), E; reflexivity). subst d. cbn [fst snd map rev]. split; [reflexivity|split; [reflexivity|exact G]].
    + destruct (rev_last_row d k l r E) as (Hin & Hk & _). rewrite Hk.
      destruct (refine_removelast d k l r G E) as [A Gl].
      destruct l as [|x t]; [exfalso; apply (proj2 G k [] Hin); reflexivity|]. cbn [fst snd].
      split; [exact A|]. split; [|apply good_removelast; exact G]. rewrite (good_getlist d k G), Gl. reflexivity.
  - rewrite (SK k G). unfold d_mem. destruct (d_get k d) as [l|] eqn:E; cbn [fst snd].
    + split; [apply refine_delrow; exact G|]. split; [|apply good_del; exact G].
      rewrite (good_getlist d k G). unfold md_getlist. rewrite E. reflexivity.
    + split; [reflexivity|split; [reflexivity|exact G]].
  - rewrite (good_keys d G). destruct (rev d) as [|[k l] r] eqn:E.
    + assert (d = []) by (rewrite <- (rev_involutive d), E; reflexivity). subst d. cbn [fst snd map rev]. split; [reflexivity|split; [reflexivity|exact G]].
    + destruct (rev_last_row d k l r E) as (Hin & Hk & _). rewrite Hk.
      destruct (refine_removelast d k l r G E) as [A Gl]. cbn [fst snd].
      split; [exact A|]. split; [|apply good_removelast; exact G]. rewrite (good_getlist d k G), Gl. reflexivity.
  - cbn [fst snd]. split; [reflexivity|split; [reflexivity|apply good_nil]].
  - rewrite (SK k G). destruct (d_mem k d); cbn [fst snd].
    + split; [apply refine_delrow; exact G|split; [reflexivity|apply good_del; exact G]].
    + split; [reflexivity|split; [reflexivity|exact G]].
Qed.

(* lifted to every operation sequence *)
Theorem md_exec_refines ops : forall d,
  md_good d -> forallb mop_ok ops = true ->
  md_abs (md_exec d ops) = mm_exec (md_abs d) ops /\ md_good (md_exec d ops).
Proof.
  unfold md_exec, mm_exec. induction ops as [|o ops IH]; intros d G Hok; cbn [fold_left]; [split; [reflexivity|exact G]|].
  cbn [forallb] in Hok. apply andb_prop in Hok. destruct Hok as [Ho Hr].
  destruct (md_step_refines d o G Ho) as (A & _ & G'). rewrite <- A. apply IH; assumption.
Qed.

(* the reads of a good state are those of the abstract multimap; copy and to_dict are the state as a value *)
Theorem md_reads_refine d : md_good d ->
  md_keys d = mm_keys (md_abs d) /\
  (forall k, md_getlist d k = mm_getlist (md_abs d) k) /\
  (forall k, d_mem k d = smem k (mm_keys (md_abs d))) /\
  (forall k, md_getitem d k = match mm_getlist (md_abs d) k with v :: _ => Ok (OStr v) | [] => Err KeyError end) /\
  md_items d = Ok (map (fun k => (k, hd [] (mm_getlist (md_abs d) k))) (mm_keys (md_abs d))) /\
  md_items_multi d = md_abs d /\
  md_init (Some (AMulti d)) = d.
Proof.
  intro G. pose proof (good_keys d G) as K. split; [symmetry; exact K|]. split; [intro k; symmetry; apply good_getlist; exact G|].
  split; [intro k; symmetry; apply smem_abs_keys; exact G|]. split; [|split; [|split; reflexivity]].
  - intro k. rewrite (good_getlist d k G). unfold md_getitem, md_getlist. destruct (d_get k d) as [[|v t]|]; reflexivity.
  - rewrite (md_items_nonempty d (proj2 G)), K, map_map. f_equal. apply map_ext_in. intros [k l] Hin. cbn [fst snd].
    rewrite (good_getlist d k G). unfold md_getlist. rewrite (In_d_get k l d (proj1 G) Hin). reflexivity.
Qed.

(* constructor inputs give good states, unless another MultiDict already holds an empty row *)
Lemma good_init a : (match a with Some (AMulti d) => md_good d | _ => True end) -> md_good (md_init a).
Proof.
  destruct a as [[l|l|d]|]; cbn [md_init]; intro H; [| |exact H|apply good_nil].
  - apply (refine_add_all l [] good_nil).
  - assert (X : forall acc, md_good acc -> md_good (fold_left (fun d kv => match snd kv with
                             | Scalar v => d_set (fst kv) [v] d | Many [] => d | Many vs => d_set (fst kv) vs d end) l acc)).
    { induction l as [|[k [v|[|x t]]] l IH]; intros acc Ga; cbn [fold_left fst snd]; [exact Ga| | |];
        apply IH; try exact Ga; apply good_set; try discriminate; exact Ga. }
    apply X. apply good_nil.
Qed.

(* ================================================================== Headers: index and slice operations *)
(* Python index normalisation *)
Theorem norm_index_spec len i :
  ((0 <= i < Z.of_nat len)%Z -> norm_index len i = Some (Z.to_nat i)) /\
  ((- Z.of_nat len <= i < 0)%Z -> norm_index len i = Some (Z.to_nat (i + Z.of_nat len))) /\
  ((i < - Z.of_nat len \/ Z.of_nat len <= i)%Z -> norm_index len i = None).
Proof.
  unfold norm_index. repeat split; intro H; destruct (i <? 0)%Z eqn:E;
    match goal with |- (if ?c then _ else _) = _ => destruct c eqn:C end; try reflexivity; lia.
Qed.

(* slice bound clamping (step None) *)
Theorem clamp_spec len i dflt :
  clamp len None dflt = dflt /\
  ((0 <= i)%Z -> clamp len (Some i) dflt = Nat.min (Z.to_nat i) len) /\
  ((i < 0)%Z -> clamp len (Some i) dflt = Z.to_nat (Z.max 0 (i + Z.of_nat len))).
Proof.
  unfold clamp. split; [reflexivity|]. split; intro H; destruct (i <? 0)%Z eqn:E; try lia.
Qed.

Lemma remove_nth_split {A} n (l : list A) : remove_nth n l = firstn n l ++ skipn (S n) l.
Proof.
  revert n. induction l as [|a l IH]; intros [|n]; cbn [remove_nth firstn skipn app]; try reflexivity.
  rewrite IH. reflexivity.
Qed.

Lemma set_nth_split {A} n (v : A) (l : list A) : (n < length l)%nat -> set_nth n v l = firstn n l ++ v :: skipn (S n) l.
Proof.
  revert n. induction l as [|a l IH]; intros [|n] H; cbn [length] in H; cbn [set_nth firstn skipn app]; try lia; try reflexivity.
  rewrite IH by lia. reflexivity.
Qed.

Lemma nth_split_pair (h : headers) n : (n < length h)%nat -> h = firstn n h ++ nth n h ([], []) :: skipn (S n) h.
Proof.
  revert n. induction h as [|a h IH]; intros [|n] H; cbn [length] in H; cbn [firstn nth skipn app]; try lia; try reflexivity.
  f_equal. apply IH. lia.
Qed.

(* del h[i], h.pop(i), h[i] = (k, v): the pair list with the i-th pair removed / replaced; IndexError outside *)
Theorem hd_index_ops h i :
  match norm_index (length h) i with
  | Some n =>
      (n < length h)%nat /\
      hd_step h (HdDelIdx i) = (firstn n h ++ skipn (S n) h, Ok ONone) /\
      hd_step h (HdPopIdx i) = (firstn n h ++ skipn (S n) h, Ok (OPair (fst (nth n h ([], []))) (snd (nth n h ([], []))))) /\
      (forall k s, has_newline s = false ->
         hd_step h (HdSetItemIdx i k (VStr s)) = (firstn n h ++ (k, s) :: skipn (S n) h, Ok ONone))
  | None =>
      hd_step h (HdDelIdx i) = (h, Err IndexError) /\ hd_step h (HdPopIdx i) = (h, Err IndexError) /\
      (forall k s, has_newline s = false -> hd_step h (HdSetItemIdx i k (VStr s)) = (h, Err IndexError))
  end.
Proof.
  destruct (norm_index (length h) i) as [n|] eqn:E; cbn [hd_step]; rewrite ?E.
  - pose proof (norm_index_lt _ _ _ E) as Hn. split; [exact Hn|]. rewrite remove_nth_split. split; [reflexivity|]. split; [reflexivity|].
    intros k s Hs. unfold str_header_value. rewrite Hs, ?E, (set_nth_split n (k, s) h Hn). reflexivity.
  - split; [reflexivity|]. split; [reflexivity|]. intros k s Hs. unfold str_header_value. rewrite Hs, ?E. reflexivity.
Qed.

Lemma skipn_skipn' {A} a b (l : list A) : skipn a (skipn b l) = skipn (b + a) l.
Proof.
  revert l. induction b as [|b IH]; intro l; [reflexivity|]. destruct l as [|x l]; [destruct a; reflexivity|].
  cbn [skipn Nat.add]. apply IH.
Qed.

(* slices (step None): h[a:b] reads, del h[a:b] removes and h[a:b] = pairs replaces the pairs from s to e, where
   s and e are the clamped bounds and an inverted slice is empty at s *)
Theorem hd_slice_ops (h : headers) a b :
  let s := clamp (length h) a O in
  let e := Nat.max s (clamp (length h) b (length h)) in
  (s <= e <= length h)%nat /\
  slice_get h a b = firstn (e - s) (skipn s h) /\
  hd_step h (HdDelSlice a b) = (firstn s h ++ skipn e h, Ok ONone) /\
  (forall l new, hd_str_pairs l = Ok new -> hd_step h (HdSetItemSlice a b l) = (firstn s h ++ new ++ skipn e h, Ok ONone)) /\
  h = firstn s h ++ slice_get h a b ++ skipn e h.
Proof.
  cbv zeta. set (s := clamp (length h) a O). set (c := clamp (length h) b (length h)).
  assert (Hs : (s <= length h)%nat).
  { unfold s, clamp. destruct a as [i|]; [|lia]. destruct (i <? 0)%Z; lia. }
  assert (Hc : (c <= length h)%nat).
  { unfold c, clamp. destruct b as [i|]; [|lia]. destruct (i <? 0)%Z; lia. }
  split; [lia|]. split.
  - unfold slice_get. fold s. fold c. f_equal. lia.
  - split; [reflexivity|]. split; [intros l new E; cbn [hd_step]; rewrite E; reflexivity|].
    unfold slice_get. fold s. fold c. replace (c - s)%nat with (Nat.max s c - s)%nat by lia.
    rewrite <- (firstn_skipn s h) at 1. f_equal.
    rewrite <- (firstn_skipn (Nat.max s c - s) (skipn s h)) at 1. f_equal.
    rewrite skipn_skipn'. f_equal. lia.
Qed.
