(* Facts about the string primitives of C08/LibStr.v and about sets of strings kept as lists. *)
From Coq Require Import ZArith Lia ZifyBool ZifyN.
From Wz Require Import lib.Bytes C08.LibStr.
Open Scope N_scope.

Lemma list_eqb_refl a : list_eqb a a = true.
Proof. induction a as [|x a IH]; cbn [list_eqb]; [reflexivity|]. rewrite N.eqb_refl, IH. reflexivity. Qed.

Lemma list_eqb_eq a b : list_eqb a b = true <-> a = b.
Proof.
  split.
  - revert b. induction a as [|x a IH]; intros [|y b]; cbn [list_eqb]; intro H; try discriminate; [reflexivity|].
    apply andb_prop in H. destruct H as [Hx Hr]. apply N.eqb_eq in Hx. subst y. f_equal. apply IH. exact Hr.
  - intros ->. apply list_eqb_refl.
Qed.

Lemma list_eqb_neq a b : list_eqb a b = false <-> a <> b.
Proof.
  split.
  - intros H E. apply list_eqb_eq in E. congruence.
  - intro H. destruct (list_eqb a b) eqn:E; [|reflexivity]. apply list_eqb_eq in E. contradiction.
Qed.

Lemma list_eqb_sym a b : list_eqb a b = list_eqb b a.
Proof.
  destruct (list_eqb a b) eqn:E.
  - apply list_eqb_eq in E. subst. symmetry. apply list_eqb_refl.
  - symmetry. apply list_eqb_neq. apply list_eqb_neq in E. congruence.
Qed.

Lemma smem_In x l : smem x l = true <-> In x l.
Proof.
  unfold smem. rewrite existsb_exists. split.
  - intros [y [Hy E]]. apply list_eqb_eq in E. subst. exact Hy.
  - intro H. exists x. split; [exact H|apply list_eqb_refl].
Qed.

Lemma smem_false x l : smem x l = false <-> ~ In x l.
Proof.
  split.
  - intros H Hin. apply smem_In in Hin. congruence.
  - intro H. destruct (smem x l) eqn:E; [|reflexivity]. apply smem_In in E. contradiction.
Qed.

Lemma str_eq_dec (a b : str) : {a = b} + {a <> b}.
Proof. destruct (list_eqb a b) eqn:E; [left; apply list_eqb_eq; exact E|right; apply list_eqb_neq; exact E]. Qed.

(* ------------------------------------------------------------------ str(int) / int(str) on decimal text *)
Lemma dec_digit_step n acc a : n < 10 -> dec_digits ((48 + n) :: acc) a = dec_digits acc (a * 10 + n).
Proof.
  intro H. cbn [dec_digits]. unfold is_digit.
  replace ((48 <=? 48 + n) && (48 + n <=? 57)) with true by (symmetry; lia).
  replace (48 + n - 48) with n by lia. reflexivity.
Qed.

Lemma dec_go_digits f : forall n acc, n < 2 ^ N.of_nat f -> dec_digits (dec_go f n acc) 0 = dec_digits acc n.
Proof.
  induction f as [|f IH]; intros n acc Hn.
  - cbn [N.of_nat] in Hn. rewrite N.pow_0_r in Hn. assert (n = 0) by lia. subst. reflexivity.
  - cbn [dec_go]. assert (Hm : n mod 10 < 10) by (apply N.mod_lt; lia).
    destruct (n / 10 =? 0) eqn:E.
    + apply N.eqb_eq in E. rewrite dec_digit_step by exact Hm. f_equal.
      rewrite (N.div_mod n 10) at 2 by lia. rewrite E. lia.
    + rewrite IH.
      * rewrite dec_digit_step by exact Hm. f_equal. rewrite (N.div_mod n 10) at 3 by lia. lia.
      * rewrite Nat2N.inj_succ, N.pow_succ_r' in Hn.
        apply N.div_lt_upper_bound; [lia|]. lia.
Qed.

Lemma pos_lt_pow p : N.pos p < 2 ^ N.of_nat (Pos.size_nat p).
Proof.
  induction p as [p IH|p IH|]; cbn [Pos.size_nat].
  - rewrite Nat2N.inj_succ, N.pow_succ_r'. change (N.pos p~1) with (2 * N.pos p + 1). lia.
  - rewrite Nat2N.inj_succ, N.pow_succ_r'. change (N.pos p~0) with (2 * N.pos p). lia.
  - reflexivity.
Qed.

Lemma dec_of_N_digits n : dec_digits (dec_of_N n) 0 = Some n.
Proof.
  unfold dec_of_N. rewrite dec_go_digits; [reflexivity|].
  rewrite Nat2N.inj_succ, N.pow_succ_r'. unfold N.size_nat. destruct n as [|p]; [reflexivity|].
  pose proof (pos_lt_pow p). lia.
Qed.

Lemma dec_of_N_head n : match dec_of_N n with c :: _ => is_digit c = true | [] => False end.
Proof.
  unfold dec_of_N. generalize (@nil N) as acc. generalize (N.size_nat n) as f. intros f. revert n.
  induction f as [|f IH]; intros n acc; cbn [dec_go].
  - assert (Hm : n mod 10 < 10) by (apply N.mod_lt; lia). destruct (n / 10 =? 0); unfold is_digit; lia.
  - assert (Hm : n mod 10 < 10) by (apply N.mod_lt; lia). destruct (n / 10 =? 0); [unfold is_digit; lia|apply IH].
Qed.

Theorem parse_dec_of_Z z : parse_dec (dec_of_Z z) = Some z.
Proof.
  unfold dec_of_Z, parse_dec. destruct z as [|p|p].
  - reflexivity.
  - pose proof (dec_of_N_head (Z.to_N (Z.pos p))) as Hh. pose proof (dec_of_N_digits (Z.to_N (Z.pos p))) as Hd.
    destruct (dec_of_N (Z.to_N (Z.pos p))) as [|c r]; [contradiction|].
    assert (c =? 45 = false) by (unfold is_digit in Hh; lia). rewrite H, Hd. reflexivity.
  - rewrite N.eqb_refl. pose proof (dec_of_N_head (N.pos p)) as Hh. pose proof (dec_of_N_digits (N.pos p)) as Hd.
    destruct (dec_of_N (N.pos p)) as [|c r]; [contradiction|]. rewrite Hd. reflexivity.
Qed.

