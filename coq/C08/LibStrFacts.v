(* Facts about the string primitives of C08/LibStr.v and about sets of strings kept as lists. *)
From Coq Require Import ZArith Lia ZifyBool ZifyN.
From Wz Require Import lib.Bytes C08.LibStr.
Open Scope N_scope.

Lemma list_eqb_refl a : list_eqb a a = true.
Proof. induction a as [|x a IH]; cbn [list_eqb]; [reflexivity|]. rewrite N.eqb_refl, IH. reflexivity. Qed.

Lemma list_eqb_eq a b : list_eqb a b = true <-> a = b.
Proof.
  split.
  - revert b. induction a as [|x a IH]; intros [|y b]; cbn [list_eqb]; intro H; try discriminate; [reflexivity|].
    apply andb_prop in H. destruct H as [Hx Hr]. apply N.eqb_eq in Hx. subst y. f_equal. apply IH. exact Hr.
  - intros ->. apply list_eqb_refl.
Qed.

Lemma list_eqb_neq a b : list_eqb a b = false <-> a <> b.
Proof.
  split.
  - intros H E. apply list_eqb_eq in E. congruence.
  - intro H. destruct (list_eqb a b) eqn:E; [|reflexivity]. apply list_eqb_eq in E. contradiction.
Qed.

Lemma list_eqb_sym a b : list_eqb a b = list_eqb b a.
Proof.
  destruct (list_eqb a b) eqn:E.
  - apply list_eqb_eq in E. subst. symmetry. apply list_eqb_refl.
  - symmetry. apply list_eqb_neq. apply list_eqb_neq in E. congruence.
Qed.

Lemma smem_In x l : smem x l = true <-> In x l.
Proof.
  unfold smem. rewrite existsb_exists. split.
  - intros [y [Hy E]]. apply list_eqb_eq in E. subst. exact Hy.
  - intro H. exists x. split; [exact H|apply list_eqb_refl].
Qed.

Lemma smem_false x l : smem x l = false <-> ~ In x l.
Proof.
  split.
  - intros H Hin. apply smem_In in Hin. congruence.
  - intro H. destruct (smem x l) eqn:E; [|reflexivity]. apply smem_In in E. contradiction.
Qed.

Lemma str_eq_dec (a b : str) : {a = b} + {a <> b}.
Proof. destruct (list_eqb a b) eqn:E; [left; apply list_eqb_eq; exact E|right; apply list_eqb_neq; exact E]. Qed.
