(* String primitives shared by the C08 / C16 / C05 models (ASCII case mapping).  Definitions only. *)
From Coq Require Export ZArith.
From Wz Require Export lib.Bytes.
Open Scope N_scope.

Definition upper (s : str) : str := map ascii_upper s.

(* str.replace(a, b) for single characters *)
Definition replace1 (a b : N) (s : str) : str := map (fun c => if c =? a then b else c) s.

(* str.title() on ASCII: a letter following a non-letter is upper-cased, any other letter lower-cased *)
Fixpoint title_go (prev_cased : bool) (s : str) : str :=
  match s with
  | [] => []
  | c :: r => (if is_alpha c then (if prev_cased then ascii_lower c else ascii_upper c) else c)
              :: title_go (is_alpha c) r
  end.
Definition title (s : str) : str := title_go false s.

(* membership of a string in a list of strings (Python: x in <set or list of str>) *)
Definition smem (x : str) (l : list str) : bool := existsb (list_eqb x) l.

(* case-insensitive equality of two strings *)
Definition ci_eqb (a b : str) : bool := list_eqb (lower a) (lower b).

(* lexicographic order on strings, used to keep the model of a Python set canonical *)
Fixpoint str_ltb (a b : str) : bool :=
  match a, b with
  | [], [] => false
  | [], _ :: _ => true
  | _ :: _, [] => false
  | x :: a', y :: b' => if x <? y then true else if y <? x then false else str_ltb a' b'
  end.

(* Python exceptions that the modelled operations can raise, and results *)
Inductive err := KeyError | IndexError | TypeError | ValueError.
Inductive res (A : Type) := Ok (a : A) | Err (e : err).
Arguments Ok {A} a.
Arguments Err {A} e.

Fixpoint join (sep : str) (l : list str) : str :=
  match l with
  | [] => []
  | [x] => x
  | x :: r => x ++ sep ++ join sep r
  end.

(* str(int): decimal digits; the fuel (number of bits + 1) always suffices *)
Fixpoint dec_go (fuel : nat) (n : N) (acc : str) : str :=
  match fuel with
  | O => acc
  | S f => let acc' := (48 + n mod 10) :: acc in
           if n / 10 =? 0 then acc' else dec_go f (n / 10) acc'
  end.
Definition dec_of_N (n : N) : str := dec_go (S (N.size_nat n)) n [].
Definition dec_of_Z (z : Z) : str :=
  match z with
  | Zneg p => 45 :: dec_of_N (Npos p)
  | _ => dec_of_N (Z.to_N z)
  end.

(* int(str) on ASCII decimal strings with an optional minus sign; anything else: ValueError.
   (Python's int() also accepts surrounding white space, a plus sign, underscores and non-ASCII digits: those
   inputs are outside the modelled domain.) *)
Fixpoint dec_digits (s : str) (acc : N) : option N :=
  match s with
  | [] => Some acc
  | c :: r => if is_digit c then dec_digits r (acc * 10 + (c - 48)) else None
  end.
Definition parse_dec (s : str) : option Z :=
  match s with
  | [] => None
  | c :: r =>
      if c =? 45 then match r with [] => None | _ => option_map (fun n => Z.opp (Z.of_N n)) (dec_digits r 0) end
      else option_map Z.of_N (dec_digits s 0)
  end.

