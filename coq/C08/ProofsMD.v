(* C08 proofs, part 2: MultiDict / CombinedMultiDict refinement to an insertion-ordered multimap, EnvironHeaders. *)
From Coq Require Import ZArith Lia ZifyBool ZifyN.
From Wz Require Import lib.Bytes lib.BytesFacts C08.LibStr C08.LibStrFacts C08.Gen C08.Model C08.Spec C08.Proofs.
Open Scope N_scope.

(* ------------------------------------------------------------------ dict primitives *)
Lemma d_get_In k l d : d_get k d = Some l -> In (k, l) d.
Proof.
  induction d as [|[k0 l0] d IH]; cbn [d_get]; [discriminate|].
  destruct (list_eqb k k0) eqn:E.
  - intro H. inversion H; subst. apply list_eqb_eq in E. subst. left. reflexivity.
  - intro H. right. apply IH. exact H.
Qed.

Lemma d_get_None k d : d_get k d = None <-> ~ In k (map fst d).
Proof.
  induction d as [|[k0 l0] d IH]; cbn [d_get map fst In]; [intuition|].
  destruct (list_eqb k k0) eqn:E.
  - apply list_eqb_eq in E. subst. split; [discriminate|]. intro H. exfalso. apply H. left. reflexivity.
  - apply list_eqb_neq in E. rewrite IH. split; [intros H [A|A]; [congruence|contradiction]|intros H A; apply H; right; exact A].
Qed.

Lemma d_mem_In k d : d_mem k d = true <-> In k (map fst d).
Proof.
  unfold d_mem. destruct (d_get k d) eqn:E.
  - split; [intros _|reflexivity]. apply d_get_In in E. apply (in_map fst) in E. exact E.
  - apply d_get_None in E. split; [discriminate|contradiction].
Qed.

Lemma In_d_get k l d : NoDup (map fst d) -> In (k, l) d -> d_get k d = Some l.
Proof.
  induction d as [|[k0 l0] d IH]; cbn [d_get map fst]; intros N H; [destruct H|].
  inversion N as [|? ? N1 N2]; subst. destruct H as [H|H].
  - inversion H; subst. rewrite list_eqb_refl. reflexivity.
  - destruct (list_eqb k k0) eqn:E.
    + apply list_eqb_eq in E. subst. exfalso. apply N1. apply (in_map fst) in H. exact H.
    + apply IH; assumption.
Qed.

Lemma d_get_set k v k' d : d_get k' (d_set k v d) = if list_eqb k k' then Some v else d_get k' d.
Proof.
  induction d as [|[k0 l0] d IH]; cbn [d_set d_get].
  - rewrite (list_eqb_sym k' k). destruct (list_eqb k k'); reflexivity.
  - destruct (list_eqb k k0) eqn:E; cbn [d_get].
    + apply list_eqb_eq in E. subst k0. rewrite (list_eqb_sym k' k). destruct (list_eqb k k'); reflexivity.
    + destruct (list_eqb k' k0) eqn:E2.
      * apply list_eqb_eq in E2. subst k0. rewrite E. reflexivity.
      * exact IH.
Qed.

Lemma d_set_keys k v d : map fst (d_set k v d) = if d_mem k d then map fst d else map fst d ++ [k].
Proof.
  unfold d_mem. induction d as [|[k0 l0] d IH]; cbn [d_set d_get map fst]; [reflexivity|].
  destruct (list_eqb k k0) eqn:E; cbn [map fst]; [reflexivity|]. rewrite IH.
  destruct (d_get k d); reflexivity.
Qed.

Lemma NoDup_snoc {A} (l : list A) x : NoDup l -> ~ In x l -> NoDup (l ++ [x]).
Proof. apply NoDup_app_one. Qed.

Lemma d_set_wf k v d : md_wf d -> md_wf (d_set k v d).
Proof.
  unfold md_wf. intro H. rewrite d_set_keys. destruct (d_mem k d) eqn:E; [exact H|].
  apply NoDup_snoc; [exact H|]. intro A. apply d_mem_In in A. congruence.
Qed.

Lemma d_get_del k k' d : d_get k' (d_del k d) = if list_eqb k k' then None else d_get k' d.
Proof.
  unfold d_del. induction d as [|[k0 l0] d IH]; cbn [filter d_get fst]; [destruct (list_eqb k k'); reflexivity|].
  destruct (list_eqb k k0) eqn:E; cbn [negb d_get].
  - rewrite IH. apply list_eqb_eq in E. subst k0. rewrite (list_eqb_sym k' k). destruct (list_eqb k k'); reflexivity.
  - destruct (list_eqb k' k0) eqn:E2.
    + apply list_eqb_eq in E2. subst k0. rewrite E. reflexivity.
    + exact IH.
Qed.

Lemma filter_fst_NoDup {A B} (p : A * B -> bool) (d : list (A * B)) : NoDup (map fst d) -> NoDup (map fst (filter p d)).
Proof.
  induction d as [|a d IH]; cbn [filter map]; intro H; [constructor|]. inversion H; subst.
  destruct (p a); cbn [map]; [|apply IH; assumption]. constructor; [|apply IH; assumption].
  intro A0. apply in_map_iff in A0. destruct A0 as [x [E Hx]]. apply filter_In in Hx. destruct Hx as [Hx _].
  apply H2. rewrite <- E. apply in_map. exact Hx.
Qed.

Lemma d_del_wf k d : md_wf d -> md_wf (d_del k d).
Proof. apply filter_fst_NoDup. Qed.

Lemma removelast_wf (d : mdict) : md_wf d -> md_wf (removelast d).
Proof.
  unfold md_wf. induction d as [|a d IH]; cbn [removelast map]; intro H; [constructor|].
  inversion H; subst. destruct d as [|b d]; [constructor|]. cbn [map]. constructor.
  - intro A. apply H2. clear -A. revert A. generalize (b :: d). intros l A.
    induction l as [|c l IHl]; cbn [removelast map] in A; [destruct A|].
    destruct l; [destruct A|]. cbn [map In] in *. destruct A as [A|A]; [left; exact A|right; apply IHl; exact A].
  - apply IH. exact H3.
Qed.

Lemma d_append_get k v k' d :
  d_get k' (d_append k v d) = if list_eqb k k' then Some (md_getlist d k ++ [v]) else d_get k' d.
Proof.
  unfold d_append, md_getlist. destruct (d_get k d) as [l|] eqn:E.
  - apply d_get_set.
  - destruct (list_eqb k k') eqn:E2.
    + apply list_eqb_eq in E2. subst k'. induction d as [|[k0 l0] d IH]; cbn [app d_get] in *.
      * rewrite list_eqb_refl. reflexivity.
      * destruct (list_eqb k k0); [discriminate|]. apply IH. exact E.
    + induction d as [|[k0 l0] d IH]; cbn [app d_get] in *.
      * rewrite (list_eqb_sym k' k), E2. reflexivity.
      * destruct (list_eqb k k0) eqn:E3; [discriminate|]. destruct (list_eqb k' k0); [reflexivity|]. apply IH. exact E.
Qed.

Lemma d_append_wf k v d : md_wf d -> md_wf (d_append k v d).
Proof.
  unfold d_append. intro H. destruct (d_get k d) eqn:E; [apply d_set_wf; exact H|].
  unfold md_wf. rewrite map_app. cbn [map fst]. apply NoDup_snoc; [exact H|]. apply d_get_None. exact E.
Qed.

Lemma md_add_all_wf l : forall d, md_wf d -> md_wf (md_add_all d l).
Proof.
  unfold md_add_all. induction l as [|[k v] l IH]; intros d H; cbn [fold_left fst snd]; [exact H|].
  apply IH. apply d_append_wf. exact H.
Qed.

Theorem md_step_wf d o : md_wf d -> md_wf (fst (md_step d o)).
Proof.
  intro H. destruct o; cbn [md_step fst]; try (apply d_set_wf; exact H); try (apply d_append_wf; exact H);
    try (apply md_add_all_wf; exact H).
  - destruct (d_mem k d); cbn [fst]; [exact H|apply d_set_wf; exact H].
  - destruct (d_mem k d); cbn [fst]; [exact H|apply d_set_wf; exact H].
  - destruct (d_get k d) as [[|? ?]|]; cbn [fst]; [apply d_del_wf; exact H|apply d_del_wf; exact H|exact H].
  - destruct (rev d) as [|[k [|? ?]] ?]; cbn [fst]; [exact H|apply removelast_wf; exact H|apply removelast_wf; exact H].
  - destruct (d_get k d); cbn [fst]; [apply d_del_wf; exact H|exact H].
  - destruct (rev d) as [|[k l] ?]; cbn [fst]; [exact H|apply removelast_wf; exact H].
  - constructor.
  - destruct (d_mem k d); cbn [fst]; [apply d_del_wf; exact H|exact H].
Qed.

(* ------------------------------------------------------------------ reads against the abstract pair list *)
Lemma mm_getlist_app l1 l2 k : mm_getlist (l1 ++ l2) k = mm_getlist l1 k ++ mm_getlist l2 k.
Proof. unfold mm_getlist. rewrite filter_app, map_app. reflexivity. Qed.

Lemma mm_getlist_row k0 l0 k :
  mm_getlist (map (fun v => (k0, v)) l0) k = if list_eqb k k0 then l0 else [].
Proof.
  unfold mm_getlist. induction l0 as [|v l0 IH]; cbn [map filter fst]; [destruct (list_eqb k k0); reflexivity|].
  destruct (list_eqb k k0); cbn [map snd]; [f_equal|]; exact IH.
Qed.

Lemma md_abs_cons k0 l0 d : md_abs ((k0, l0) :: d) = map (fun v => (k0, v)) l0 ++ md_abs d.
Proof. reflexivity. Qed.

Lemma mm_getlist_absent d k : ~ In k (map fst d) -> mm_getlist (md_abs d) k = [].
Proof.
  induction d as [|[k0 l0] d IH]; intro H; [reflexivity|].
  rewrite md_abs_cons, mm_getlist_app, mm_getlist_row. cbn [map fst In] in H.
  destruct (list_eqb k k0) eqn:E.
  - apply list_eqb_eq in E. subst. exfalso. apply H. left. reflexivity.
  - apply IH. intro A. apply H. right. exact A.
Qed.

Lemma md_getlist_abs d k : md_wf d -> md_getlist d k = mm_getlist (md_abs d) k.
Proof.
  unfold md_wf, md_getlist. induction d as [|[k0 l0] d IH]; intro H; [reflexivity|].
  inversion H as [|? ? N1 N2]; subst. rewrite md_abs_cons, mm_getlist_app, mm_getlist_row. cbn [d_get].
  destruct (list_eqb k k0) eqn:E.
  - apply list_eqb_eq in E. subst k0. rewrite (mm_getlist_absent d k N1), app_nil_r. reflexivity.
  - cbn [app]. apply IH. exact N2.
Qed.

Lemma md_items_nonempty d :
  md_nonempty d -> md_items d = Ok (map (fun kv => (fst kv, hd [] (snd kv))) d).
Proof.
  unfold md_nonempty. induction d as [|[k0 l0] d IH]; intro H; [reflexivity|]. cbn [md_items map fst snd].
  destruct l0 as [|v l0]; [exfalso; apply (H k0 []); [left; reflexivity|reflexivity]|].
  rewrite IH; [reflexivity|]. intros k l A. apply (H k l). right. exact A.
Qed.

Lemma first_keys_skip k l r seen :
  smem k seen = true -> first_keys (map (fun v => (k, v)) l ++ r) seen = first_keys r seen.
Proof.
  intro H. induction l as [|v l IH]; [reflexivity|]. cbn [map app first_keys]. rewrite H. exact IH.
Qed.

Lemma first_keys_rows d : forall seen,
  NoDup (map fst d) -> (forall k, In k (map fst d) -> ~ In k seen) -> md_nonempty d ->
  first_keys (md_abs d) seen = map fst d.
Proof.
  induction d as [|[k0 l0] d IH]; intros seen N Hs Hne; [reflexivity|].
  inversion N as [|? ? N1 N2]; subst. rewrite md_abs_cons.
  destruct l0 as [|v l0]; [exfalso; apply (Hne k0 []); [left; reflexivity|reflexivity]|].
  cbn [map app first_keys fst].
  assert (Hk : smem k0 seen = false) by (apply smem_false; apply Hs; left; reflexivity).
  rewrite Hk. f_equal. rewrite first_keys_skip by (cbn [smem existsb]; rewrite list_eqb_refl; reflexivity).
  apply IH; [exact N2| |intros k l A; apply (Hne k l); right; exact A].
  intros k A [B|B]; [subst; contradiction|]. apply (Hs k); [right; exact A|exact B].
Qed.

Theorem md_read_consistency d k : md_wf d ->
  md_keys d = map fst d /\
  md_getlist d k = mm_getlist (md_abs d) k /\
  (d_mem k d = true <-> In k (md_keys d)) /\
  (md_nonempty d -> md_items d = Ok (map (fun kv => (fst kv, hd [] (snd kv))) d)
                    /\ md_keys d = first_keys (md_abs d) []).
Proof.
  intro H. split; [reflexivity|]. split; [apply md_getlist_abs; exact H|]. split; [apply d_mem_In|].
  intro Hne. split; [apply md_items_nonempty; exact Hne|].
  symmetry. apply first_keys_rows; [exact H|intros ? ? []|exact Hne].
Qed.

Theorem md_items_refuted : exists d o, md_wf d /\ md_items (fst (md_step d o)) = Err IndexError.
Proof. exists [], (MSetList [107] []). split; [constructor|reflexivity]. Qed.

(* ------------------------------------------------------------------ mutator laws *)
Theorem md_add_law d k v k' :
  md_getlist (d_append k v d) k' = md_getlist d k' ++ (if list_eqb k k' then [v] else []).
Proof.
  unfold md_getlist at 1. rewrite d_append_get. destruct (list_eqb k k') eqn:E.
  - apply list_eqb_eq in E. subst. reflexivity.
  - rewrite app_nil_r. reflexivity.
Qed.

Theorem md_setlist_law d k vs k' :
  md_getlist (d_set k vs d) k' = if list_eqb k k' then vs else md_getlist d k'.
Proof. unfold md_getlist. rewrite d_get_set. destruct (list_eqb k k'); reflexivity. Qed.

Theorem md_del_law d k k' :
  md_getlist (d_del k d) k' = if list_eqb k k' then [] else md_getlist d k'.
Proof. unfold md_getlist. rewrite d_get_del. destruct (list_eqb k k'); reflexivity. Qed.

Theorem md_update_law l : forall d k',
  md_getlist (md_add_all d l) k' = md_getlist d k' ++ mm_getlist l k'.
Proof.
  unfold md_add_all. induction l as [|[k v] l IH]; intros d k'; cbn [fold_left fst snd].
  - unfold mm_getlist. cbn [filter map]. rewrite app_nil_r. reflexivity.
  - rewrite IH, md_add_law. rewrite <- app_assoc. f_equal.
    unfold mm_getlist. cbn [filter fst]. rewrite (list_eqb_sym k' k). destruct (list_eqb k k'); reflexivity.
Qed.

(* ------------------------------------------------------------------ CombinedMultiDict *)
Lemma d_extend_get k vs k' d :
  md_getlist (d_extend k vs d) k' = md_getlist d k' ++ (if list_eqb k k' then vs else []).
Proof.
  unfold d_extend. destruct (d_get k d) as [l|] eqn:E.
  - rewrite md_setlist_law. destruct (list_eqb k k') eqn:E2.
    + apply list_eqb_eq in E2. subst. unfold md_getlist. rewrite E. reflexivity.
    + rewrite app_nil_r. reflexivity.
  - unfold md_getlist. destruct (list_eqb k k') eqn:E2.
    + apply list_eqb_eq in E2. subst k'. rewrite E. cbn [app].
      induction d as [|[k0 l0] d IH]; cbn [app d_get] in *; [rewrite list_eqb_refl; reflexivity|].
      destruct (list_eqb k k0); [discriminate|]. apply IH. exact E.
    + rewrite app_nil_r. induction d as [|[k0 l0] d IH]; cbn [app d_get] in *.
      * rewrite (list_eqb_sym k' k), E2. reflexivity.
      * destruct (list_eqb k k0); [discriminate|]. destruct (list_eqb k' k0); [reflexivity|]. apply IH. exact E.
Qed.

Lemma cmd_inner_fold d : forall rv k', md_wf d ->
  md_getlist (fold_left (fun rv kv => d_extend (fst kv) (snd kv) rv) d rv) k' = md_getlist rv k' ++ md_getlist d k'.
Proof.
  unfold md_wf. induction d as [|[k0 l0] d IH]; intros rv k' H; cbn [fold_left fst snd].
  - change (md_getlist [] k') with (@nil str). rewrite app_nil_r. reflexivity.
  - inversion H as [|? ? N1 N2]; subst. rewrite (IH _ _ N2), d_extend_get, <- app_assoc. f_equal.
    unfold md_getlist. cbn [d_get]. rewrite (list_eqb_sym k' k0). destruct (list_eqb k0 k') eqn:E.
    + apply list_eqb_eq in E. subst k'. apply d_get_None in N1. rewrite N1. apply app_nil_r.
    + reflexivity.
Qed.

Lemma cmd_lists_fold c : forall rv k', Forall md_wf c ->
  md_getlist (fold_left (fun rv d => fold_left (fun rv kv => d_extend (fst kv) (snd kv) rv) d rv) c rv) k'
  = md_getlist rv k' ++ flat_map (fun d => md_getlist d k') c.
Proof.
  induction c as [|d c IH]; intros rv k' H; cbn [fold_left flat_map]; [rewrite app_nil_r; reflexivity|].
  inversion H; subst. rewrite IH by assumption. rewrite cmd_inner_fold by assumption. apply app_assoc_reverse.
Qed.

Theorem cmd_reads c k :
  cmd_getlist c k = flat_map (fun d => md_getlist d k) c /\
  cmd_contains c k = existsb (d_mem k) c /\
  (forall x, In x (cmd_keys c) <-> exists d, In d c /\ In x (md_keys d)) /\
  (Forall md_wf c -> md_getlist (cmd_lists c) k = cmd_getlist c k).
Proof.
  split; [reflexivity|]. split; [reflexivity|]. split.
  - intro x. unfold cmd_keys, set_of_list.
    destruct (set_of_list_spec (flat_map md_keys c) [] (NoDup_nil _)) as [_ I]. rewrite I, in_flat_map. cbn [In]. intuition.
  - intro H. unfold cmd_lists. rewrite cmd_lists_fold by exact H. reflexivity.
Qed.

(* ------------------------------------------------------------------ EnvironHeaders *)
Lemma starts_with_skipn p : forall s, starts_with p s = true -> s = p ++ skipn (length p) s.
Proof.
  induction p as [|a p IH]; intros s H; [reflexivity|]. destruct s as [|b s]; cbn [starts_with] in H; [discriminate|].
  apply andb_prop in H. destruct H as [E H]. apply N.eqb_eq in E. subst b. cbn [length skipn app]. f_equal. apply IH. exact H.
Qed.

Definition wsgi_rt (c : N) (prev : bool) : N :=
  let c' := if c =? 95 then 45 else c in
  let t := if is_alpha c' then (if prev then ascii_lower c' else ascii_upper c') else c' in
  if ascii_upper t =? 45 then 95 else ascii_upper t.

Lemma wsgi_char_roundtrip (c : N) (prev : bool) :
  is_upper c || is_digit c || (c =? 95) = true -> wsgi_rt c prev = c.
Proof.
  intro H. assert (Hc : c < 128) by (unfold is_upper, is_digit in H; lia).
  pose proof (sweep128 (fun c => implb (is_upper c || is_digit c || (c =? 95))
                                   ((wsgi_rt c true =? c) && (wsgi_rt c false =? c)))
                ltac:(vm_compute; reflexivity) c Hc) as S.
  cbv beta in S. rewrite H in S. cbn [implb] in S. apply andb_prop in S. destruct S as [S1 S2].
  destruct prev; apply N.eqb_eq; assumption.
Qed.

Lemma wsgi_name_roundtrip (rest : str) : forall prev : bool,
  wsgi_key rest = true -> replace1 45 95 (upper (title_go prev (replace1 95 45 rest))) = rest.
Proof.
  unfold wsgi_key. induction rest as [|c rest IH]; intros prev H; [reflexivity|].
  cbn [forallb] in H. apply andb_prop in H. destruct H as [Hc Hr].
  unfold replace1 at 2. cbn [map title_go]. fold (replace1 95 45 rest). unfold upper. cbn [map]. fold (upper).
  unfold replace1 at 1. cbn [map]. fold (replace1 45 95).
  f_equal; [exact (wsgi_char_roundtrip c prev Hc)|apply IH; exact Hr].
Qed.

Lemma env_lookup_In e k v : NoDup (map fst e) -> In (k, v) e -> env_lookup e k = Some v.
Proof.
  induction e as [|[k0 v0] e IH]; cbn [env_lookup map fst]; intros N H; [destruct H|].
  inversion N as [|? ? N1 N2]; subst. destruct H as [H|H].
  - inversion H; subst. rewrite list_eqb_refl. reflexivity.
  - destruct (list_eqb k k0) eqn:E.
    + apply list_eqb_eq in E. subst. exfalso. apply N1. apply (in_map fst) in H. exact H.
    + apply IH; assumption.
Qed.

Lemma wsgi_key_app a b : wsgi_key (a ++ b) = true -> wsgi_key b = true.
Proof. unfold wsgi_key. rewrite forallb_app. intro H. apply andb_prop in H. apply H. Qed.

Theorem eh_view e k v :
  In (k, v) e -> wsgi_key k = true -> NoDup (map fst e) ->
  (env_iter_http k v = true -> In (env_iter_http_name k, v) (eh_iter e) /\ eh_get_key e (env_iter_http_name k) = Some v).
Proof.
  intros Hin Hk N Hh. split.
  - unfold eh_iter. apply in_flat_map. exists (k, v). split; [exact Hin|]. cbn [fst snd]. rewrite Hh. left. reflexivity.
  - unfold env_iter_http in Hh. apply andb_prop in Hh. destruct Hh as [Hs Hn].
    pose proof (starts_with_skipn _ _ Hs) as Ek. cbn [length] in Ek.
    set (rest := skipn 5 k) in *.
    assert (Hrest : wsgi_key rest = true) by (rewrite Ek in Hk; apply (wsgi_key_app _ _ Hk)).
    unfold eh_get_key, env_iter_http_name, env_key, title. fold rest.
    rewrite (wsgi_name_roundtrip rest false Hrest).
    assert (Hp : env_key_plain rest = false).
    { unfold env_key_plain. apply negb_true_iff in Hn. rewrite Ek in Hn.
      cbn [smem existsb] in *. rewrite !orb_false_r in *. apply orb_false_iff in Hn. destruct Hn as [H1 H2].
      apply orb_false_iff. split; apply list_eqb_neq; intro A; subst rest.
      - rewrite A in H1. cbn [app] in H1. rewrite list_eqb_refl in H1. discriminate.
      - rewrite A in H2. cbn [app] in H2. rewrite list_eqb_refl in H2. discriminate. }
    rewrite Hp. unfold env_key_http. rewrite <- Ek. apply env_lookup_In; assumption.
Qed.
