(* C06 proofs: parse_options_header on parameters whose values are always written inside quotes WITHOUT
   escaping (what the multipart encoder of C02 writes in Content-Disposition). *)
From Coq Require Import ZArith Lia ZifyBool ZifyN.
From Wz Require Import lib.Bytes lib.BytesFacts lib.Utf8 C06.LibPy C06.LibPyFacts C06.Gen C06.Model C06.Proofs C06.Proofs2.
Open Scope N_scope.

(* a value that may be wrapped in quotes as it is: no double quote, no backslash, no literal %22 *)
Definition quoted_plain (v : str) : bool := negb (mem DQ v) && negb (mem BS v) && negb (has_sub3 PCT 50 50 v).

Definition quoted_opt_domain (h : str) (o : sdict) : bool :=
  header_ok h && forallb (fun kv => opt_key_ok (fst kv) && quoted_plain (snd kv)) o && keys_distinct o.

(* key="value" *)
Definition qseg (kv : str * str) : str := fst kv ++ EQ :: DQ :: snd kv ++ [DQ].

(* header; key="value"; key="value" ... as a flat text *)
Definition quoted_options_text (h : str) (o : sdict) : str := h ++ flat_map (fun kv => [SEMI; SP] ++ qseg kv) o.

Lemma esc_plain v : mem DQ v = false -> mem BS v = false -> esc v = v.
Proof.
  unfold esc. induction v as [|c v IH]; [reflexivity|]. rewrite !mem_cons. intros H1 H2.
  apply orb_false_elim in H1. apply orb_false_elim in H2. destruct H1 as [A1 B1]. destruct H2 as [A2 B2].
  cbn [flat_map]. unfold esc1. rewrite N.eqb_sym in A1. rewrite N.eqb_sym in A2. rewrite A1, A2. cbn [app]. f_equal. apply IH; assumption.
Qed.

Lemma quoted_plain_facts v : quoted_plain v = true -> esc v = v /\ has_sub3 PCT 50 50 v = false.
Proof.
  unfold quoted_plain. intro H. apply andb_prop in H. destruct H as [H H3]. apply andb_prop in H. destruct H as [H1 H2].
  apply negb_true_iff in H1, H2, H3. split; [apply esc_plain; assumption|exact H3].
Qed.

Lemma poh_round_qseg (k v more : str) : opt_key_ok k = true -> mem DQ v = false -> mem BS v = false ->
  poh_round (qseg (k, v) ++ more) = (Some (k, DQ :: v ++ [DQ]), more).
Proof.
  intros Hk H1 H2. destruct (opt_key_facts k Hk) as (Hne & Ht & _ & Hl).
  unfold poh_round, qseg. cbn [fst snd]. rewrite <- app_assoc. cbn [app]. rewrite key_match_seg by assumption. rewrite Hl.
  assert (Htw : take_while is_ptok (DQ :: (v ++ [DQ]) ++ more) = []).
  { cbn [take_while]. replace (is_ptok DQ) with false; [reflexivity|]. symmetry. apply (non_tchar_classes DQ). reflexivity. }
  rewrite Htw. rewrite N.eqb_refl. rewrite <- app_assoc. cbn [app].
  rewrite <- (esc_plain v H1 H2) at 1. rewrite qscan_esc. rewrite (esc_plain v H1 H2). reflexivity.
Qed.

Lemma qseg_tight (k v : str) : opt_key_ok k = true -> tight (qseg (k, v)).
Proof.
  intro Hk. destruct (opt_key_facts k Hk) as (Hne & Ht & _). unfold qseg. cbn [fst snd].
  apply tight_app_l; [apply tight_tchars; assumption|].
  change (EQ :: DQ :: v ++ [DQ]) with ([EQ] ++ DQ :: v ++ [DQ]). apply tight_app_l; [|apply tight_wrapped].
  exists EQ, EQ. repeat split; reflexivity.
Qed.

Definition qdom (o : sdict) : bool := forallb (fun kv => opt_key_ok (fst kv) && quoted_plain (snd kv)) o.

Lemma join_qseg_tight o : o <> [] -> qdom o = true -> tight (join [SEMI; SP] (map qseg o)).
Proof.
  unfold qdom. induction o as [|[k v] o IH]; [congruence|]. intros _ H. cbn [forallb fst] in H. apply andb_prop in H.
  destruct H as [Hkv Ho]. apply andb_prop in Hkv. destruct Hkv as [Hk _]. destruct o as [|kv2 o].
  - cbn [map join]. apply qseg_tight. exact Hk.
  - change (map qseg ((k, v) :: kv2 :: o)) with (qseg (k, v) :: qseg kv2 :: map qseg o). rewrite join_cons2.
    apply tight_app_mid; [apply qseg_tight; exact Hk|]. apply IH; [discriminate|exact Ho].
Qed.

Lemma poh_loop_join_q o fuel : o <> [] -> qdom o = true -> (length o <= fuel)%nat ->
  poh_loop fuel (join [SEMI; SP] (map qseg o)) = Ok (map (fun kv => (fst kv, DQ :: snd kv ++ [DQ])) o).
Proof.
  unfold qdom. revert fuel. induction o as [|[k v] o IH]; [congruence|]. intros fuel _ H Hf.
  cbn [forallb fst snd] in H. apply andb_prop in H. destruct H as [Hkv Ho]. apply andb_prop in Hkv. destruct Hkv as [Hk Hv].
  unfold quoted_plain in Hv. apply andb_prop in Hv. destruct Hv as [Hv _]. apply andb_prop in Hv. destruct Hv as [H1 H2].
  apply negb_true_iff in H1, H2.
  destruct fuel as [|f]; [cbn [length] in Hf; lia|]. cbn [length] in Hf. destruct o as [|kv2 o].
  - cbn [map join]. rewrite <- (app_nil_r (qseg (k, v))). cbn [poh_loop].
    rewrite (poh_round_qseg k v [] Hk H1 H2). reflexivity.
  - change (map qseg ((k, v) :: kv2 :: o)) with (qseg (k, v) :: qseg kv2 :: map qseg o). rewrite join_cons2.
    cbn [poh_loop]. rewrite (poh_round_qseg k v _ Hk H1 H2). cbn [app partition1]. rewrite N.eqb_refl.
    pose proof (join_qseg_tight (kv2 :: o) ltac:(discriminate) Ho) as Ht. destruct Ht as (c & z & Hc & _ & Hwc & _).
    change (qseg kv2 :: map qseg o) with (map qseg (kv2 :: o)).
    destruct (join [SEMI; SP] (map qseg (kv2 :: o))) as [|j0 j'] eqn:Ej; [discriminate|]. cbn [head_e] in Hc. injection Hc as ->.
    unfold py_lstrip. cbn [drop_while]. change (uni_ws SP) with true. cbv iota. rewrite Hwc.
    rewrite IH; [reflexivity|discriminate|exact Ho|cbn [length] in *; lia].
Qed.

Lemma poh_part_quoted (acc : sdict) (k v : str) : opt_key_ok k = true -> quoted_plain v = true ->
  poh_part (acc, None, None) (k, DQ :: v ++ [DQ]) = Ok (dict_set k v acc, None, None).
Proof.
  intros Hk Hv. destruct (quoted_plain_facts v Hv) as [He H3]. destruct (opt_key_facts k Hk) as (Hne & Ht & Hs & _). unfold poh_part.
  destruct (last_e_forall (fun c => negb (c =? STAR)) k Hne) as [c [Hc Hp]].
  { apply mem_false_iff in Hs. eapply forallb_impl; [|exact Hs]. intros x Hx. cbv beta in *. rewrite N.eqb_sym. exact Hx. }
  rewrite Hc. cbn [bind]. apply negb_true_iff in Hp. rewrite Hp. cbn [bind]. unfold poh_finish.
  rewrite continuation_none by exact Hs. cbn [head_e bind]. change (DQ :: v ++ [DQ]) with ((DQ :: v) ++ [DQ]). rewrite last_e_app. cbn [bind].
  rewrite N.eqb_refl. cbn [andb]. change ((DQ :: v) ++ [DQ]) with (DQ :: v ++ [DQ]). rewrite inner_wrap.
  rewrite <- He at 1. rewrite unescape_esc. rewrite replace3_id by exact H3. reflexivity.
Qed.

Lemma fold_poh_q acc o : qdom o = true -> keys_distinct (acc ++ o) = true ->
  fold_res poh_part (acc, None, None) (map (fun kv => (fst kv, DQ :: snd kv ++ [DQ])) o) = Ok (acc ++ o, None, None).
Proof.
  unfold qdom. revert acc. induction o as [|[k v] o IH]; intros acc H Hd; [rewrite app_nil_r; reflexivity|].
  cbn [forallb fst snd] in H. apply andb_prop in H. destruct H as [Hkv Ho]. apply andb_prop in Hkv. destruct Hkv as [Hk Hv].
  cbn [map fold_res fst snd]. rewrite poh_part_quoted by assumption. cbn [bind].
  destruct (keys_distinct_app acc k v o Hd) as [Hfresh Hd2]. rewrite dict_set_fresh by exact Hfresh.
  rewrite IH by assumption. rewrite <- app_assoc. reflexivity.
Qed.

Lemma quoted_text_join h o : quoted_options_text h o = join [SEMI; SP] (h :: map qseg o).
Proof.
  unfold quoted_options_text. revert h. induction o as [|kv o IH]; intro h; [cbn [flat_map map join]; apply app_nil_r|].
  cbn [flat_map map]. rewrite join_cons2. f_equal. cbn [app]. f_equal. f_equal.
  specialize (IH (qseg kv)). cbn [map] in IH. rewrite <- IH. reflexivity.
Qed.

Lemma options_always_quoted h o : quoted_opt_domain h o = true ->
  parse_options_header (quoted_options_text h o) = Ok (h, o).
Proof.
  unfold quoted_opt_domain. intro H. apply andb_prop in H. destruct H as [H Hd]. apply andb_prop in H. destruct H as [Hh Ho].
  assert (Hne : h <> []) by (destruct h; [discriminate|discriminate]).
  assert (Hh2 : mem SEMI h = false /\ py_strip h = h).
  { unfold header_ok in Hh. destruct h; [discriminate|]. apply andb_prop in Hh. destruct Hh as [H1 H2].
    apply negb_true_iff in H1. apply list_eqb_eq in H2. split; assumption. }
  destruct Hh2 as [Hsemi Hstrip]. rewrite quoted_text_join. unfold parse_options_header. destruct o as [|kv o].
  - cbn [map join]. rewrite partition1_none by exact Hsemi. rewrite Hstrip. destruct h; [congruence|]. reflexivity.
  - change (h :: map qseg (kv :: o)) with (h :: qseg kv :: map qseg o). rewrite join_cons2. cbn [app].
    rewrite partition1_app by exact Hsemi. rewrite Hstrip. change (qseg kv :: map qseg o) with (map qseg (kv :: o)).
    pose proof (join_qseg_tight (kv :: o) ltac:(discriminate) Ho) as Ht.
    rewrite tight_sp_strip by exact Ht. apply tight_nonempty in Ht. rewrite match_nonempty2 by assumption.
    rewrite poh_loop_join_q; [|discriminate|exact Ho|].
    + cbn [bind]. rewrite (fold_poh_q [] (kv :: o) Ho Hd). reflexivity.
    + etransitivity; [|apply le_S, length_join_ge].
      * rewrite map_length. apply le_n.
      * clear - Ho. unfold qdom in Ho. induction (kv :: o) as [|[k v] l IH]; cbn [map]; constructor.
        -- cbn [forallb fst] in Ho. apply andb_prop in Ho. destruct Ho as [Hkv _]. apply andb_prop in Hkv.
           apply tight_nonempty, qseg_tight. exact (proj1 Hkv).
        -- apply IH. cbn [forallb] in Ho. apply andb_prop in Ho. exact (proj2 Ho).
Qed.

(* the same with the side conditions stated per parameter *)
Lemma options_always_quoted_In h o :
  header_ok h = true -> (forall kv, In kv o -> opt_key_ok (fst kv) = true /\ quoted_plain (snd kv) = true) -> keys_distinct o = true ->
  parse_options_header (h ++ flat_map (fun kv => [SEMI; SP] ++ fst kv ++ EQ :: DQ :: snd kv ++ [DQ]) o) = Ok (h, o).
Proof.
  intros Hh Ho Hd. apply options_always_quoted. unfold quoted_opt_domain. rewrite Hh, Hd, andb_true_r. cbn [andb].
  apply forallb_forall. intros kv Hin. destruct (Ho kv Hin) as [-> ->]. reflexivity.
Qed.
