(* C06 proofs, part 3: Range, Content-Range, Age. *)
From Coq Require Import ZArith Lia ZifyBool ZifyN.
From Wz Require Import lib.Bytes lib.BytesFacts lib.Utf8 C06.LibPy C06.LibPyFacts C06.Gen C06.Model C06.Proofs C06.Proofs2.
Open Scope N_scope.
Ltac Zify.zify_post_hook ::= Z.to_euclidean_division_equations.

(* ------------------------------------------------------------------ decimal text *)
Definition num_char (c : N) : bool := is_digit c || (c =? DASH).

Lemma digits_num s : forallb is_digit s = true -> forallb num_char s = true.
Proof. apply forallb_impl. intros c H. unfold num_char. rewrite H. reflexivity. Qed.

Lemma str_of_Z_chars z s : str_of_Z z = Ok s -> forallb num_char s = true /\ s <> [].
Proof.
  intro H. destruct (Z.ltb z 0) eqn:Hz.
  - destruct (str_of_Z_neg z s H ltac:(lia)) as (ds & -> & Hd & _). split; [|discriminate].
    cbn [forallb]. rewrite digits_num by exact Hd. reflexivity.
  - destruct (str_of_Z_nonneg_digits z s H ltac:(lia)) as [Hd Hne]. split; [apply digits_num; exact Hd|exact Hne].
Qed.

Lemma num_char_facts c : num_char c = true ->
  uni_ws c = false /\ (c =? COMMA) = false /\ (c =? SLASH) = false /\ (c =? STAR) = false /\ (c =? EQ) = false.
Proof. unfold num_char, is_digit, uni_ws, DASH, COMMA, SLASH, STAR, EQ. lia. Qed.

Lemma num_no (x : N) s : forallb num_char s = true -> num_char x = false -> mem x s = false.
Proof. apply forallb_mem_false. Qed.

Lemma num_tight s : forallb num_char s = true -> s <> [] -> tight s.
Proof.
  intros H Hne. destruct (last_e_forall num_char s Hne H) as [z [Hz Hpz]]. destruct s as [|a s]; [congruence|].
  exists a, z. split; [reflexivity|]. split; [exact Hz|]. cbn [forallb] in H. apply andb_prop in H.
  split; [apply (num_char_facts a (proj1 H))|apply (num_char_facts z Hpz)].
Qed.

Lemma digits_head_not_dash s : forallb is_digit s = true -> s <> [] -> exists c r, s = c :: r /\ (c =? DASH) = false /\ is_digit c = true.
Proof.
  intros H Hne. destruct s as [|c r]; [congruence|]. exists c, r. cbn [forallb] in H. apply andb_prop in H.
  split; [reflexivity|]. split; [apply (digit_facts c (proj1 H))|exact (proj1 H)].
Qed.

(* ------------------------------------------------------------------ Range: domain *)
(* what parse_range_header accepts: ascending, non-overlapping closed ranges, optionally ended by one open
   or suffix range.  le = the previous range's end *)
Fixpoint ranges_ok (le : Z) (rs : list (Z * option Z)) : bool :=
  match rs with
  | [] => true
  | (b, None) :: r => (0 <=? le)%Z && ((b <? 0)%Z || (le <=? b)%Z) && match r with [] => true | _ => false end
  | (b, Some e) :: r => (0 <=? le)%Z && (le <=? b)%Z && (b <? e)%Z && ranges_ok e r
  end.

(* str.lower is modelled exactly on Latin-1 only, so units are restricted to it *)
Definition units_ok (u : str) : bool := forallb (fun c => c <? 256) u && negb (mem EQ u) && list_eqb (py_lower (py_strip u)) u.

Definition range_domain (r : range) : bool :=
  units_ok (r_units r) && match r_ranges r with [] => false | _ => true end && ranges_ok 0 (r_ranges r).

Lemma range_item_chars p s : range_item_to_str p = Ok s -> forallb num_char s = true /\ s <> [].
Proof.
  destruct p as [b [e|]]; unfold range_item_to_str; intro H.
  - apply bind_ok in H. destruct H as (s1 & H1 & H). apply bind_ok in H. destruct H as (s2 & H2 & H). injection H as <-.
    destruct (str_of_Z_chars _ _ H1) as [C1 N1]. destruct (str_of_Z_chars _ _ H2) as [C2 N2].
    split; [|destruct s1; [congruence|discriminate]]. rewrite forallb_app. cbn [forallb]. rewrite C1, C2. reflexivity.
  - apply bind_ok in H. destruct H as (s1 & H1 & H). injection H as <-. destruct (str_of_Z_chars _ _ H1) as [C1 N1].
    destruct (0 <=? b)%Z; [|split; assumption]. split; [|destruct s1; [congruence|discriminate]].
    rewrite forallb_app. cbn [forallb]. rewrite C1. reflexivity.
Qed.

Lemma map_res_cons {A B} (f : A -> res B) x l ys : map_res f (x :: l) = Ok ys ->
  exists y ys', f x = Ok y /\ map_res f l = Ok ys' /\ ys = y :: ys'.
Proof.
  cbn [map_res]. intro H. apply bind_ok in H. destruct H as (y & Hy & H). apply bind_ok in H.
  destruct H as (ys' & Hys & H). injection H as <-. eauto.
Qed.

Lemma prh_item_ok acc le b e s :
  range_item_to_str (b, e) = Ok s ->
  (0 <= le)%Z ->
  match e with None => (b < 0 \/ le <= b)%Z | Some e' => (le <= b < e')%Z end ->
  prh_item (acc, le) s = Ok (Some (acc ++ [(b, e)], match e with Some e' => e' | None => (-1)%Z end)).
Proof.
  intros Hs Hle Hb. destruct (range_item_chars _ _ Hs) as [Hc Hne].
  unfold prh_item, prh_guard_suffix_after_open, prh_guard_suffix_zero, prh_guard_order, prh_guard_empty.
  rewrite tight_strip by (apply num_tight; assumption).
  unfold range_item_to_str in Hs. destruct e as [e|].
  - apply bind_ok in Hs. destruct Hs as (s1 & H1 & Hs). apply bind_ok in Hs. destruct Hs as (s2 & H2 & Hs). injection Hs as <-.
    destruct (str_of_Z_nonneg_digits _ _ H1 ltac:(lia)) as [D1 N1].
    destruct (str_of_Z_nonneg_digits _ _ H2 ltac:(lia)) as [D2 N2].
    rewrite mem_app, mem_cons, N.eqb_refl, orb_true_r. cbn [negb].
    destruct (digits_head_not_dash s1 D1 N1) as (c & r & -> & Hcd & _). cbn [app]. rewrite Hcd.
    change (c :: r ++ DASH :: s2) with ((c :: r) ++ DASH :: s2).
    rewrite partition1_app by (apply (digits_no DASH _ D1); reflexivity).
    rewrite digits_strip by exact D1. rewrite digits_strip by exact D2.
    rewrite (plain_int_str_of_Z _ _ H1). replace ((b <? le)%Z || (le <? 0)%Z) with false by lia.
    destruct s2 as [|d2 s2']; [congruence|]. rewrite (plain_int_str_of_Z _ _ H2).
    replace (e - 1 + 1 <=? b)%Z with false by lia. replace (e - 1 + 1)%Z with e by lia. reflexivity.
  - apply bind_ok in Hs. destruct Hs as (s1 & H1 & Hs). injection Hs as <-. destruct (0 <=? b)%Z eqn:Hb0.
    + destruct (str_of_Z_nonneg_digits _ _ H1 ltac:(lia)) as [D1 N1].
      rewrite mem_app, mem_cons, N.eqb_refl, orb_true_r. cbn [negb].
      destruct (digits_head_not_dash s1 D1 N1) as (c & r & -> & Hcd & _). cbn [app]. rewrite Hcd.
      change (c :: r ++ [DASH]) with ((c :: r) ++ DASH :: []).
      rewrite partition1_app by (apply (digits_no DASH _ D1); reflexivity).
      rewrite digits_strip by exact D1. rewrite (plain_int_str_of_Z _ _ H1).
      replace ((b <? le)%Z || (le <? 0)%Z) with false by lia. reflexivity.
    + destruct (str_of_Z_neg _ _ H1 ltac:(lia)) as (ds & -> & Dd & Nd).
      rewrite mem_cons, N.eqb_refl. cbn [orb negb]. rewrite ?N.eqb_refl. replace (le <? 0)%Z with false by lia.
      rewrite (plain_int_str_of_Z _ _ H1). replace (b =? 0)%Z with false by lia. reflexivity.
Qed.

Lemma prh_loop_ok rs : forall acc le items,
  map_res range_item_to_str rs = Ok items -> ranges_ok le rs = true -> (0 <= le \/ rs = [])%Z ->
  prh_loop (acc, le) items = Ok (Some (acc ++ rs)).
Proof.
  induction rs as [|[b e] rs IH]; intros acc le items Hm Hok Hle.
  - injection Hm as <-. cbn [prh_loop fst]. rewrite app_nil_r. reflexivity.
  - apply map_res_cons in Hm. destruct Hm as (s & items' & Hs & Hm & ->). cbn [prh_loop].
    cbn [ranges_ok] in Hok. destruct e as [e|].
    + apply andb_prop in Hok. destruct Hok as [Hok Hrest]. rewrite (prh_item_ok acc le b (Some e) s Hs) by lia.
      cbn [bind]. rewrite (IH _ e items' Hm Hrest) by lia. rewrite <- app_assoc. reflexivity.
    + apply andb_prop in Hok. destruct Hok as [Hok Hrest]. destruct rs; [|discriminate].
      rewrite (prh_item_ok acc le b None s Hs) by lia. cbn [bind]. injection Hm as <-. cbn [prh_loop fst]. reflexivity.
Qed.

Lemma ranges_ok_valid rs : forall le, (0 <= le)%Z -> ranges_ok le rs = true ->
  forallb (fun p => match snd p with Some e => negb ((fst p <? 0)%Z || (e <=? fst p)%Z) | None => true end) rs = true.
Proof.
  induction rs as [|[b [e|]] rs IH]; intros le Hle Hok; [reflexivity| |].
  - cbn [ranges_ok] in Hok. apply andb_prop in Hok. destruct Hok as [Hok Hrest]. cbn [forallb fst snd].
    rewrite (IH e) by (try exact Hrest; lia). replace ((b <? 0)%Z || (e <=? b)%Z) with false by lia. reflexivity.
  - cbn [ranges_ok] in Hok. apply andb_prop in Hok. destruct Hok as [_ Hrest]. destruct rs; [reflexivity|discriminate].
Qed.

Lemma range_roundtrip r h : range_domain r = true -> range_to_header r = Ok h ->
  parse_range_header h = Ok (Some r).
Proof.
  destruct r as [u rs]. unfold range_domain, range_to_header. cbn [r_units r_ranges]. intros Hd Hh.
  apply andb_prop in Hd. destruct Hd as [Hd Hok]. apply andb_prop in Hd. destruct Hd as [Hu Hne].
  unfold units_ok in Hu. apply andb_prop in Hu. destruct Hu as [Hu1 Hu2]. apply andb_prop in Hu1. destruct Hu1 as [_ Hu1]. apply negb_true_iff in Hu1. apply list_eqb_eq in Hu2.
  apply bind_ok in Hh. destruct Hh as (items & Hm & Hh). injection Hh as <-.
  unfold parse_range_header. rewrite partition1_app by exact Hu1. rewrite Hu2.
  assert (Hitems : items <> [] /\ Forall (fun s => mem COMMA s = false) items).
  { clear - Hm Hne. split.
    - destruct rs; [discriminate|]. apply map_res_cons in Hm. destruct Hm as (? & ? & _ & _ & ->). discriminate.
    - clear Hne. revert items Hm. induction rs as [|p rs IH]; intros items Hm; [injection Hm as <-; constructor|].
      apply map_res_cons in Hm. destruct Hm as (s & items' & Hs & Hm & ->). constructor; [|apply IH; exact Hm].
      apply (num_no COMMA s); [apply (range_item_chars p s Hs)|reflexivity]. }
  rewrite split_on_join by apply Hitems.
  rewrite (prh_loop_ok rs [] 0%Z items Hm Hok) by lia. cbn [bind app].
  unfold range_new. rewrite (ranges_ok_valid rs 0%Z) by (try exact Hok; lia). reflexivity.
Qed.

(* the full statement (every multi-range with 0 <= start < stop) fails on unordered ranges: the parser
   rejects what the serialiser writes *)
Lemma range_unordered_refuted :
  exists r h, range_new (r_units r) (r_ranges r) = Ok r /\ range_to_header r = Ok h /\ parse_range_header h = Ok None.
Proof.
  exists {| r_units := [98; 121; 116; 101; 115]; r_ranges := [(5, Some 6); (0, Some 1)]%Z |}. eexists.
  split; [vm_compute; reflexivity|]. split; vm_compute; reflexivity.
Qed.

(* ------------------------------------------------------------------ Content-Range *)
Lemma last_e_suffix s t : t <> [] -> (exists p, s = p ++ t) -> last_e s = last_e t.
Proof. intros Ht [p ->]. apply last_e_app_r. exact Ht. Qed.

Definition cr_units_ok (u : str) : bool := match u with [] => false | _ => forallb (fun c => negb (uni_ws c)) u end.

Ltac ibrv_cases H :=
  cbv [is_byte_range_valid ob_if ob_neq ob_eq ob_not ob_or ob_and oz_ge oz_gt oz_lt oz_le oz_cmp oz_is_none option_map negb Bool.eqb] in H;
  repeat match type of H with context [if ?c then _ else _] => destruct c eqn:? end;
  try discriminate; try (injection H as H).

Lemma ibrv_some_some a b l : is_byte_range_valid (Some a) (Some b) l = Some true ->
  (0 <= a < b)%Z /\ match l with Some L => (0 <= L)%Z | None => True end.
Proof. intro H. destruct l as [L|]; ibrv_cases H; split; try exact I; lia. Qed.

Lemma ibrv_none_none l : is_byte_range_valid None None l = Some true ->
  match l with Some L => (0 <= L)%Z | None => True end.
Proof. intro H. destruct l as [L|]; ibrv_cases H; try exact I; lia. Qed.

Lemma ibrv_mixed1 a l : is_byte_range_valid (Some a) None l <> Some true.
Proof. intro H. destruct l as [L|]; ibrv_cases H. Qed.
Lemma ibrv_mixed2 b l : is_byte_range_valid None (Some b) l <> Some true.
Proof. intro H. destruct l as [L|]; ibrv_cases H. Qed.

(* is_byte_range_valid never compares with None *)
Lemma ibrv_total s t l : exists b, is_byte_range_valid s t l = Some b.
Proof.
  destruct s as [a|], t as [b|], l as [L|];
    cbv [is_byte_range_valid ob_if ob_neq ob_eq ob_not ob_or ob_and oz_ge oz_gt oz_lt oz_le oz_cmp oz_is_none option_map negb Bool.eqb];
    repeat match goal with |- context [if ?c then _ else _] => destruct c end; eexists; reflexivity.
Qed.

Lemma length_text l lenstr :
  match l with None => Ok [STAR] | Some L => str_of_Z L end = Ok lenstr ->
  match l with Some L => (0 <= L)%Z | None => True end ->
  (do ol <- (if list_eqb lenstr [STAR] then Ok (Some None)
             else do o <- catch_value_error (plain_int lenstr);
                  Ok (match o with Some x => Some (Some x) | None => None end));
   Ok ol) = Ok (Some l)
  /\ forallb (fun c => num_char c || (c =? STAR)) lenstr = true /\ lenstr <> [].
Proof.
  intros H Hl. destruct l as [L|].
  - destruct (str_of_Z_nonneg_digits _ _ H Hl) as [D Nn]. destruct (digits_head_not_dash _ D Nn) as (c & r & -> & _ & Hc).
    split; [|split; [|discriminate]].
    + replace (list_eqb (c :: r) [STAR]) with false.
      * rewrite (plain_int_str_of_Z _ _ H). reflexivity.
      * cbn [list_eqb]. destruct (digit_facts c Hc) as (_ & _ & _ & _ & -> & _). reflexivity.
    + eapply forallb_impl; [|exact D]. intros x Hx. unfold num_char. rewrite Hx. reflexivity.
  - injection H as <-. split; [reflexivity|]. split; [reflexivity|discriminate].
Qed.

Lemma split_ws1_units u rest c r :
  cr_units_ok u = true -> rest = c :: r -> uni_ws c = false -> split_ws1 (u ++ SP :: rest) = Some (u, rest).
Proof.
  unfold cr_units_ok. intros Hu -> Hc. destruct u as [|u0 u']; [discriminate|]. unfold split_ws1.
  rewrite take_while_app_stop by (try exact Hu; reflexivity).
  rewrite drop_while_app_stop by (try exact Hu; reflexivity).
  cbn [drop_while]. change (uni_ws SP) with true. cbv iota. rewrite Hc. reflexivity.
Qed.

Lemma content_range_roundtrip u st sp len c h :
  cr_units_ok u = true -> content_range_new (Some u) st sp len = Ok c -> content_range_to_header c = Ok h ->
  parse_content_range_header h = Ok (Some c).
Proof.
  intros Hu Hnew Hh. unfold content_range_new in Hnew.
  destruct (is_byte_range_valid st sp len) as [[|]|] eqn:Hv; try discriminate. injection Hnew as <-.
  unfold content_range_to_header in Hh. cbn [c_units c_start c_stop c_length] in Hh.
  apply bind_ok in Hh. destruct Hh as (lenstr & Hlen & Hh).
  assert (Hu0 : exists u0 u', u = u0 :: u' /\ uni_ws u0 = false).
  { unfold cr_units_ok in Hu. destruct u as [|u0 u']; [discriminate|]. exists u0, u'. split; [reflexivity|].
    cbn [forallb] in Hu. apply andb_prop in Hu. apply negb_true_iff. exact (proj1 Hu). }
  destruct Hu0 as (u0 & u' & Eu & Hwu0).
  destruct st as [a|], sp as [b|]; try (exfalso; revert Hv; first [apply ibrv_mixed1|apply ibrv_mixed2]).
  - (* start-stop/length *)
    destruct (ibrv_some_some a b len Hv) as [Hab Hl]. destruct (length_text len lenstr Hlen Hl) as (Hpl & Hlc & Hlne).
    apply bind_ok in Hh. destruct Hh as (s1 & H1 & Hh). apply bind_ok in Hh. destruct Hh as (s2 & H2 & Hh). injection Hh as <-.
    destruct (str_of_Z_nonneg_digits _ _ H1 ltac:(lia)) as [D1 N1]. destruct (str_of_Z_nonneg_digits _ _ H2 ltac:(lia)) as [D2 N2].
    destruct (digits_head_not_dash s1 D1 N1) as (d1 & r1 & E1 & _ & Hd1).
    unfold parse_content_range_header.
    assert (Hlast : exists z, last_e lenstr = Ok z /\ uni_ws z = false).
    { destruct (last_e_forall _ lenstr Hlne Hlc) as (z & Hz & Hpz). exists z. split; [exact Hz|].
      cbv beta in Hpz. unfold num_char, is_digit, uni_ws, DASH, STAR in *. lia. }
    destruct Hlast as (z & Hz & Hwz).
    assert (Hstrip : py_strip (u ++ SP :: s1 ++ DASH :: s2 ++ SLASH :: lenstr) = u ++ SP :: s1 ++ DASH :: s2 ++ SLASH :: lenstr).
    { rewrite Eu. cbn [app]. eapply (strip_first_last uni_ws _ u0 z); [reflexivity| |exact Hwu0|exact Hwz].
      rewrite <- Hz. apply last_e_suffix; [exact Hlne|].
      exists (u0 :: u' ++ SP :: s1 ++ DASH :: s2 ++ [SLASH]). cbn [app]. f_equal.
      repeat (rewrite <- app_assoc; cbn [app]). reflexivity. }
    rewrite Hstrip.
    rewrite (split_ws1_units u (s1 ++ DASH :: s2 ++ SLASH :: lenstr) d1 (r1 ++ DASH :: s2 ++ SLASH :: lenstr) Hu)
      by (try (rewrite E1; reflexivity); apply (digit_facts d1 Hd1)).
    assert (Hns : mem SLASH (s1 ++ DASH :: s2) = false).
    { rewrite mem_app, mem_cons. rewrite (digits_no SLASH s1 D1) by reflexivity. rewrite (digits_no SLASH s2 D2) by reflexivity. reflexivity. }
    replace (s1 ++ DASH :: s2 ++ SLASH :: lenstr) with ((s1 ++ DASH :: s2) ++ SLASH :: lenstr) by (rewrite <- app_assoc; reflexivity).
    rewrite partition1_app by exact Hns.
    apply bind_ok in Hpl. destruct Hpl as (ol & Hol & Hol2). injection Hol2 as ->. rewrite Hol. cbn [bind].
    replace (list_eqb (s1 ++ DASH :: s2) [STAR]) with false.
    2:{ rewrite E1. cbn [app list_eqb]. destruct (digit_facts d1 Hd1) as (_ & _ & _ & _ & -> & _). reflexivity. }
    rewrite partition1_app by (apply (digits_no DASH _ D1); reflexivity).
    rewrite (plain_int_str_of_Z _ _ H1), (plain_int_str_of_Z _ _ H2). cbn [bind catch_value_error].
    replace (b - 1 + 1)%Z with b by lia. unfold ibrv, content_range_new. rewrite Hv. reflexivity.
  - (* star/length *)
    pose proof (ibrv_none_none len Hv) as Hl. destruct (length_text len lenstr Hlen Hl) as (Hpl & Hlc & Hlne).
    injection Hh as <-. unfold parse_content_range_header.
    assert (Hlast : exists z, last_e lenstr = Ok z /\ uni_ws z = false).
    { destruct (last_e_forall _ lenstr Hlne Hlc) as (z & Hz & Hpz). exists z. split; [exact Hz|].
      cbv beta in Hpz. unfold num_char, is_digit, uni_ws, DASH, STAR in *. lia. }
    destruct Hlast as (z & Hz & Hwz).
    assert (Hstrip : py_strip (u ++ SP :: STAR :: SLASH :: lenstr) = u ++ SP :: STAR :: SLASH :: lenstr).
    { rewrite Eu. cbn [app]. eapply (strip_first_last uni_ws _ u0 z); [reflexivity| |exact Hwu0|exact Hwz].
      rewrite <- Hz. apply last_e_suffix; [exact Hlne|].
      exists (u0 :: u' ++ [SP; STAR; SLASH]). cbn [app]. f_equal. rewrite <- app_assoc. reflexivity. }
    rewrite Hstrip. rewrite (split_ws1_units u (STAR :: SLASH :: lenstr) STAR (SLASH :: lenstr) Hu) by reflexivity.
    change (STAR :: SLASH :: lenstr) with ([STAR] ++ SLASH :: lenstr). rewrite partition1_app by reflexivity.
    apply bind_ok in Hpl. destruct Hpl as (ol & Hol & Hol2). injection Hol2 as ->. rewrite Hol. cbn [bind].
    change (list_eqb [STAR] [STAR]) with true. cbv iota. unfold ibrv, content_range_new. rewrite Hv. reflexivity.
Qed.

(* ------------------------------------------------------------------ Age *)
Lemma strip_underscores_digits s : forallb is_digit s = true -> s <> [] -> strip_underscores s false = Some s.
Proof.
  intros H Hne. assert (G : forall b, s <> [] \/ b = true -> strip_underscores s b = Some s).
  { clear Hne. induction s as [|c s IH]; intros b Hb.
    - destruct Hb as [Hb| ->]; [congruence|reflexivity].
    - cbn [forallb] in H. apply andb_prop in H. destruct H as [Hc Hs]. cbn [strip_underscores].
      destruct (digit_facts c Hc) as (_ & _ & _ & _ & _ & -> & _). rewrite Hc. rewrite (IH Hs true) by (right; reflexivity). reflexivity. }
  apply G. left. exact Hne.
Qed.

Lemma int_ws_uni c : uni_ws c = false -> int_ws c = false.
Proof. intro H. unfold int_ws. rewrite H. reflexivity. Qed.

Lemma digits_strip_int s : forallb is_digit s = true -> strip int_ws s = s.
Proof.
  intro H. apply strip_none. eapply forallb_impl; [|exact H]. intros c Hc. cbv beta.
  rewrite int_ws_uni by apply (digit_facts c Hc). reflexivity.
Qed.

Lemma py_int_digits z s : str_of_Z z = Ok s -> (0 <= z)%Z -> py_int s = Ok z.
Proof.
  intros H Hz. destruct (str_of_Z_nonneg_digits _ _ H Hz) as [D Nn]. unfold py_int. rewrite digits_strip_int by exact D.
  destruct (digits_head_not_dash s D Nn) as (c & r & -> & Hcd & Hc). rewrite Hcd.
  destruct (digit_facts c Hc) as (_ & _ & _ & _ & _ & _ & -> & _). rewrite Hc.
  rewrite strip_underscores_digits by (try exact D; discriminate).
  apply str_of_Z_ok in H. destruct H as [Hlen Hs]. replace (z <? 0)%Z with false in Hs by lia. rewrite Hs.
  rewrite N_of_digits_N_digits by exact Hlen. cbn [bind]. f_equal. lia.
Qed.

Lemma age_roundtrip a s : (0 <= a <= MAX_TIMEDELTA_SECONDS)%Z -> dump_age a = Ok s -> parse_age s = Ok (Some a).
Proof.
  intros Ha H. unfold dump_age in H. replace (a <? 0)%Z with false in H by lia.
  destruct (str_of_Z_nonneg_digits _ _ H ltac:(lia)) as [_ Nn]. unfold parse_age. destruct s as [|c r] eqn:E; [congruence|].
  rewrite <- E in *. rewrite (py_int_digits a s H) by lia.
  replace (a <? 0)%Z with false by lia. replace (MAX_TIMEDELTA_SECONDS <? a)%Z with false by lia. reflexivity.
Qed.
