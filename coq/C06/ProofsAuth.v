(* C06 proofs: parameter auth schemes (incl. the Digest quoting rule) and If-Range. *)
From Coq Require Import ZArith Lia ZifyBool ZifyN.
From Wz Require Import lib.Bytes lib.BytesFacts lib.Utf8 C06.LibPy C06.LibPyFacts C06.Gen C06.Model C06.Proofs C06.Proofs2
  C06.Proofs4 C07.Gen C07.Model C06.Proofs5.
Open Scope N_scope.

(* ------------------------------------------------------------------ dict items with optional forced quoting *)
Section Forced.
  Variable force : str -> bool.

  (* what is written / what parse_http_list hands back *)
  Definition witem (kv : str * option str) : str :=
    match snd kv with None => fst kv | Some v => fst kv ++ EQ :: quote_header_value (negb (force (fst kv))) v end.
  Definition gvalue (k v : str) : str := if force k then DQ :: v ++ [DQ] else rendered v.
  Definition gitem (kv : str * option str) : str :=
    match snd kv with None => fst kv | Some v => fst kv ++ EQ :: gvalue (fst kv) v end.

  Lemma gvalue_tight k v : tight (gvalue k v).
  Proof. unfold gvalue. destruct (force k); [apply tight_wrapped|apply tight_rendered]. Qed.

  Lemma gvalue_unwrap k v : (if is_quoted (gvalue k v) then inner (gvalue k v) else gvalue k v) = v.
  Proof. unfold gvalue. destruct (force k); [rewrite is_quoted_wrap, inner_wrap; reflexivity|apply rendered_unwrap]. Qed.

  Lemma phl_atom_forced k v : phl_atom (quote_header_value (negb (force k)) v) (gvalue k v).
  Proof.
    unfold gvalue. destruct (force k); cbn [negb]; [|apply phl_atom_quote].
    rewrite quote_shape. cbn [andb]. apply phl_atom_quoted.
  Qed.

  Lemma key_facts k : dict_key_ok k = true -> k <> [] /\ forallb tchar k = true.
  Proof. unfold dict_key_ok. intro H. apply andb_prop in H. apply token_forall. tauto. Qed.

  Lemma witem_ok kv : dict_key_ok (fst kv) = true -> phl_atom (witem kv) (gitem kv) /\ tight (gitem kv).
  Proof.
    destruct kv as [k [v|]]; cbn [fst]; intro Hk; destruct (key_facts k Hk) as [Hne Ht]; unfold witem, gitem; cbn [fst snd].
    - split.
      + apply phl_atom_app; [apply phl_atom_plain, tchars_plain; exact Ht|].
        change (EQ :: quote_header_value (negb (force k)) v) with ([EQ] ++ quote_header_value (negb (force k)) v).
        change (EQ :: gvalue k v) with ([EQ] ++ gvalue k v).
        apply phl_atom_app; [apply phl_atom_char; reflexivity|apply phl_atom_forced].
      + apply tight_app_l; [apply tight_tchars; assumption|].
        change (EQ :: gvalue k v) with ([EQ] ++ gvalue k v). apply tight_app_l; [|apply gvalue_tight].
        exists EQ, EQ. repeat split; reflexivity.
    - split; [apply phl_atom_plain, tchars_plain; exact Ht|apply tight_tchars; assumption].
  Qed.

  Lemma gitem_not_quoted kv : dict_key_ok (fst kv) = true -> is_quoted (gitem kv) = false.
  Proof.
    intro Hk. destruct (key_facts _ Hk) as [Hne Ht]. destruct kv as [k o]. cbn [fst] in *. destruct k as [|c k]; [congruence|].
    cbn [forallb] in Ht. apply andb_prop in Ht. destruct Ht as [Hc _].
    destruct o as [v|]; unfold gitem; cbn [fst snd app]; (eapply is_quoted_head; [reflexivity|apply (tchar_facts c Hc)]).
  Qed.

  Lemma pdh_item_gitem acc kv : dict_key_ok (fst kv) = true -> pdh_item acc (gitem kv) = Ok (dict_set (fst kv) (snd kv) acc).
  Proof.
    intro Hk. destruct (key_last_not_star _ Hk) as [c [Hc Hs]]. destruct (key_facts _ Hk) as [Hne Ht].
    destruct kv as [k o]. cbn [fst snd] in *.
    assert (Heq : mem EQ k = false) by (apply (tchars_no EQ k Ht); reflexivity).
    unfold pdh_item, gitem. cbn [fst snd]. destruct o as [v|].
    - rewrite partition1_app by exact Heq. rewrite tchars_strip by exact Ht.
      destruct k as [|k0 k']; [congruence|]. rewrite tight_strip by apply gvalue_tight.
      rewrite Hc. cbn [bind]. rewrite Hs. cbn [bind]. rewrite gvalue_unwrap. reflexivity.
    - rewrite partition1_none by exact Heq. rewrite tchars_strip by exact Ht. destruct k as [|k0 k']; [congruence|]. reflexivity.
  Qed.

  Lemma fold_pdh_g acc d :
    forallb (fun kv => dict_key_ok (fst kv)) d = true -> keys_distinct (acc ++ d) = true ->
    fold_res pdh_item acc (map gitem d) = Ok (acc ++ d).
  Proof.
    revert acc. induction d as [|[k o] d IH]; intros acc Hk Hd; [rewrite app_nil_r; reflexivity|].
    cbn [forallb] in Hk. apply andb_prop in Hk. destruct Hk as [Hk1 Hk2]. cbn [map fold_res].
    rewrite pdh_item_gitem by exact Hk1. cbn [bind fst snd].
    destruct (keys_distinct_app acc k o d Hd) as [Hfresh Hd2].
    rewrite dict_set_fresh by exact Hfresh. rewrite IH by assumption. rewrite <- app_assoc. reflexivity.
  Qed.

  Definition dict_text (d : odict) : str := join [COMMA; SP] (map witem d).

  Lemma dict_text_parse d : dict_domain d = true -> parse_dict_header (dict_text d) = Ok d.
  Proof.
    unfold dict_domain. intro H. apply andb_prop in H. destruct H as [Hk Hd]. unfold dict_text, parse_dict_header, parse_list_header.
    rewrite (parse_http_list_join (map witem d) (map gitem d)).
    - rewrite map_map.
      assert (Hm : map (fun x => if is_quoted (gitem x) then inner (gitem x) else gitem x) d = map gitem d).
      { clear - Hk. induction d as [|kv d IH]; [reflexivity|]. cbn [forallb] in Hk. apply andb_prop in Hk.
        destruct Hk as [H1 H2]. cbn [map]. rewrite gitem_not_quoted by exact H1. rewrite IH by exact H2. reflexivity. }
      rewrite Hm. apply (fold_pdh_g [] d Hk Hd).
    - clear Hd. induction d as [|kv d IH]; cbn [map]; constructor.
      + cbn [forallb] in Hk. apply andb_prop in Hk. apply (witem_ok kv (proj1 Hk)).
      + apply IH. cbn [forallb] in Hk. apply andb_prop in Hk. tauto.
    - clear Hd. induction d as [|kv d IH]; cbn [map]; constructor.
      + cbn [forallb] in Hk. apply andb_prop in Hk. apply (witem_ok kv (proj1 Hk)).
      + apply IH. cbn [forallb] in Hk. apply andb_prop in Hk. tauto.
  Qed.

  (* the written items are tight as well *)
  Lemma witem_tight kv : dict_key_ok (fst kv) = true -> tight (witem kv).
  Proof.
    destruct kv as [k [v|]]; cbn [fst]; intro Hk; destruct (key_facts k Hk) as [Hne Ht]; unfold witem; cbn [fst snd].
    - apply tight_app_l; [apply tight_tchars; assumption|].
      change (EQ :: quote_header_value (negb (force k)) v) with ([EQ] ++ quote_header_value (negb (force k)) v).
      apply tight_app_l; [exists EQ, EQ; repeat split; reflexivity|].
      rewrite quote_shape. destruct (negb (force k) && as_token v) eqn:E; [|apply tight_wrapped].
      apply andb_prop in E. destruct (as_token_tchars v (proj2 E)). apply tight_tchars; assumption.
    - apply tight_tchars; assumption.
  Qed.

  Lemma dict_text_tight d : d <> [] -> forallb (fun kv => dict_key_ok (fst kv)) d = true -> tight (dict_text d).
  Proof.
    unfold dict_text. induction d as [|kv d IH]; [congruence|]. intros _ H. cbn [forallb] in H. apply andb_prop in H. destruct H as [Hk Hd].
    destruct d as [|kv2 d]; [cbn [map join]; apply witem_tight; exact Hk|].
    change (map witem (kv :: kv2 :: d)) with (witem kv :: witem kv2 :: map witem d). rewrite join_cons2.
    apply tight_app_mid; [apply witem_tight; exact Hk|]. apply IH; [discriminate|exact Hd].
  Qed.
End Forced.

(* ------------------------------------------------------------------ '=' that is not trailing *)
Lemma rstrip_nonempty (p : N -> bool) s : existsb (fun c => negb (p c)) s = true -> rstrip p s <> [].
Proof.
  induction s as [|x r IH]; [discriminate|]. cbn [existsb rstrip]. intro H. destruct (rstrip p r) as [|y r'] eqn:E; [|discriminate].
  destruct (p x) eqn:Px; [|discriminate]. cbn [negb orb] in H. exfalso. apply (IH H). reflexivity.
Qed.

Lemma rstrip_keeps (p : N -> bool) x a r : rstrip p r <> [] -> mem x (rstrip p (a ++ x :: r)) = true.
Proof.
  intro Hr. induction a as [|y a IH]; cbn [app rstrip].
  - destruct (rstrip p r) as [|z r'] eqn:E; [congruence|]. rewrite mem_cons, N.eqb_refl. reflexivity.
  - destruct (rstrip p (a ++ x :: r)) as [|z r'] eqn:E; [discriminate IH|]. rewrite mem_cons, IH. apply orb_true_r.
Qed.

Lemma join_split (sep : str) x xs : In x xs -> exists pre post, join sep xs = pre ++ x ++ post.
Proof.
  induction xs as [|y xs IH]; [contradiction|]. intros [->|Hin].
  - destruct xs as [|z xs]; [exists [], []; cbn [join app]; rewrite app_nil_r; reflexivity|].
    rewrite join_cons2. exists [], (sep ++ join sep (z :: xs)). reflexivity.
  - destruct xs as [|z xs]; [contradiction|]. destruct (IH Hin) as (pre & post & E). rewrite join_cons2, E.
    exists (y ++ sep ++ pre), post. rewrite <- !app_assoc. reflexivity.
Qed.

Definition has_value (d : odict) : bool := existsb (fun kv => match snd kv with Some _ => true | None => false end) d.

Lemma quote_head_not_eq a v : exists c r, quote_header_value a v = c :: r /\ (c =? EQ) = false.
Proof.
  rewrite quote_shape. destruct (a && as_token v) eqn:E; [|eexists; eexists; split; reflexivity].
  apply andb_prop in E. destruct (as_token_tchars v (proj2 E)) as [Hne Ht]. destruct v as [|c r]; [congruence|].
  exists c, r. split; [reflexivity|]. cbn [forallb] in Ht. apply andb_prop in Ht. apply (tchar_facts c (proj1 Ht)).
Qed.

Lemma dict_text_has_eq force d : has_value d = true -> mem EQ (rstrip (fun c => c =? EQ) (dict_text force d)) = true.
Proof.
  unfold has_value. intro H. apply existsb_exists in H. destruct H as ([k o] & Hin & Ho). cbn [snd] in Ho. destruct o as [v|]; [|discriminate].
  destruct (join_split [COMMA; SP] (witem force (k, Some v)) (map (witem force) d) (in_map _ _ _ Hin)) as (pre & post & E).
  unfold dict_text. rewrite E. unfold witem. cbn [fst snd].
  destruct (quote_head_not_eq (negb (force k)) v) as (c & r & -> & Hc).
  replace (pre ++ (k ++ EQ :: c :: r) ++ post) with ((pre ++ k) ++ EQ :: (c :: r ++ post)) by (rewrite <- !app_assoc; reflexivity).
  apply rstrip_keeps. apply rstrip_nonempty. cbn [existsb]. rewrite Hc. reflexivity.
Qed.

(* ------------------------------------------------------------------ parameter schemes *)
Definition no_force (k : str) : bool := false.

Lemma dump_header_dict_text d : forallb (fun kv => dict_key_ok (fst kv)) d = true ->
  dump_header_dict d = Ok (dict_text no_force d).
Proof.
  intro Hk. unfold dump_header_dict, dict_text.
  assert (H : map_res dump_item d = Ok (map (witem no_force) d)).
  { induction d as [|[k o] d IH]; [reflexivity|]. cbn [forallb fst] in Hk. apply andb_prop in Hk. destruct Hk as [Hk1 Hk2].
    cbn [map_res map]. rewrite (IH Hk2). unfold dump_item, witem, no_force. cbn [fst snd negb]. destruct o as [v|]; [|reflexivity].
    destruct (key_last_not_star k Hk1) as [c [Hc Hs]]. unfold last_is. rewrite Hc, Hs. reflexivity. }
  rewrite H. reflexivity.
Qed.

Lemma scheme_text_from_header scheme force d :
  scheme_ok scheme = true -> dict_domain d = true -> has_value d = true ->
  www_authenticate_from_header (py_title scheme ++ SP :: dict_text force d) = Ok (Some {| a_type := scheme; a_params := d; a_token := None |})
  /\ (list_eqb scheme s_basic = false ->
      authorization_from_header (py_title scheme ++ SP :: dict_text force d) = Ok (Some {| a_type := scheme; a_params := d; a_token := None |})).
Proof.
  intros Hs Hd Hv. destruct (lower_title scheme false Hs) as [Hl Hsp]. fold (py_title scheme) in Hl, Hsp.
  assert (Hne : d <> []) by (destruct d; [discriminate|discriminate]).
  assert (Hk : forallb (fun kv => dict_key_ok (fst kv)) d = true) by (unfold dict_domain in Hd; apply andb_prop in Hd; tauto).
  pose proof (dict_text_tight force d Hne Hk) as Ht.
  assert (Hsr : scheme_rest (py_title scheme ++ SP :: dict_text force d) = (scheme, dict_text force d)).
  { unfold scheme_rest. rewrite partition1_app by exact Hsp. rewrite Hl, tight_strip by exact Ht. reflexivity. }
  assert (Hp : auth_params_or_token scheme (dict_text force d) = Ok (Some {| a_type := scheme; a_params := d; a_token := None |})).
  { unfold auth_params_or_token. rewrite (dict_text_has_eq force d Hv). rewrite (dict_text_parse force d Hd). reflexivity. }
  unfold authorization_from_header, www_authenticate_from_header.
  destruct (py_title scheme ++ SP :: dict_text force d) as [|c r] eqn:E; [destruct (py_title scheme); discriminate|].
  rewrite Hsr. split; [exact Hp|]. intros ->. exact Hp.
Qed.

(* Authorization / WWWAuthenticate(type, parameters) outside Basic and Digest *)
Lemma auth_parameters_roundtrip scheme d h :
  scheme_ok scheme = true -> list_eqb scheme s_basic = false -> dict_domain d = true -> has_value d = true ->
  params_to_header scheme d = Ok h ->
  authorization_from_header h = Ok (Some {| a_type := scheme; a_params := d; a_token := None |})
  /\ www_authenticate_from_header h = Ok (Some {| a_type := scheme; a_params := d; a_token := None |}).
Proof.
  intros Hs Hb Hd Hv Hh. unfold params_to_header in Hh.
  assert (Hk : forallb (fun kv => dict_key_ok (fst kv)) d = true) by (unfold dict_domain in Hd; apply andb_prop in Hd; tauto).
  rewrite (dump_header_dict_text d Hk) in Hh. cbn [bind] in Hh. injection Hh as <-.
  destruct (scheme_text_from_header scheme no_force d Hs Hd Hv) as [Hw Ha]. split; [apply Ha; exact Hb|exact Hw].
Qed.

(* WWWAuthenticate(digest, parameters): the quoting rule of the regenerated key set *)
Definition digest_force (k : str) : bool := str_mem k digest_quoted_keys.
Definition some_values (d : sdict) : odict := map (fun kv => (fst kv, Some (snd kv))) d.

Lemma digest_text d : www_digest_to_header d = py_title s_digest ++ SP :: dict_text digest_force (some_values d).
Proof.
  unfold www_digest_to_header, dict_text, some_values. rewrite map_map.
  change (py_title s_digest ++ SP :: join [COMMA; SP] (map (fun x => witem digest_force (fst x, Some (snd x))) d))
    with (s_Digest_sp ++ join [COMMA; SP] (map (fun x => witem digest_force (fst x, Some (snd x))) d)).
  reflexivity.
Qed.

Lemma digest_roundtrip d : d <> [] -> dict_domain (some_values d) = true ->
  www_authenticate_from_header (www_digest_to_header d) = Ok (Some {| a_type := s_digest; a_params := some_values d; a_token := None |}).
Proof.
  intros Hne Hd. rewrite digest_text.
  assert (Hv : has_value (some_values d) = true) by (destruct d as [|kv d]; [congruence|reflexivity]).
  exact (proj1 (scheme_text_from_header s_digest digest_force (some_values d) eq_refl Hd Hv)).
Qed.

(* ------------------------------------------------------------------ If-Range *)
Section IfRange.
  Variable D : Type.
  Variable parse_date : str -> option D.

  (* IfRange(etag=e).to_header() = quote_etag(e) ; the tag comes back when the date parser declines the quoted text *)
  Lemma if_range_roundtrip e h : quote_etag e false = Ok h -> parse_date h = None -> parse_if_range parse_date h = IrEtag e.
  Proof.
    unfold quote_etag. destruct (mem DQ e); [discriminate|]. intro H. injection H as <-. intro Hd.
    unfold parse_if_range. rewrite Hd. unfold unquote_etag.
    rewrite tight_strip by apply tight_wrapped.
    assert (Hw : (let '(w, e0) := match DQ :: e ++ [DQ] with
                                  | c :: d :: r => if ((c =? 87) || (c =? 119)) && (d =? SLASH) then (true, r) else (false, DQ :: e ++ [DQ])
                                  | _ => (false, DQ :: e ++ [DQ])
                                  end in (w, e0)) = (false, DQ :: e ++ [DQ])).
    { destruct (e ++ [DQ]) as [|d r]; reflexivity. }
    destruct (e ++ [DQ]) as [|d r] eqn:E; [destruct e; discriminate|].
    change (DQ =? 87) with false. change (DQ =? 119) with false. cbn [orb andb]. rewrite <- E.
    rewrite N.eqb_refl. change (DQ :: e ++ [DQ]) with ((DQ :: e) ++ [DQ]). rewrite last_is_app. cbn [andb].
    change ((DQ :: e) ++ [DQ]) with (DQ :: e ++ [DQ]). rewrite inner_wrap. reflexivity.
  Qed.

  (* the known finding: when the date parser accepts the quoted text (email.utils does for a tag that looks
     like a date), the entity tag is read back as a date *)
  Lemma if_range_refuted e h d : quote_etag e false = Ok h -> parse_date h = Some d -> parse_if_range parse_date h = IrDate d.
  Proof.
    unfold quote_etag. destruct (mem DQ e); [discriminate|]. intro H. injection H as <-. intro Hd.
    unfold parse_if_range. rewrite Hd. reflexivity.
  Qed.
End IfRange.
