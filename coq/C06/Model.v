(* C06: executable models of the header serialisers and parsers of werkzeug.http and the typed
   header objects, statement by statement, in the exception monad of LibPy.  Definitions only.
   Tables, pattern texts and is_byte_range_valid come from C06/Gen.v (regenerated on every run). *)
From Wz Require Import lib.Bytes lib.Utf8 C06.LibPy C06.Gen.
Open Scope N_scope.

(* ================================================================== quote / unquote *)

Definition is_token_char (c : N) : bool := in_ranges c token_chars.

(* http.quote_header_value(value, allow_token) *)
Definition quote_header_value (allow_token : bool) (v : str) : str :=
  match v with
  | [] => [DQ; DQ]
  | _ =>
    if allow_token && forallb is_token_char v then v
    else DQ :: replace1 DQ [BS; DQ] (replace1 BS [BS; BS] v) ++ [DQ]
  end.

(* http.unquote_header_value *)
Definition unquote_header_value (v : str) : str :=
  if is_quoted v then replace2 BS DQ [DQ] (replace2 BS BS [BS] (inner v)) else v.

(* ================================================================== lists *)

(* urllib.request.parse_http_list, the character loop: (current part, later parts) *)
Fixpoint phl (s : str) (escape quote : bool) : str * list str :=
  match s with
  | [] => ([], [])
  | cur :: r =>
    if escape then let '(p, l) := phl r false quote in (cur :: p, l)
    else if quote then
      if cur =? BS then phl r true true
      else if cur =? DQ then let '(p, l) := phl r false false in (cur :: p, l)
      else let '(p, l) := phl r false true in (cur :: p, l)
    else if cur =? COMMA then let '(p, l) := phl r false false in ([], p :: l)
    else if cur =? DQ then let '(p, l) := phl r false true in (cur :: p, l)
    else let '(p, l) := phl r false false in (cur :: p, l)
  end.

(* `if part: res.append(part)` for the last part only *)
Fixpoint drop_last_empty (l : list str) : list str :=
  match l with
  | [] => []
  | [x] => match x with [] => [] | _ => [x] end
  | x :: r => x :: drop_last_empty r
  end.

Definition parse_http_list (s : str) : list str :=
  let '(p, l) := phl s false false in map py_strip (drop_last_empty (p :: l)).

(* http.parse_list_header *)
Definition parse_list_header (s : str) : list str :=
  map (fun item => if is_quoted item then inner item else item) (parse_http_list s).

(* http.dump_header(list) *)
Definition dump_header_list (l : list str) : str :=
  join [COMMA; SP] (map (quote_header_value true) l).

(* HeaderSet(parse_list_header(value))._headers / HeaderSet.to_header *)
Definition parse_set_header (s : str) : list str :=
  match s with [] => [] | _ => parse_list_header s end.
Definition dump_set_header (l : list str) : str := dump_header_list l.

(* ================================================================== RFC 2231 helpers *)

Definition is_c1 (c : N) : bool := in_ranges c charset_c1_class.
Definition is_lang (c : N) : bool := in_ranges c charset_lang_class.
Definition is_c2 (c : N) : bool := in_ranges c charset_c2_class.

(* _charset_value_re.match(value).groups() *)
Definition charset_match (v : str) : option (str * str) :=
  let cs := take_while is_c1 v in
  match drop_while is_c1 v with
  | q1 :: r1 =>
    if q1 =? SQ then
      match drop_while is_lang r1 with
      | q2 :: r2 =>
        if q2 =? SQ then
          match take_while is_c2 r2 with
          | [] => None
          | val => Some (cs, val)
          end
        else None
      | [] => None
      end
    else None
  | [] => None
  end.

(* urllib.parse._unquote_impl on an ASCII run *)
Fixpoint unquote_bytes (s : bytes) : bytes :=
  match s with
  | [] => []
  | c :: r =>
    if c =? PCT then
      match r with
      | h1 :: r1 =>
        match r1 with
        | h2 :: r2 => if is_hex h1 && is_hex h2 then (16 * hex_val h1 + hex_val h2) :: unquote_bytes r2
                      else c :: unquote_bytes r
        | [] => c :: unquote_bytes r
        end
      | [] => [c]
      end
    else c :: unquote_bytes r
  end.

Inductive charset := CsAscii | CsUtf8 | CsLatin1.
Definition ascii_name : str := [97; 115; 99; 105; 105].
Definition us_ascii_name : str := [117; 115; 45; 97; 115; 99; 105; 105].
Definition utf8_name : str := [117; 116; 102; 45; 56].
Definition latin1_name : str := [105; 115; 111; 45; 56; 56; 53; 57; 45; 49].

(* the codec a name of the allow list stands for; None = the name is not one the model knows *)
Definition charset_of (name : str) : option charset :=
  if list_eqb name ascii_name || list_eqb name us_ascii_name then Some CsAscii
  else if list_eqb name utf8_name then Some CsUtf8
  else if list_eqb name latin1_name then Some CsLatin1
  else None.

(* bytes.decode(encoding, errors=replace) *)
Definition decode_replace (cs : charset) (b : bytes) : str :=
  match cs with
  | CsAscii => map (fun c => if c <? 128 then c else REPL) b
  | CsUtf8 => utf8_decode_replace b
  | CsLatin1 => b
  end.

(* urllib.parse.unquote(s, encoding=cs) : maximal ASCII runs are percent-decoded and decoded
   with errors=replace, other characters are kept.  run = the pending ASCII run *)
Fixpoint unquote_runs (cs : charset) (s : str) (run : bytes) : str :=
  match s with
  | [] => decode_replace cs (unquote_bytes run)
  | c :: r =>
    if c <? 128 then unquote_runs cs r (run ++ [c])
    else decode_replace cs (unquote_bytes run) ++ c :: unquote_runs cs r []
  end.
Definition url_unquote (cs : charset) (s : str) : str :=
  if mem PCT s then unquote_runs cs s [] else s.

(* `encoding in {...}` then unquote(value, encoding=encoding): the allow list comes from the source;
   a name on the list the model has no codec for is an error of the model, reported as KeyError *)
Definition unquote_if_allowed (allowed : list str) (encoding : option str) (v : str) : res (bool * str) :=
  match encoding with
  | None => Ok (false, v)
  | Some e =>
    if str_mem e allowed then
      match charset_of e with
      | Some cs => Ok (true, url_unquote cs v)
      | None => Err KeyError
      end
    else Ok (false, v)
  end.

(* ================================================================== dicts *)

Definition odict := list (str * option str).

(* one iteration of the loop of http.parse_dict_header *)
Definition pdh_item (d : odict) (item : str) : res odict :=
  let '(key, rest) := partition1 EQ item in
  let key := py_strip key in
  match key with
  | [] => Ok d
  | _ =>
    match rest with
    | None => Ok (dict_set key None d)
    | Some value =>
      let value := py_strip value in
      do kl <- last_e key;
      do '(key, value) <-
        (if kl =? STAR then
           let key := removelast key in
           let '(encoding, value) :=
             match charset_match value with
             | Some (enc, v) => (Some (py_lower enc), v)
             | None => (None, value)
             end in
           do '(_, value) <- unquote_if_allowed dict_charsets encoding value;
           Ok (key, value)
         else Ok (key, value));
      let value := if is_quoted value then inner value else value in
      Ok (dict_set key (Some value) d)
    end
  end.

Fixpoint fold_res {A B : Type} (f : A -> B -> res A) (a : A) (l : list B) : res A :=
  match l with
  | [] => Ok a
  | x :: r => do a' <- f a x; fold_res f a' r
  end.

Definition parse_dict_header (s : str) : res odict := fold_res pdh_item [] (parse_list_header s).

(* http.dump_header(dict) *)
Definition dump_item (kv : str * option str) : res str :=
  let '(key, value) := kv in
  match value with
  | None => Ok key
  | Some v =>
    (* key.endswith(STAR) *)
    if last_is STAR key then Ok (key ++ EQ :: v) else Ok (key ++ EQ :: quote_header_value true v)
  end.

Fixpoint map_res {A B : Type} (f : A -> res B) (l : list A) : res (list B) :=
  match l with
  | [] => Ok []
  | x :: r => do y <- f x; do ys <- map_res f r; Ok (y :: ys)
  end.

Definition dump_header_dict (d : odict) : res str :=
  do items <- map_res dump_item d; Ok (join [COMMA; SP] items).

(* ================================================================== option headers *)

Definition is_pkey (c : N) : bool := in_ranges c param_key_class.
Definition is_ptok (c : N) : bool := in_ranges c param_token_class.

(* _parameter_key_re.match(rest): (group 1, rest after the match) *)
Definition key_match (s : str) : option (str * str) :=
  match take_while is_pkey s with
  | [] => None
  | k => match drop_while is_pkey s with
         | c :: r => if c =? EQ then Some (k, r) else None
         | [] => None
         end
  end.

(* the inner `while pos < length` of parse_options_header, started after the opening quote:
   (text between the quotes with its escapes, rest after the closing quote) *)
Fixpoint qscan (s : str) : option (str * str) :=
  match s with
  | [] => None
  | c :: r =>
    match r with
    | d :: r' =>
      if (c =? BS) && ((d =? BS) || (d =? DQ)) then
        match qscan r' with Some (a, b) => Some (c :: d :: a, b) | None => None end
      else if c =? DQ then Some ([], r)
      else match qscan r with Some (a, b) => Some (c :: a, b) | None => None end
    | [] => if c =? DQ then Some ([], []) else None
    end
  end.

(* one round of the `while True` loop: the part collected (if any) and the text find(SEMI) runs on *)
Definition poh_round (rest : str) : option (str * str) * str :=
  match key_match rest with
  | Some (k, r) =>
    let pk := py_lower k in
    match take_while is_ptok r with
    | (_ :: _) as tv => (Some (pk, tv), r)
    | [] =>
      match r with
      | c :: r' =>
        if c =? DQ then
          match qscan r' with
          | Some (content, after) => (Some (pk, DQ :: content ++ [DQ]), after)
          | None => (None, r)
          end
        else (None, r)
      | [] => (None, r)
      end
    end
  | None => (None, rest)
  end.

Definition opt_list {A : Type} (o : option A) : list A := match o with Some x => [x] | None => [] end.

Fixpoint poh_loop (fuel : nat) (rest : str) : res (list (str * str)) :=
  match fuel with
  | O => Err OutOfFuel
  | S f =>
    let '(part, rest1) := poh_round rest in
    match partition1 SEMI rest1 with
    | (_, None) => Ok (opt_list part)
    | (_, Some after) => do l <- poh_loop f (py_lstrip after); Ok (opt_list part ++ l)
    end
  end.

(* _continuation_re.search(pk): the key without its  *digits  suffix *)
Fixpoint continuation_split (pk : str) : option str :=
  match pk with
  | [] => None
  | c :: r =>
    match continuation_split r with
    | Some k => Some (c :: k)
    | None =>
      if c =? STAR then
        match r with
        | [] => None
        | _ => if forallb is_digit r then Some [] else None
        end
      else None
    end
  end.

Definition sdict := list (str * str).
Definition truthy (o : option str) : bool := match o with Some (_ :: _) => true | _ => false end.

(* the second half of the body of `for pk, pv in parts`: unquoting and continuation *)
Definition poh_finish (options : sdict) (x : str * str * option str * option str)
  : res (sdict * option str * option str) :=
  let '(pk, pv, encoding, continued) := x in
  do c0 <- head_e pv;
  do c1 <- last_e pv;
  let pv := if (c0 =? DQ) && (c1 =? DQ)
            then replace3 PCT 50 50 [DQ] (replace2 BS DQ [DQ] (replace2 BS BS [BS] (inner pv)))
            else pv in
  match continuation_split pk with
  | Some k =>
    let old := match dict_get k options with Some o => o | None => [] end in
    Ok (dict_set k (old ++ pv) options, encoding, continued)
  | None => Ok (dict_set pk pv options, encoding, continued)
  end.

(* the body of `for pk, pv in parts` ; state = options, encoding, continued_encoding *)
Definition poh_part (st : sdict * option str * option str) (p : str * str)
  : res (sdict * option str * option str) :=
  let '(options, encoding, continued) := st in
  let '(pk, pv) := p in
  do kl <- last_e pk;
  do x <-
    (if kl =? STAR then
       let pk := removelast pk in
       let '(encoding, pv) :=
         match charset_match pv with
         | Some (enc, v) => (Some (py_lower enc), v)
         | None => (encoding, pv)
         end in
       let encoding := if truthy encoding then encoding else continued in
       do '(hit, pv) <- unquote_if_allowed options_charsets encoding pv;
       Ok (pk, pv, encoding, if hit then encoding else continued)
     else Ok (pk, pv, encoding, continued));
  poh_finish options x.

(* http.parse_options_header(value) for value : str *)
Definition parse_options_header (value : str) : res (str * sdict) :=
  let '(v, rest) := partition1 SEMI value in
  let v := py_strip v in
  let rest := py_strip (match rest with Some r => r | None => [] end) in
  match v, rest with
  | [], _ => Ok (v, [])
  | _, [] => Ok (v, [])
  | _, _ =>
    do parts <- poh_loop (S (length rest)) rest;
    do '(options, _, _) <- fold_res poh_part ([], None, None) parts;
    Ok (v, options)
  end.

(* http.dump_options_header(header, options) with header : str and str values *)
Definition dump_option (kv : str * str) : res str :=
  let '(key, v) := kv in
  if last_is STAR key then Ok (key ++ EQ :: v) else Ok (key ++ EQ :: quote_header_value true v).

Definition dump_options_header (header : str) (options : sdict) : res str :=
  do segs <- map_res dump_option options; Ok (join [SEMI; SP] (header :: segs)).

(* ================================================================== entity tags *)

Record etags := { strong : list str; weak : list str; star : bool }.

(* (?:\s*,\s*|$) at s: the text after the separator, or s itself at the end of the string
   ($ also matches before one final line feed) *)
Definition etag_term (s : str) : option str :=
  match drop_while uni_ws s with
  | c :: r => if c =? COMMA then Some (drop_while uni_ws r)
              else match s with [] => Some [] | [x] => if x =? LF then Some s else None | _ => None end
  | [] => match s with [] => Some [] | [x] => if x =? LF then Some s else None | _ => None end
  end.

(* (.*?) then the terminator; . does not match a line feed *)
Fixpoint etag_raw (s : str) : option (str * str) :=
  match etag_term s with
  | Some rest => Some ([], rest)
  | None =>
    match s with
    | [] => None
    | c :: r => if c =? LF then None
                else match etag_raw r with Some (a, b) => Some (c :: a, b) | None => None end
    end
  end.

(* after the opening quote: (.*?) DQ then the terminator *)
Fixpoint etag_quoted (s : str) : option (str * str) :=
  match s with
  | [] => None
  | c :: r =>
    let continue :=
      if c =? LF then None
      else match etag_quoted r with Some (a, b) => Some (c :: a, b) | None => None end in
    if c =? DQ then match etag_term r with Some rest => Some ([], rest) | None => continue end
    else continue
  end.

(* _etag_re.match(value, pos) on the text from pos: (is_weak, quoted, raw, text from match.end()) *)
Definition etag_match (s : str) : option (bool * option str * option str * str) :=
  let '(w, s1) :=
    match s with
    | c :: r => match r with
                | d :: r' => if ((c =? 87) || (c =? 119)) && (d =? SLASH) then (true, r') else (false, s)
                | [] => (false, s)
                end
    | [] => (false, s)
    end in
  let raw := match etag_raw s1 with
             | Some (t, rest) => Some (w, None, Some t, rest)
             | None => None
             end in
  match s1 with
  | c :: r =>
    if c =? DQ then
      match etag_quoted r with
      | Some (q, rest) => Some (w, Some q, None, rest)
      | None => raw
      end
    else raw
  | [] => raw
  end.

(* the `while pos < end` loop of http.parse_etags; accumulators are in reverse order *)
Fixpoint etags_loop (fuel : nat) (s : str) (st wk : list str) : res etags :=
  match s with
  | [] => Ok {| strong := rev st; weak := rev wk; star := false |}
  | _ =>
    match fuel with
    | O => Err OutOfFuel
    | S f =>
      match etag_match s with
      | None => Ok {| strong := rev st; weak := rev wk; star := false |}
      | Some (w, quoted, raw, rest) =>
        if match raw with Some r => list_eqb r [STAR] | None => false end
        then Ok {| strong := []; weak := []; star := true |}
        else
          match (match quoted with Some q => Some q | None => raw end) with
          | None => Err TypeError
          | Some tag => if w then etags_loop f rest st (tag :: wk) else etags_loop f rest (tag :: st) wk
          end
      end
    end
  end.

Definition parse_etags (value : str) : res etags := etags_loop (S (length value)) value [] [].

(* ETags.to_header (the order of the two lists stands for the iteration order of the frozensets) *)
Definition etags_to_header (e : etags) : str :=
  if star e then [STAR]
  else join [COMMA; SP] (map (fun x => DQ :: x ++ [DQ]) (strong e)
                          ++ map (fun x => 87 :: SLASH :: DQ :: x ++ [DQ]) (weak e)).

(* ETags.__init__ : star drops the strong tags, keeps the weak ones *)
Definition etags_new (st wk : list str) (is_star : bool) : etags :=
  {| strong := if is_star then [] else st; weak := wk; star := is_star |}.

(* http.quote_etag / unquote_etag *)
Definition quote_etag (etag : str) (is_weak : bool) : res str :=
  if mem DQ etag then Err ValueError
  else let q := DQ :: etag ++ [DQ] in Ok (if is_weak then 87 :: SLASH :: q else q).

Definition unquote_etag (etag : str) : option (str * bool) :=
  match etag with
  | [] => None
  | _ =>
    let e := py_strip etag in
    let '(w, e) :=
      match e with
      | c :: (d :: r) => if ((c =? 87) || (c =? 119)) && (d =? SLASH) then (true, r) else (false, e)
      | _ => (false, e)
      end in
    (* etag[:1] == etag[-1:] == DQ *)
    let e := match e with
             | c :: _ => if (c =? DQ) && last_is DQ e then inner e else e
             | [] => e
             end in
    Some (e, w)
  end.

(* ================================================================== Range *)

Record range := { r_units : str; r_ranges : list (Z * option Z) }.

(* datastructures.Range.__init__ : validates *)
Definition range_new (units : str) (ranges : list (Z * option Z)) : res range :=
  if forallb (fun p => match snd p with
                       | Some e => negb ((fst p <? 0)%Z || (e <=? fst p)%Z)
                       | None => true
                       end) ranges
  then Ok {| r_units := units; r_ranges := ranges |}
  else Err ValueError.

Definition range_item_to_str (p : Z * option Z) : res str :=
  let '(b, e) := p in
  match e with
  | None => do s <- str_of_Z b; Ok (if (0 <=? b)%Z then s ++ [DASH] else s)
  | Some e => do s1 <- str_of_Z b; do s2 <- str_of_Z (e - 1)%Z; Ok (s1 ++ DASH :: s2)
  end.

(* Range.to_header *)
Definition range_to_header (r : range) : res str :=
  do items <- map_res range_item_to_str (r_ranges r);
  Ok (r_units r ++ EQ :: join [COMMA] items).

(* the loop body of http.parse_range_header: None = `return None`; the four guards over begin / end / last_end are
   the regenerated prh_guard_* of Gen.v *)
Definition prh_item (st : list (Z * option Z) * Z) (item : str)
  : res (option (list (Z * option Z) * Z)) :=
  let '(ranges, last_end) := st in
  let item := py_strip item in
  if negb (mem DASH item) then Ok None
  else if match item with c :: _ => c =? DASH | [] => false end then
    if prh_guard_suffix_after_open 0 0 last_end then Ok None
    else
      match plain_int item with
      | Err e => if is_value_error e then Ok None else Err e
      | Ok b =>
        if prh_guard_suffix_zero b 0 last_end then Ok None
        else Ok (Some (ranges ++ [(b, None)], (-1)%Z))
      end
  else
    match partition1 DASH item with
    | (_, None) => Err ValueError    (* unpacking item.split(DASH, 1): unreachable, DASH in item *)
    | (begin_str, Some end_str) =>
      let begin_str := py_strip begin_str in
      let end_str := py_strip end_str in
      match plain_int begin_str with
      | Err e => if is_value_error e then Ok None else Err e
      | Ok b =>
        if prh_guard_order b 0 last_end then Ok None
        else
          match end_str with
          | [] => Ok (Some (ranges ++ [(b, None)], (-1)%Z))
          | _ =>
            match plain_int end_str with
            | Err e => if is_value_error e then Ok None else Err e
            | Ok e1 =>
              let e := (e1 + 1)%Z in
              if prh_guard_empty b e last_end then Ok None
              else Ok (Some (ranges ++ [(b, Some e)], e))
            end
          end
      end
    end.

Fixpoint prh_loop (st : list (Z * option Z) * Z) (items : list str)
  : res (option (list (Z * option Z))) :=
  match items with
  | [] => Ok (Some (fst st))
  | it :: r =>
    do o <- prh_item st it;
    match o with
    | None => Ok None
    | Some st' => prh_loop st' r
    end
  end.

(* http.parse_range_header(value) for value : str *)
Definition parse_range_header (value : str) : res (option range) :=
  match partition1 EQ value with
  | (_, None) => Ok None            (* not value or EQ not in value *)
  | (units, Some rng) =>
    let units := py_lower (py_strip units) in
    do o <- prh_loop ([], 0%Z) (split_on COMMA rng);
    match o with
    | None => Ok None
    | Some ranges => do r <- range_new units ranges; Ok (Some r)
    end
  end.

(* ================================================================== Content-Range *)

Record content_range := { c_units : option str; c_start : option Z; c_stop : option Z; c_length : option Z }.

(* ContentRange.set: assert is_byte_range_valid(...) *)
Definition content_range_new (units : option str) (start stop length : option Z) : res content_range :=
  match is_byte_range_valid start stop length with
  | None => Err TypeError
  | Some true => Ok {| c_units := units; c_start := start; c_stop := stop; c_length := length |}
  | Some false => Err AssertionError
  end.

(* ContentRange.to_header *)
Definition content_range_to_header (c : content_range) : res str :=
  match c_units c with
  | None => Ok []
  | Some u =>
    do len <- match c_length c with None => Ok [STAR] | Some l => str_of_Z l end;
    match c_start c with
    | None => Ok (u ++ SP :: STAR :: SLASH :: len)
    | Some st =>
      match c_stop c with
      | None => Err TypeError      (* self._stop - 1 on None *)
      | Some sp => do s1 <- str_of_Z st; do s2 <- str_of_Z (sp - 1)%Z;
                   Ok (u ++ SP :: s1 ++ DASH :: s2 ++ SLASH :: len)
      end
    end
  end.

Definition catch_value_error {A : Type} (r : res A) : res (option A) :=
  match r with
  | Ok a => Ok (Some a)
  | Err e => if is_value_error e then Ok None else Err e
  end.

Definition ibrv (start stop length : option Z) : res bool :=
  match is_byte_range_valid start stop length with Some b => Ok b | None => Err TypeError end.

(* http.parse_content_range_header(value) for value : str *)
Definition parse_content_range_header (value : str) : res (option content_range) :=
  match split_ws1 (py_strip value) with
  | None => Ok None
  | Some (units, rangedef) =>
    match partition1 SLASH rangedef with
    | (_, None) => Ok None
    | (rng, Some length_str) =>
      do ol <- (if list_eqb length_str [STAR] then Ok (Some None)
                else do o <- catch_value_error (plain_int length_str);
                     Ok (match o with Some l => Some (Some l) | None => None end));
      match ol with
      | None => Ok None
      | Some length =>
        if list_eqb rng [STAR] then
          do ok <- ibrv None None length;
          if ok then do c <- content_range_new (Some units) None None length; Ok (Some c) else Ok None
        else
          match partition1 DASH rng with
          | (_, None) => Ok None
          | (start_str, Some stop_str) =>
            do o <- catch_value_error (do a <- plain_int start_str; do b <- plain_int stop_str; Ok (a, (b + 1)%Z));
            match o with
            | None => Ok None
            | Some (start, stop) =>
              do ok <- ibrv (Some start) (Some stop) length;
              if ok then do c <- content_range_new (Some units) (Some start) (Some stop) length; Ok (Some c)
              else Ok None
            end
          end
      end
    end
  end.

(* ================================================================== Age *)

(* int(value) restricted to what the model covers: optional white space, optional sign, ASCII digits
   with single underscores between digits.  Non-ASCII decimal digits (accepted by int) are outside
   the model: the harness keeps them away from this entry point. *)
Fixpoint strip_underscores (s : str) (prev_digit : bool) : option str :=
  match s with
  | [] => if prev_digit then Some [] else None
  | c :: r =>
    if c =? 95 then
      if prev_digit then
        match r with
        | d :: _ => if is_digit d then strip_underscores r false else None
        | [] => None
        end
      else None
    else if is_digit c then option_map (cons c) (strip_underscores r true)
    else None
  end.

(* the white space int() strips: the Unicode spaces above ASCII are mapped to a blank first, below 128 only
   what C isspace accepts counts, so the separators 1C-1F (str.isspace, str.strip) are not stripped *)
Definition int_ws (c : N) : bool := uni_ws c && negb ((28 <=? c) && (c <=? 31)).

Definition py_int (s : str) : res Z :=
  let s := strip int_ws s in
  let '(neg, body) :=
    match s with
    | c :: r => if c =? DASH then (true, r) else if c =? 43 then (false, r) else (false, s)
    | [] => (false, s)
    end in
  match body with
  | c :: _ =>
    if is_digit c then
      match strip_underscores body false with
      | Some ds => do n <- N_of_digits ds; Ok (if neg then (- Z.of_N n)%Z else Z.of_N n)
      | None => Err ValueError
      end
    else Err ValueError
  | [] => Err ValueError
  end.

(* timedelta(seconds=n) overflows beyond 999999999 days *)
Definition MAX_TIMEDELTA_SECONDS : Z := (86400 * 1000000000 - 1)%Z.

(* http.parse_age(value) for value : str ; the timedelta is represented by its number of seconds *)
Definition parse_age (value : str) : res (option Z) :=
  match value with
  | [] => Ok None
  | _ =>
    match py_int value with
    | Err e => if is_value_error e then Ok None else Err e
    | Ok seconds =>
      if (seconds <? 0)%Z then Ok None
      else if (MAX_TIMEDELTA_SECONDS <? seconds)%Z then Ok None   (* except OverflowError *)
      else Ok (Some seconds)
    end
  end.

(* http.dump_age(age) for age : int *)
Definition dump_age (age : Z) : res str :=
  if (age <? 0)%Z then Err ValueError else str_of_Z age.

(* ================================================================== If-Range (etag side) *)

(* IfRange(etag).to_header / parse_if_range_header when parse_date says None *)
Definition if_range_etag_to_header (etag : str) : res str := quote_etag etag false.
Definition parse_if_range_etag (value : str) : option str :=
  match unquote_etag value with Some (e, _) => Some e | None => None end.

(* ================================================================== Content-Security-Policy *)

(* http.dump_csp_header *)
Definition dump_csp (d : sdict) : str :=
  join [SEMI; SP] (map (fun kv => fst kv ++ SP :: snd kv) d).

(* one policy of http.parse_csp_header: (directive, value) when it has a space *)
Definition csp_policy (policy : str) : option (str * str) :=
  let p := py_strip policy in
  if mem SP p then
    match partition1 SP p with
    | (d, Some v) => Some (py_strip d, py_strip v)
    | (_, None) => None
    end
  else None.

(* ContentSecurityPolicy(items): dict(items), later duplicates overwrite in place *)
Definition parse_csp (value : str) : sdict :=
  fold_left (fun d policy => match csp_policy policy with
                             | Some (k, v) => dict_set k v d
                             | None => d
                             end) (split_on SEMI value) [].

(* ================================================================== Cache-Control properties *)

Inductive cc_type := CcBool | CcInt | CcStr.
Inductive cc_value := CvNone | CvBool (b : bool) | CvInt (z : Z) | CvStr (s : str).

(* _CacheControl._get_cache_value(key, empty, type) *)
Definition cc_get (d : odict) (key : str) (empty : cc_value) (ty : cc_type) : cc_value :=
  match ty with
  | CcBool => CvBool (dict_has key d)
  | _ =>
    match dict_get key d with
    | None => CvNone
    | Some None => empty
    | Some (Some v) =>
      match ty with
      | CcInt => match py_int v with Ok z => CvInt z | Err _ => CvNone end
      | _ => CvStr v
      end
    end
  end.

(* _CacheControl._set_cache_value(key, value, type) for a value of the property's own type *)
Definition cc_set (d : odict) (key : str) (v : cc_value) (ty : cc_type) : res odict :=
  match ty, v with
  | CcBool, CvBool true => Ok (dict_set key None d)
  | CcBool, _ => Ok (dict_del key d)
  | _, CvNone => Ok (dict_del key d)
  | _, CvBool false => Ok (dict_del key d)
  | _, CvBool true => Ok (dict_set key None d)
  | _, CvInt z => do s <- str_of_Z z; Ok (dict_set key (Some s) d)
  | CcInt, CvStr s => do z <- py_int s; do s' <- str_of_Z z; Ok (dict_set key (Some s') d)
  | _, CvStr s => Ok (dict_set key (Some s) d)
  end.

(* ================================================================== base64 and the auth serialisers *)

(* base64.b64encode *)
Definition b64_char (v : N) : N :=
  if v <? 26 then 65 + v else if v <? 52 then 71 + v else if v <? 62 then v - 4 else if v =? 62 then 43 else 47.

Fixpoint b64encode (b : bytes) : str :=
  match b with
  | [] => []
  | b0 :: r0 =>
    match r0 with
    | [] => [b64_char (b0 / 4); b64_char ((b0 mod 4) * 16); 61; 61]
    | b1 :: r1 =>
      match r1 with
      | [] => [b64_char (b0 / 4); b64_char ((b0 mod 4) * 16 + b1 / 16); b64_char ((b1 mod 16) * 4); 61]
      | b2 :: r2 =>
        b64_char (b0 / 4) :: b64_char ((b0 mod 4) * 16 + b1 / 16) :: b64_char ((b1 mod 16) * 4 + b2 / 64)
          :: b64_char (b2 mod 64) :: b64encode r2
      end
    end
  end.


Definition s_Basic_sp : str := [66; 97; 115; 105; 99; 32].

(* Authorization(basic, username, password).to_header() *)
Definition basic_to_header (username password : str) : str :=
  s_Basic_sp ++ b64encode (utf8_encode (username ++ COLON :: password)).


(* str.title() on ASCII letters: upper-case after a non-letter, lower-case otherwise *)
Fixpoint title_from (prev_cased : bool) (s : str) : str :=
  match s with
  | [] => []
  | c :: r => (if prev_cased then ascii_lower c else ascii_upper c) :: title_from (is_alpha c) r
  end.
Definition py_title (s : str) : str := title_from false s.


(* Authorization(type, token=token).to_header() *)
Definition token_to_header (scheme token : str) : str := py_title scheme ++ SP :: token.


(* Authorization(type, parameters).to_header() and WWWAuthenticate(type, parameters).to_header() outside Digest *)
Definition params_to_header (scheme : str) (d : odict) : res str :=
  do h <- dump_header_dict d; Ok (py_title scheme ++ SP :: h).

Definition s_Digest_sp : str := [68; 105; 103; 101; 115; 116; 32].
Definition s_digest : str := [100; 105; 103; 101; 115; 116].

(* WWWAuthenticate(digest, parameters).to_header(): realm, domain, nonce, opaque, qop are always quoted
   (the key set is regenerated into digest_quoted_keys) *)
Definition digest_item (kv : str * str) : str :=
  fst kv ++ EQ :: quote_header_value (negb (str_mem (fst kv) digest_quoted_keys)) (snd kv).
Definition www_digest_to_header (d : sdict) : str := s_Digest_sp ++ join [COMMA; SP] (map digest_item d).

(* ================================================================== If-Range *)
Inductive if_range (D : Type) := IrNone | IrEtag (e : str) | IrDate (d : D).
Arguments IrNone {D}. Arguments IrEtag {D} e. Arguments IrDate {D} d.

(* http.parse_if_range_header over any date parser (http.parse_date: email.utils, not modelled) *)
Definition parse_if_range {D : Type} (parse_date : str -> option D) (value : str) : if_range D :=
  match value with
  | [] => IrNone
  | _ => match parse_date value with
         | Some d => IrDate d
         | None => match unquote_etag value with Some (e, _) => IrEtag e | None => IrNone end
         end
  end.

(* ================================================================== HTTP dates, at the level of the UTC field tuple *)

(* weekday 0 = Monday ... 6, month 1..12, as datetime.timetuple() gives them *)
Record date_fields := { f_wday : N; f_day : N; f_mon : N; f_year : N; f_hour : N; f_min : N; f_sec : N }.

Definition wday_names : list str :=
  [[77; 111; 110]; [84; 117; 101]; [87; 101; 100]; [84; 104; 117]; [70; 114; 105]; [83; 97; 116]; [83; 117; 110]].
Definition mon_names : list str :=
  [[74; 97; 110]; [70; 101; 98]; [77; 97; 114]; [65; 112; 114]; [77; 97; 121]; [74; 117; 110];
   [74; 117; 108]; [65; 117; 103]; [83; 101; 112]; [79; 99; 116]; [78; 111; 118]; [68; 101; 99]].

(* %02d / %04d for values that fit the width *)
Definition pad2 (n : N) : str := [48 + n / 10; 48 + n mod 10].
Definition pad4 (n : N) : str := [48 + n / 1000; 48 + (n / 100) mod 10; 48 + (n / 10) mod 10; 48 + n mod 10].

Definition s_GMT : str := [71; 77; 84].

(* email.utils.format_datetime(dt, usegmt=True) on the field tuple of dt *)
Definition format_http_date (f : date_fields) : str :=
  nth (N.to_nat (f_wday f)) wday_names [] ++ [COMMA; SP] ++ pad2 (f_day f) ++ [SP]
  ++ nth (N.to_nat (f_mon f - 1)) mon_names [] ++ [SP] ++ pad4 (f_year f) ++ [SP]
  ++ pad2 (f_hour f) ++ [COLON] ++ pad2 (f_min f) ++ [COLON] ++ pad2 (f_sec f) ++ [SP] ++ s_GMT.

Fixpoint month_index (name : str) (names : list str) (i : N) : option N :=
  match names with
  | [] => None
  | x :: r => if list_eqb (lower name) (lower x) then Some i else month_index name r (i + 1)
  end.

Definition num2 (a b : N) : option N := if is_digit a && is_digit b then Some ((a - 48) * 10 + (b - 48)) else None.

(* email.utils.parsedate_to_datetime restricted to the canonical IMF-fixdate shape
   (the weekday name is ignored, as the library does); None = not of that shape: outside this model *)
Definition parse_http_date (s : str) : option (N * N * N * N * N * N) :=
  match s with
  | _ :: _ :: _ :: c1 :: sp1 :: d1 :: d2 :: sp2 :: m1 :: m2 :: m3 :: sp3 :: y1 :: y2 :: y3 :: y4 :: sp4
      :: h1 :: h2 :: c2 :: i1 :: i2 :: c3 :: s1 :: s2 :: sp5 :: z1 :: z2 :: z3 :: [] =>
    if (c1 =? COMMA) && (sp1 =? SP) && (sp2 =? SP) && (sp3 =? SP) && (sp4 =? SP) && (sp5 =? SP)
       && (c2 =? COLON) && (c3 =? COLON) && list_eqb [z1; z2; z3] s_GMT then
      match num2 d1 d2, month_index [m1; m2; m3] mon_names 1, num2 y1 y2, num2 y3 y4, num2 h1 h2, num2 i1 i2, num2 s1 s2 with
      | Some d, Some mo, Some yh, Some yl, Some h, Some mi, Some se => Some (d, mo, yh * 100 + yl, h, mi, se)
      | _, _, _, _, _, _, _ => None
      end
    else None
  | _ => None
  end.

(* ------------------------------------------------------------------ parse_date on the three HTTP date shapes *)
(* http.parse_date = email.utils.parsedate_to_datetime, modelled on IMF-fixdate (with any zone), RFC 850 and asctime texts;
   anything else is outside this model (None here does not distinguish it from a rejected date: the harness feeds texts of
   the three shapes only).  Result: the six fields as written and the zone offset in minutes. *)

(* str.split() on blanks *)
Fixpoint words_from (s : str) (cur : str) : list str :=
  match s with
  | [] => match cur with [] => [] | _ => [cur] end
  | c :: r => if c =? SP then match cur with [] => words_from r [] | _ => cur :: words_from r [] end
              else words_from r (cur ++ [c])
  end.
Definition words (s : str) : list str := words_from s [].

Definition small_num (ds : str) : option N :=
  match ds with
  | [] => None
  | _ => if (N.of_nat (length ds) <=? 4) && forallb is_digit ds
         then match uint_of_digits ds with Some u => Some (N.of_uint u) | None => None end else None
  end.

(* email._parseaddr._timezones (hhmm, sign) *)
Definition zone_names : list (str * (bool * N)) :=
  [([85; 84], (false, 0)); ([85; 84; 67], (false, 0)); ([71; 77; 84], (false, 0)); ([90], (false, 0));
   ([65; 83; 84], (true, 400)); ([65; 68; 84], (true, 300)); ([69; 83; 84], (true, 500)); ([69; 68; 84], (true, 400));
   ([67; 83; 84], (true, 600)); ([67; 68; 84], (true, 500)); ([77; 83; 84], (true, 700)); ([77; 68; 84], (true, 600));
   ([80; 83; 84], (true, 800)); ([80; 68; 84], (true, 700))].

Definition hhmm_minutes (neg : bool) (v : N) : Z :=
  let m := Z.of_N ((v / 100) * 60 + v mod 100) in if neg then (- m)%Z else m.

Definition all_digits_num (ds : str) : option N :=
  match ds with
  | [] => None
  | _ => if (N.of_nat (length ds) <=? 6) && forallb is_digit ds
         then match uint_of_digits ds with Some u => Some (N.of_uint u) | None => None end else None
  end.

(* the zone word -> offset in minutes: a name of the table, int(word) read as hhmm (sign optional), and UTC for an absent
   or unknown word (the library then returns a naive datetime, which parse_date takes as UTC) *)
Definition zone_minutes (z : str) : option Z :=
  match z with
  | [] => Some 0%Z
  | c :: r =>
    match dict_get (map ascii_upper z) zone_names with
    | Some (neg, v) => Some (hhmm_minutes neg v)
    | None =>
      if (c =? 43) || (c =? DASH) then
        match all_digits_num r with Some v => Some (hhmm_minutes (c =? DASH) v) | None => Some 0%Z end
      else match all_digits_num z with Some v => Some (hhmm_minutes false v) | None => Some 0%Z end
    end
  end.

Definition is_leap (y : N) : bool := (y mod 4 =? 0) && (negb (y mod 100 =? 0) || (y mod 400 =? 0)).
Definition days_in_month (y m : N) : N :=
  if m =? 2 then (if is_leap y then 29 else 28)
  else if (m =? 4) || (m =? 6) || (m =? 9) || (m =? 11) then 30 else 31.

(* datetime(y, mo, d, h, mi, s, tzinfo=timezone(timedelta(minutes=off))) accepts the values *)
Definition datetime_ok (d mo y h mi s : N) (off : Z) : bool :=
  (1 <=? y) && (y <=? 9999) && (1 <=? mo) && (mo <=? 12) && (1 <=? d) && (d <=? days_in_month y mo)
  && (h <? 24) && (mi <? 60) && (s <? 60) && (-1440 <? off)%Z && (off <? 1440)%Z.

Definition pivot_year (y : N) : N := if y <? 100 then (if 68 <? y then y + 1900 else y + 2000) else y.

Definition parse_hms (t : str) : option (N * N * N) :=
  match t with
  | [h1; h2; c1; m1; m2; c2; s1; s2] =>
    if (c1 =? COLON) && (c2 =? COLON) then
      match num2 h1 h2, num2 m1 m2, num2 s1 s2 with Some h, Some m, Some s => Some (h, m, s) | _, _, _ => None end
    else None
  | _ => None
  end.

Definition assemble (dd mon yy tm zone : str) : option (N * N * N * N * N * N * Z) :=
  match small_num dd, month_index mon mon_names 1, small_num yy, parse_hms tm, zone_minutes zone with
  | Some d, Some mo, Some y0, Some (h, mi, s), Some off =>
    let y := pivot_year y0 in
    if (N.of_nat (length mon) =? 3) && datetime_ok d mo y h mi s off
    then Some (d, mo, y, h, mi, s, off) else None
  | _, _, _, _, _ => None
  end.

Definition ends_with_comma (w : str) : bool := last_is COMMA w.

Definition parse_date_shapes (s : str) : option (N * N * N * N * N * N * Z) :=
  match parse_http_date s with
  | Some (d, mo, y, h, mi, se) => if datetime_ok d mo (pivot_year y) h mi se 0 then Some (d, mo, pivot_year y, h, mi, se, 0%Z) else None
  | None =>
    match words s with
    | [wd; dd; mon; yy; tm; zone] => if ends_with_comma wd then assemble dd mon yy tm zone else None          (* IMF, any zone *)
    | [wd; dd; mon; yy; tm] =>
      if ends_with_comma wd then assemble dd mon yy tm []                                                    (* IMF without zone *)
      else if str_mem (lower wd) (map lower wday_names) then assemble mon dd tm yy []                        (* asctime *)
      else assemble wd dd mon yy tm                                                                          (* IMF without weekday *)
    | [wd; dmy; tm; zone] =>                                                                                 (* RFC 850 *)
      if ends_with_comma wd then
        match split_on DASH dmy with [dd; mon; yy] => assemble dd mon yy tm zone | _ => None end
      else None
    | _ => None
    end
  end.

(* ================================================================== driver helpers (decimal text <-> Z without OCaml ints) *)
Definition Z_of_text (s : str) : Z :=
  match s with
  | c :: r => if c =? DASH then match uint_of_digits r with Some u => (- Z.of_N (N.of_uint u))%Z | None => 0%Z end
              else match uint_of_digits s with Some u => Z.of_N (N.of_uint u) | None => 0%Z end
  | [] => 0%Z
  end.
Definition text_of_Z (z : Z) : str :=
  let ds := N_digits (Z.abs_N z) in if (z <? 0)%Z then DASH :: ds else ds.
