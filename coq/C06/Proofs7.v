(* C06 proofs, part 7: the unconditional normal form of entity-tag headers: every tag parse_etags returns re-parses
   from inside quotes, so parse(to_header(parse h)) = parse h for every header text h that parses at all. *)
From Coq Require Import ZArith Lia ZifyBool ZifyN.
From Wz Require Import lib.Bytes lib.BytesFacts C06.LibPy C06.LibPyFacts C06.Gen C06.Model C06.Proofs C06.Proofs2 C07.Proofs.
Open Scope N_scope.

Lemma term_none_head s : etag_term s = None -> comma_head (drop_while uni_ws s) = false.
Proof.
  unfold etag_term. destruct (drop_while uni_ws s) as [|c r]; [reflexivity|]. cbn [comma_head]. destruct (c =? COMMA); [discriminate|reflexivity].
Qed.

Lemma comma_head_app p tail : comma_head (drop_while uni_ws p) = true -> comma_head (drop_while uni_ws (p ++ tail)) = true.
Proof.
  induction p as [|a p IH]; [discriminate|]. cbn [app drop_while]. destruct (uni_ws a); [exact IH|]. exact (fun H => H).
Qed.

Lemma term_none_prefix p tail : etag_term (p ++ tail) = None -> comma_head (drop_while uni_ws p) = false.
Proof.
  intro H. apply term_none_head in H. destruct (comma_head (drop_while uni_ws p)) eqn:E; [|reflexivity].
  rewrite (comma_head_app p tail E) in H. discriminate.
Qed.

Lemma etag_quoted_ok s : forall q rest, etag_quoted s = Some (q, rest) -> tag_ok q = true /\ exists tail, s = q ++ DQ :: tail.
Proof.
  induction s as [|c r IH]; intros q rest H; [discriminate|]. cbn [etag_quoted] in H.
  assert (Hcont : (if c =? LF then None else match etag_quoted r with Some (a, b) => Some (c :: a, b) | None => None end) = Some (q, rest) ->
                  (c =? DQ) = false \/ etag_term r = None -> tag_ok q = true /\ exists tail, c :: r = q ++ DQ :: tail).
  { destruct (c =? LF) eqn:Elf; [discriminate|]. destruct (etag_quoted r) as [[a b]|] eqn:E; [|discriminate]. intro H'. injection H' as <- <-.
    destruct (IH _ _ eq_refl) as [Ha [tail ->]]. intro Hq. split; [|exists tail; reflexivity].
    cbn [tag_ok]. rewrite Elf, Ha. cbn [negb andb]. destruct (c =? DQ); [|reflexivity]. destruct Hq as [Hq|Hq]; [discriminate|].
    rewrite (term_none_prefix a (DQ :: tail) Hq). reflexivity. }
  destruct (c =? DQ) eqn:Ec; [|apply Hcont; [exact H|left; reflexivity]].
  destruct (etag_term r) as [x|] eqn:Et; [|apply Hcont; [exact H|right; reflexivity]].
  injection H as <- <-. apply N.eqb_eq in Ec. subst c. split; [reflexivity|exists r; reflexivity].
Qed.

Lemma etag_raw_ok s : forall t rest, etag_raw s = Some (t, rest) -> tag_ok t = true /\ exists tail, s = t ++ tail.
Proof.
  induction s as [|c r IH]; intros t rest H.
  - cbn [etag_raw] in H. destruct (etag_term []); [|discriminate]. injection H as <- <-. split; [reflexivity|exists []; reflexivity].
  - cbn [etag_raw] in H. destruct (etag_term (c :: r)) as [x|] eqn:Et.
    + injection H as <- <-. split; [reflexivity|exists (c :: r); reflexivity].
    + destruct (c =? LF) eqn:Elf; [discriminate|]. destruct (etag_raw r) as [[a b]|] eqn:Er; [|discriminate]. injection H as <- <-.
      destruct (IH _ _ eq_refl) as [Ha [tail Htail]]. split; [|exists tail; rewrite Htail at 1; reflexivity].
      cbn [tag_ok]. rewrite Elf, Ha. cbn [negb andb]. destruct (c =? DQ); [|reflexivity].
      (* the position after this quote: either the scan stopped there (a = []) or the terminator failed there *)
      cbn [etag_raw] in Er. destruct r as [|d r'].
      * cbn [etag_raw] in Er. destruct (etag_term []); [|discriminate]. injection Er as <- _. reflexivity.
      * cbn [etag_raw] in Er. destruct (etag_term (d :: r')) as [y|] eqn:Et2; [injection Er as <- _; reflexivity|].
        rewrite Htail in Et2. rewrite (term_none_prefix a tail Et2). reflexivity.
Qed.

Lemma etag_core_tag w0 s1 w quoted raw rest : etag_core w0 s1 = Some (w, quoted, raw, rest) ->
  match quoted with Some q => tag_ok q = true | None => match raw with Some t => tag_ok t = true | None => False end end.
Proof.
  unfold etag_core. cbv zeta.
  assert (Hraw : match etag_raw s1 with Some (t, rest0) => Some (w0, @None str, Some t, rest0) | None => None end = Some (w, quoted, raw, rest) ->
                 match quoted with Some q => tag_ok q = true | None => match raw with Some t => tag_ok t = true | None => False end end).
  { destruct (etag_raw s1) as [[t rest0]|] eqn:E; [|discriminate]. intro H. injection H as <- <- <- <-. apply (etag_raw_ok _ _ _ E). }
  destruct s1 as [|c r]; [exact Hraw|]. destruct (c =? DQ); [|exact Hraw].
  destruct (etag_quoted r) as [[q rest0]|] eqn:E; [|exact Hraw]. intro H. injection H as <- <- <- <-. apply (etag_quoted_ok _ _ _ E).
Qed.

Lemma etag_match_tag s w quoted raw rest : etag_match s = Some (w, quoted, raw, rest) ->
  match quoted with Some q => tag_ok q = true | None => match raw with Some t => tag_ok t = true | None => False end end.
Proof.
  intro H. destruct s as [|c [|d r']]; [exact (etag_core_tag false [] _ _ _ _ H)|exact (etag_core_tag false [c] _ _ _ _ H)|].
  change (etag_match (c :: d :: r')) with
    (let '(w1, s1) := if ((c =? 87) || (c =? 119)) && (d =? SLASH) then (true, r') else (false, c :: d :: r') in etag_core w1 s1) in H.
  destruct (((c =? 87) || (c =? 119)) && (d =? SLASH)); exact (etag_core_tag _ _ _ _ _ _ H).
Qed.

Lemma forallb_rev (p : str -> bool) l : forallb p l = true -> forallb p (rev l) = true.
Proof.
  intro H. apply forallb_forall. intros x Hx. apply in_rev in Hx. rewrite forallb_forall in H. apply H. exact Hx.
Qed.

Lemma etags_loop_domain fuel : forall s st wk e, forallb tag_ok st = true -> forallb tag_ok wk = true ->
  etags_loop fuel s st wk = Ok e -> etag_domain e = true.
Proof.
  assert (Hfin : forall st wk, forallb tag_ok st = true -> forallb tag_ok wk = true ->
            etag_domain {| strong := rev st; weak := rev wk; star := false |} = true).
  { intros st wk H1 H2. unfold etag_domain. cbn [star strong weak]. rewrite (forallb_rev _ _ H1), (forallb_rev _ _ H2). reflexivity. }
  induction fuel as [|f IH]; intros s st wk e Hst Hwk H.
  - destruct s; cbn [etags_loop] in H; [|discriminate]. injection H as <-. apply Hfin; assumption.
  - destruct s as [|c r] eqn:Es; [cbn [etags_loop] in H; injection H as <-; apply Hfin; assumption|].
    rewrite <- Es in H. rewrite etags_loop_step in H by (rewrite Es; discriminate).
    destruct (etag_match s) as [[[[w quoted] raw] rest]|] eqn:Em; [|injection H as <-; apply Hfin; assumption].
    pose proof (etag_match_tag _ _ _ _ _ Em) as Htag.
    destruct (match raw with Some r0 => list_eqb r0 [STAR] | None => false end); [injection H as <-; reflexivity|].
    destruct quoted as [q|]; [|destruct raw as [t|]; [|contradiction]]; destruct w;
      (eapply IH; [| |exact H]; cbn [forallb]; try rewrite Htag; assumption).
Qed.

Lemma parse_etags_domain h e : parse_etags h = Ok e -> etag_domain e = true.
Proof. unfold parse_etags. apply etags_loop_domain; reflexivity. Qed.

Lemma etags_normal_form h e : parse_etags h = Ok e -> parse_etags (etags_to_header e) = parse_etags h.
Proof. intro H. rewrite H. apply etags_roundtrip. apply (parse_etags_domain h e H). Qed.
