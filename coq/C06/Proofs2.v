(* C06 proofs, part 2: option headers and entity tags. *)
From Coq Require Import ZArith Lia ZifyBool ZifyN.
From Wz Require Import lib.Bytes lib.BytesFacts lib.Utf8 C06.LibPy C06.LibPyFacts C06.Gen C06.Model C06.Proofs.
Open Scope N_scope.
Ltac Zify.zify_post_hook ::= Z.to_euclidean_division_equations.

Lemma take_while_all (p : N -> bool) s : forallb p s = true -> take_while p s = s.
Proof.
  induction s as [|a s IH]; [reflexivity|]. cbn [forallb take_while]. intro H. apply andb_prop in H.
  destruct H as [Ha Hs]. rewrite Ha, IH by exact Hs. reflexivity.
Qed.

(* ------------------------------------------------------------------ option headers: domain *)
(* keys: lower-case tokens without '*'; values: no literal %22; header: non-empty, no ';', stripped *)
Definition opt_key_ok (k : str) : bool := token k && negb (mem STAR k) && forallb (fun c => negb (is_upper c)) k.
Definition opt_val_ok (v : str) : bool := negb (has_sub3 PCT 50 50 v).
Definition header_ok (h : str) : bool :=
  match h with [] => false | _ => negb (mem SEMI h) && list_eqb (py_strip h) h end.
Definition opt_domain (h : str) (o : sdict) : bool :=
  header_ok h && forallb (fun kv => opt_key_ok (fst kv) && opt_val_ok (snd kv)) o && keys_distinct o.

Definition seg (kv : str * str) : str := fst kv ++ EQ :: quote_header_value true (snd kv).
(* the raw value text parse_options_header collects for a quoted value *)
Definition raw_value (v : str) : str := if as_token v then v else DQ :: esc v ++ [DQ].

Lemma opt_key_facts k : opt_key_ok k = true ->
  k <> [] /\ forallb tchar k = true /\ mem STAR k = false /\ py_lower k = k.
Proof.
  unfold opt_key_ok. intro H. apply andb_prop in H. destruct H as [H Hu]. apply andb_prop in H. destruct H as [Ht Hs].
  apply token_forall in Ht. destruct Ht as [Hne Ht]. apply negb_true_iff in Hs. repeat split; try assumption.
  unfold py_lower. clear Hne Hs. induction k as [|c k IH]; [reflexivity|]. cbn [forallb] in *.
  apply andb_prop in Ht. destruct Ht as [Hc Ht]. apply andb_prop in Hu. destruct Hu as [Hcu Hu].
  cbn [map]. rewrite IH by assumption. f_equal. unfold py_lower_c. apply negb_true_iff in Hcu. rewrite Hcu.
  destruct (tchar_facts c Hc) as (_ & _ & _ & _ & _ & _ & Hb).
  replace ((192 <=? c) && (c <=? 222) && negb (c =? 215)) with false by lia. reflexivity.
Qed.

Lemma dump_options_ok o : forallb (fun kv => opt_key_ok (fst kv) && opt_val_ok (snd kv)) o = true ->
  map_res dump_option o = Ok (map seg o).
Proof.
  induction o as [|[k v] o IH]; [reflexivity|]. cbn [forallb fst snd]. intro H. apply andb_prop in H.
  destruct H as [Hkv Ho]. apply andb_prop in Hkv. destruct Hkv as [Hk _].
  destruct (opt_key_facts k Hk) as (Hne & Ht & Hs & _).
  cbn [map_res dump_option]. destruct (last_e_forall (fun c => negb (c =? STAR)) k Hne) as [c [Hc Hp]].
  { apply mem_false_iff in Hs. eapply forallb_impl; [|exact Hs]. intros x Hx. cbv beta in *. rewrite N.eqb_sym. exact Hx. }
  unfold last_is. rewrite Hc. apply negb_true_iff in Hp. rewrite Hp. cbn [bind]. rewrite IH by exact Ho. reflexivity.
Qed.

(* ------------------------------------------------------------------ the scanner *)
Lemma qscan_other c d r : (c =? BS) = false -> (c =? DQ) = false ->
  qscan (c :: d :: r) = match qscan (d :: r) with Some (a, b) => Some (c :: a, b) | None => None end.
Proof.
  intros H1 H2.
  change (qscan (c :: d :: r)) with
    (if (c =? BS) && ((d =? BS) || (d =? DQ))
     then match qscan r with Some (a, b) => Some (c :: d :: a, b) | None => None end
     else if c =? DQ then Some ([], d :: r)
     else match qscan (d :: r) with Some (a, b) => Some (c :: a, b) | None => None end).
  rewrite H1, H2. reflexivity.
Qed.

Lemma qscan_esc v more : qscan (esc v ++ DQ :: more) = Some (esc v, more).
Proof.
  unfold esc. induction v as [|c v IH].
  - cbn [flat_map app qscan]. destruct more as [|d r]; [reflexivity|]. reflexivity.
  - cbn [flat_map]. rewrite <- app_assoc. unfold esc1 at 1 3. destruct (c =? BS) eqn:E1.
    + apply N.eqb_eq in E1. subst c. cbn [app qscan]. change (BS =? BS) with true. cbn [andb orb].
      rewrite IH. reflexivity.
    + destruct (c =? DQ) eqn:E2.
      * apply N.eqb_eq in E2. subst c. cbn [app qscan]. change (BS =? BS) with true. change (DQ =? BS) with false.
        change (DQ =? DQ) with true. cbn [andb orb]. rewrite IH. reflexivity.
      * cbn [app]. destruct (flat_map esc1 v ++ DQ :: more) as [|d r'] eqn:Et; [destruct (flat_map esc1 v); discriminate|].
        rewrite qscan_other by assumption. rewrite IH. reflexivity.
Qed.

Lemma key_match_seg k rest : k <> [] -> forallb tchar k = true ->
  key_match (k ++ EQ :: rest) = Some (k, rest).
Proof.
  intros Hne Ht. unfold key_match.
  assert (Hk : forallb is_pkey k = true) by (eapply forallb_impl; [|exact Ht]; intros c Hc; apply (tchar_classes c Hc)).
  assert (He : is_pkey EQ = false) by (apply (non_tchar_classes EQ); reflexivity).
  rewrite take_while_app_stop by assumption. rewrite drop_while_app_stop by assumption.
  destruct k; [congruence|]. rewrite N.eqb_refl. reflexivity.
Qed.

(* more = what follows a segment: nothing, or "; " and the next segment *)
Lemma poh_round_seg k v more :
  opt_key_ok k = true -> (more = [] \/ exists m, more = SEMI :: m) ->
  exists tail, poh_round (seg (k, v) ++ more) = (Some (k, raw_value v), tail)
               /\ partition1 SEMI tail = match more with [] => (tail, None) | _ :: m => (if as_token v then v else [], Some m) end.
Proof.
  intros Hk Hmore. destruct (opt_key_facts k Hk) as (Hne & Ht & _ & Hl).
  unfold poh_round, seg. cbn [fst snd]. rewrite <- app_assoc. cbn [app]. rewrite key_match_seg by assumption.
  rewrite Hl. rewrite quote_shape. cbn [andb]. unfold raw_value. destruct (as_token v) eqn:Ev.
  - destruct (as_token_tchars v Ev) as [Hvne Hvt].
    assert (Hp : forallb is_ptok v = true) by (eapply forallb_impl; [|exact Hvt]; intros c Hc; apply (tchar_classes c Hc)).
    assert (Htw : take_while is_ptok (v ++ more) = v).
    { destruct Hmore as [->|[m ->]]; [rewrite app_nil_r; apply take_while_all; exact Hp|].
      apply take_while_app_stop; [exact Hp|]. apply (non_tchar_classes SEMI). reflexivity. }
    rewrite Htw. destruct v as [|v0 v']; [congruence|]. exists ((v0 :: v') ++ more). split; [reflexivity|].
    assert (Hns : mem SEMI (v0 :: v') = false) by (apply (tchars_no SEMI _ Hvt); reflexivity).
    destruct Hmore as [->|[m ->]]; [rewrite app_nil_r; apply partition1_none; exact Hns|].
    apply partition1_app. exact Hns.
  - assert (Htw : take_while is_ptok ((DQ :: esc v ++ [DQ]) ++ more) = []).
    { cbn [app take_while]. replace (is_ptok DQ) with false; [reflexivity|]. symmetry. apply (non_tchar_classes DQ). reflexivity. }
    rewrite Htw. cbn [app]. rewrite N.eqb_refl. rewrite <- app_assoc. cbn [app].
    rewrite qscan_esc. exists more. split; [reflexivity|].
    destruct Hmore as [->|[m ->]]; [reflexivity|]. cbn [partition1]. rewrite N.eqb_refl. reflexivity.
Qed.

Lemma seg_head k v : opt_key_ok k = true -> exists c r, seg (k, v) = c :: r /\ uni_ws c = false.
Proof.
  intro Hk. destruct (opt_key_facts k Hk) as (Hne & Ht & _). destruct k as [|c k]; [congruence|].
  exists c, (k ++ EQ :: quote_header_value true v). split; [reflexivity|].
  cbn [forallb] in Ht. apply andb_prop in Ht. apply (tchar_facts c (proj1 Ht)).
Qed.

Lemma join_seg_head o : o <> [] -> forallb (fun kv => opt_key_ok (fst kv) && opt_val_ok (snd kv)) o = true ->
  exists c r, join [SEMI; SP] (map seg o) = c :: r /\ uni_ws c = false.
Proof.
  destruct o as [|[k v] o]; [congruence|]. intros _ H. cbn [forallb fst] in H. apply andb_prop in H.
  destruct H as [Hkv _]. apply andb_prop in Hkv. destruct (seg_head k v (proj1 Hkv)) as (c & r & Hs & Hw).
  cbn [map]. destruct (map seg o); cbn [join]; rewrite Hs; cbn [app]; eauto.
Qed.

Lemma poh_loop_join o fuel :
  o <> [] -> forallb (fun kv => opt_key_ok (fst kv) && opt_val_ok (snd kv)) o = true -> (length o <= fuel)%nat ->
  poh_loop fuel (join [SEMI; SP] (map seg o)) = Ok (map (fun kv => (fst kv, raw_value (snd kv))) o).
Proof.
  revert fuel. induction o as [|[k v] o IH]; [congruence|]. intros fuel _ H Hf.
  cbn [forallb fst snd] in H. apply andb_prop in H. destruct H as [Hkv Ho]. apply andb_prop in Hkv. destruct Hkv as [Hk _].
  destruct fuel as [|f]; [cbn [length] in Hf; lia|]. cbn [length] in Hf.
  destruct o as [|kv2 o].
  - cbn [map join]. destruct (poh_round_seg k v [] Hk (or_introl eq_refl)) as (tail & Hr & Hp).
    rewrite app_nil_r in Hr. cbn [poh_loop]. rewrite Hr, Hp. reflexivity.
  - change (map seg ((k, v) :: kv2 :: o)) with (seg (k, v) :: seg kv2 :: map seg o). rewrite join_cons2.
    destruct (poh_round_seg k v ([SEMI; SP] ++ join [SEMI; SP] (seg kv2 :: map seg o)) Hk) as (tail & Hr & Hp).
    { right. eexists. reflexivity. }
    cbn [poh_loop]. rewrite Hr, Hp. cbn [app].
    destruct (join_seg_head (kv2 :: o) ltac:(discriminate) Ho) as (c & r & Hj & Hw).
    change (seg kv2 :: map seg o) with (map seg (kv2 :: o)).
    unfold py_lstrip. cbn [drop_while]. change (uni_ws SP) with true. cbv iota. rewrite Hj. cbn [drop_while]. rewrite Hw.
    rewrite <- Hj. rewrite IH; [reflexivity|discriminate|exact Ho|cbn [length] in *; lia].
Qed.

Lemma continuation_none k : mem STAR k = false -> continuation_split k = None.
Proof.
  induction k as [|c k IH]; [reflexivity|]. rewrite mem_cons. intro H. apply orb_false_elim in H. destruct H as [H1 H2].
  cbn [continuation_split]. rewrite IH by exact H2. rewrite N.eqb_sym in H1. rewrite H1. reflexivity.
Qed.

Lemma poh_part_plain acc k v :
  opt_key_ok k = true -> opt_val_ok v = true ->
  poh_part (acc, None, None) (k, raw_value v) = Ok (dict_set k v acc, None, None).
Proof.
  intros Hk Hv. destruct (opt_key_facts k Hk) as (Hne & Ht & Hs & _). unfold poh_part.
  destruct (last_e_forall (fun c => negb (c =? STAR)) k Hne) as [c [Hc Hp]].
  { apply mem_false_iff in Hs. eapply forallb_impl; [|exact Hs]. intros x Hx. cbv beta in *. rewrite N.eqb_sym. exact Hx. }
  rewrite Hc. cbn [bind]. apply negb_true_iff in Hp. rewrite Hp. cbn [bind]. unfold poh_finish.
  rewrite continuation_none by exact Hs. unfold raw_value. destruct (as_token v) eqn:Ev.
  - destruct (as_token_tchars v Ev) as [Hvne Hvt]. destruct v as [|v0 v']; [congruence|].
    cbn [head_e bind]. destruct (last_e_forall tchar _ Hvne Hvt) as [z [Hz _]]. rewrite Hz. cbn [bind].
    cbn [forallb] in Hvt. apply andb_prop in Hvt. destruct (tchar_facts v0 (proj1 Hvt)) as (-> & _). reflexivity.
  - cbn [head_e bind]. change (DQ :: esc v ++ [DQ]) with ((DQ :: esc v) ++ [DQ]). rewrite last_e_app. cbn [bind].
    rewrite N.eqb_refl. cbn [andb]. change ((DQ :: esc v) ++ [DQ]) with (DQ :: esc v ++ [DQ]). rewrite inner_wrap.
    rewrite unescape_esc. rewrite replace3_id; [reflexivity|]. unfold opt_val_ok in Hv. apply negb_true_iff in Hv. exact Hv.
Qed.

Lemma fold_poh acc o :
  forallb (fun kv => opt_key_ok (fst kv) && opt_val_ok (snd kv)) o = true -> keys_distinct (acc ++ o) = true ->
  fold_res poh_part (acc, None, None) (map (fun kv => (fst kv, raw_value (snd kv))) o) = Ok (acc ++ o, None, None).
Proof.
  revert acc. induction o as [|[k v] o IH]; intros acc H Hd; [rewrite app_nil_r; reflexivity|].
  cbn [forallb fst snd] in H. apply andb_prop in H. destruct H as [Hkv Ho]. apply andb_prop in Hkv. destruct Hkv as [Hk Hv].
  cbn [map fold_res fst snd]. rewrite poh_part_plain by assumption. cbn [bind].
  destruct (keys_distinct_app acc k v o Hd) as [Hfresh Hd2]. rewrite dict_set_fresh by exact Hfresh.
  rewrite IH by assumption. rewrite <- app_assoc. reflexivity.
Qed.

Lemma seg_tight k v : opt_key_ok k = true -> tight (seg (k, v)).
Proof.
  intro Hk. destruct (opt_key_facts k Hk) as (Hne & Ht & _). unfold seg. cbn [fst snd].
  apply tight_app_l; [apply tight_tchars; assumption|].
  change (EQ :: quote_header_value true v) with ([EQ] ++ quote_header_value true v). apply tight_app_l.
  - exists EQ, EQ. repeat split; reflexivity.
  - rewrite quote_shape. cbn [andb]. destruct (as_token v) eqn:E; [|apply tight_wrapped].
    destruct (as_token_tchars v E). apply tight_tchars; assumption.
Qed.

Lemma last_e_app_r a b : b <> [] -> last_e (a ++ b) = last_e b.
Proof.
  intro Hb. induction a as [|c a IH]; [reflexivity|]. cbn [app]. rewrite last_e_cons; [exact IH|].
  destruct a; destruct b; try discriminate; congruence.
Qed.

Lemma tight_app_mid a mid b : tight a -> tight b -> tight (a ++ mid ++ b).
Proof.
  intros (x & y & Hx & Hy & Hwx & Hwy) (x' & y' & Hx' & Hy' & Hwx' & Hwy').
  exists x, y'. repeat split; try assumption.
  - destruct a; [discriminate|exact Hx].
  - rewrite app_assoc. rewrite last_e_app_r; [exact Hy'|]. destruct b; discriminate.
Qed.

Lemma join_seg_tight o : o <> [] -> forallb (fun kv => opt_key_ok (fst kv) && opt_val_ok (snd kv)) o = true ->
  tight (join [SEMI; SP] (map seg o)).
Proof.
  induction o as [|[k v] o IH]; [congruence|]. intros _ H. cbn [forallb fst] in H. apply andb_prop in H.
  destruct H as [Hkv Ho]. apply andb_prop in Hkv. destruct Hkv as [Hk _]. destruct o as [|kv2 o].
  - cbn [map join]. apply seg_tight. exact Hk.
  - change (map seg ((k, v) :: kv2 :: o)) with (seg (k, v) :: seg kv2 :: map seg o). rewrite join_cons2.
    apply tight_app_mid; [apply seg_tight; exact Hk|]. apply IH; [discriminate|exact Ho].
Qed.

Lemma match_nonempty2 {A : Type} (v rest : str) (a b : A) : v <> [] -> rest <> [] ->
  match v, rest with [], _ => a | _, [] => a | _, _ => b end = b.
Proof. destruct v; [congruence|]. destruct rest; [congruence|]. reflexivity. Qed.

Lemma options_roundtrip h o : opt_domain h o = true ->
  exists t, dump_options_header h o = Ok t /\ parse_options_header t = Ok (h, o).
Proof.
  unfold opt_domain. intro H. apply andb_prop in H. destruct H as [H Hd]. apply andb_prop in H. destruct H as [Hh Ho].
  assert (Hne : h <> []) by (destruct h; [discriminate|discriminate]).
  assert (Hh2 : mem SEMI h = false /\ py_strip h = h).
  { unfold header_ok in Hh. destruct h; [discriminate|]. apply andb_prop in Hh. destruct Hh as [H1 H2].
    apply negb_true_iff in H1. apply list_eqb_eq in H2. split; assumption. }
  destruct Hh2 as [Hsemi Hstrip].
  unfold dump_options_header. rewrite dump_options_ok by exact Ho. cbn [bind]. eexists. split; [reflexivity|].
  unfold parse_options_header. destruct o as [|kv o].
  - cbn [map join]. rewrite partition1_none by exact Hsemi. rewrite Hstrip. destruct h; [congruence|]. reflexivity.
  - change (h :: map seg (kv :: o)) with (h :: seg kv :: map seg o). rewrite join_cons2. cbn [app].
    rewrite partition1_app by exact Hsemi. rewrite Hstrip.
    change (seg kv :: map seg o) with (map seg (kv :: o)).
    pose proof (join_seg_tight (kv :: o) ltac:(discriminate) Ho) as Ht.
    rewrite tight_sp_strip by exact Ht. apply tight_nonempty in Ht.
    rewrite match_nonempty2 by assumption.
    rewrite poh_loop_join; [|discriminate|exact Ho|].
    + cbn [bind]. rewrite (fold_poh [] (kv :: o) Ho Hd). reflexivity.
    + etransitivity; [|apply le_S, length_join_ge].
      * rewrite map_length. apply le_n.
      * clear - Ho. induction (kv :: o) as [|[k v] l IH]; cbn [map]; constructor.
        -- cbn [forallb fst] in Ho. apply andb_prop in Ho. destruct Ho as [Hkv _]. apply andb_prop in Hkv.
           apply tight_nonempty, seg_tight. exact (proj1 Hkv).
        -- apply IH. cbn [forallb] in Ho. apply andb_prop in Ho. exact (proj2 Ho).
Qed.

(* ------------------------------------------------------------------ entity tags *)
(* a tag that re-parses from inside quotes: no line feed, and no double quote that is followed (after blanks) by a comma.
   Every tag without a double quote is one (simple_tag_ok), and so is every tag parse_etags returns (Proofs7.v). *)
Definition comma_head (s : str) : bool := match s with c :: _ => c =? COMMA | [] => false end.
Fixpoint tag_ok (t : str) : bool :=
  match t with
  | [] => true
  | c :: r => negb (c =? LF) && (if c =? DQ then negb (comma_head (drop_while uni_ws r)) else true) && tag_ok r
  end.
Definition simple_tag (x : str) : bool := negb (mem DQ x) && negb (mem LF x).

Lemma simple_tag_ok x : simple_tag x = true -> tag_ok x = true.
Proof.
  unfold simple_tag. intro H. apply andb_prop in H. destruct H as [H1 H2]. apply negb_true_iff in H1, H2.
  induction x as [|c x IH]; [reflexivity|]. rewrite mem_cons in H1, H2. apply orb_false_elim in H1. apply orb_false_elim in H2.
  destruct H1 as [A1 B1]. destruct H2 as [A2 B2]. cbn [tag_ok]. rewrite N.eqb_sym in A1. rewrite N.eqb_sym in A2. rewrite A1, A2, (IH B1 B2). reflexivity.
Qed.

Lemma term_none_quote x more : comma_head (drop_while uni_ws x) = false -> etag_term (x ++ DQ :: more) = None.
Proof.
  intro H. unfold etag_term.
  assert (Hd : exists c0 r0, drop_while uni_ws (x ++ DQ :: more) = c0 :: r0 /\ (c0 =? COMMA) = false).
  { induction x as [|a x IH]; [exists DQ, more; split; reflexivity|]. cbn [app drop_while] in *. destruct (uni_ws a); [apply IH; exact H|].
    exists a, (x ++ DQ :: more). split; [reflexivity|exact H]. }
  destruct Hd as (c0 & r0 & -> & Hc). rewrite Hc.
  destruct x as [|a [|b x]]; cbn [app]; [destruct more; reflexivity|reflexivity|reflexivity].
Qed.
Definition etag_domain (e : etags) : bool :=
  if star e then match strong e, weak e with [], [] => true | _, _ => false end
  else forallb tag_ok (strong e) && forallb tag_ok (weak e).

Definition rtag (it : str * bool) : str :=
  (if snd it then [87; SLASH] else []) ++ DQ :: fst it ++ [DQ].

Lemma etag_term_nil : etag_term [] = Some [].
Proof. reflexivity. Qed.

Lemma etag_term_sep m c r : m = c :: r -> uni_ws c = false -> etag_term (COMMA :: SP :: m) = Some m.
Proof.
  intros -> Hc. unfold etag_term. cbn [drop_while]. change (uni_ws COMMA) with false. cbv iota.
  rewrite N.eqb_refl. cbn [drop_while]. change (uni_ws SP) with true. cbv iota. rewrite Hc. reflexivity.
Qed.

Lemma etag_quoted_tag x more rest : tag_ok x = true -> etag_term more = Some rest ->
  etag_quoted (x ++ DQ :: more) = Some (x, rest).
Proof.
  intros H Ht. induction x as [|c x IH].
  - cbn [app etag_quoted]. rewrite N.eqb_refl, Ht. reflexivity.
  - cbn [tag_ok] in H. apply andb_prop in H. destruct H as [H Hx]. apply andb_prop in H. destruct H as [Hlf Hq].
    apply negb_true_iff in Hlf. cbn [app etag_quoted]. rewrite Hlf, (IH Hx). destruct (c =? DQ); [|reflexivity].
    apply negb_true_iff in Hq. rewrite (term_none_quote x more Hq). reflexivity.
Qed.

Lemma etag_match_rtag x w more rest : tag_ok x = true -> etag_term more = Some rest ->
  etag_match (rtag (x, w) ++ more) = Some (w, Some x, None, rest).
Proof.
  intros Hx Ht. unfold rtag. cbn [fst snd]. destruct w.
  - cbn [app]. unfold etag_match. change (87 =? 87) with true. change (SLASH =? SLASH) with true. cbn [orb andb].
    rewrite N.eqb_refl. rewrite <- app_assoc. cbn [app]. rewrite (etag_quoted_tag x more rest Hx Ht). reflexivity.
  - cbn [app]. unfold etag_match. rewrite <- app_assoc. cbn [app].
    destruct (x ++ DQ :: more) as [|d r'] eqn:E; [destruct x; discriminate|].
    change (DQ =? 87) with false. change (DQ =? 119) with false. cbn [orb andb]. rewrite N.eqb_refl. rewrite <- E.
    rewrite (etag_quoted_tag x more rest Hx Ht). reflexivity.
Qed.

Definition strongs (items : list (str * bool)) : list str := map fst (filter (fun it => negb (snd it)) items).
Definition weaks (items : list (str * bool)) : list str := map fst (filter (fun it => snd it) items).

Lemma rtag_head it : exists c r, rtag it = c :: r /\ uni_ws c = false.
Proof. destruct it as [x [|]]; unfold rtag; cbn [fst snd app]; eexists; eexists; split; reflexivity. Qed.

Lemma etags_loop_step f s st wk : s <> [] ->
  etags_loop (S f) s st wk =
  match etag_match s with
  | None => Ok {| strong := rev st; weak := rev wk; star := false |}
  | Some (w, quoted, raw, rest) =>
    if match raw with Some r => list_eqb r [STAR] | None => false end
    then Ok {| strong := []; weak := []; star := true |}
    else match (match quoted with Some q => Some q | None => raw end) with
         | None => Err TypeError
         | Some tag => if w then etags_loop f rest st (tag :: wk) else etags_loop f rest (tag :: st) wk
         end
  end.
Proof. destruct s; [congruence|reflexivity]. Qed.

Lemma etags_loop_join items fuel st wk :
  forallb (fun it => tag_ok (fst it)) items = true -> (length items <= fuel)%nat ->
  etags_loop fuel (join [COMMA; SP] (map rtag items)) st wk
  = Ok {| strong := rev st ++ strongs items; weak := rev wk ++ weaks items; star := false |}.
Proof.
  revert fuel st wk. induction items as [|[x w] items IH]; intros fuel st wk H Hf.
  - cbn [map join]. destruct fuel; cbn [etags_loop]; unfold strongs, weaks; cbn [filter map]; rewrite !app_nil_r; reflexivity.
  - cbn [forallb fst] in H. apply andb_prop in H. destruct H as [Hx Hi].
    destruct fuel as [|f]; [cbn [length] in Hf; lia|]. cbn [length] in Hf.
    assert (Hstep : forall more rest, etag_term more = Some rest ->
              etags_loop (S f) (rtag (x, w) ++ more) st wk =
              if w then etags_loop f rest st (x :: wk) else etags_loop f rest (x :: st) wk).
    { intros more rest Ht. rewrite etags_loop_step.
      - rewrite (etag_match_rtag x w more rest Hx Ht). reflexivity.
      - destruct (rtag_head (x, w)) as (c & r & -> & _). discriminate. }
    destruct items as [|it2 items].
    + cbn [map join]. rewrite <- (app_nil_r (rtag (x, w))). rewrite (Hstep [] [] etag_term_nil).
      unfold strongs, weaks. cbn [filter map snd negb fst].
      destruct w; destruct f; cbn [etags_loop filter map negb fst rev]; rewrite ?app_nil_r; reflexivity.
    + change (map rtag ((x, w) :: it2 :: items)) with (rtag (x, w) :: rtag it2 :: map rtag items). rewrite join_cons2.
      change (rtag it2 :: map rtag items) with (map rtag (it2 :: items)).
      assert (Hh : exists c r, join [COMMA; SP] (map rtag (it2 :: items)) = c :: r /\ uni_ws c = false).
      { destruct (rtag_head it2) as (c & r & Hr & Hw). cbn [map]. destruct (map rtag items); cbn [join]; rewrite Hr; cbn [app]; eauto. }
      destruct Hh as (c & r & Hj & Hw). cbn [app].
      rewrite (Hstep _ _ (etag_term_sep _ c r Hj Hw)).
      unfold strongs, weaks. cbn [filter snd]. destruct w; cbn [negb map fst].
      * rewrite IH by (try exact Hi; cbn [length] in *; lia). cbn [rev]. rewrite <- app_assoc. reflexivity.
      * rewrite IH by (try exact Hi; cbn [length] in *; lia). cbn [rev]. rewrite <- app_assoc. reflexivity.
Qed.

Lemma strongs_app a b : strongs (a ++ b) = strongs a ++ strongs b.
Proof. unfold strongs. rewrite filter_app, map_app. reflexivity. Qed.
Lemma weaks_app a b : weaks (a ++ b) = weaks a ++ weaks b.
Proof. unfold weaks. rewrite filter_app, map_app. reflexivity. Qed.

Lemma strongs_of l b : strongs (map (fun x => (x, b)) l) = if b then [] else l.
Proof. unfold strongs. induction l as [|x l IH]; destruct b; cbn [map filter snd negb fst] in *; try reflexivity; try exact IH. f_equal. exact IH. Qed.
Lemma weaks_of l b : weaks (map (fun x => (x, b)) l) = if b then l else [].
Proof. unfold weaks. induction l as [|x l IH]; destruct b; cbn [map filter snd negb fst] in *; try reflexivity; try exact IH. f_equal. exact IH. Qed.

Lemma etags_roundtrip e : etag_domain e = true -> parse_etags (etags_to_header e) = Ok e.
Proof.
  destruct e as [st wk sr]. unfold etag_domain, etags_to_header. cbn [star strong weak]. destruct sr.
  - destruct st; [|discriminate]. destruct wk; [|discriminate]. intros _. vm_compute. reflexivity.
  - intro H. apply andb_prop in H. destruct H as [Hs Hw].
    set (items := map (fun x => (x, false)) st ++ map (fun x => (x, true)) wk).
    assert (Hj : map (fun x => DQ :: x ++ [DQ]) st ++ map (fun x => 87 :: SLASH :: DQ :: x ++ [DQ]) wk = map rtag items).
    { unfold items. rewrite map_app, !map_map. reflexivity. }
    rewrite Hj. unfold parse_etags. rewrite etags_loop_join.
    + unfold items. rewrite strongs_app, weaks_app, !strongs_of, !weaks_of. cbn [rev app]. rewrite app_nil_r. reflexivity.
    + unfold items. rewrite forallb_app. apply andb_true_intro. split.
      * clear - Hs. induction st; cbn [map forallb fst] in *; [reflexivity|]. apply andb_prop in Hs. destruct Hs as [-> Hs]. apply IHst. exact Hs.
      * clear - Hw. induction wk; cbn [map forallb fst] in *; [reflexivity|]. apply andb_prop in Hw. destruct Hw as [-> Hw]. apply IHwk. exact Hw.
    + etransitivity; [|apply le_S, length_join_ge].
      * rewrite map_length. apply le_n.
      * clear. induction items as [|it l IH]; cbn [map]; constructor; [|exact IH].
        destruct (rtag_head it) as (c & r & -> & _). discriminate.
Qed.
