(* C06 proofs, part 5 (F column): Base64 and the Authorization / WWW-Authenticate schemes.
   from_header is the C07 model (C07/Model.v); the serialisers are defined here. *)
From Coq Require Import ZArith Lia ZifyBool ZifyN.
From Wz Require Import lib.Bytes lib.BytesFacts lib.Utf8 lib.Utf8Facts C06.LibPy C06.LibPyFacts C06.Gen C06.Model C06.Proofs C06.Proofs2
  C06.Proofs3 C06.Proofs4 C07.Gen C07.Model.
Open Scope N_scope.
Ltac Zify.zify_post_hook ::= Z.to_euclidean_division_equations.

(* ------------------------------------------------------------------ base64.b64encode *)
Lemma b64_char_sweep :
  forallb (fun v => match b64_val (b64_char v) with Some w => w =? v | None => false end
                    && negb (b64_char v =? 61) && (b64_char v <? 128) && negb (uni_ws (b64_char v)))
          (nat_range 64) = true.
Proof. vm_compute. reflexivity. Qed.

Lemma b64_char_facts v : v < 64 ->
  b64_val (b64_char v) = Some v /\ (b64_char v =? 61) = false /\ (b64_char v <? 128) = true /\ uni_ws (b64_char v) = false.
Proof.
  intro H. pose proof (sweep _ 64 b64_char_sweep v H) as S. cbv beta in S.
  apply andb_prop in S. destruct S as [S S4]. apply andb_prop in S. destruct S as [S S3]. apply andb_prop in S. destruct S as [S1 S2].
  destruct (b64_val (b64_char v)) as [w|]; [|discriminate]. apply N.eqb_eq in S1. subst w.
  apply negb_true_iff in S2. apply negb_true_iff in S4. auto.
Qed.

(* one full quad, from any state at quad position 0 *)
Lemma a2b_quad v0 v1 v2 v3 s l p : v0 < 64 -> v1 < 64 -> v2 < 64 -> v3 < 64 ->
  a2b_base64 (b64_char v0 :: b64_char v1 :: b64_char v2 :: b64_char v3 :: s) 0 l p =
  (do t <- a2b_base64 s 0 0 0; Ok ((v0 * 4 + v1 / 16) :: ((v1 mod 16) * 16 + v2 / 4) :: ((v2 mod 4) * 64 + v3) :: t)).
Proof.
  intros H0 H1 H2 H3.
  destruct (b64_char_facts v0 H0) as (A0 & B0 & _). destruct (b64_char_facts v1 H1) as (A1 & B1 & _).
  destruct (b64_char_facts v2 H2) as (A2 & B2 & _). destruct (b64_char_facts v3 H3) as (A3 & B3 & _).
  cbn [a2b_base64]. rewrite B0, A0. change (0 =? 0) with true. cbv iota.
  rewrite B1, A1. change (1 =? 0) with false. change (1 =? 1) with true. cbv iota.
  rewrite B2, A2. change (2 =? 0) with false. change (2 =? 1) with false. change (2 =? 2) with true. cbv iota.
  rewrite B3, A3. change (3 =? 0) with false. change (3 =? 1) with false. change (3 =? 2) with false. cbv iota.
  destruct (a2b_base64 s 0 0 0); reflexivity.
Qed.

Lemma a2b_pair v0 v1 s l p : v0 < 64 -> v1 < 64 ->
  a2b_base64 (b64_char v0 :: b64_char v1 :: s) 0 l p = (do t <- a2b_base64 s 2 (v1 mod 16) 0; Ok ((v0 * 4 + v1 / 16) :: t)).
Proof.
  intros H0 H1. destruct (b64_char_facts v0 H0) as (A0 & B0 & _). destruct (b64_char_facts v1 H1) as (A1 & B1 & _).
  cbn [a2b_base64]. rewrite B0, A0. change (0 =? 0) with true. cbv iota.
  rewrite B1, A1. change (1 =? 0) with false. change (1 =? 1) with true. cbv iota. reflexivity.
Qed.

Lemma a2b_third v2 s l : v2 < 64 ->
  a2b_base64 (b64_char v2 :: s) 2 l 0 = (do t <- a2b_base64 s 3 (v2 mod 4) 0; Ok ((l * 16 + v2 / 4) :: t)).
Proof.
  intros H2. destruct (b64_char_facts v2 H2) as (A2 & B2 & _).
  cbn [a2b_base64]. rewrite B2, A2. change (2 =? 0) with false. change (2 =? 1) with false. change (2 =? 2) with true. cbv iota. reflexivity.
Qed.

Lemma a2b_pad2 l : a2b_base64 [61; 61] 2 l 0 = Ok [].
Proof. reflexivity. Qed.
Lemma a2b_pad1 l : a2b_base64 [61] 3 l 0 = Ok [].
Proof. reflexivity. Qed.

Lemma b64_roundtrip : forall n b, (length b <= n)%nat -> forallb (fun c => c <? 256) b = true ->
  a2b_base64 (b64encode b) 0 0 0 = Ok b.
Proof.
  induction n as [|n IH]; intros b Hn Hb; [destruct b; [reflexivity|cbn [length] in Hn; lia]|].
  destruct b as [|b0 [|b1 [|b2 r]]]; [reflexivity| | |].
  - cbn [forallb] in Hb. apply andb_prop in Hb. destruct Hb as [H0 _]. cbn [b64encode].
    rewrite a2b_pair by lia. rewrite a2b_pad2. cbn [bind]. f_equal. f_equal. lia.
  - cbn [forallb] in Hb. apply andb_prop in Hb. destruct Hb as [H0 Hb]. apply andb_prop in Hb. destruct Hb as [H1 _].
    cbn [b64encode]. rewrite a2b_pair by lia. rewrite a2b_third by lia. rewrite a2b_pad1. cbn [bind].
    f_equal. f_equal; [lia|]. f_equal. lia.
  - cbn [forallb] in Hb. apply andb_prop in Hb. destruct Hb as [H0 Hb]. apply andb_prop in Hb. destruct Hb as [H1 Hb].
    apply andb_prop in Hb. destruct Hb as [H2 Hr]. cbn [b64encode].
    rewrite a2b_quad by lia. rewrite (IH r) by (try exact Hr; cbn [length] in Hn; lia). cbn [bind].
    f_equal. f_equal; [lia|]. f_equal; [lia|]. f_equal. lia.
Qed.

Definition b64_out_char (c : N) : bool := (c <? 128) && negb (uni_ws c).

Lemma b64encode_chars : forall n b, (length b <= n)%nat -> forallb (fun c => c <? 256) b = true ->
  forallb b64_out_char (b64encode b) = true.
Proof.
  assert (Hc : forall v, v < 64 -> b64_out_char (b64_char v) = true).
  { intros v Hv. destruct (b64_char_facts v Hv) as (_ & _ & A & B). unfold b64_out_char. rewrite A, B. reflexivity. }
  induction n as [|n IH]; intros b Hn Hb; [destruct b; [reflexivity|cbn [length] in Hn; lia]|].
  destruct b as [|b0 [|b1 [|b2 r]]]; [reflexivity| | |]; cbn [forallb] in Hb.
  - apply andb_prop in Hb. destruct Hb as [H0 _]. cbn [b64encode forallb]. rewrite !Hc by lia. reflexivity.
  - apply andb_prop in Hb. destruct Hb as [H0 Hb]. apply andb_prop in Hb. destruct Hb as [H1 _].
    cbn [b64encode forallb]. rewrite !Hc by lia. reflexivity.
  - apply andb_prop in Hb. destruct Hb as [H0 Hb]. apply andb_prop in Hb. destruct Hb as [H1 Hb]. apply andb_prop in Hb. destruct Hb as [H2 Hr].
    cbn [b64encode forallb]. rewrite !Hc by lia. rewrite (IH r) by (try exact Hr; cbn [length] in Hn; lia). reflexivity.
Qed.

Lemma b64encode_nonempty b : b <> [] -> b64encode b <> [].
Proof. destruct b as [|b0 [|b1 [|b2 r]]]; [congruence| | |]; intros _; discriminate. Qed.

(* ------------------------------------------------------------------ Authorization: Basic *)
Lemma utf8_bytes_lt256 t : valid_text t = true -> forallb (fun c => c <? 256) (utf8_encode t) = true.
Proof.
  intro H. apply forallb_forall. intros x Hx. pose proof (utf8_encode_bytes t x H Hx). lia.
Qed.

Lemma basic_roundtrip username password :
  valid_text username = true -> valid_text password = true -> mem COLON username = false ->
  authorization_from_header (basic_to_header username password)
  = Ok (Some {| a_type := s_basic; a_params := [(s_username, Some username); (s_password, Some password)]; a_token := None |}).
Proof.
  intros Hu Hp Hc. set (t := username ++ COLON :: password).
  assert (Ht : valid_text t = true).
  { unfold valid_text, t in *. rewrite forallb_app. cbn [forallb]. rewrite Hu, Hp. reflexivity. }
  pose proof (utf8_bytes_lt256 t Ht) as Hb. set (e := b64encode (utf8_encode t)).
  assert (Hne : utf8_encode t <> []).
  { unfold t. rewrite utf8_encode_app. unfold utf8_encode at 2. cbn [flat_map]. change (enc1 COLON) with [COLON].
    intro E. apply app_eq_nil in E. destruct E as [_ E]. discriminate E. }
  pose proof (b64encode_chars _ _ (le_n _) Hb) as Hch. pose proof (b64encode_nonempty _ Hne) as Hene. fold e in Hch, Hene.
  assert (Hsp : mem SP e = false) by (apply (forallb_mem_false _ SP _ Hch); reflexivity).
  assert (Hstrip : py_strip e = e).
  { apply py_strip_none. eapply forallb_impl; [|exact Hch]. intros c H. unfold b64_out_char in H. apply andb_prop in H. tauto. }
  assert (Hascii : forallb (fun c => c <? 128) e = true).
  { eapply forallb_impl; [|exact Hch]. intros c H. unfold b64_out_char in H. apply andb_prop in H. tauto. }
  unfold basic_to_header. fold t e. unfold authorization_from_header.
  change (s_Basic_sp ++ e) with (66 :: [97; 115; 105; 99] ++ SP :: e). cbv iota.
  unfold scheme_rest. change (66 :: [97; 115; 105; 99] ++ SP :: e) with ([66; 97; 115; 105; 99] ++ SP :: e).
  rewrite partition1_app by reflexivity. rewrite Hstrip.
  change (list_eqb (py_lower [66; 97; 115; 105; 99]) s_basic) with true. cbv iota.
  unfold b64decode. rewrite Hascii. unfold e. rewrite (b64_roundtrip _ _ (le_n _) Hb). cbn [bind].
  unfold decode_utf8. rewrite (utf8_decode_encode t Ht). cbn [bind]. unfold t. rewrite partition1_app by exact Hc. reflexivity.
Qed.

(* ------------------------------------------------------------------ token and parameter schemes *)
(* a scheme name: lower-case ASCII without a blank *)
Definition scheme_ok (s : str) : bool :=
  forallb (fun c => (c <? 128) && negb (is_upper c) && negb (c =? SP)) s.

Lemma lower_title s b : scheme_ok s = true -> py_lower (title_from b s) = s /\ mem SP (title_from b s) = false.
Proof.
  unfold scheme_ok. revert b. induction s as [|c r IH]; intros b H; [split; reflexivity|]. cbn [forallb] in H.
  apply andb_prop in H. destruct H as [Hc Hr]. cbn [title_from py_lower map]. destruct (IH (is_alpha c) Hr) as [I1 I2].
  unfold py_lower in I1. rewrite I1. split.
  - f_equal. unfold py_lower_c, ascii_lower, ascii_upper. destruct b;
      repeat match goal with |- context [if ?x then _ else _] => destruct x eqn:? end; unfold is_upper, is_lower, SP in *; lia.
  - rewrite mem_cons, I2. rewrite orb_false_r. unfold ascii_lower, ascii_upper. destruct b;
      repeat match goal with |- context [if ?x then _ else _] => destruct x eqn:? end; unfold is_upper, is_lower, SP in *; lia.
Qed.

Definition auth_token_ok (tok : str) : bool :=
  list_eqb (py_strip tok) tok && negb (mem EQ (rstrip (fun c => c =? EQ) tok)).

Lemma token_roundtrip scheme tok :
  scheme_ok scheme = true -> negb (list_eqb scheme s_basic) = true -> auth_token_ok tok = true ->
  authorization_from_header (token_to_header scheme tok)
  = Ok (Some {| a_type := scheme; a_params := []; a_token := Some tok |})
  /\ www_authenticate_from_header (token_to_header scheme tok)
  = Ok (Some {| a_type := scheme; a_params := []; a_token := Some tok |}).
Proof.
  intros Hs Hnb Ht. unfold auth_token_ok in Ht. apply andb_prop in Ht. destruct Ht as [Ht1 Ht2].
  apply list_eqb_eq in Ht1. apply negb_true_iff in Ht2. apply negb_true_iff in Hnb.
  destruct (lower_title scheme false Hs) as [Hl Hsp]. fold (py_title scheme) in Hl, Hsp.
  assert (Hsr : scheme_rest (token_to_header scheme tok) = (scheme, tok)).
  { unfold scheme_rest, token_to_header. rewrite partition1_app by exact Hsp. rewrite Hl, Ht1. reflexivity. }
  assert (Hv : token_to_header scheme tok <> []) by (unfold token_to_header; destruct (py_title scheme); discriminate).
  unfold authorization_from_header, www_authenticate_from_header.
  destruct (token_to_header scheme tok) as [|c r] eqn:E; [congruence|]. rewrite Hsr, Hnb.
  unfold auth_params_or_token. rewrite Ht2. split; reflexivity.
Qed.

