(* Facts about the Python primitives of LibPy.v.  Candidate for promotion to coq/lib. *)
From Coq Require Import ZArith Lia ZifyBool ZifyN Decimal DecimalFacts DecimalN.
From Wz Require Import lib.Bytes lib.BytesFacts C06.LibPy.
Open Scope N_scope.
Ltac Zify.zify_post_hook ::= Z.to_euclidean_division_equations.

(* ------------------------------------------------------------------ list_eqb *)
Lemma list_eqb_eq a b : list_eqb a b = true <-> a = b.
Proof.
  split.
  - revert b. induction a as [|x a IH]; destruct b as [|y b]; cbn [list_eqb]; intro H;
      try discriminate; [reflexivity|].
    apply andb_prop in H. destruct H as [Hx Hab]. apply N.eqb_eq in Hx. subst y.
    f_equal. apply IH. exact Hab.
  - intros <-. induction a as [|x a IH]; cbn [list_eqb]; [reflexivity|].
    rewrite N.eqb_refl, IH. reflexivity.
Qed.

Lemma list_eqb_refl a : list_eqb a a = true.
Proof. apply list_eqb_eq. reflexivity. Qed.

Lemma list_eqb_sym a b : list_eqb a b = list_eqb b a.
Proof.
  destruct (list_eqb a b) eqn:E.
  - apply list_eqb_eq in E. subst. symmetry. apply list_eqb_refl.
  - destruct (list_eqb b a) eqn:E2; [|reflexivity].
    apply list_eqb_eq in E2. subst. rewrite list_eqb_refl in E. discriminate.
Qed.

Lemma list_eqb_neq a b : list_eqb a b = false <-> a <> b.
Proof.
  split.
  - intros H ->. rewrite list_eqb_refl in H. discriminate.
  - intro H. destruct (list_eqb a b) eqn:E; [|reflexivity]. apply list_eqb_eq in E. contradiction.
Qed.

(* ------------------------------------------------------------------ mem / forallb *)
Lemma mem_app x a b : mem x (a ++ b) = mem x a || mem x b.
Proof. unfold mem. apply existsb_app. Qed.

Lemma mem_cons x y s : mem x (y :: s) = (x =? y) || mem x s.
Proof. reflexivity. Qed.

Lemma mem_false_iff x s : mem x s = false <-> forallb (fun c => negb (x =? c)) s = true.
Proof.
  unfold mem. induction s as [|a s IH]; cbn [existsb forallb]; [tauto|].
  destruct (x =? a); cbn [orb negb andb]; [split; discriminate|exact IH].
Qed.

Lemma forallb_mem_false (p : N -> bool) x s : forallb p s = true -> p x = false -> mem x s = false.
Proof.
  intros H Hx. apply mem_false_iff. eapply forallb_impl; [|exact H].
  intros c Hc. cbv beta. destruct (x =? c) eqn:E; [|reflexivity]. apply N.eqb_eq in E. subst. congruence.
Qed.

Lemma forallb_app_iff (p : N -> bool) a b : forallb p (a ++ b) = true <-> forallb p a = true /\ forallb p b = true.
Proof. rewrite forallb_app. apply andb_true_iff. Qed.

(* ------------------------------------------------------------------ last_e / inner / is_quoted *)
Lemma last_e_app s x : last_e (s ++ [x]) = Ok x.
Proof.
  induction s as [|a s IH]; cbn [app last_e]; [reflexivity|].
  destruct (s ++ [x]) eqn:E; [destruct s; discriminate|]. exact IH.
Qed.

Lemma last_e_cons a s : s <> [] -> last_e (a :: s) = last_e s.
Proof. destruct s; [congruence|reflexivity]. Qed.

Lemma last_is_app x s : last_is x (s ++ [x]) = true.
Proof. unfold last_is. rewrite last_e_app. apply N.eqb_refl. Qed.

Lemma last_e_forall (p : N -> bool) s : s <> [] -> forallb p s = true -> exists c, last_e s = Ok c /\ p c = true.
Proof.
  induction s as [|a s IH]; [congruence|]. intros _ H. cbn [forallb] in H. apply andb_prop in H. destruct H as [Ha Hs].
  destruct s as [|b s]; [exists a; split; [reflexivity|exact Ha]|].
  destruct (IH ltac:(discriminate) Hs) as [c [Hc Hp]]. exists c. split; [|exact Hp]. exact Hc.
Qed.

Lemma inner_wrap x s y : inner (x :: s ++ [y]) = s.
Proof. unfold inner. cbn [tl]. apply removelast_last. Qed.

Lemma is_quoted_wrap s : is_quoted (DQ :: s ++ [DQ]) = true.
Proof.
  unfold is_quoted. destruct (s ++ [DQ]) eqn:E; [destruct s; discriminate|]. rewrite <- E.
  rewrite N.eqb_refl, last_is_app. reflexivity.
Qed.

Lemma is_quoted_head s c r : s = c :: r -> (c =? DQ) = false -> is_quoted s = false.
Proof. intros -> H. unfold is_quoted. destruct r; [reflexivity|]. rewrite H. reflexivity. Qed.

(* ------------------------------------------------------------------ replace *)
Lemma replace2_skip a b r x s : (x =? a) = false -> replace2 a b r (x :: s) = x :: replace2 a b r s.
Proof. intro H. cbn [replace2]. destruct s as [|y t]; [reflexivity|]. rewrite H. reflexivity. Qed.

Lemma replace2_hit a b r s : replace2 a b r (a :: b :: s) = r ++ replace2 a b r s.
Proof. cbn [replace2]. rewrite !N.eqb_refl. reflexivity. Qed.

Lemma replace2_a_not_b a b r s :
  match s with y :: _ => (y =? b) = false | [] => True end ->
  replace2 a b r (a :: s) = a :: replace2 a b r s.
Proof.
  intro H. cbn [replace2]. destruct s as [|y t]; [reflexivity|]. rewrite H, andb_false_r. reflexivity.
Qed.

Fixpoint has_sub3 (a b c : N) (s : str) : bool :=
  match s with
  | x :: ((y :: (z :: _)) as tl) => ((x =? a) && (y =? b) && (z =? c)) || has_sub3 a b c tl
  | _ => false
  end.

Lemma replace3_id a b c r s : has_sub3 a b c s = false -> replace3 a b c r s = s.
Proof.
  induction s as [|x s IH]; [reflexivity|]. intro H.
  destruct s as [|y s]; [reflexivity|]. destruct s as [|z s]; [reflexivity|].
  cbn [has_sub3] in H. apply orb_false_elim in H. destruct H as [H1 H2].
  cbn [replace3]. rewrite H1. f_equal. apply IH. exact H2.
Qed.

(* ------------------------------------------------------------------ strip *)
Lemma py_strip_ends a m z : uni_ws a = false -> uni_ws z = false -> py_strip (a :: m ++ [z]) = a :: m ++ [z].
Proof. apply strip_ends. Qed.

Lemma py_strip_none s : forallb (fun c => negb (uni_ws c)) s = true -> py_strip s = s.
Proof. apply strip_none. Qed.

Lemma strip_first_last (p : N -> bool) s a z :
  head_e s = Ok a -> last_e s = Ok z -> p a = false -> p z = false -> strip p s = s.
Proof.
  intros Ha Hz Hpa Hpz. destruct s as [|x s]; [discriminate|]. cbn [head_e] in Ha. injection Ha as ->.
  destruct s as [|y s].
  - cbn [last_e] in Hz. unfold strip. cbn [drop_while rstrip]. rewrite Hpa. cbn [rstrip]. rewrite Hpa. reflexivity.
  - assert (Hl : exists m, y :: s = m ++ [z]).
    { clear Hpa. revert y Hz. induction s as [|w s IH]; intros y Hz.
      - cbn [last_e] in Hz. injection Hz as ->. exists []. reflexivity.
      - rewrite last_e_cons in Hz by discriminate. rewrite last_e_cons in Hz by discriminate.
        destruct (IH w) as [m Hm].
        { rewrite last_e_cons by discriminate. destruct s; [exact Hz|]. exact Hz. }
        exists (y :: m). rewrite Hm. reflexivity. }
    destruct Hl as [m Hm]. rewrite Hm. apply strip_ends; assumption.
Qed.

(* ------------------------------------------------------------------ partition1 / split_on / join *)
Lemma partition1_none x s : mem x s = false -> partition1 x s = (s, None).
Proof.
  induction s as [|a s IH]; [reflexivity|]. rewrite mem_cons. intro H. apply orb_false_elim in H.
  destruct H as [H1 H2]. cbn [partition1]. rewrite H1, (IH H2). reflexivity.
Qed.

Lemma partition1_app x k r : mem x k = false -> partition1 x (k ++ x :: r) = (k, Some r).
Proof. intro H. apply partition1_app_stop. apply mem_false_iff. exact H. Qed.

Lemma split_on_no c s : mem c s = false -> split_on c s = [s].
Proof.
  induction s as [|a s IH]; [reflexivity|]. rewrite mem_cons. intro H. apply orb_false_elim in H.
  destruct H as [H1 H2]. cbn [split_on]. rewrite N.eqb_sym in H1. rewrite H1, (IH H2). reflexivity.
Qed.

Lemma split_on_app c k r : mem c k = false -> split_on c (k ++ c :: r) = k :: split_on c r.
Proof.
  induction k as [|a k IH]; cbn [app].
  - intros _. cbn [split_on]. rewrite N.eqb_refl. reflexivity.
  - rewrite mem_cons. intro H. apply orb_false_elim in H. destruct H as [H1 H2].
    cbn [split_on]. rewrite N.eqb_sym in H1. rewrite H1, (IH H2). reflexivity.
Qed.

Lemma join_cons2 sep x y r : join sep (x :: y :: r) = x ++ sep ++ join sep (y :: r).
Proof. reflexivity. Qed.

Lemma split_on_join c l :
  l <> [] -> Forall (fun s => mem c s = false) l -> split_on c (join [c] l) = l.
Proof.
  induction l as [|x l IH]; [congruence|]. intros _ H. inversion H as [|? ? Hx Hl]; subst.
  destruct l as [|y l]; [cbn [join]; apply split_on_no; exact Hx|].
  rewrite join_cons2. cbn [app]. rewrite split_on_app by exact Hx. f_equal. apply IH; [discriminate|exact Hl].
Qed.

Lemma length_join_ge sep (l : list str) :
  Forall (fun s => s <> []) l -> (length l <= length (join sep l))%nat.
Proof.
  induction l as [|x l IH]; [cbn; lia|]. intro H. inversion H as [|? ? Hx Hl]; subst.
  destruct l as [|y l].
  - cbn [join length]. destruct x; [congruence|cbn [length]; lia].
  - rewrite join_cons2, !app_length. specialize (IH Hl). destruct x; [congruence|]. cbn [length] in *. lia.
Qed.

(* ------------------------------------------------------------------ dict *)
Section DictFacts.
  Context {V : Type}.
  Implicit Types d : list (str * V).

  Lemma dict_get_app_none k d1 d2 : dict_get k d1 = None -> dict_get k (d1 ++ d2) = dict_get k d2.
  Proof.
    induction d1 as [|[k' v'] d1 IH]; [reflexivity|]. cbn [dict_get app].
    destruct (list_eqb k k'); [discriminate|]. exact IH.
  Qed.

  Lemma dict_set_fresh k v d : dict_has k d = false -> dict_set k v d = d ++ [(k, v)].
  Proof.
    unfold dict_has. induction d as [|[k' v'] d IH]; [reflexivity|]. cbn [dict_get dict_set app].
    destruct (list_eqb k k'); [discriminate|]. intro H. rewrite (IH H). reflexivity.
  Qed.

  Lemma dict_has_app k d1 d2 : dict_has k (d1 ++ d2) = dict_has k d1 || dict_has k d2.
  Proof.
    unfold dict_has. induction d1 as [|[k' v'] d1 IH]; [reflexivity|]. cbn [dict_get app].
    destruct (list_eqb k k'); [reflexivity|]. exact IH.
  Qed.

  Lemma keys_distinct_app d1 k v d2 :
    keys_distinct (d1 ++ (k, v) :: d2) = true -> dict_has k d1 = false /\ keys_distinct ((d1 ++ [(k, v)]) ++ d2) = true.
  Proof.
    intro H. split.
    - induction d1 as [|[k' v'] d1 IH]; [reflexivity|]. cbn [app keys_distinct] in H.
      apply andb_prop in H. destruct H as [H1 H2]. unfold dict_has. cbn [dict_get].
      rewrite dict_has_app in H1. cbn [negb] in H1. apply negb_true_iff in H1. apply orb_false_elim in H1.
      destruct H1 as [_ H1]. unfold dict_has in H1. cbn [dict_get] in H1.
      rewrite list_eqb_sym. destruct (list_eqb k' k); [discriminate|]. apply IH. exact H2.
    - rewrite <- app_assoc. exact H.
  Qed.
End DictFacts.

(* ------------------------------------------------------------------ decimal *)
Lemma uint_of_digits_of_uint u : uint_of_digits (digits_of_uint u) = Some u.
Proof. induction u; cbn [digits_of_uint uint_of_digits]; try rewrite IHu; reflexivity. Qed.

Lemma digits_are_digits u : forallb is_digit (digits_of_uint u) = true.
Proof. induction u; cbn [digits_of_uint forallb]; try rewrite IHu; reflexivity. Qed.

Lemma to_uint_nonnil n : N.to_uint n <> Nil.
Proof.
  intro H. pose proof (Unsigned.to_of (N.to_uint n)) as E. rewrite Unsigned.of_to in E.
  rewrite H in E. cbn in E. discriminate.
Qed.

Lemma N_digits_nonempty n : N_digits n <> [].
Proof.
  unfold N_digits. pose proof (to_uint_nonnil n) as H. destruct (N.to_uint n); [congruence| | | | | | | | | |];
    cbn [digits_of_uint]; discriminate.
Qed.

Lemma N_digits_digits n : forallb is_digit (N_digits n) = true.
Proof. apply digits_are_digits. Qed.

Lemma N_of_digits_unfold ds : ds <> [] ->
  N_of_digits ds = match uint_of_digits ds with
                   | None => Err ValueError
                   | Some u => if MAX_STR_DIGITS <? N.of_nat (length ds) then Err ValueError else Ok (N.of_uint u)
                   end.
Proof. destruct ds; [congruence|reflexivity]. Qed.

Lemma N_of_digits_N_digits n :
  (N.of_nat (length (N_digits n)) <=? MAX_STR_DIGITS) = true -> N_of_digits (N_digits n) = Ok n.
Proof.
  intro H. rewrite N_of_digits_unfold by apply N_digits_nonempty. unfold N_digits at 1.
  rewrite uint_of_digits_of_uint.
  replace (MAX_STR_DIGITS <? N.of_nat (length (N_digits n))) with false by lia.
  rewrite Unsigned.of_to. reflexivity.
Qed.

Lemma digit_facts c : is_digit c = true -> uni_ws c = false /\ (c =? DASH) = false /\ (c =? COMMA) = false
  /\ (c =? SLASH) = false /\ (c =? STAR) = false /\ (c =? 95) = false /\ (c =? 43) = false /\ (c =? EQ) = false.
Proof. unfold is_digit, uni_ws, DASH, COMMA, SLASH, STAR, EQ. lia. Qed.

Lemma digits_no (x : N) s : forallb is_digit s = true -> is_digit x = false -> mem x s = false.
Proof. apply forallb_mem_false. Qed.

Lemma digits_strip s : forallb is_digit s = true -> py_strip s = s.
Proof.
  intro H. apply py_strip_none. eapply forallb_impl; [|exact H]. intros c Hc. cbv beta.
  destruct (digit_facts c Hc) as [-> _]. reflexivity.
Qed.

(* what str(z) looks like when it does not raise *)
Lemma str_of_Z_ok z s : str_of_Z z = Ok s ->
  (N.of_nat (length (N_digits (Z.abs_N z))) <=? MAX_STR_DIGITS) = true /\
  s = (if (z <? 0)%Z then DASH :: N_digits (Z.abs_N z) else N_digits (Z.abs_N z)).
Proof.
  unfold str_of_Z. destruct (MAX_STR_DIGITS <? _) eqn:E; [discriminate|]. intro H. injection H as <-.
  split; [lia|reflexivity].
Qed.

Lemma plain_int_str_of_Z z s : str_of_Z z = Ok s -> plain_int s = Ok z.
Proof.
  intro H. apply str_of_Z_ok in H. destruct H as [Hlen ->].
  pose proof (N_digits_digits (Z.abs_N z)) as Hd. pose proof (N_digits_nonempty (Z.abs_N z)) as Hne.
  unfold plain_int. destruct (z <? 0)%Z eqn:Hz.
  - assert (Hs : py_strip (DASH :: N_digits (Z.abs_N z)) = DASH :: N_digits (Z.abs_N z)).
    { destruct (last_e_forall is_digit _ Hne Hd) as [c [Hc Hpc]].
      apply (strip_first_last uni_ws _ DASH c); [reflexivity| |reflexivity|].
      - rewrite last_e_cons by exact Hne. exact Hc.
      - apply (digit_facts c Hpc). }
    rewrite Hs. rewrite N.eqb_refl. rewrite N_of_digits_N_digits by exact Hlen. cbn [bind]. f_equal. lia.
  - rewrite digits_strip by exact Hd. pose proof (N_of_digits_N_digits _ Hlen) as Hn.
    destruct (N_digits (Z.abs_N z)) as [|c r] eqn:E; [congruence|].
    assert (Hc : is_digit c = true) by (cbn [forallb] in Hd; apply andb_prop in Hd; tauto).
    destruct (digit_facts c Hc) as [_ [-> _]]. rewrite Hn.
    cbn [bind]. f_equal. lia.
Qed.

Lemma str_of_Z_nonneg_digits z s : str_of_Z z = Ok s -> (0 <= z)%Z -> forallb is_digit s = true /\ s <> [].
Proof.
  intros H Hz. apply str_of_Z_ok in H. destruct H as [_ ->]. replace (z <? 0)%Z with false by lia.
  split; [apply N_digits_digits|apply N_digits_nonempty].
Qed.

Lemma str_of_Z_neg z s : str_of_Z z = Ok s -> (z < 0)%Z ->
  exists ds, s = DASH :: ds /\ forallb is_digit ds = true /\ ds <> [].
Proof.
  intros H Hz. apply str_of_Z_ok in H. destruct H as [_ ->]. replace (z <? 0)%Z with true by lia.
  eexists. split; [reflexivity|]. split; [apply N_digits_digits|apply N_digits_nonempty].
Qed.

(* ------------------------------------------------------------------ the monad *)
Lemma bind_ok {A B} (r : res A) (f : A -> res B) b : bind r f = Ok b -> exists a, r = Ok a /\ f a = Ok b.
Proof. destruct r as [a|e]; [|discriminate]. intro H. exists a. split; [reflexivity|exact H]. Qed.
