(* C06 property theorems.  Nothing but statements, each closed by `exact <lemma>.`, with
   Print Assumptions beneath.  Definitions: C06/Model.v, C06/LibPy.v (tables: C06/Gen.v, regenerated);
   domains: C06/Proofs*.v.  str = list N (code points), Ok/Err = the exception monad. *)
From Coq Require Import ZArith.
From Wz Require Import lib.Bytes lib.Utf8 C06.LibPy C06.Gen C06.Model C06.Proofs C06.Proofs2 C06.Proofs3 C06.Proofs4 C07.Gen C07.Model C06.Proofs5 C06.Proofs6 C06.ProofsQuoted C06.ProofsAuth C07.Proofs C06.Proofs7.
Open Scope N_scope.

(* the regex texts the hand-written matchers stand for are those of the current source *)
Theorem C06_patterns_pinned :
  list_eqb etag_re_text [40; 91; 87; 119; 93; 47; 41; 63; 40; 63; 58; 34; 40; 46; 42; 63; 41; 34; 124; 40; 46; 42; 63; 41; 41; 40; 63; 58; 92; 115; 42; 44; 92; 115; 42; 124; 36; 41]
  && (etag_re_flags =? 0)
  && list_eqb parameter_key_re_text [40; 91; 92; 119; 33; 35; 36; 37; 38; 39; 42; 43; 92; 45; 46; 94; 96; 124; 126; 93; 43; 41; 61]
  && (parameter_key_re_flags =? 256)
  && list_eqb parameter_token_value_re_text [91; 92; 119; 33; 35; 36; 37; 38; 39; 42; 43; 92; 45; 46; 94; 96; 124; 126; 93; 43]
  && (parameter_token_value_re_flags =? 256)
  && list_eqb charset_value_re_text [40; 91; 92; 119; 33; 35; 36; 37; 38; 42; 43; 92; 45; 46; 94; 96; 124; 126; 93; 42; 41; 39; 91; 92; 119; 33; 35; 36; 37; 38; 42; 43; 92; 45; 46; 94; 96; 124; 126; 93; 42; 39; 40; 91; 92; 119; 33; 35; 36; 37; 38; 39; 42; 43; 92; 45; 46; 94; 96; 124; 126; 93; 43; 41]
  && (charset_value_re_flags =? 320)
  && list_eqb continuation_re_text [92; 42; 40; 92; 100; 43; 41; 36] && (continuation_re_flags =? 256)
  && list_eqb plain_int_re_text [45; 63; 92; 100; 43] && (plain_int_re_flags =? 256)
  && list_eqb q_value_re_text [45; 63; 92; 100; 43; 40; 92; 46; 92; 100; 43; 41; 63] && (q_value_re_flags =? 256) = true.
Proof. exact patterns_pinned. Qed.
Print Assumptions C06_patterns_pinned.

(* _token_chars and the key / token-value classes of the parameter regexes are exactly RFC 9110 tchar
   (128-value sweep over the regenerated tables; none of them holds a code point >= 128) *)
Theorem C06_token_tables : forall c,
  (tchar c = true -> is_token_char c = true /\ is_pkey c = true /\ is_ptok c = true) /\
  (tchar c = false -> is_token_char c = false /\ is_pkey c = false /\ is_ptok c = false).
Proof. exact (fun c => conj (tchar_classes c) (non_tchar_classes c)). Qed.
Print Assumptions C06_token_tables.

(* quoted strings: every text, either quoting mode *)
Theorem C06_quote : forall allow_token v, unquote_header_value (quote_header_value allow_token v) = v.
Proof. exact quote_roundtrip. Qed.
Print Assumptions C06_quote.

(* comma lists and header sets: every list of texts *)
Theorem C06_list : forall l, parse_list_header (dump_header_list l) = l.
Proof. exact list_roundtrip. Qed.
Print Assumptions C06_list.

Theorem C06_set : forall l, parse_set_header (dump_set_header l) = l.
Proof. exact set_roundtrip. Qed.
Print Assumptions C06_set.

(* key=value dictionaries: token keys free of '*', any values (or none), insertion order kept *)
Theorem C06_dict : forall d, dict_domain d = true ->
  exists h, dump_header_dict d = Ok h /\ parse_dict_header h = Ok d.
Proof. exact dict_roundtrip. Qed.
Print Assumptions C06_dict.
Example C06_dict_inhabited :
  dict_domain [([97], Some [98; 32; 34; 92]); ([99; 45; 100], None); ([101], Some [])] = true.
Proof. vm_compute. reflexivity. Qed.
Print Assumptions C06_dict_inhabited.

(* option headers: stripped header without ';', lower-case token keys free of '*', values without a literal %22 *)
Theorem C06_options : forall h o, opt_domain h o = true ->
  exists t, dump_options_header h o = Ok t /\ parse_options_header t = Ok (h, o).
Proof. exact options_roundtrip. Qed.
Print Assumptions C06_options.
Example C06_options_inhabited :
  opt_domain [116; 47; 104] [([110; 97; 109; 101], [97; 34; 98; 92; 59; 32; 233]); ([99], [117; 116; 102; 45; 56]); ([101], [])] = true.
Proof. vm_compute. reflexivity. Qed.
Print Assumptions C06_options_inhabited.

(* entity tags: strong and weak tags that are tag_ok (no line feed, no double quote followed after blanks by a comma; every tag
   without a double quote is one: C06_etags_simple_domain), empty ones included, or the star tag *)
Theorem C06_etags : forall e, etag_domain e = true -> parse_etags (etags_to_header e) = Ok e.
Proof. exact etags_roundtrip. Qed.
Print Assumptions C06_etags.
Example C06_etags_inhabited :
  etag_domain {| strong := [[97]; [44; 32; 87; 47]]; weak := [[98; 233]]; star := false |} = true
  /\ etag_domain {| strong := []; weak := []; star := true |} = true.
Proof. split; vm_compute; reflexivity. Qed.
Print Assumptions C06_etags_inhabited.

(* Range: whenever the serialiser returns (str(int) stays within 4300 digits), the parser inverts it.
   Domain: units fixed by strip+lower and free of '=', at least one range, closed ranges ascending and
   non-overlapping with 0 <= start < stop, optionally ended by one open or suffix range. *)
Theorem C06_range_partial : forall r h, range_domain r = true -> range_to_header r = Ok h ->
  parse_range_header h = Ok (Some r).
Proof. exact range_roundtrip. Qed.
Print Assumptions C06_range_partial.
Example C06_range_inhabited :
  let r := {| r_units := [98; 121; 116; 101; 115]; r_ranges := [(0, Some 10); (10, Some 12); (500, None)]%Z |} in
  let s := {| r_units := [98; 121; 116; 101; 115]; r_ranges := [(-5, None)]%Z |} in
  range_domain r = true /\ range_domain s = true /\ (exists h, range_to_header r = Ok h) /\ (exists h, range_to_header s = Ok h).
Proof. repeat split; try (vm_compute; reflexivity); eexists; vm_compute; reflexivity. Qed.
Print Assumptions C06_range_inhabited.
(* the statement over every multi-range with 0 <= start < stop is false: unordered ranges are written
   but not read back (the guard of C06_range_partial excludes exactly those) *)
Theorem C06_range_refuted :
  exists r h, range_new (r_units r) (r_ranges r) = Ok r /\ range_to_header r = Ok h /\ parse_range_header h = Ok None.
Proof. exact range_unordered_refuted. Qed.
Print Assumptions C06_range_refuted.

(* Content-Range: every object the constructor accepts (valid for its length, per the regenerated
   is_byte_range_valid) with non-empty units free of white space *)
Theorem C06_content_range : forall u st sp len c h,
  cr_units_ok u = true -> content_range_new (Some u) st sp len = Ok c -> content_range_to_header c = Ok h ->
  parse_content_range_header h = Ok (Some c).
Proof. exact content_range_roundtrip. Qed.
Print Assumptions C06_content_range.
Example C06_content_range_inhabited :
  cr_units_ok [98; 121] = true /\
  (exists c h, content_range_new (Some [98; 121]) (Some 0%Z) (Some 10%Z) (Some 20%Z) = Ok c /\ content_range_to_header c = Ok h) /\
  (exists c h, content_range_new (Some [98; 121]) None None None = Ok c /\ content_range_to_header c = Ok h).
Proof. repeat split; try (vm_compute; reflexivity); eexists; eexists; split; vm_compute; reflexivity. Qed.
Print Assumptions C06_content_range_inhabited.

(* is_byte_range_valid (regenerated from the source) never compares an int with None *)
Theorem C06_is_byte_range_valid_total : forall s t l, exists b, is_byte_range_valid s t l = Some b.
Proof. exact ibrv_total. Qed.
Print Assumptions C06_is_byte_range_valid_total.

(* Age: every non-negative number of seconds a timedelta can hold *)
Theorem C06_age : forall a s, (0 <= a <= MAX_TIMEDELTA_SECONDS)%Z -> dump_age a = Ok s -> parse_age s = Ok (Some a).
Proof. exact age_roundtrip. Qed.
Print Assumptions C06_age.
Example C06_age_inhabited : exists s, dump_age 86399999999999%Z = Ok s /\ parse_age s = Ok (Some 86399999999999%Z).
Proof. eexists. split; vm_compute; reflexivity. Qed.
Print Assumptions C06_age_inhabited.

(* ------------------------------------------------------------------ normal forms *)
(* parsing is a normal form for every header text wherever the round trip holds on every value *)
Theorem C06_list_normal_form : forall h, parse_list_header (dump_header_list (parse_list_header h)) = parse_list_header h.
Proof. exact list_normal_form. Qed.
Print Assumptions C06_list_normal_form.
Theorem C06_set_normal_form : forall h, parse_set_header (dump_set_header (parse_set_header h)) = parse_set_header h.
Proof. exact set_normal_form. Qed.
Print Assumptions C06_set_normal_form.
Theorem C06_quote_normal_form : forall a h,
  unquote_header_value (quote_header_value a (unquote_header_value h)) = unquote_header_value h.
Proof. exact quote_normal_form. Qed.
Print Assumptions C06_quote_normal_form.
(* dicts: the full normal-form statement is false (header text *=x parses to the empty key, which is written
   but not read back); it holds whenever the parsed keys are tokens free of a star *)
Theorem C06_dict_normal_form_refuted :
  exists h d t d', parse_dict_header h = Ok d /\ dump_header_dict d = Ok t /\ parse_dict_header t = Ok d' /\ d' <> d.
Proof. exact dict_normal_form_refuted. Qed.
Print Assumptions C06_dict_normal_form_refuted.
Theorem C06_dict_normal_form_partial : forall h d, parse_dict_header h = Ok d -> dict_domain d = true ->
  exists t, dump_header_dict d = Ok t /\ parse_dict_header t = parse_dict_header h.
Proof. exact dict_normal_form_partial. Qed.
Print Assumptions C06_dict_normal_form_partial.
Theorem C06_etags_normal_form_partial : forall h e, parse_etags h = Ok e -> etag_domain e = true ->
  parse_etags (etags_to_header e) = parse_etags h.
Proof. exact etags_normal_form_partial. Qed.
Print Assumptions C06_etags_normal_form_partial.
Theorem C06_options_normal_form_partial : forall s h o, parse_options_header s = Ok (h, o) -> opt_domain h o = true ->
  exists t, dump_options_header h o = Ok t /\ parse_options_header t = parse_options_header s.
Proof. exact options_normal_form_partial. Qed.
Print Assumptions C06_options_normal_form_partial.
Example C06_normal_form_inhabited :
  (exists d, parse_dict_header [97; 61; 34; 98; 32; 99; 34; 44; 32; 100] = Ok d /\ dict_domain d = true)
  /\ (exists e, parse_etags [34; 97; 34; 44; 32; 87; 47; 34; 98; 34] = Ok e /\ etag_domain e = true)
  /\ (exists h o, parse_options_header [116; 47; 104; 59; 32; 67; 61; 34; 120; 32; 121; 34] = Ok (h, o) /\ opt_domain h o = true).
Proof. repeat split; eexists; try eexists; split; vm_compute; reflexivity. Qed.
Print Assumptions C06_normal_form_inhabited.

(* ------------------------------------------------------------------ Content-Security-Policy *)
(* directives without blank or ';', values stripped, non-empty and free of ';' *)
Theorem C06_csp : forall d, csp_domain d = true -> parse_csp (dump_csp d) = d.
Proof. exact csp_roundtrip. Qed.
Print Assumptions C06_csp.
Example C06_csp_inhabited :
  csp_domain [([100; 101; 102; 45; 115; 114; 99], [39; 115; 101; 108; 102; 39; 32; 104; 116; 116; 112; 115; 58]); ([105; 109; 103], [42])] = true.
Proof. vm_compute. reflexivity. Qed.
Print Assumptions C06_csp_inhabited.

(* ------------------------------------------------------------------ Cache-Control *)
(* for every typed property found in the source (key, empty value, type regenerated into cc_properties):
   set it to a value of its documented type on any directive set, serialise, parse: the same directive set
   comes back and the property reads the value that was set *)
Theorem C06_cache_control : forall p d v d' h, In p cc_properties -> dict_domain d = true ->
  cc_value_ok v (cc_empty_of (snd (fst p))) (cc_type_of (snd p)) = true ->
  cc_set d (fst (fst p)) v (cc_type_of (snd p)) = Ok d' -> dump_header_dict d' = Ok h ->
  parse_dict_header h = Ok d' /\ cc_get d' (fst (fst p)) (cc_empty_of (snd (fst p))) (cc_type_of (snd p)) = v.
Proof. exact cc_roundtrip_all. Qed.
Print Assumptions C06_cache_control.
Example C06_cache_control_inhabited :
  (15 <=? N.of_nat (length cc_properties)) = true
  /\ In ([109; 97; 120; 45; 97; 103; 101], 0, 1) cc_properties
  /\ cc_value_ok (CvInt 3600) (cc_empty_of 0) (cc_type_of 1) = true
  /\ exists d' h, cc_set [([112; 117; 98; 108; 105; 99], None)] [109; 97; 120; 45; 97; 103; 101] (CvInt 3600) (cc_type_of 1) = Ok d'
                 /\ dump_header_dict d' = Ok h.
Proof.
  split; [vm_compute; reflexivity|]. split; [vm_compute; tauto|]. split; [reflexivity|].
  eexists. eexists. split; vm_compute; reflexivity.
Qed.
Print Assumptions C06_cache_control_inhabited.

(* ------------------------------------------------------------------ Base64 and the auth schemes *)
(* binascii.a2b_base64 (non-strict, as b64decode calls it) inverts b64encode on every byte string *)
Theorem C06_base64 : forall b, forallb (fun c => c <? 256) b = true -> a2b_base64 (b64encode b) 0 0 0 = Ok b.
Proof. exact (fun b H => b64_roundtrip (length b) b (le_n _) H). Qed.
Print Assumptions C06_base64.
(* Basic credentials over Unicode user / password without ':' in the user name *)
Theorem C06_auth_basic : forall username password,
  valid_text username = true -> valid_text password = true -> mem COLON username = false ->
  authorization_from_header (basic_to_header username password)
  = Ok (Some {| a_type := s_basic; a_params := [(s_username, Some username); (s_password, Some password)]; a_token := None |}).
Proof. exact basic_roundtrip. Qed.
Print Assumptions C06_auth_basic.
Example C06_auth_basic_inhabited :
  valid_text [252; 115; 101; 114] = true /\ valid_text [112; 58; 8364] = true /\ mem COLON [252; 115; 101; 114] = false.
Proof. repeat split; vm_compute; reflexivity. Qed.
Print Assumptions C06_auth_basic_inhabited.
(* token schemes (Bearer ...), request and response side: lower-case ASCII scheme, stripped token whose '=' are trailing *)
Theorem C06_auth_token : forall scheme tok,
  scheme_ok scheme = true -> negb (list_eqb scheme s_basic) = true -> auth_token_ok tok = true ->
  authorization_from_header (token_to_header scheme tok) = Ok (Some {| a_type := scheme; a_params := []; a_token := Some tok |})
  /\ www_authenticate_from_header (token_to_header scheme tok) = Ok (Some {| a_type := scheme; a_params := []; a_token := Some tok |}).
Proof. exact token_roundtrip. Qed.
Print Assumptions C06_auth_token.
Example C06_auth_token_inhabited :
  scheme_ok [98; 101; 97; 114; 101; 114] = true /\ negb (list_eqb [98; 101; 97; 114; 101; 114] s_basic) = true
  /\ auth_token_ok [97; 46; 98; 45; 99; 61; 61] = true.
Proof. repeat split; vm_compute; reflexivity. Qed.
Print Assumptions C06_auth_token_inhabited.

(* ------------------------------------------------------------------ HTTP dates *)
(* the fixed-width text codec over the UTC field tuple (weekday and month names, zero-padded fields) *)
Theorem C06_date_codec : forall f, fields_ok f = true ->
  parse_http_date (format_http_date f) = Some (f_day f, f_mon f, f_year f, f_hour f, f_min f, f_sec f).
Proof. exact date_codec. Qed.
Print Assumptions C06_date_codec.
Example C06_date_codec_inhabited :
  fields_ok {| f_wday := 3; f_day := 1; f_mon := 1; f_year := 2026; f_hour := 0; f_min := 59; f_sec := 60 |} = true.
Proof. vm_compute. reflexivity. Qed.
Print Assumptions C06_date_codec_inhabited.
(* http_date / parse_date over any calendar: an instant type whose UTC field view lies in range and is inverted
   by the constructor (the contract email.utils and datetime are trusted to satisfy; checked by the harness) *)
Theorem C06_date_roundtrip : forall (instant : Type) (fields_of : instant -> date_fields)
  (instant_of : N * N * N * N * N * N -> option instant),
  (forall i, fields_ok (fields_of i) = true) ->
  (forall i, instant_of (f_day (fields_of i), f_mon (fields_of i), f_year (fields_of i),
                         f_hour (fields_of i), f_min (fields_of i), f_sec (fields_of i)) = Some i) ->
  forall i, parse_date_m instant instant_of (http_date_m instant fields_of i) = Some i.
Proof. exact date_roundtrip. Qed.
Print Assumptions C06_date_roundtrip.

(* ------------------------------------------------------------------ option headers with always-quoted values *)
(* what the multipart encoder writes in Content-Disposition: every value wrapped in quotes WITHOUT escaping.
   Side conditions (all boolean): header_ok h (non-empty, no ';', unchanged by str.strip), keys lower-case tokens
   without '*' (opt_key_ok: the parser lower-cases keys and applies RFC 2231 to keys ending in '*'), keys distinct,
   values quoted_plain (no double quote, no backslash, no literal %22; empty values, ';', '=', blanks and any other
   text incl. CR/LF are fine for the model).  The parser returns the stripped header, which header_ok makes h itself. *)
Theorem C06_options_always_quoted : forall h o,
  header_ok h = true ->
  (forall kv, In kv o -> opt_key_ok (fst kv) = true /\ quoted_plain (snd kv) = true) ->
  keys_distinct o = true ->
  parse_options_header (h ++ flat_map (fun kv => [SEMI; SP] ++ fst kv ++ EQ :: DQ :: snd kv ++ [DQ]) o) = Ok (h, o).
Proof. exact options_always_quoted_In. Qed.
Print Assumptions C06_options_always_quoted.
(* the same with one boolean domain predicate *)
Theorem C06_options_always_quoted_bool : forall h o, quoted_opt_domain h o = true ->
  parse_options_header (quoted_options_text h o) = Ok (h, o).
Proof. exact options_always_quoted. Qed.
Print Assumptions C06_options_always_quoted_bool.
(* form-data; name=<non-ASCII>; filename=<empty>  and  filename with ';', '=' and blanks *)
Example C06_options_always_quoted_inhabited :
  let h := [102; 111; 114; 109; 45; 100; 97; 116; 97] in
  let o1 := [([110; 97; 109; 101], [102; 239; 101; 108; 100; 32; 8364]); ([102; 105; 108; 101; 110; 97; 109; 101], [])] in
  let o2 := [([110; 97; 109; 101], [102; 239; 101; 108; 100; 32; 8364]); ([102; 105; 108; 101; 110; 97; 109; 101], [97; 32; 98; 59; 32; 99; 61; 100; 32; 233; 46; 116; 120; 116])] in
  quoted_opt_domain h o1 = true /\ quoted_opt_domain h o2 = true
  /\ parse_options_header (quoted_options_text h o1) = Ok (h, o1)
  /\ parse_options_header (quoted_options_text h o2) = Ok (h, o2).
Proof. repeat split; vm_compute; reflexivity. Qed.
Print Assumptions C06_options_always_quoted_inhabited.

(* ------------------------------------------------------------------ parameter auth schemes, Digest, If-Range *)
(* Authorization / WWWAuthenticate(type, parameters) -> to_header -> from_header, outside Basic and Digest: scheme =
   lower-case ASCII without blank (str.title and str.lower are modelled on ASCII / Latin-1 only), parameters a dict of the
   C06_dict domain with at least one valued entry (otherwise the text has no '=' and is read as a token) *)
Theorem C06_auth_parameters : forall scheme d h,
  scheme_ok scheme = true -> list_eqb scheme s_basic = false -> dict_domain d = true -> has_value d = true ->
  params_to_header scheme d = Ok h ->
  authorization_from_header h = Ok (Some {| a_type := scheme; a_params := d; a_token := None |})
  /\ www_authenticate_from_header h = Ok (Some {| a_type := scheme; a_params := d; a_token := None |}).
Proof. exact auth_parameters_roundtrip. Qed.
Print Assumptions C06_auth_parameters.
(* WWWAuthenticate(digest, parameters): realm / domain / nonce / opaque / qop (key set regenerated) always quoted *)
Theorem C06_auth_digest : forall d, d <> [] -> dict_domain (some_values d) = true ->
  www_authenticate_from_header (www_digest_to_header d)
  = Ok (Some {| a_type := s_digest; a_params := some_values d; a_token := None |}).
Proof. exact digest_roundtrip. Qed.
Print Assumptions C06_auth_digest.
Example C06_auth_parameters_inhabited :
  let d := [([114; 101; 97; 108; 109], Some [97; 98; 99]); ([115; 116; 97; 108; 101], None); ([113; 111; 112], Some [97; 44; 32; 34; 98])] in
  scheme_ok [120; 45; 99] = true /\ dict_domain d = true /\ has_value d = true /\ (exists h, params_to_header [120; 45; 99] d = Ok h)
  /\ dict_domain (some_values [([114; 101; 97; 108; 109], [97; 98; 99]); ([97; 108; 103], [77; 68; 53])]) = true.
Proof. repeat split; try (vm_compute; reflexivity). eexists. vm_compute. reflexivity. Qed.
Print Assumptions C06_auth_parameters_inhabited.
(* If-Range with an entity tag, over any date parser (http.parse_date = email.utils, not modelled): the tag comes back
   whenever the date parser declines the quoted text ... *)
Theorem C06_if_range_partial : forall (D : Type) (parse_date : str -> option D) e h,
  quote_etag e false = Ok h -> parse_date h = None -> parse_if_range parse_date h = IrEtag e.
Proof. exact if_range_roundtrip. Qed.
Print Assumptions C06_if_range_partial.
(* ... and is read back as a date when it accepts it: an entity tag that looks like a date (known finding
   if-range-date-like-etag; the implementation's parse_date accepts the quoted text Sun, 06 Nov 1994 08:49:37 GMT) *)
Theorem C06_if_range_refuted : forall (D : Type) (parse_date : str -> option D) e h d,
  quote_etag e false = Ok h -> parse_date h = Some d -> parse_if_range parse_date h = IrDate d.
Proof. exact if_range_refuted. Qed.
Print Assumptions C06_if_range_refuted.
Example C06_if_range_inhabited : exists h, quote_etag [97; 32; 98] false = Ok h /\ parse_if_range (fun _ => @None nat) h = IrEtag [97; 32; 98].
Proof. eexists. split; vm_compute; reflexivity. Qed.
Print Assumptions C06_if_range_inhabited.
(* option headers: the full normal-form statement is false (a key that keeps a star after RFC 2231 processing is written raw) *)
Theorem C06_options_normal_form_refuted :
  exists s h o t r, parse_options_header s = Ok (h, o) /\ dump_options_header h o = Ok t /\ parse_options_header t = Ok r /\ r <> (h, o).
Proof. exact options_normal_form_refuted. Qed.
Print Assumptions C06_options_normal_form_refuted.

(* ------------------------------------------------------------------ dates: the three accepted shapes, normal form *)
(* parse_date_shapes models parse_date on IMF-fixdate (any zone word), RFC 850 (two-digit year, pivot 68/69) and asctime texts
   and is compared with the implementation on such texts; on what http_date writes for a valid instant with year >= 100 it
   returns exactly the fields, in UTC *)
Theorem C06_date_shapes_canonical : forall f, instant_fields_ok f = true ->
  parse_date_shapes (format_http_date f) = Some (f_day f, f_mon f, f_year f, f_hour f, f_min f, f_sec f, 0%Z).
Proof. exact date_shapes_canonical. Qed.
Print Assumptions C06_date_shapes_canonical.
Example C06_date_shapes_inhabited :
  instant_fields_ok {| f_wday := 6; f_day := 6; f_mon := 11; f_year := 1994; f_hour := 8; f_min := 49; f_sec := 37 |} = true
  /\ parse_date_shapes [83; 117; 110; 100; 97; 121; 44; 32; 48; 54; 45; 78; 111; 118; 45; 57; 52; 32; 48; 56; 58; 52; 57; 58; 51; 55; 32; 71; 77; 84]
     = Some (6, 11, 1994, 8, 49, 37, 0%Z)
  /\ parse_date_shapes [83; 117; 110; 32; 78; 111; 118; 32; 32; 54; 32; 48; 56; 58; 52; 57; 58; 51; 55; 32; 49; 57; 57; 52] = Some (6, 11, 1994, 8, 49, 37, 0%Z)
  /\ parse_date_shapes [83; 117; 110; 44; 32; 48; 54; 32; 78; 111; 118; 32; 49; 57; 57; 52; 32; 48; 56; 58; 52; 57; 58; 51; 55; 32; 69; 83; 84]
     = Some (6, 11, 1994, 8, 49, 37, (-300)%Z).
Proof. repeat split; vm_compute; reflexivity. Qed.
Print Assumptions C06_date_shapes_inhabited.
(* outside the property's domain (years 1000..9999): a year below 100 is written 00yy and read back through the pivot *)
Theorem C06_date_small_year_refuted :
  exists f, fields_ok f = true /\ parse_date_shapes (format_http_date f) <> Some (f_day f, f_mon f, f_year f, f_hour f, f_min f, f_sec f, 0%Z).
Proof. exact date_small_year_refuted. Qed.
Print Assumptions C06_date_small_year_refuted.
(* normal form over the calendar contract: any text of the three shapes that parse_date reads as an instant i is, after
   http_date, read as i again (the contract: an instant's UTC fields are valid, year >= 100, and the constructor inverts them) *)
Theorem C06_date_normal_form : forall (instant : Type) (fields_of : instant -> date_fields)
  (instant_at : N * N * N * N * N * N * Z -> option instant),
  (forall i, instant_fields_ok (fields_of i) = true) ->
  (forall i, instant_at (f_day (fields_of i), f_mon (fields_of i), f_year (fields_of i),
                         f_hour (fields_of i), f_min (fields_of i), f_sec (fields_of i), 0%Z) = Some i) ->
  forall t i, parse_date_full instant instant_at t = Some i ->
  parse_date_full instant instant_at (http_date_full instant fields_of i) = parse_date_full instant instant_at t.
Proof. exact date_normal_form. Qed.
Print Assumptions C06_date_normal_form.

(* ------------------------------------------------------------------ entity tags: the unconditional normal form *)
(* the property's tag domain (no double quote, no line feed) lies inside the round-trip domain of C06_etags *)
Theorem C06_etags_simple_domain : forall x, simple_tag x = true -> tag_ok x = true.
Proof. exact simple_tag_ok. Qed.
Print Assumptions C06_etags_simple_domain.
(* whatever parse_etags returns lies in the round-trip domain (tags cut out of quotes or out of raw text never hold a
   double quote that is followed by blanks and a comma) ... *)
Theorem C06_parse_etags_in_domain : forall h e, parse_etags h = Ok e -> etag_domain e = true.
Proof. exact parse_etags_domain. Qed.
Print Assumptions C06_parse_etags_in_domain.
(* ... so parsing is a normal form for every header text that parses at all (C07_total_parse_etags: every text without a line feed) *)
Theorem C06_etags_normal_form : forall h e, parse_etags h = Ok e -> parse_etags (etags_to_header e) = parse_etags h.
Proof. exact etags_normal_form. Qed.
Print Assumptions C06_etags_normal_form.

(* Accept headers: the class-specific values (MIMEAccept, LanguageAccept, CharsetAccept) are C17's model; their
   to_header -> parse round trip is C17_to_header_roundtrip (coq/C17/Props.v) and is not duplicated here; the parse loop
   they share is C07_total_parse_accept_items / C07_total_request_accept. *)
