(* C06 proofs, part 1: table sweeps (re-proved against the regenerated Gen.v), pattern pins,
   quote/unquote, lists, sets, dicts. *)
From Coq Require Import ZArith Lia ZifyBool ZifyN.
From Wz Require Import lib.Bytes lib.BytesFacts lib.Utf8 C06.LibPy C06.LibPyFacts C06.Gen C06.Model.
Open Scope N_scope.
Ltac Zify.zify_post_hook ::= Z.to_euclidean_division_equations.

(* ------------------------------------------------------------------ pattern pins *)
(* the texts the hand-written matchers of Model.v stand for *)
Lemma patterns_pinned :
  list_eqb etag_re_text [40; 91; 87; 119; 93; 47; 41; 63; 40; 63; 58; 34; 40; 46; 42; 63; 41; 34; 124; 40; 46; 42; 63; 41; 41; 40; 63; 58; 92; 115; 42; 44; 92; 115; 42; 124; 36; 41]
  && (etag_re_flags =? 0)
  && list_eqb parameter_key_re_text [40; 91; 92; 119; 33; 35; 36; 37; 38; 39; 42; 43; 92; 45; 46; 94; 96; 124; 126; 93; 43; 41; 61]
  && (parameter_key_re_flags =? 256)
  && list_eqb parameter_token_value_re_text [91; 92; 119; 33; 35; 36; 37; 38; 39; 42; 43; 92; 45; 46; 94; 96; 124; 126; 93; 43]
  && (parameter_token_value_re_flags =? 256)
  && list_eqb charset_value_re_text [40; 91; 92; 119; 33; 35; 36; 37; 38; 42; 43; 92; 45; 46; 94; 96; 124; 126; 93; 42; 41; 39; 91; 92; 119; 33; 35; 36; 37; 38; 42; 43; 92; 45; 46; 94; 96; 124; 126; 93; 42; 39; 40; 91; 92; 119; 33; 35; 36; 37; 38; 39; 42; 43; 92; 45; 46; 94; 96; 124; 126; 93; 43; 41]
  && (charset_value_re_flags =? 320)
  && list_eqb continuation_re_text [92; 42; 40; 92; 100; 43; 41; 36] && (continuation_re_flags =? 256)
  && list_eqb plain_int_re_text [45; 63; 92; 100; 43] && (plain_int_re_flags =? 256)
  && list_eqb q_value_re_text [45; 63; 92; 100; 43; 40; 92; 46; 92; 100; 43; 41; 63] && (q_value_re_flags =? 256) = true.
Proof. vm_compute. reflexivity. Qed.

Lemma charsets_pinned :
  forallb (fun e => match charset_of e with Some _ => true | None => false end) options_charsets
  && forallb (fun e => match charset_of e with Some _ => true | None => false end) dict_charsets = true.
Proof. vm_compute. reflexivity. Qed.

(* ------------------------------------------------------------------ table sweeps *)
(* RFC 9110 tchar *)
Definition tchar (c : N) : bool :=
  is_digit c || is_alpha c || mem c [33; 35; 36; 37; 38; 39; 42; 43; 45; 46; 94; 95; 96; 124; 126].

Lemma token_bound : forallb (fun r => snd r <? 128) token_chars = true.
Proof. vm_compute. reflexivity. Qed.
Lemma pkey_bound : forallb (fun r => snd r <? 128) param_key_class = true.
Proof. vm_compute. reflexivity. Qed.
Lemma ptok_bound : forallb (fun r => snd r <? 128) param_token_class = true.
Proof. vm_compute. reflexivity. Qed.

Lemma token_sweep :
  forallb (fun c => Bool.eqb (is_token_char c) (tchar c) && Bool.eqb (is_pkey c) (tchar c) && Bool.eqb (is_ptok c) (tchar c))
          (nat_range 128) = true.
Proof. vm_compute. reflexivity. Qed.

Lemma token_is_tchar c : is_token_char c = true -> tchar c = true.
Proof.
  intro H. pose proof (in_ranges_bound _ 128 c token_bound H) as Hb.
  pose proof (sweep128 _ token_sweep c Hb) as S. cbv beta in S. apply andb_prop in S. destruct S as [S _].
  apply andb_prop in S. destruct S as [S _]. rewrite H in S. destruct (tchar c); [reflexivity|discriminate].
Qed.

Lemma tchar_classes c : tchar c = true -> is_token_char c = true /\ is_pkey c = true /\ is_ptok c = true.
Proof.
  intro H. assert (Hb : c < 128) by (unfold tchar, is_digit, is_alpha, is_upper, is_lower, mem in H; cbn [existsb] in H; lia).
  pose proof (sweep128 _ token_sweep c Hb) as S. cbv beta in S. rewrite H in S.
  destruct (is_token_char c), (is_pkey c), (is_ptok c); try discriminate. auto.
Qed.

Lemma non_tchar_classes c : tchar c = false -> is_token_char c = false /\ is_pkey c = false /\ is_ptok c = false.
Proof.
  intro H. destruct (c <? 128) eqn:Hb.
  - pose proof (sweep128 _ token_sweep c ltac:(lia)) as S. cbv beta in S. rewrite H in S.
    destruct (is_token_char c), (is_pkey c), (is_ptok c); try discriminate. auto.
  - repeat split.
    + destruct (is_token_char c) eqn:E; [|reflexivity]. pose proof (in_ranges_bound _ 128 c token_bound E). lia.
    + destruct (is_pkey c) eqn:E; [|reflexivity]. pose proof (in_ranges_bound _ 128 c pkey_bound E). lia.
    + destruct (is_ptok c) eqn:E; [|reflexivity]. pose proof (in_ranges_bound _ 128 c ptok_bound E). lia.
Qed.

(* what a token character is not *)
Lemma tchar_facts c : tchar c = true ->
  (c =? DQ) = false /\ (c =? COMMA) = false /\ (c =? SEMI) = false /\ (c =? EQ) = false /\ (c =? BS) = false
  /\ uni_ws c = false /\ c < 128.
Proof.
  unfold tchar, is_digit, is_alpha, is_upper, is_lower, mem, uni_ws, DQ, COMMA, SEMI, EQ, BS. cbn [existsb]. lia.
Qed.

Definition token (k : str) : bool := match k with [] => false | _ => forallb is_token_char k end.

Lemma token_forall k : token k = true -> k <> [] /\ forallb tchar k = true.
Proof.
  unfold token. destruct k as [|c k]; [discriminate|]. intro H. split; [discriminate|].
  eapply forallb_impl; [|exact H]. apply token_is_tchar.
Qed.

Lemma tchars_no (x : N) k : forallb tchar k = true -> tchar x = false -> mem x k = false.
Proof. apply forallb_mem_false. Qed.

Lemma tchars_strip k : forallb tchar k = true -> py_strip k = k.
Proof.
  intro H. apply py_strip_none. eapply forallb_impl; [|exact H]. intros c Hc. cbv beta.
  destruct (tchar_facts c Hc) as (_ & _ & _ & _ & _ & -> & _). reflexivity.
Qed.

(* ------------------------------------------------------------------ quote / unquote *)
Definition esc1 (c : N) : str := if c =? BS then [BS; BS] else if c =? DQ then [BS; DQ] else [c].
Definition esc2 (c : N) : str := if c =? DQ then [BS; DQ] else [c].
Definition esc (v : str) : str := flat_map esc1 v.

Lemma escape_is_esc v : replace1 DQ [BS; DQ] (replace1 BS [BS; BS] v) = esc v.
Proof.
  unfold replace1, esc. induction v as [|c v IH]; [reflexivity|]. cbn [flat_map]. rewrite flat_map_app, IH.
  f_equal. unfold esc1. destruct (c =? BS) eqn:E1.
  - apply N.eqb_eq in E1. subst c. reflexivity.
  - cbn [flat_map app]. rewrite app_nil_r. destruct (c =? DQ); reflexivity.
Qed.

Lemma unescape_pass1 v : replace2 BS BS [BS] (esc v) = flat_map esc2 v.
Proof.
  unfold esc. induction v as [|c v IH]; [reflexivity|]. cbn [flat_map]. unfold esc1 at 1, esc2 at 1.
  destruct (c =? BS) eqn:E1.
  - apply N.eqb_eq in E1. subst c. cbn [app]. rewrite replace2_hit, IH. reflexivity.
  - destruct (c =? DQ) eqn:E2.
    + apply N.eqb_eq in E2. subst c. cbn [app].
      rewrite replace2_a_not_b by reflexivity. rewrite replace2_skip by reflexivity. rewrite IH. reflexivity.
    + cbn [app]. rewrite replace2_skip by exact E1. rewrite IH. reflexivity.
Qed.

Lemma esc2_head_not_dq v : match flat_map esc2 v with y :: _ => (y =? DQ) = false | [] => True end.
Proof.
  destruct v as [|c v]; [exact I|]. cbn [flat_map]. unfold esc2. destruct (c =? DQ) eqn:E; cbn [app]; [reflexivity|exact E].
Qed.

Lemma unescape_pass2 v : replace2 BS DQ [DQ] (flat_map esc2 v) = v.
Proof.
  induction v as [|c v IH]; [reflexivity|]. cbn [flat_map]. unfold esc2 at 1.
  destruct (c =? DQ) eqn:E2.
  - apply N.eqb_eq in E2. subst c. cbn [app]. rewrite replace2_hit, IH. reflexivity.
  - cbn [app]. destruct (c =? BS) eqn:E1.
    + apply N.eqb_eq in E1. subst c. rewrite replace2_a_not_b by apply esc2_head_not_dq. rewrite IH. reflexivity.
    + rewrite replace2_skip by exact E1. rewrite IH. reflexivity.
Qed.

Lemma unescape_esc v : replace2 BS DQ [DQ] (replace2 BS BS [BS] (esc v)) = v.
Proof. rewrite unescape_pass1. apply unescape_pass2. Qed.

(* the three shapes quote_header_value returns *)
Definition as_token (v : str) : bool := match v with [] => false | _ => forallb is_token_char v end.

Lemma quote_shape a v :
  quote_header_value a v = if a && as_token v then v else DQ :: esc v ++ [DQ].
Proof.
  unfold quote_header_value, as_token. destruct v as [|c v]; [rewrite andb_false_r; reflexivity|].
  destruct (a && forallb is_token_char (c :: v)); [reflexivity|]. rewrite escape_is_esc. reflexivity.
Qed.

Lemma token_not_quoted v : as_token v = true -> is_quoted v = false.
Proof.
  unfold as_token. destruct v as [|c v]; [discriminate|]. intro H. eapply is_quoted_head; [reflexivity|].
  cbn [forallb] in H. apply andb_prop in H. destruct H as [Hc _]. apply token_is_tchar in Hc.
  apply (tchar_facts c Hc).
Qed.

Lemma quote_roundtrip a v : unquote_header_value (quote_header_value a v) = v.
Proof.
  rewrite quote_shape. unfold unquote_header_value. destruct (a && as_token v) eqn:E.
  - apply andb_prop in E. destruct E as [_ E]. rewrite token_not_quoted by exact E. reflexivity.
  - rewrite is_quoted_wrap, inner_wrap. apply unescape_esc.
Qed.

(* ------------------------------------------------------------------ parse_http_list over rendered items *)
(* x is read outside quotes as the text r, leaving the scanner outside quotes *)
Definition phl_atom (x r : str) : Prop :=
  forall s, phl (x ++ s) false false = let '(p, l) := phl s false false in (r ++ p, l).

Lemma phl_atom_nil : phl_atom [] [].
Proof. intro s. cbn [app]. destruct (phl s false false). reflexivity. Qed.

Lemma phl_atom_app x1 r1 x2 r2 : phl_atom x1 r1 -> phl_atom x2 r2 -> phl_atom (x1 ++ x2) (r1 ++ r2).
Proof.
  intros H1 H2 s. rewrite <- app_assoc, H1, H2. destruct (phl s false false). rewrite app_assoc. reflexivity.
Qed.

Lemma phl_atom_char c : (c =? COMMA) = false -> (c =? DQ) = false -> phl_atom [c] [c].
Proof.
  intros H1 H2 s. cbn [app phl]. rewrite H1, H2. destruct (phl s false false). reflexivity.
Qed.

Lemma phl_atom_plain k : forallb (fun c => negb (c =? COMMA) && negb (c =? DQ)) k = true -> phl_atom k k.
Proof.
  induction k as [|c k IH]; [intros _; apply phl_atom_nil|]. cbn [forallb]. intro H. apply andb_prop in H.
  destruct H as [Hc Hk]. apply andb_prop in Hc. destruct Hc as [H1 H2].
  change (c :: k) with ([c] ++ k). apply phl_atom_app; [|apply IH; exact Hk].
  apply phl_atom_char; [destruct (c =? COMMA)|destruct (c =? DQ)]; try discriminate; reflexivity.
Qed.

Lemma tchars_plain k : forallb tchar k = true -> forallb (fun c => negb (c =? COMMA) && negb (c =? DQ)) k = true.
Proof.
  apply forallb_impl. intros c Hc. destruct (tchar_facts c Hc) as (-> & -> & _). reflexivity.
Qed.

(* inside quotes: the escaped text is read back as the original text *)
Lemma phl_in_quotes v s :
  phl (esc v ++ s) false true = let '(p, l) := phl s false true in (v ++ p, l).
Proof.
  unfold esc. induction v as [|c v IH]; [cbn [flat_map app]; destruct (phl s false true); reflexivity|].
  cbn [flat_map]. rewrite <- app_assoc. unfold esc1 at 1. destruct (c =? BS) eqn:E1.
  - apply N.eqb_eq in E1. subst c. cbn [app phl]. rewrite IH. destruct (phl s false true). reflexivity.
  - destruct (c =? DQ) eqn:E2.
    + apply N.eqb_eq in E2. subst c. cbn [app phl]. rewrite IH. destruct (phl s false true). reflexivity.
    + cbn [app phl]. rewrite E1, E2, IH. destruct (phl s false true). reflexivity.
Qed.

Lemma phl_atom_quoted v : phl_atom (DQ :: esc v ++ [DQ]) (DQ :: v ++ [DQ]).
Proof.
  intro s. cbn [app phl]. rewrite <- app_assoc. rewrite phl_in_quotes. cbn [app phl].
  destruct (phl s false false). rewrite <- app_assoc. reflexivity.
Qed.

(* the text parse_http_list sees for a quoted value *)
Definition rendered (v : str) : str := if as_token v then v else DQ :: v ++ [DQ].

Lemma as_token_tchars v : as_token v = true -> v <> [] /\ forallb tchar v = true.
Proof. apply token_forall. Qed.

Lemma phl_atom_quote v : phl_atom (quote_header_value true v) (rendered v).
Proof.
  rewrite quote_shape. unfold rendered. cbn [andb]. destruct (as_token v) eqn:E.
  - apply phl_atom_plain, tchars_plain. apply (as_token_tchars v E).
  - apply phl_atom_quoted.
Qed.

(* a rendered item: non-empty, no white space at either end *)
Definition tight (r : str) : Prop := exists a z, head_e r = Ok a /\ last_e r = Ok z /\ uni_ws a = false /\ uni_ws z = false.

Lemma tight_strip r : tight r -> py_strip r = r.
Proof. intros (a & z & Ha & Hz & Hwa & Hwz). eapply strip_first_last; eassumption. Qed.

Lemma tight_sp_strip r : tight r -> py_strip (SP :: r) = r.
Proof.
  intro H. unfold py_strip, strip. cbn [drop_while]. change (uni_ws SP) with true. cbv iota.
  fold (strip uni_ws r). apply tight_strip. exact H.
Qed.

Lemma tight_nonempty r : tight r -> r <> [].
Proof. intros (a & z & Ha & _). destruct r; [discriminate|discriminate]. Qed.

Lemma tight_wrapped v : tight (DQ :: v ++ [DQ]).
Proof.
  exists DQ, DQ. split; [reflexivity|]. split; [|split; reflexivity].
  change (DQ :: v ++ [DQ]) with ((DQ :: v) ++ [DQ]). apply last_e_app.
Qed.

Lemma tight_tchars k : k <> [] -> forallb tchar k = true -> tight k.
Proof.
  intros Hne H. destruct (last_e_forall tchar k Hne H) as [z [Hz Hpz]].
  destruct k as [|a k]; [congruence|]. exists a, z. split; [reflexivity|]. split; [exact Hz|].
  cbn [forallb] in H. apply andb_prop in H. destruct H as [Ha _].
  split; [apply (tchar_facts a Ha)|apply (tchar_facts z Hpz)].
Qed.

Lemma tight_rendered v : tight (rendered v).
Proof.
  unfold rendered. destruct (as_token v) eqn:E; [|apply tight_wrapped].
  destruct (as_token_tchars v E). apply tight_tchars; assumption.
Qed.

Lemma tight_app_l a b : tight a -> tight b -> tight (a ++ b).
Proof.
  intros (x & y & Hx & Hy & Hwx & Hwy) (x' & y' & Hx' & Hy' & Hwx' & Hwy').
  exists x, y'. repeat split; try assumption.
  - destruct a; [discriminate|exact Hx].
  - clear Hx Hwx Hy Hwy. induction a as [|c a IH]; [exact Hy'|]. cbn [app]. rewrite last_e_cons; [exact IH|].
    destruct a; destruct b; try discriminate.
Qed.

(* the scanner over  x1, x2, ..., xn  *)
Lemma phl_join xs rs :
  Forall2 phl_atom xs rs -> xs <> [] ->
  phl (join [COMMA; SP] xs) false false =
    match rs with r :: rest => (r, map (fun t => SP :: t) rest) | [] => ([], []) end.
Proof.
  induction 1 as [|x r xs rs Hx Hxs IH]; [congruence|]. intros _.
  destruct xs as [|x2 xs].
  - inversion Hxs; subst. cbn [join]. rewrite <- (app_nil_r x), Hx. cbn [phl]. rewrite app_nil_r. reflexivity.
  - rewrite join_cons2, Hx. cbn [app phl]. change (COMMA =? COMMA) with true. cbv iota.
    change (SP =? COMMA) with false. change (SP =? DQ) with false. cbv iota.
    rewrite IH by discriminate. inversion Hxs as [|? r2 ? rs2]; subst. rewrite app_nil_r. reflexivity.
Qed.

Lemma drop_last_empty_id (l : list str) : Forall (fun s => s <> []) l -> drop_last_empty l = l.
Proof.
  induction l as [|x l IH]; [reflexivity|]. intro H. inversion H as [|? ? Hx Hl]; subst.
  destruct l as [|y l]; cbn [drop_last_empty]; [destruct x; [congruence|reflexivity]|].
  f_equal. apply IH. exact Hl.
Qed.

Lemma parse_http_list_join xs rs :
  Forall2 phl_atom xs rs -> Forall tight rs -> parse_http_list (join [COMMA; SP] xs) = rs.
Proof.
  intros H2 Ht. unfold parse_http_list. destruct xs as [|x xs].
  - inversion H2; subst. reflexivity.
  - rewrite (phl_join _ _ H2) by discriminate. inversion H2 as [|? r ? rest]; subst.
    inversion Ht as [|? ? Hr Hrest]; subst.
    rewrite drop_last_empty_id.
    + cbn [map]. rewrite tight_strip by exact Hr. f_equal. rewrite map_map.
      clear - Hrest. induction Hrest as [|t rest Htt _ IH]; [reflexivity|]. cbn [map].
      rewrite tight_sp_strip by exact Htt. f_equal. exact IH.
    + constructor; [apply tight_nonempty; exact Hr|]. clear - Hrest.
      induction Hrest; cbn [map]; constructor; [discriminate|assumption].
Qed.

(* ------------------------------------------------------------------ lists and sets *)
Lemma rendered_unwrap v : (if is_quoted (rendered v) then inner (rendered v) else rendered v) = v.
Proof.
  unfold rendered. destruct (as_token v) eqn:E.
  - rewrite token_not_quoted by exact E. reflexivity.
  - rewrite is_quoted_wrap, inner_wrap. reflexivity.
Qed.

Lemma list_roundtrip l : parse_list_header (dump_header_list l) = l.
Proof.
  unfold parse_list_header, dump_header_list.
  rewrite (parse_http_list_join (map (quote_header_value true) l) (map rendered l)).
  - rewrite map_map. induction l as [|v l IH]; [reflexivity|]. cbn [map]. rewrite rendered_unwrap, IH. reflexivity.
  - induction l; cbn [map]; constructor; [apply phl_atom_quote|assumption].
  - induction l; cbn [map]; constructor; [apply tight_rendered|assumption].
Qed.

Lemma dump_list_empty l : dump_header_list l = [] -> l = [].
Proof.
  destruct l as [|v l]; [reflexivity|]. unfold dump_header_list. cbn [map]. intro H. exfalso.
  assert (Hq : quote_header_value true v <> []).
  { rewrite quote_shape. cbn [andb]. destruct (as_token v) eqn:E; [apply (as_token_tchars v E)|discriminate]. }
  destruct (map (quote_header_value true) l); cbn [join] in H.
  - contradiction.
  - apply app_eq_nil in H. destruct H. contradiction.
Qed.

Lemma set_roundtrip l : parse_set_header (dump_set_header l) = l.
Proof.
  unfold parse_set_header, dump_set_header. destruct (dump_header_list l) eqn:E.
  - symmetry. apply dump_list_empty. exact E.
  - rewrite <- E. apply list_roundtrip.
Qed.

(* ------------------------------------------------------------------ dicts *)
(* the property's key domain: a token without '*' *)
Definition dict_key_ok (k : str) : bool := token k && negb (mem STAR k).
Definition dict_domain (d : odict) : bool := forallb (fun kv => dict_key_ok (fst kv)) d && keys_distinct d.

Definition ritem (kv : str * option str) : str :=
  match snd kv with None => fst kv | Some v => fst kv ++ EQ :: rendered v end.

Lemma key_last_not_star k : dict_key_ok k = true -> exists c, last_e k = Ok c /\ (c =? STAR) = false.
Proof.
  unfold dict_key_ok. intro H. apply andb_prop in H. destruct H as [Ht Hs]. apply token_forall in Ht.
  destruct Ht as [Hne Ht]. apply negb_true_iff in Hs.
  destruct (last_e_forall (fun c => negb (c =? STAR)) k Hne) as [c [Hc Hp]].
  - apply mem_false_iff in Hs. eapply forallb_impl; [|exact Hs]. intros x Hx. cbv beta in *. rewrite N.eqb_sym. exact Hx.
  - exists c. split; [exact Hc|]. apply negb_true_iff. exact Hp.
Qed.

Lemma dump_item_ok kv : dict_key_ok (fst kv) = true ->
  exists x, dump_item kv = Ok x /\ phl_atom x (ritem kv) /\ tight (ritem kv).
Proof.
  destruct kv as [k [v|]]; cbn [fst]; intro Hk; unfold dump_item, ritem; cbn [fst snd].
  - destruct (key_last_not_star k Hk) as [c [Hc Hs]]. unfold last_is. rewrite Hc, Hs.
    unfold dict_key_ok in Hk. apply andb_prop in Hk. destruct Hk as [Ht _]. apply token_forall in Ht.
    destruct Ht as [Hne Ht]. eexists. split; [reflexivity|]. split.
    + apply phl_atom_app; [apply phl_atom_plain, tchars_plain; exact Ht|].
      change (EQ :: quote_header_value true v) with ([EQ] ++ quote_header_value true v).
      change (EQ :: rendered v) with ([EQ] ++ rendered v).
      apply phl_atom_app; [apply phl_atom_char; reflexivity|apply phl_atom_quote].
    + apply tight_app_l; [apply tight_tchars; assumption|].
      change (EQ :: rendered v) with ([EQ] ++ rendered v). apply tight_app_l; [|apply tight_rendered].
      exists EQ, EQ. repeat split; reflexivity.
  - unfold dict_key_ok in Hk. apply andb_prop in Hk. destruct Hk as [Ht _]. apply token_forall in Ht.
    destruct Ht as [Hne Ht]. exists k. split; [reflexivity|]. split.
    + apply phl_atom_plain, tchars_plain; exact Ht.
    + apply tight_tchars; assumption.
Qed.

Lemma dump_items_ok d : forallb (fun kv => dict_key_ok (fst kv)) d = true ->
  exists xs, map_res dump_item d = Ok xs /\ Forall2 phl_atom xs (map ritem d) /\ Forall tight (map ritem d).
Proof.
  induction d as [|kv d IH]; cbn [forallb map_res map]; [intros _; exists []; repeat split; constructor|].
  intro H. apply andb_prop in H. destruct H as [Hk Hd].
  destruct (dump_item_ok kv Hk) as (x & Hx & Ha & Ht). destruct (IH Hd) as (xs & Hxs & Has & Hts).
  exists (x :: xs). rewrite Hx, Hxs. cbn [bind]. repeat split; constructor; assumption.
Qed.

Lemma ritem_not_quoted kv : dict_key_ok (fst kv) = true -> is_quoted (ritem kv) = false.
Proof.
  intro Hk. unfold dict_key_ok in Hk. apply andb_prop in Hk. destruct Hk as [Ht _]. apply token_forall in Ht.
  destruct Ht as [Hne Ht]. destruct kv as [k o]. cbn [fst] in *. destruct k as [|c k]; [congruence|].
  cbn [forallb] in Ht. apply andb_prop in Ht. destruct Ht as [Hc _].
  destruct o as [v|]; unfold ritem; cbn [fst snd app];
    (eapply is_quoted_head; [reflexivity|apply (tchar_facts c Hc)]).
Qed.

Lemma pdh_item_ritem acc kv : dict_key_ok (fst kv) = true ->
  pdh_item acc (ritem kv) = Ok (dict_set (fst kv) (snd kv) acc).
Proof.
  intro Hk. destruct (key_last_not_star _ Hk) as [c [Hc Hs]].
  unfold dict_key_ok in Hk. apply andb_prop in Hk. destruct Hk as [Ht _]. apply token_forall in Ht.
  destruct Ht as [Hne Ht]. destruct kv as [k o]. cbn [fst snd] in *.
  assert (Heq : mem EQ k = false) by (apply (tchars_no EQ k Ht); reflexivity).
  unfold pdh_item, ritem. cbn [fst snd]. destruct o as [v|].
  - rewrite partition1_app by exact Heq. rewrite tchars_strip by exact Ht.
    destruct k as [|k0 k']; [congruence|]. rewrite tight_strip by apply tight_rendered.
    rewrite Hc. cbn [bind]. rewrite Hs. cbn [bind]. rewrite rendered_unwrap. reflexivity.
  - rewrite partition1_none by exact Heq. rewrite tchars_strip by exact Ht.
    destruct k as [|k0 k']; [congruence|]. reflexivity.
Qed.

Lemma fold_pdh acc d :
  forallb (fun kv => dict_key_ok (fst kv)) d = true -> keys_distinct (acc ++ d) = true ->
  fold_res pdh_item acc (map ritem d) = Ok (acc ++ d).
Proof.
  revert acc. induction d as [|[k o] d IH]; intros acc Hk Hd; [rewrite app_nil_r; reflexivity|].
  cbn [forallb] in Hk. apply andb_prop in Hk. destruct Hk as [Hk1 Hk2]. cbn [map fold_res].
  rewrite pdh_item_ritem by exact Hk1. cbn [bind fst snd].
  destruct (keys_distinct_app acc k o d Hd) as [Hfresh Hd2].
  rewrite dict_set_fresh by exact Hfresh. rewrite IH by assumption. rewrite <- app_assoc. reflexivity.
Qed.

Lemma dict_roundtrip d : dict_domain d = true ->
  exists h, dump_header_dict d = Ok h /\ parse_dict_header h = Ok d.
Proof.
  unfold dict_domain. intro H. apply andb_prop in H. destruct H as [Hk Hd].
  destruct (dump_items_ok d Hk) as (xs & Hxs & Ha & Ht).
  exists (join [COMMA; SP] xs). unfold dump_header_dict. rewrite Hxs. cbn [bind]. split; [reflexivity|].
  unfold parse_dict_header, parse_list_header. rewrite (parse_http_list_join xs (map ritem d) Ha Ht).
  rewrite map_map.
  assert (Hm : map (fun x => if is_quoted (ritem x) then inner (ritem x) else ritem x) d = map ritem d).
  { clear - Hk. induction d as [|kv d IH]; [reflexivity|]. cbn [forallb] in Hk. apply andb_prop in Hk.
    destruct Hk as [H1 H2]. cbn [map]. rewrite ritem_not_quoted by exact H1. rewrite IH by exact H2. reflexivity. }
  rewrite Hm. apply (fold_pdh [] d Hk Hd).
Qed.
