let s_of = nlist_of_csv
let to_s = csv_of_nlist
let explode s = List.init (String.length s) (fun i -> n_of_int (Char.code s.[i]))
let implode l = String.concat "" (List.map (fun x -> String.make 1 (Char.chr (int_of_n x))) l)
let zt s = z_of_text (explode s)
let tz z = implode (text_of_Z z)
let exn_name = function
  | IndexError -> "IndexError" | ValueError -> "ValueError" | UnicodeError -> "UnicodeError" | BinasciiError -> "binascii.Error"
  | KeyError -> "KeyError" | TypeError -> "TypeError" | AssertionError -> "AssertionError" | OverflowError -> "OverflowError"
  | HTTPError c -> "HTTP" ^ string_of_int (int_of_n c) | OutOfFuel -> "OutOfFuel" | Unmodelled -> "Unmodelled"
let res f = function Ok a -> "ok " ^ f a | Err e -> "err:" ^ exn_name e
let split c s = if s = "~" then [] else String.split_on_char c s
let lst s = List.map s_of (split '|' s)
let show_lst l = if l = [] then "~" else String.concat "|" (List.map to_s l)
let opt f = function None -> "~" | Some x -> f x
let kv_opt s = match String.index_opt s '=' with
  | None -> (s_of s, None)
  | Some i -> (s_of (String.sub s 0 i), Some (s_of (String.sub s (i + 1) (String.length s - i - 1))))
let kv s = match kv_opt s with (k, Some v) -> (k, v) | (k, None) -> (k, [])
let show_od d = if d = [] then "~" else String.concat "|" (List.map (fun (k, v) -> to_s k ^ (match v with None -> "" | Some x -> "=" ^ to_s x)) d)
let show_sd d = if d = [] then "~" else String.concat "|" (List.map (fun (k, v) -> to_s k ^ "=" ^ to_s v) d)
let oz s = if s = "~" then None else Some (zt s)
let show_oz = opt tz
let rng_item s = match String.index_opt s ':' with
  | Some i -> (zt (String.sub s 0 i), oz (String.sub s (i + 1) (String.length s - i - 1)))
  | None -> (zt s, None)
let show_range r = to_s r.r_units ^ ";" ^ (if r.r_ranges = [] then "~" else String.concat "," (List.map (fun (b, e) -> tz b ^ ":" ^ show_oz e) r.r_ranges))
let show_cr c = opt to_s c.c_units ^ ";" ^ show_oz c.c_start ^ ";" ^ show_oz c.c_stop ^ ";" ^ show_oz c.c_length
let show_et e = (if e.star then "star" else "tags") ^ ";" ^ show_lst e.strong ^ ";" ^ show_lst e.weak
let ccty = function "bool" -> CcBool | "int" -> CcInt | _ -> CcStr
let ccval s = if s = "none" then CvNone else if s = "true" then CvBool true else if s = "false" then CvBool false
  else if s.[0] = 'i' then CvInt (zt (String.sub s 1 (String.length s - 1))) else CvStr (s_of (String.sub s 1 (String.length s - 1)))
let show_ccval = function CvNone -> "none" | CvBool true -> "true" | CvBool false -> "false" | CvInt z -> "i" ^ tz z | CvStr s -> "s" ^ to_s s
let () = iter_lines (fun line ->
  match fields line with
  | ["quote"; a; v] -> to_s (quote_header_value (a = "1") (s_of v))
  | ["unquote"; v] -> to_s (unquote_header_value (s_of v))
  | ["plist"; v] -> show_lst (parse_list_header (s_of v))
  | ["dlist"; l] -> to_s (dump_header_list (lst l))
  | ["pset"; v] -> show_lst (parse_set_header (s_of v))
  | ["pdict"; v] -> res show_od (parse_dict_header (s_of v))
  | ["ddict"; d] -> res to_s (dump_header_dict (List.map kv_opt (split '|' d)))
  | ["popt"; v] -> res (fun (h, o) -> to_s h ^ ";" ^ show_sd o) (parse_options_header (s_of v))
  | ["dopt"; h; d] -> res to_s (dump_options_header (s_of h) (List.map kv (split '|' d)))
  | ["petags"; v] -> res show_et (parse_etags (s_of v))
  | ["detags"; st; wk; star] -> to_s (etags_to_header (etags_new (lst st) (lst wk) (star = "1")))
  | ["qetag"; v; w] -> res to_s (quote_etag (s_of v) (w = "1"))
  | ["uqetag"; v] -> opt (fun (e, w) -> to_s e ^ ";" ^ (if w then "1" else "0")) (unquote_etag (s_of v))
  | ["prange"; v] -> res (opt show_range) (parse_range_header (s_of v))
  | ["drange"; u; items] -> res to_s (bind (range_new (s_of u) (List.map rng_item (split ',' items))) range_to_header)
  | ["pcrange"; v] -> res (opt show_cr) (parse_content_range_header (s_of v))
  | ["dcrange"; u; a; b; l] -> res to_s (bind (content_range_new (if u = "~" then None else Some (s_of u)) (oz a) (oz b) (oz l)) content_range_to_header)
  | ["ibrv"; a; b; l] -> opt (fun x -> if x then "true" else "false") (is_byte_range_valid (oz a) (oz b) (oz l))
  | ["page"; v] -> res show_oz (parse_age (s_of v))
  | ["dage"; z] -> res to_s (dump_age (zt z))
  | ["pcsp"; v] -> show_sd (parse_csp (s_of v))
  | ["dcsp"; d] -> to_s (dump_csp (List.map kv (split '|' d)))
  | ["ccget"; d; k; e; t] -> show_ccval (cc_get (List.map kv_opt (split '|' d)) (s_of k) (ccval e) (ccty t))
  | ["ccset"; d; k; v; t] -> res show_od (cc_set (List.map kv_opt (split '|' d)) (s_of k) (ccval v) (ccty t))
  | ["b64e"; v] -> to_s (b64encode (s_of v))
  | ["basic"; u; pw] -> to_s (basic_to_header (s_of u) (s_of pw))
  | ["tokhdr"; sch; tok] -> to_s (token_to_header (s_of sch) (s_of tok))
  | ["fdate"; w; d; mo; y; h; mi; se] ->
      let n x = n_of_int (int_of_string x) in
      to_s (format_http_date { f_wday = n w; f_day = n d; f_mon = n mo; f_year = n y; f_hour = n h; f_min = n mi; f_sec = n se })
  | ["pdate"; v] ->
      (match parse_http_date (s_of v) with
       | None -> "~"
       | Some (((((d, mo), y), h), mi), se) -> String.concat " " (List.map (fun x -> string_of_int (int_of_n x)) [d; mo; y; h; mi; se]))
  | ["paramhdr"; sch; d] -> res to_s (params_to_header (s_of sch) (List.map kv_opt (split '|' d)))
  | ["digesthdr"; d] -> to_s (www_digest_to_header (List.map kv (split '|' d)))
  | ["pdate3"; v] ->
      (match parse_date_shapes (s_of v) with
       | None -> "~"
       | Some ((((((d, mo), y), h), mi), se), off) ->
         String.concat " " (List.map (fun x -> string_of_int (int_of_n x)) [d; mo; y; h; mi; se]) ^ " " ^ tz off)
  | ["title"; v] -> to_s (py_title (s_of v))
  | ["pint"; v] -> res tz (plain_int (s_of v))
  | ["int"; v] -> res tz (py_int (s_of v))
  | _ -> "bad-command")
