(* C06 proofs, part 4 (the F column): normal forms, Content-Security-Policy, cache-control properties. *)
From Coq Require Import ZArith Lia ZifyBool ZifyN.
From Wz Require Import lib.Bytes lib.BytesFacts lib.Utf8 C06.LibPy C06.LibPyFacts C06.Gen C06.Model C06.Proofs C06.Proofs2 C06.Proofs3.
Open Scope N_scope.
Ltac Zify.zify_post_hook ::= Z.to_euclidean_division_equations.

(* ------------------------------------------------------------------ normal forms *)
(* where the round trip holds on every value, parsing is a normal form for every header text *)
Lemma list_normal_form h : parse_list_header (dump_header_list (parse_list_header h)) = parse_list_header h.
Proof. apply list_roundtrip. Qed.
Lemma set_normal_form h : parse_set_header (dump_set_header (parse_set_header h)) = parse_set_header h.
Proof. apply set_roundtrip. Qed.
Lemma quote_normal_form a h :
  unquote_header_value (quote_header_value a (unquote_header_value h)) = unquote_header_value h.
Proof. apply quote_roundtrip. Qed.

(* dicts: false in general (keys that are not tokens do not survive), true when the parsed keys are *)
Definition s_star_eq_x : str := [42; 61; 120].
Lemma dict_normal_form_refuted :
  exists h d t d', parse_dict_header h = Ok d /\ dump_header_dict d = Ok t /\ parse_dict_header t = Ok d' /\ d' <> d.
Proof.
  exists s_star_eq_x. eexists. eexists. eexists. split; [vm_compute; reflexivity|]. split; [vm_compute; reflexivity|].
  split; [vm_compute; reflexivity|]. discriminate.
Qed.
Lemma dict_normal_form_partial h d : parse_dict_header h = Ok d -> dict_domain d = true ->
  exists t, dump_header_dict d = Ok t /\ parse_dict_header t = parse_dict_header h.
Proof. intros H Hd. destruct (dict_roundtrip d Hd) as (t & Ht & Hp). exists t. rewrite H. tauto. Qed.

(* entity tags: the normal form holds wherever the parsed tags lie in the round-trip domain *)
Lemma etags_normal_form_partial h e : parse_etags h = Ok e -> etag_domain e = true ->
  parse_etags (etags_to_header e) = parse_etags h.
Proof. intros H Hd. rewrite H. apply etags_roundtrip. exact Hd. Qed.

(* option headers: a key that keeps a star after RFC 2231 processing is written raw *)
Definition s_opt_star : str := [97; 59; 32; 98; 42; 42; 61; 120; 32; 121].
Lemma options_normal_form_refuted :
  exists s h o t r, parse_options_header s = Ok (h, o) /\ dump_options_header h o = Ok t /\ parse_options_header t = Ok r /\ r <> (h, o).
Proof.
  exists [97; 59; 32; 98; 42; 42; 61; 120]. eexists. eexists. eexists. eexists.
  split; [vm_compute; reflexivity|]. split; [vm_compute; reflexivity|]. split; [vm_compute; reflexivity|]. discriminate.
Qed.
Lemma options_normal_form_partial s h o : parse_options_header s = Ok (h, o) -> opt_domain h o = true ->
  exists t, dump_options_header h o = Ok t /\ parse_options_header t = parse_options_header s.
Proof. intros H Hd. destruct (options_roundtrip h o Hd) as (t & Ht & Hp). exists t. rewrite H. tauto. Qed.

(* ------------------------------------------------------------------ Content-Security-Policy *)
Definition csp_key_ok (k : str) : bool :=
  match k with [] => false | _ => forallb (fun c => negb (uni_ws c) && negb (c =? SEMI)) k end.
Definition csp_val_ok (v : str) : bool :=
  match v with [] => false | _ => negb (mem SEMI v) && list_eqb (py_strip v) v end.
Definition csp_domain (d : sdict) : bool :=
  forallb (fun kv => csp_key_ok (fst kv) && csp_val_ok (snd kv)) d && keys_distinct d.

Definition policy (kv : str * str) : str := fst kv ++ SP :: snd kv.

Lemma csp_key_facts k : csp_key_ok k = true ->
  k <> [] /\ mem SP k = false /\ mem SEMI k = false /\ py_strip k = k /\ exists c r, k = c :: r /\ uni_ws c = false.
Proof.
  unfold csp_key_ok. destruct k as [|c r]; [discriminate|]. intro H. split; [discriminate|].
  assert (Hws : forallb (fun x => negb (uni_ws x)) (c :: r) = true).
  { eapply forallb_impl; [|exact H]. intros x Hx. cbv beta in Hx. apply andb_prop in Hx. tauto. }
  split; [apply (forallb_mem_false _ SP _ H); reflexivity|].
  split; [apply (forallb_mem_false _ SEMI _ H); reflexivity|].
  split; [apply py_strip_none; exact Hws|]. exists c, r. split; [reflexivity|].
  cbn [forallb] in Hws. apply andb_prop in Hws. apply negb_true_iff. tauto.
Qed.

Lemma rstrip_length (p : N -> bool) s : (length (rstrip p s) <= length s)%nat.
Proof.
  induction s as [|x r IH]; [apply le_n|]. cbn [rstrip]. destruct (rstrip p r) as [|y r'].
  - destruct (p x); cbn [length]; lia.
  - cbn [length] in *. lia.
Qed.

Lemma drop_while_length (p : N -> bool) s : (length (drop_while p s) <= length s)%nat.
Proof. induction s as [|x r IH]; [apply le_n|]. cbn [drop_while]. destruct (p x); cbn [length]; lia. Qed.

Lemma rstrip_fixed_last (p : N -> bool) s : rstrip p s = s -> s <> [] -> exists z, last_e s = Ok z /\ p z = false.
Proof.
  induction s as [|x r IH]; [congruence|]. intros H _. cbn [rstrip] in H. destruct r as [|y t].
  - cbn [rstrip] in H. destruct (p x) eqn:E; [discriminate|]. exists x. split; [reflexivity|exact E].
  - destruct (rstrip p (y :: t)) as [|y' r'] eqn:E.
    + destruct (p x); discriminate.
    + injection H as H1 H2. subst y' r'. destruct (IH eq_refl ltac:(discriminate)) as (z & Hz & Hpz). exists z. split; [|exact Hpz].
      rewrite last_e_cons by discriminate. exact Hz.
Qed.

Lemma strip_tight_back v : v <> [] -> py_strip v = v -> tight v.
Proof.
  intros Hne Hs. unfold py_strip, strip in Hs. destruct v as [|c r]; [congruence|].
  assert (Hc : uni_ws c = false).
  { destruct (uni_ws c) eqn:E; [|reflexivity]. exfalso. cbn [drop_while] in Hs. rewrite E in Hs.
    pose proof (rstrip_length uni_ws (drop_while uni_ws r)) as L1. pose proof (drop_while_length uni_ws r) as L2.
    rewrite Hs in L1. cbn [length] in L1. lia. }
  cbn [drop_while] in Hs. rewrite Hc in Hs.
  destruct (rstrip_fixed_last uni_ws (c :: r) Hs ltac:(discriminate)) as (z & Hz & Hwz).
  exists c, z. repeat split; assumption.
Qed.

Lemma csp_val_facts v : csp_val_ok v = true -> v <> [] /\ mem SEMI v = false /\ tight v.
Proof.
  unfold csp_val_ok. destruct v as [|c r]; [discriminate|]. intro H. apply andb_prop in H. destruct H as [H1 H2].
  apply negb_true_iff in H1. apply list_eqb_eq in H2. split; [discriminate|]. split; [exact H1|].
  apply strip_tight_back; [discriminate|exact H2].
Qed.

Lemma policy_tight kv : csp_key_ok (fst kv) = true -> csp_val_ok (snd kv) = true -> tight (policy kv).
Proof.
  intros Hk Hv. destruct (csp_key_facts _ Hk) as (Hne & _ & _ & _ & c & r & Ek & Hc).
  destruct (csp_val_facts _ Hv) as (Hvne & _ & a & z & Ha & Hz & Hwa & Hwz). unfold policy.
  exists c, z. split; [rewrite Ek; reflexivity|]. split; [|split; assumption].
  change (fst kv ++ SP :: snd kv) with (fst kv ++ [SP] ++ snd kv). rewrite app_assoc. rewrite last_e_app_r by exact Hvne. exact Hz.
Qed.

Definition csp_core (p : str) : option (str * str) :=
  if mem SP p then
    match partition1 SP p with
    | (d, Some v) => Some (py_strip d, py_strip v)
    | (_, None) => None
    end
  else None.

Lemma csp_policy_core pol : csp_policy pol = csp_core (py_strip pol).
Proof. reflexivity. Qed.

Lemma csp_policy_of kv : csp_key_ok (fst kv) = true -> csp_val_ok (snd kv) = true ->
  csp_policy (policy kv) = Some kv /\ csp_policy (SP :: policy kv) = Some kv.
Proof.
  intros Hk Hv. pose proof (policy_tight kv Hk Hv) as Ht.
  destruct (csp_key_facts _ Hk) as (Hne & Hsp & _ & Hsk & _). destruct (csp_val_facts _ Hv) as (Hvne & _ & Htv).
  assert (H1 : csp_core (policy kv) = Some kv).
  { unfold csp_core, policy. rewrite mem_app, mem_cons, N.eqb_refl, orb_true_r.
    rewrite partition1_app by exact Hsp. rewrite Hsk, tight_strip by exact Htv. destruct kv; reflexivity. }
  rewrite !csp_policy_core. rewrite tight_strip by exact Ht. rewrite tight_sp_strip by exact Ht. split; exact H1.
Qed.

Lemma split_on_semi_join items :
  Forall (fun s => mem SEMI s = false) items -> items <> [] ->
  split_on SEMI (join [SEMI; SP] items) = match items with x :: r => x :: map (fun t => SP :: t) r | [] => [] end.
Proof.
  induction items as [|x items IH]; [congruence|]. intros H _. inversion H as [|? ? Hx Hr]; subst.
  destruct items as [|y items].
  - cbn [join map]. apply split_on_no. exact Hx.
  - rewrite join_cons2.
    change (x ++ [SEMI; SP] ++ join [SEMI; SP] (y :: items)) with (x ++ SEMI :: SP :: join [SEMI; SP] (y :: items)).
    rewrite split_on_app by exact Hx. f_equal.
    assert (Hsp : forall t, split_on SEMI (SP :: t) = match split_on SEMI t with p :: l => (SP :: p) :: l | [] => [[SP]] end).
    { intro t. cbn [split_on]. change (SP =? SEMI) with false. reflexivity. }
    rewrite Hsp. rewrite (IH Hr ltac:(discriminate)). reflexivity.
Qed.

Lemma fold_csp acc d :
  forallb (fun kv => csp_key_ok (fst kv) && csp_val_ok (snd kv)) d = true -> keys_distinct (acc ++ d) = true ->
  fold_left (fun d0 pol => match csp_policy pol with Some (k, v) => dict_set k v d0 | None => d0 end)
            (map (fun kv => SP :: policy kv) d) acc = acc ++ d.
Proof.
  revert acc. induction d as [|[k v] d IH]; intros acc H Hd; [rewrite app_nil_r; reflexivity|].
  cbn [forallb fst snd] in H. apply andb_prop in H. destruct H as [Hkv Hrest]. apply andb_prop in Hkv. destruct Hkv as [Hk Hv].
  cbn [map fold_left]. rewrite (proj2 (csp_policy_of (k, v) Hk Hv)).
  destruct (keys_distinct_app acc k v d Hd) as [Hfresh Hd2]. rewrite dict_set_fresh by exact Hfresh.
  rewrite IH by assumption. rewrite <- app_assoc. reflexivity.
Qed.

Lemma csp_roundtrip d : csp_domain d = true -> parse_csp (dump_csp d) = d.
Proof.
  unfold csp_domain. intro H. apply andb_prop in H. destruct H as [Hok Hd]. unfold parse_csp, dump_csp.
  destruct d as [|[k v] d]; [reflexivity|].
  change (map (fun kv => fst kv ++ SP :: snd kv) ((k, v) :: d)) with (map policy ((k, v) :: d)).
  rewrite split_on_semi_join.
  - cbn [map fold_left]. cbn [forallb fst snd] in Hok. apply andb_prop in Hok. destruct Hok as [Hkv Hrest].
    apply andb_prop in Hkv. destruct Hkv as [Hk Hv]. rewrite (proj1 (csp_policy_of (k, v) Hk Hv)). cbn [dict_set].
    rewrite map_map. apply (fold_csp [(k, v)] d Hrest Hd).
  - clear Hd. induction ((k, v) :: d) as [|[k' v'] l IH]; cbn [map]; constructor.
    + cbn [forallb fst snd] in Hok. apply andb_prop in Hok. destruct Hok as [Hkv _]. apply andb_prop in Hkv. destruct Hkv as [Hk Hv].
      destruct (csp_key_facts _ Hk) as (_ & _ & Hs & _). destruct (csp_val_facts _ Hv) as (_ & Hs2 & _).
      unfold policy. cbn [fst snd]. rewrite mem_app, mem_cons, Hs, Hs2. reflexivity.
    + apply IH. cbn [forallb] in Hok. apply andb_prop in Hok. tauto.
  - discriminate.
Qed.

(* ------------------------------------------------------------------ cache-control typed properties *)
Definition cc_type_of (t : N) : cc_type := if t =? 0 then CcBool else if t =? 1 then CcInt else CcStr.
Definition cc_empty_of (e : N) : cc_value := if e =? 1 then CvBool true else CvNone.

(* a value of the property's own documented type *)
Definition cc_value_ok (v empty : cc_value) (ty : cc_type) : bool :=
  match ty, v with
  | CcBool, CvBool _ => true
  | CcInt, CvNone | CcStr, CvNone => true
  | CcInt, CvInt _ => true
  | CcStr, CvStr _ => true
  | CcInt, CvBool true | CcStr, CvBool true => match empty with CvBool true => true | _ => false end
  | _, _ => false
  end.

Section DictOps.
  Context {V : Type}.
  Implicit Types d : list (str * V).

  Lemma dict_get_set_same k v d : dict_get k (dict_set k v d) = Some v.
  Proof.
    induction d as [|[k' v'] d IH]; cbn [dict_set dict_get].
    - rewrite list_eqb_refl. reflexivity.
    - destruct (list_eqb k k') eqn:E; cbn [dict_get]; rewrite E; [reflexivity|exact IH].
  Qed.

  Lemma dict_get_set_other k k' v d : list_eqb k' k = false -> dict_get k' (dict_set k v d) = dict_get k' d.
  Proof.
    intro Hne. induction d as [|[k2 v2] d IH]; cbn [dict_set dict_get].
    - rewrite Hne. reflexivity.
    - destruct (list_eqb k k2) eqn:E; cbn [dict_get].
      + apply list_eqb_eq in E. subst k2. rewrite Hne. reflexivity.
      + destruct (list_eqb k' k2); [reflexivity|exact IH].
  Qed.

  Lemma dict_has_set_other k k' v d : list_eqb k' k = false -> dict_has k' (dict_set k v d) = dict_has k' d.
  Proof. intro H. unfold dict_has. rewrite dict_get_set_other by exact H. reflexivity. Qed.

  Lemma keys_distinct_set k v d : keys_distinct d = true -> keys_distinct (dict_set k v d) = true.
  Proof.
    induction d as [|[k' v'] d IH]; [reflexivity|]. cbn [keys_distinct dict_set]. intro H. apply andb_prop in H. destruct H as [H1 H2].
    destruct (list_eqb k k') eqn:E; cbn [keys_distinct].
    - rewrite H1, H2. reflexivity.
    - rewrite dict_has_set_other by (rewrite list_eqb_sym; exact E). rewrite H1, (IH H2). reflexivity.
  Qed.

  Lemma dict_has_del_mono k k' d : dict_has k' d = false -> dict_has k' (dict_del k d) = false.
  Proof.
    unfold dict_has. induction d as [|[k2 v2] d IH]; [reflexivity|]. cbn [dict_get dict_del].
    destruct (list_eqb k' k2) eqn:E; [discriminate|]. intro H. destruct (list_eqb k k2); [exact H|].
    cbn [dict_get]. rewrite E. exact (IH H).
  Qed.

  Lemma keys_distinct_del k d : keys_distinct d = true -> keys_distinct (dict_del k d) = true.
  Proof.
    induction d as [|[k' v'] d IH]; [reflexivity|]. cbn [keys_distinct dict_del]. intro H. apply andb_prop in H. destruct H as [H1 H2].
    destruct (list_eqb k k'); [exact H2|]. cbn [keys_distinct]. apply negb_true_iff in H1.
    rewrite (dict_has_del_mono k k' d H1), (IH H2). reflexivity.
  Qed.

  Lemma dict_has_del_same k d : keys_distinct d = true -> dict_has k (dict_del k d) = false.
  Proof.
    induction d as [|[k' v'] d IH]; [reflexivity|]. cbn [keys_distinct dict_del]. intro H. apply andb_prop in H. destruct H as [H1 H2].
    destruct (list_eqb k k') eqn:E.
    - apply list_eqb_eq in E. subst k'. apply negb_true_iff. exact H1.
    - unfold dict_has. cbn [dict_get]. rewrite E. exact (IH H2).
  Qed.

  Lemma forallb_keys_set (P : str -> bool) k v d :
    P k = true -> forallb (fun kv => P (fst kv)) d = true -> forallb (fun kv => P (fst kv)) (dict_set k v d) = true.
  Proof.
    intros Hk. induction d as [|[k' v'] d IH]; cbn [dict_set forallb fst]; [intros _; rewrite Hk; reflexivity|].
    intro H. apply andb_prop in H. destruct H as [H1 H2]. destruct (list_eqb k k'); cbn [forallb fst]; rewrite H1; [exact H2|exact (IH H2)].
  Qed.

  Lemma forallb_keys_del (P : str -> bool) k d :
    forallb (fun kv => P (fst kv)) d = true -> forallb (fun kv => P (fst kv)) (dict_del k d) = true.
  Proof.
    induction d as [|[k' v'] d IH]; [reflexivity|]. cbn [dict_del forallb fst]. intro H. apply andb_prop in H. destruct H as [H1 H2].
    destruct (list_eqb k k'); [exact H2|]. cbn [forallb fst]. rewrite H1. exact (IH H2).
  Qed.
End DictOps.

Lemma dict_domain_set k v (d : odict) : dict_key_ok k = true -> dict_domain d = true -> dict_domain (dict_set k v d) = true.
Proof.
  unfold dict_domain. intros Hk H. apply andb_prop in H. destruct H as [H1 H2].
  rewrite (forallb_keys_set dict_key_ok k v d Hk H1), (keys_distinct_set k v d H2). reflexivity.
Qed.

Lemma dict_domain_del k (d : odict) : dict_domain d = true -> dict_domain (dict_del k d) = true.
Proof.
  unfold dict_domain. intro H. apply andb_prop in H. destruct H as [H1 H2].
  rewrite (forallb_keys_del dict_key_ok k d H1), (keys_distinct_del k d H2). reflexivity.
Qed.

Lemma py_int_str_of_Z z s : str_of_Z z = Ok s -> py_int s = Ok z.
Proof.
  intro H. destruct (Z.ltb z 0) eqn:Hz; [|apply py_int_digits; [exact H|lia]].
  destruct (str_of_Z_neg z s H ltac:(lia)) as (ds & -> & D & Nn). apply str_of_Z_ok in H. destruct H as [Hlen Hs].
  rewrite Hz in Hs. injection Hs as Hs. unfold py_int.
  destruct (last_e_forall is_digit ds Nn D) as (zc & Hzc & Hpz).
  assert (Hst : strip int_ws (DASH :: ds) = DASH :: ds).
  { apply (strip_first_last int_ws _ DASH zc); [reflexivity| |reflexivity|apply int_ws_uni; apply (digit_facts zc Hpz)].
    rewrite last_e_cons by exact Nn. exact Hzc. }
  rewrite Hst. rewrite N.eqb_refl. destruct (digits_head_not_dash ds D Nn) as (c & r & -> & _ & Hc). rewrite Hc.
  rewrite strip_underscores_digits by (try exact D; discriminate). rewrite Hs. rewrite N_of_digits_N_digits by exact Hlen.
  cbn [bind]. f_equal. lia.
Qed.

(* set a typed property, serialise, parse, read it back *)
Lemma cc_roundtrip (d : odict) key e t v d' h :
  dict_domain d = true -> dict_key_ok key = true ->
  cc_value_ok v (cc_empty_of e) (cc_type_of t) = true ->
  cc_set d key v (cc_type_of t) = Ok d' -> dump_header_dict d' = Ok h ->
  parse_dict_header h = Ok d' /\ cc_get d' key (cc_empty_of e) (cc_type_of t) = v.
Proof.
  intros Hd Hk Hv Hset Hdump.
  assert (Hd' : dict_domain d' = true).
  { revert Hset. unfold cc_set. destruct (cc_type_of t), v as [|[|]|z|s]; try discriminate Hv; intro Hset;
      try (injection Hset as <-; first [apply dict_domain_set; assumption|apply dict_domain_del; assumption]).
    - apply bind_ok in Hset. destruct Hset as (s & _ & Hs). injection Hs as <-. apply dict_domain_set; assumption. }
  split.
  { destruct (dict_roundtrip d' Hd') as (h' & Hh' & Hp). rewrite Hdump in Hh'. injection Hh' as <-. exact Hp. }
  assert (Hdist : keys_distinct d = true) by (unfold dict_domain in Hd; apply andb_prop in Hd; tauto).
  revert Hset. unfold cc_set, cc_get. destruct (cc_type_of t) eqn:Et, v as [|[|]|z|s]; try discriminate Hv; intro Hset.
  - injection Hset as <-. unfold dict_has. rewrite dict_get_set_same. reflexivity.
  - injection Hset as <-. rewrite (dict_has_del_same key d Hdist). reflexivity.
  - injection Hset as <-. pose proof (dict_has_del_same key d Hdist) as H. unfold dict_has in H. destruct (dict_get key (dict_del key d)); [discriminate|reflexivity].
  - injection Hset as <-. rewrite dict_get_set_same. unfold cc_value_ok in Hv. destruct (cc_empty_of e) as [|[|]| |]; try discriminate Hv. reflexivity.
  - apply bind_ok in Hset. destruct Hset as (s & Hs & Hset). injection Hset as <-. rewrite dict_get_set_same.
    rewrite (py_int_str_of_Z _ _ Hs). reflexivity.
  - injection Hset as <-. pose proof (dict_has_del_same key d Hdist) as H. unfold dict_has in H. destruct (dict_get key (dict_del key d)); [discriminate|reflexivity].
  - injection Hset as <-. rewrite dict_get_set_same. unfold cc_value_ok in Hv. destruct (cc_empty_of e) as [|[|]| |]; try discriminate Hv. reflexivity.
  - injection Hset as <-. rewrite dict_get_set_same. reflexivity.
Qed.

(* every key of a typed property in the source is a token without a star *)
Lemma cc_property_keys_ok : forallb (fun p => dict_key_ok (fst (fst p))) cc_properties = true.
Proof. vm_compute. reflexivity. Qed.

Lemma cc_roundtrip_all p (d : odict) v d' h : In p cc_properties ->
  dict_domain d = true ->
  cc_value_ok v (cc_empty_of (snd (fst p))) (cc_type_of (snd p)) = true ->
  cc_set d (fst (fst p)) v (cc_type_of (snd p)) = Ok d' -> dump_header_dict d' = Ok h ->
  parse_dict_header h = Ok d' /\ cc_get d' (fst (fst p)) (cc_empty_of (snd (fst p))) (cc_type_of (snd p)) = v.
Proof.
  intros Hin Hd. pose proof cc_property_keys_ok as Hk. rewrite forallb_forall in Hk. apply (cc_roundtrip d _ _ _ v d' h Hd (Hk p Hin)).
Qed.
