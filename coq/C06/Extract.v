From Coq Require Extraction ExtrOcamlBasic.
From Wz Require Import lib.Bytes lib.Utf8 lib.ExtractBase C06.LibPy C06.Gen C06.Model.
Extraction Language OCaml.
Extraction "C06/model_extracted.ml" force_types quote_header_value unquote_header_value parse_list_header dump_header_list
  parse_set_header parse_dict_header dump_header_dict parse_options_header dump_options_header parse_etags etags_to_header etags_new
  quote_etag unquote_etag range_new range_to_header parse_range_header content_range_new content_range_to_header
  parse_content_range_header parse_age dump_age dump_csp parse_csp cc_get cc_set is_byte_range_valid url_unquote charset_match
  plain_int py_int Z_of_text text_of_Z b64encode basic_to_header token_to_header py_title format_http_date parse_http_date params_to_header www_digest_to_header parse_date_shapes.
