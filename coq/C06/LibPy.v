(* Python primitives used by the header codecs, as total Gallina functions over list N, with an
   explicit exception monad for the partial ones.  Definitions only (facts: LibPyFacts.v).
   Candidate for promotion to coq/lib (PyErr, Decimal). *)
From Coq Require Export List NArith ZArith Bool.
From Coq Require Import Decimal DecimalN.
From Wz Require Export lib.Bytes.
Export ListNotations.
Open Scope N_scope.

(* ------------------------------------------------------------------ exceptions *)
Inductive exn :=
  | IndexError | ValueError | UnicodeError | BinasciiError | KeyError | TypeError
  | AssertionError | OverflowError | HTTPError (code : N) | OutOfFuel
  | Unmodelled.   (* the input left the domain a hand-written matcher models; never a Python exception *)

Inductive res (A : Type) := Ok (a : A) | Err (e : exn).
Arguments Ok {A} a.
Arguments Err {A} e.

Definition bind {A B : Type} (r : res A) (f : A -> res B) : res B :=
  match r with Ok a => f a | Err e => Err e end.
Notation "'do' x <- r ; k" := (bind r (fun x => k)) (at level 200, x name, r at level 100, k at level 200).
Notation "'do' ' p <- r ; k" := (bind r (fun x => let 'p := x in k))
  (at level 200, p pattern, r at level 100, k at level 200).

(* except ValueError: UnicodeError and binascii.Error are subclasses of ValueError *)
Definition is_value_error (e : exn) : bool :=
  match e with ValueError | UnicodeError | BinasciiError => true | _ => false end.
Definition is_unicode_error (e : exn) : bool :=
  match e with UnicodeError => true | _ => false end.
Definition is_binascii_error (e : exn) : bool := match e with BinasciiError => true | _ => false end.
Definition is_type_error (e : exn) : bool := match e with TypeError => true | _ => false end.
Definition is_overflow_error (e : exn) : bool := match e with OverflowError => true | _ => false end.
Definition is_key_error (e : exn) : bool := match e with KeyError => true | _ => false end.
Definition is_index_error (e : exn) : bool := match e with IndexError => true | _ => false end.
Definition is_lookup_error (e : exn) : bool := match e with KeyError | IndexError => true | _ => false end.
Definition is_http_error (e : exn) : bool :=
  match e with HTTPError _ => true | _ => false end.

(* try: r  except <cls>: handler *)
Definition try_except {A : Type} (r : res A) (cls : exn -> bool) (handler : res A) : res A :=
  match r with
  | Ok a => Ok a
  | Err e => if cls e then handler else Err e
  end.

(* ------------------------------------------------------------------ characters *)
Definition DQ : N := 34.   Definition BS : N := 92.   Definition COMMA : N := 44.
Definition SEMI : N := 59. Definition EQ : N := 61.   Definition STAR : N := 42.
Definition PCT : N := 37.  Definition SQ : N := 39.   Definition SP : N := 32.
Definition LF : N := 10.   Definition CR : N := 13.   Definition DASH : N := 45.
Definition SLASH : N := 47. Definition COLON : N := 58.

(* str.lower on Latin-1 (exact below 256, identity above: outside the modelled domain) *)
Definition py_lower_c (c : N) : N :=
  if is_upper c then c + 32
  else if (192 <=? c) && (c <=? 222) && negb (c =? 215) then c + 32 else c.
Definition py_lower (s : str) : str := map py_lower_c s.
Definition lower_fixed (s : str) : bool := forallb (fun c => (c <? 256) && (py_lower_c c =? c)) s.

(* ------------------------------------------------------------------ indexing *)
Definition head_e (s : str) : res N := match s with c :: _ => Ok c | [] => Err IndexError end.
Fixpoint last_e (s : str) : res N :=
  match s with
  | [] => Err IndexError
  | [c] => Ok c
  | _ :: r => last_e r
  end.
Definition last_is (x : N) (s : str) : bool :=
  match last_e s with Ok y => y =? x | Err _ => false end.
(* s[1:-1] *)
Definition inner (s : str) : str := removelast (tl s).
(* len(s) >= 2 and s[0] == s[-1] == DQ *)
Definition is_quoted (s : str) : bool :=
  match s with
  | c :: ((_ :: _) as r) => (c =? DQ) && last_is DQ r
  | _ => false
  end.

(* ------------------------------------------------------------------ replace / split / join *)
(* s.replace(c, r) for a one-character pattern *)
Definition replace1 (c : N) (r : str) (s : str) : str :=
  flat_map (fun x => if x =? c then r else [x]) s.

(* s.replace(ab, r) for a two-character pattern: leftmost, non-overlapping *)
Fixpoint replace2 (a b : N) (r : str) (s : str) : str :=
  match s with
  | [] => []
  | x :: tl =>
    match tl with
    | y :: t => if (x =? a) && (y =? b) then r ++ replace2 a b r t else x :: replace2 a b r tl
    | [] => [x]
    end
  end.

(* s.replace(abc, r) for a three-character pattern *)
Fixpoint replace3 (a b c : N) (r : str) (s : str) : str :=
  match s with
  | [] => []
  | x :: tl =>
    match tl with
    | y :: tl2 =>
      match tl2 with
      | z :: t => if (x =? a) && (y =? b) && (z =? c) then r ++ replace3 a b c r t
                  else x :: replace3 a b c r tl
      | [] => [x; y]
      end
    | [] => [x]
    end
  end.

(* s.split(c): always at least one piece *)
Fixpoint split_on (c : N) (s : str) : list str :=
  match s with
  | [] => [[]]
  | x :: r =>
    if x =? c then [] :: split_on c r
    else match split_on c r with
         | p :: l => (x :: p) :: l
         | [] => [[x]]
         end
  end.

Fixpoint join (sep : str) (l : list str) : str :=
  match l with
  | [] => []
  | [x] => x
  | x :: r => x ++ sep ++ join sep r
  end.

Definition py_strip (s : str) : str := strip uni_ws s.
Definition py_lstrip (s : str) : str := drop_while uni_ws s.

(* s.split(None, 1) on an already stripped s: Some (first, rest) when there are two fields *)
Definition split_ws1 (s : str) : option (str * str) :=
  let a := take_while (fun c => negb (uni_ws c)) s in
  match drop_while uni_ws (drop_while (fun c => negb (uni_ws c)) s) with
  | [] => None
  | r => match a with [] => None | _ => Some (a, r) end
  end.

(* ------------------------------------------------------------------ dict (insertion ordered) *)
Section Dict.
  Context {V : Type}.
  Fixpoint dict_get (k : str) (d : list (str * V)) : option V :=
    match d with
    | [] => None
    | (k', v) :: r => if list_eqb k k' then Some v else dict_get k r
    end.
  Fixpoint dict_set (k : str) (v : V) (d : list (str * V)) : list (str * V) :=
    match d with
    | [] => [(k, v)]
    | (k', v') :: r => if list_eqb k k' then (k', v) :: r else (k', v') :: dict_set k v r
    end.
  Fixpoint dict_del (k : str) (d : list (str * V)) : list (str * V) :=
    match d with
    | [] => []
    | (k', v') :: r => if list_eqb k k' then r else (k', v') :: dict_del k r
    end.
  Definition dict_has (k : str) (d : list (str * V)) : bool :=
    match dict_get k d with Some _ => true | None => false end.
  Fixpoint keys_distinct (d : list (str * V)) : bool :=
    match d with
    | [] => true
    | (k, _) :: r => negb (dict_has k r) && keys_distinct r
    end.
End Dict.

Definition str_mem (s : str) (l : list str) : bool := existsb (list_eqb s) l.

(* ------------------------------------------------------------------ int <-> str *)
Fixpoint digits_of_uint (u : uint) : str :=
  match u with
  | Nil => []
  | D0 r => 48 :: digits_of_uint r | D1 r => 49 :: digits_of_uint r
  | D2 r => 50 :: digits_of_uint r | D3 r => 51 :: digits_of_uint r
  | D4 r => 52 :: digits_of_uint r | D5 r => 53 :: digits_of_uint r
  | D6 r => 54 :: digits_of_uint r | D7 r => 55 :: digits_of_uint r
  | D8 r => 56 :: digits_of_uint r | D9 r => 57 :: digits_of_uint r
  end.

(* ASCII digits only; anything else makes the whole conversion fail *)
Fixpoint uint_of_digits (s : str) : option uint :=
  match s with
  | [] => Some Nil
  | c :: r =>
    match uint_of_digits r with
    | None => None
    | Some u =>
      if c =? 48 then Some (D0 u) else if c =? 49 then Some (D1 u)
      else if c =? 50 then Some (D2 u) else if c =? 51 then Some (D3 u)
      else if c =? 52 then Some (D4 u) else if c =? 53 then Some (D5 u)
      else if c =? 54 then Some (D6 u) else if c =? 55 then Some (D7 u)
      else if c =? 56 then Some (D8 u) else if c =? 57 then Some (D9 u)
      else None
    end
  end.

(* sys.int_max_str_digits default *)
Definition MAX_STR_DIGITS : N := 4300.

Definition N_digits (n : N) : str := digits_of_uint (N.to_uint n).

(* str(n) for n : int; ValueError beyond 4300 digits *)
Definition str_of_Z (z : Z) : res str :=
  let ds := N_digits (Z.abs_N z) in
  if MAX_STR_DIGITS <? N.of_nat (length ds) then Err ValueError
  else Ok (if (z <? 0)%Z then DASH :: ds else ds).

(* int(ds) for a non-empty all-ASCII-digit string; ValueError beyond 4300 digits *)
Definition N_of_digits (ds : str) : res N :=
  match ds with
  | [] => Err ValueError
  | _ =>
    match uint_of_digits ds with
    | None => Err ValueError
    | Some u => if MAX_STR_DIGITS <? N.of_nat (length ds) then Err ValueError else Ok (N.of_uint u)
    end
  end.

(* _internal._plain_int: strip, fullmatch -?\d+ (re.ASCII), int() *)
Definition plain_int (s : str) : res Z :=
  let s := py_strip s in
  match s with
  | c :: r =>
    if c =? DASH then (do n <- N_of_digits r; Ok (- Z.of_N n)%Z)
    else (do n <- N_of_digits s; Ok (Z.of_N n))
  | [] => Err ValueError
  end.

(* option Z comparisons as Python evaluates them: None operand = TypeError = None here *)
Definition oz_is_none (a : option Z) : bool := match a with None => true | Some _ => false end.
Definition oz_cmp (f : Z -> Z -> bool) (a b : option Z) : option bool :=
  match a, b with Some x, Some y => Some (f x y) | _, _ => None end.
Definition oz_lt := oz_cmp Z.ltb.
Definition oz_le := oz_cmp Z.leb.
Definition oz_gt := oz_cmp Z.gtb.
Definition oz_ge := oz_cmp Z.geb.
Definition ob_and (a b : option bool) : option bool :=
  match a with Some true => b | Some false => Some false | None => None end.
Definition ob_or (a b : option bool) : option bool :=
  match a with Some true => Some true | Some false => b | None => None end.
Definition ob_not (a : option bool) : option bool := option_map negb a.
Definition ob_eq (a b : option bool) : option bool :=
  match a, b with Some x, Some y => Some (Bool.eqb x y) | _, _ => None end.
Definition ob_neq (a b : option bool) : option bool := ob_not (ob_eq a b).
Definition ob_if (c t e : option bool) : option bool :=
  match c with Some true => t | Some false => e | None => None end.
