(* C06 proofs, part 6 (F column): HTTP dates.  The fixed-width field codec is proved; the calendar
   (instant <-> UTC field tuple, email.utils / datetime) is a Section contract. *)
From Coq Require Import ZArith Lia ZifyBool ZifyN.
From Wz Require Import lib.Bytes lib.BytesFacts C06.LibPy C06.LibPyFacts C06.Gen C06.Model.
Open Scope N_scope.
Ltac Zify.zify_post_hook ::= Z.to_euclidean_division_equations.

Definition fields_ok (f : date_fields) : bool :=
  (f_wday f <? 7) && (1 <=? f_day f) && (f_day f <=? 31) && (1 <=? f_mon f) && (f_mon f <=? 12)
  && (f_year f <? 10000) && (f_hour f <? 24) && (f_min f <? 60) && (f_sec f <? 61).

Lemma num2_pad2 n : n < 100 -> match pad2 n with [a; b] => num2 a b | _ => None end = Some n.
Proof.
  intro H. unfold pad2, num2, is_digit.
  replace ((48 <=? 48 + n / 10) && (48 + n / 10 <=? 57) && ((48 <=? 48 + n mod 10) && (48 + n mod 10 <=? 57))) with true by lia.
  f_equal. lia.
Qed.

Lemma wday_len w : w < 7 -> exists a b c, nth (N.to_nat w) wday_names [] = [a; b; c].
Proof.
  intro H. assert (E : forallb (fun i => match nth (N.to_nat i) wday_names [] with [_; _; _] => true | _ => false end) (nat_range 7) = true) by (vm_compute; reflexivity).
  pose proof (sweep _ 7 E w H) as S. cbv beta in S. destruct (nth (N.to_nat w) wday_names []) as [|a [|b [|c [|]]]]; try discriminate. eauto.
Qed.

Lemma mon_lookup m : 1 <= m -> m <= 12 ->
  exists a b c, nth (N.to_nat (m - 1)) mon_names [] = [a; b; c] /\ month_index [a; b; c] mon_names 1 = Some m.
Proof.
  intros H1 H2.
  assert (E : forallb (fun i => match nth (N.to_nat i) mon_names [] with
                                | [a; b; c] => match month_index [a; b; c] mon_names 1 with Some k => k =? i + 1 | None => false end
                                | _ => false end) (nat_range 12) = true) by (vm_compute; reflexivity).
  pose proof (sweep _ 12 E (m - 1) ltac:(change (N.of_nat 12) with 12; lia)) as S. cbv beta in S.
  destruct (nth (N.to_nat (m - 1)) mon_names []) as [|a [|b [|c [|]]]]; try discriminate.
  exists a, b, c. split; [reflexivity|]. destruct (month_index [a; b; c] mon_names 1) as [k|]; [|discriminate].
  apply N.eqb_eq in S. f_equal. lia.
Qed.

Lemma date_codec f : fields_ok f = true ->
  parse_http_date (format_http_date f) = Some (f_day f, f_mon f, f_year f, f_hour f, f_min f, f_sec f).
Proof.
  unfold fields_ok. intro H. repeat (apply andb_prop in H; destruct H as [H ?]).
  destruct (wday_len (f_wday f) ltac:(lia)) as (w1 & w2 & w3 & Hw).
  destruct (mon_lookup (f_mon f) ltac:(lia) ltac:(lia)) as (m1 & m2 & m3 & Hm & Hidx).
  unfold format_http_date. rewrite Hw, Hm. unfold pad4.
  pose proof (num2_pad2 (f_day f) ltac:(lia)) as Pd. pose proof (num2_pad2 (f_hour f) ltac:(lia)) as Ph.
  pose proof (num2_pad2 (f_min f) ltac:(lia)) as Pm. pose proof (num2_pad2 (f_sec f) ltac:(lia)) as Ps.
  pose proof (num2_pad2 (f_year f / 100) ltac:(lia)) as Pyh. pose proof (num2_pad2 (f_year f mod 100) ltac:(lia)) as Pyl.
  unfold pad2 in *. cbn [app parse_http_date]. rewrite !N.eqb_refl. cbn [andb].
  change (list_eqb s_GMT s_GMT) with true. cbv iota. rewrite Pd, Hidx, Ph, Pm, Ps.
  replace (48 + f_year f / 1000) with (48 + f_year f / 100 / 10) by lia.
  replace (48 + f_year f / 100 mod 10) with (48 + (f_year f / 100) mod 10) by lia. rewrite Pyh.
  replace (48 + f_year f / 10 mod 10) with (48 + (f_year f mod 100) / 10) by lia.
  replace (48 + f_year f mod 10) with (48 + (f_year f mod 100) mod 10) by lia. rewrite Pyl.
  replace (f_year f / 100 * 100 + f_year f mod 100) with (f_year f) by lia. reflexivity.
Qed.

(* calendar arithmetic as a contract: any instant type with a UTC field view that the constructor inverts *)
Section Calendar.
  Variable instant : Type.
  Variable fields_of : instant -> date_fields.
  Variable instant_of : N * N * N * N * N * N -> option instant.
  Hypothesis fields_in_range : forall i, fields_ok (fields_of i) = true.
  Hypothesis instant_of_fields : forall i,
    instant_of (f_day (fields_of i), f_mon (fields_of i), f_year (fields_of i),
                f_hour (fields_of i), f_min (fields_of i), f_sec (fields_of i)) = Some i.

  Definition http_date_m (i : instant) : str := format_http_date (fields_of i).
  Definition parse_date_m (s : str) : option instant :=
    match parse_http_date s with Some t => instant_of t | None => None end.

  Lemma date_roundtrip i : parse_date_m (http_date_m i) = Some i.
  Proof. unfold parse_date_m, http_date_m. rewrite date_codec by apply fields_in_range. apply instant_of_fields. Qed.
End Calendar.

(* ------------------------------------------------------------------ the three accepted shapes and the normal form *)
(* what http_date can emit for an instant parse_date can return: a valid calendar date, year >= 100 (smaller years are
   re-read through the two-digit pivot), no leap second *)
Definition instant_fields_ok (f : date_fields) : bool :=
  fields_ok f && datetime_ok (f_day f) (f_mon f) (f_year f) (f_hour f) (f_min f) (f_sec f) 0 && (100 <=? f_year f).

Lemma date_shapes_canonical f : instant_fields_ok f = true ->
  parse_date_shapes (format_http_date f) = Some (f_day f, f_mon f, f_year f, f_hour f, f_min f, f_sec f, 0%Z).
Proof.
  unfold instant_fields_ok. intro H. apply andb_prop in H. destruct H as [H Hy]. apply andb_prop in H. destruct H as [Hf Hd].
  unfold parse_date_shapes. rewrite (date_codec f Hf). unfold pivot_year. replace (f_year f <? 100) with false by lia.
  rewrite Hd. reflexivity.
Qed.

(* years below 100 do not survive: http_date writes 0050, which is read back through the pivot as 2050 *)
Lemma date_small_year_refuted :
  exists f, fields_ok f = true /\ parse_date_shapes (format_http_date f) <> Some (f_day f, f_mon f, f_year f, f_hour f, f_min f, f_sec f, 0%Z).
Proof.
  exists {| f_wday := 0; f_day := 1; f_mon := 1; f_year := 50; f_hour := 0; f_min := 0; f_sec := 0 |}.
  split; [reflexivity|]. vm_compute. discriminate.
Qed.

Section Calendar3.
  Variable instant : Type.
  Variable fields_of : instant -> date_fields.                               (* an instant's UTC field view *)
  Variable instant_at : N * N * N * N * N * N * Z -> option instant.         (* datetime(fields, tzinfo=offset minutes) as an instant *)
  Hypothesis fields_valid : forall i, instant_fields_ok (fields_of i) = true.
  Hypothesis instant_at_fields : forall i,
    instant_at (f_day (fields_of i), f_mon (fields_of i), f_year (fields_of i),
                f_hour (fields_of i), f_min (fields_of i), f_sec (fields_of i), 0%Z) = Some i.

  (* parse_date on the three shapes; http_date *)
  Definition parse_date_full (t : str) : option instant :=
    match parse_date_shapes t with Some r => instant_at r | None => None end.
  Definition http_date_full (i : instant) : str := format_http_date (fields_of i).

  Lemma date_full_roundtrip i : parse_date_full (http_date_full i) = Some i.
  Proof. unfold parse_date_full, http_date_full. rewrite date_shapes_canonical by apply fields_valid. apply instant_at_fields. Qed.

  (* normal form: whatever text of the three shapes (any zone, two-digit year) was parsed, re-serialising and parsing again
     gives the same instant *)
  Lemma date_normal_form t i : parse_date_full t = Some i -> parse_date_full (http_date_full i) = parse_date_full t.
  Proof. intro H. rewrite H. apply date_full_roundtrip. Qed.
End Calendar3.
