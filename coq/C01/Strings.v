(* C01 step 1: pure string lemmas - stability of the matchers of Model.v under extension of the
   subject on the right (s ++ x).  No decoder state here. *)
From Coq Require Import ZArith Lia ZifyBool ZifyN ZifyNat.
From Wz Require Import lib.Bytes lib.BytesFacts C01.Gen C01.Model.
Open Scope N_scope.

(* ---------- generic list facts ---------- *)

Lemma skipn_app_le (A : Type) n (s x : list A) :
  (n <= length s)%nat -> skipn n (s ++ x) = skipn n s ++ x.
Proof. intro H. rewrite skipn_app. replace (n - length s)%nat with 0%nat by lia. reflexivity. Qed.

Lemma firstn_app_le (A : Type) n (s x : list A) :
  (n <= length s)%nat -> firstn n (s ++ x) = firstn n s.
Proof.
  intro H. rewrite firstn_app. replace (n - length s)%nat with 0%nat by lia.
  cbn [firstn]. apply app_nil_r.
Qed.

Lemma skipn_skipn (A : Type) a b (s : list A) : skipn a (skipn b s) = skipn (b + a) s.
Proof.
  revert s. induction b as [|b IH]; intro s; [reflexivity|].
  destruct s as [|c r]; [rewrite !skipn_nil; reflexivity|]. cbn [skipn Nat.add]. apply IH.
Qed.

Lemma skipn_S_cons (A : Type) n (s : list A) c r : skipn n s = c :: r -> skipn (S n) s = r.
Proof.
  intro H. replace (S n) with (n + 1)%nat by lia. rewrite <- skipn_skipn, H. reflexivity.
Qed.

Lemma skipn_nil_len (A : Type) n (s : list A) : skipn n s = [] -> (length s <= n)%nat.
Proof. intro H. pose proof (skipn_length n s) as L. rewrite H in L. cbn in L. lia. Qed.

Lemma skipn_cons_len (A : Type) n (s : list A) c r : skipn n s = c :: r -> (n < length s)%nat.
Proof. intro H. pose proof (skipn_length n s) as L. rewrite H in L. cbn in L. lia. Qed.

(* ---------- starts_with ---------- *)

Lemma starts_with_app p s x : starts_with p s = true -> starts_with p (s ++ x) = true.
Proof.
  revert s. induction p as [|a p IH]; intros s H; [reflexivity|].
  destruct s as [|c r]; [discriminate|]. cbn [starts_with app] in *.
  apply andb_prop in H. destruct H as [H1 H2]. rewrite H1, (IH _ H2). reflexivity.
Qed.

Lemma starts_with_app_len p s x :
  (length p <= length s)%nat -> starts_with p (s ++ x) = starts_with p s.
Proof.
  revert s. induction p as [|a p IH]; intros s H; [reflexivity|].
  destruct s as [|c r]; [cbn in H; lia|]. cbn [starts_with app]. cbn [length] in H.
  rewrite IH by lia. reflexivity.
Qed.

Lemma starts_with_split p s : starts_with p s = true -> s = p ++ skipn (length p) s.
Proof.
  revert s. induction p as [|a p IH]; intros s H; [reflexivity|].
  destruct s as [|c r]; [discriminate|]. cbn [starts_with] in H.
  apply andb_prop in H. destruct H as [H1 H2]. apply N.eqb_eq in H1. subst c.
  cbn [length skipn app]. f_equal. apply IH. exact H2.
Qed.

Lemma starts_with_refl_app p x : starts_with p (p ++ x) = true.
Proof. induction p as [|a p IH]; [reflexivity|]. cbn [starts_with app]. rewrite N.eqb_refl. exact IH. Qed.

Lemma starts_with_len p s : starts_with p s = true -> (length p <= length s)%nat.
Proof.
  revert s. induction p as [|a p IH]; intros s H; [cbn; lia|].
  destruct s as [|c r]; [discriminate|]. cbn [starts_with] in H. apply andb_prop in H.
  destruct H as [_ H]. apply IH in H. cbn [length]. lia.
Qed.

(* when the subject is shorter than the pattern and the extension matches, the subject is a
   prefix of the pattern *)
Lemma starts_with_short p s x :
  starts_with p (s ++ x) = true -> (length s <= length p)%nat -> s = firstn (length s) p.
Proof.
  revert s. induction p as [|a p IH]; intros s H L.
  - destruct s; [reflexivity|cbn in L; lia].
  - destruct s as [|c r]; [reflexivity|]. cbn [app starts_with] in H. apply andb_prop in H.
    destruct H as [H1 H2]. apply N.eqb_eq in H1. subst c. cbn [length firstn]. f_equal.
    apply IH; [exact H2|cbn in L; lia].
Qed.

(* ---------- line-break characters ---------- *)

Definition is_lb (c : N) : bool := (c =? CR) || (c =? LF).
Definition nolb (s : bytes) : bool := forallb (fun c => negb (is_lb c)) s.

Lemma hws_not_lb c : hws c = true -> is_lb c = false.
Proof. unfold hws, is_lb, CR, LF. intro H. lia. Qed.

Lemma dash_not_lb : is_lb DASH = false.
Proof. reflexivity. Qed.

Lemma nolb_app a b : nolb (a ++ b) = nolb a && nolb b.
Proof. apply forallb_app. Qed.

Lemma nolb_firstn n s : nolb s = true -> nolb (firstn n s) = true.
Proof.
  revert s. induction n as [|n IH]; intros s H; [reflexivity|]. destruct s as [|c r]; [reflexivity|].
  cbn [firstn nolb forallb] in *. apply andb_prop in H. destruct H as [H1 H2].
  rewrite H1. apply IH. exact H2.
Qed.

Lemma nolb_skipn n s : nolb s = true -> nolb (skipn n s) = true.
Proof.
  revert s. induction n as [|n IH]; intros s H; [exact H|]. destruct s as [|c r]; [reflexivity|].
  cbn [skipn]. apply IH. cbn [nolb forallb] in H. apply andb_prop in H. apply H.
Qed.

Lemma nolb_take_while_hws s : nolb (take_while hws s) = true.
Proof.
  induction s as [|c r IH]; [reflexivity|]. cbn [take_while]. destruct (hws c) eqn:E; [|reflexivity].
  cbn [nolb forallb]. rewrite (hws_not_lb _ E). exact IH.
Qed.

(* ---------- lb_len ---------- *)

Lemma lb_len_le2 s : (lb_len s <= 2)%nat.
Proof.
  destruct s as [|c r]; cbn [lb_len]; [lia|].
  destruct (c =? CR); [destruct r as [|d r']; [lia|destruct (d =? LF); lia]|destruct (c =? LF); lia].
Qed.

Lemma lb_len_le_len s : (lb_len s <= length s)%nat.
Proof.
  destruct s as [|c r]; cbn [lb_len length]; [lia|].
  destruct (c =? CR); [destruct r as [|d r']; [lia|destruct (d =? LF); cbn [length]; lia]|destruct (c =? LF); lia].
Qed.

Lemma lb_len_pos_head s : (0 < lb_len s)%nat -> exists c r, s = c :: r /\ is_lb c = true.
Proof.
  destruct s as [|c r]; cbn [lb_len]; [lia|]. intro H. exists c, r. split; [reflexivity|].
  unfold is_lb. destruct (c =? CR); [reflexivity|]. destruct (c =? LF); [reflexivity|lia].
Qed.

Lemma lb_len_head_lb c r : is_lb c = true -> (0 < lb_len (c :: r))%nat.
Proof.
  unfold is_lb. cbn [lb_len]. intro H.
  destruct (c =? CR); [destruct r as [|d r']; [lia|destruct (d =? LF); lia]|].
  destruct (c =? LF); [lia|discriminate].
Qed.

Lemma lb_len_nolb s : nolb s = true -> lb_len s = 0%nat.
Proof.
  destruct s as [|c r]; [reflexivity|]. cbn [nolb forallb lb_len]. unfold is_lb. intro H.
  apply andb_prop in H. destruct H as [H _].
  destruct (c =? CR); [discriminate|]. destruct (c =? LF); [discriminate|reflexivity].
Qed.

Lemma lb_len_app_mono s x : (lb_len s <= lb_len (s ++ x))%nat.
Proof.
  destruct s as [|c r]; cbn [lb_len app]; [lia|].
  destruct (c =? CR); [|lia].
  destruct r as [|d r']; cbn [app]; [|lia]. destruct x as [|d x']; [lia|destruct (d =? LF); lia].
Qed.

(* the only way the line break grows: s is the single CR and x starts with LF *)
Lemma lb_len_app s x :
  s <> [] ->
  lb_len (s ++ x) = lb_len s \/
  (exists x', s = [CR] /\ x = LF :: x' /\ lb_len s = 1%nat /\ lb_len (s ++ x) = 2%nat).
Proof.
  intro Hs. destruct s as [|c r]; [congruence|]. cbn [lb_len app].
  destruct (c =? CR) eqn:Ec; [|left; reflexivity].
  destruct r as [|d r']; cbn [app]; [|left; reflexivity].
  destruct x as [|d x']; [left; reflexivity|].
  destruct (d =? LF) eqn:Ed; [|left; reflexivity].
  right. apply N.eqb_eq in Ec, Ed. subst. exists x'. repeat split; reflexivity.
Qed.

Lemma lb_len_app_2 s x : (2 <= length s)%nat -> lb_len (s ++ x) = lb_len s.
Proof.
  intro L. destruct s as [|c [|d r]]; cbn [length] in L; try lia. reflexivity.
Qed.

Lemma lb_len_app_pos_nocr s x c r : s = c :: r -> (c =? CR) = false -> lb_len (s ++ x) = lb_len s.
Proof. intros -> H. cbn [app lb_len]. rewrite H. reflexivity. Qed.

(* ---------- take_while ---------- *)

Lemma take_while_app (p : N -> bool) s x :
  take_while p (s ++ x) = if forallb p s then s ++ take_while p x else take_while p s.
Proof.
  induction s as [|c r IH]; [reflexivity|]. cbn [app take_while forallb].
  destruct (p c); [|reflexivity]. cbn [andb]. rewrite IH. destruct (forallb p r); reflexivity.
Qed.

Lemma take_while_all (p : N -> bool) s : forallb p s = true -> take_while p s = s.
Proof.
  induction s as [|c r IH]; [reflexivity|]. cbn [forallb take_while]. intro H.
  apply andb_prop in H. destruct H as [H1 H2]. rewrite H1, (IH H2). reflexivity.
Qed.

Lemma take_while_len_le (p : N -> bool) s : (length (take_while p s) <= length s)%nat.
Proof.
  induction s as [|c r IH]; [cbn; lia|]. cbn [take_while]. destruct (p c); cbn [length]; lia.
Qed.

Lemma take_while_forallb (p : N -> bool) s : forallb p (take_while p s) = true.
Proof.
  induction s as [|c r IH]; [reflexivity|]. cbn [take_while]. destruct (p c) eqn:E; [|reflexivity].
  cbn [forallb]. rewrite E. exact IH.
Qed.

Lemma take_while_split (p : N -> bool) s :
  s = take_while p s ++ skipn (length (take_while p s)) s.
Proof.
  induction s as [|c r IH]; [reflexivity|]. cbn [take_while]. destruct (p c); [|reflexivity].
  cbn [length skipn app]. f_equal. exact IH.
Qed.

(* the byte right after the taken prefix fails the test *)
Lemma take_while_stop (p : N -> bool) s c r :
  skipn (length (take_while p s)) s = c :: r -> p c = false.
Proof.
  induction s as [|a s IH]; [discriminate|]. cbn [take_while]. destruct (p a) eqn:E.
  - cbn [length skipn]. exact IH.
  - cbn [length skipn]. intro H. inversion H. subst. exact E.
Qed.

(* a not-exhausted take_while is stable under extension *)
Lemma take_while_app_stable (p : N -> bool) s x :
  (length (take_while p s) < length s)%nat -> take_while p (s ++ x) = take_while p s.
Proof.
  intro H. rewrite take_while_app. destruct (forallb p s) eqn:E; [|reflexivity].
  rewrite take_while_all in H by exact E. lia.
Qed.

(* ---------- match_tail: --B(--[hws]*LB?|[hws]*LB) ---------- *)

(* the part after --B, as its own function *)
Definition match_rest (r : bytes) : option (nat * bool) :=
  if starts_with [DASH; DASH] r then
    let r2 := skipn 2 r in
    let h := length (take_while hws r2) in
    Some ((2 + h + lb_len (skipn h r2))%nat, true)
  else
    let h := length (take_while hws r) in
    let l := lb_len (skipn h r) in
    if Nat.eqb l 0 then None else Some ((h + l)%nat, false).

Definition dd (B : bytes) : bytes := DASH :: DASH :: B.

Lemma match_tail_rest B s :
  match_tail B s =
  if starts_with (dd B) s then
    match match_rest (skipn (2 + length B) s) with
    | Some (e, f) => Some ((2 + length B + e)%nat, f)
    | None => None
    end
  else None.
Proof.
  unfold match_tail, match_rest, dd. destruct (starts_with (DASH :: DASH :: B) s); [|reflexivity].
  destruct (starts_with [DASH; DASH] (skipn (2 + length B) s)).
  - f_equal. f_equal. lia.
  - destruct (Nat.eqb _ 0); [reflexivity|]. f_equal. f_equal. lia.
Qed.

Lemma dd_length B : length (dd B) = (2 + length B)%nat.
Proof. reflexivity. Qed.

Lemma nolb_dd B : nolb B = true -> nolb (dd B) = true.
Proof. intro H. unfold dd. cbn [nolb forallb]. rewrite dash_not_lb. exact H. Qed.

(* blanks then a line break: the non-final alternative on r *)
Lemma lb_len_skipn_take_while_app r x :
  let h := length (take_while hws r) in
  (0 < lb_len (skipn h r))%nat ->
  length (take_while hws (r ++ x)) = h /\ skipn h (r ++ x) = skipn h r ++ x /\ (h < length r)%nat.
Proof.
  intros h Hl.
  assert (Hlt : (h < length r)%nat).
  { destruct (skipn h r) as [|c t] eqn:E; [cbn in Hl; lia|]. eapply skipn_cons_len; exact E. }
  split; [|split; [|exact Hlt]].
  - unfold h. rewrite take_while_app_stable by exact Hlt. reflexivity.
  - apply skipn_app_le. lia.
Qed.

Lemma match_rest_app_some r x e f :
  match_rest r = Some (e, f) ->
  exists e', match_rest (r ++ x) = Some (e', f) /\ (e <= e')%nat /\ (e <= length r)%nat /\
    (f = false -> e' = e \/
       (e = length r /\ e' = S e /\ (exists x', x = LF :: x') /\ exists r0, r = r0 ++ [CR])).
Proof.
  unfold match_rest. destruct (starts_with [DASH; DASH] r) eqn:Edd.
  - remember (skipn 2 r) as r2 eqn:Er2.
    intro H. injection H as He Hf. subst e f.
    rewrite (starts_with_app _ _ x Edd).
    pose proof (starts_with_len _ _ Edd) as L2. cbn [length] in L2.
    rewrite (skipn_app_le _ 2 r x L2). rewrite <- Er2.
    assert (Lr2 : (length r2 + 2 = length r)%nat) by (rewrite Er2, skipn_length; lia).
    eexists. split; [reflexivity|].
    pose proof (take_while_len_le hws r2) as Lh.
    pose proof (lb_len_le_len (skipn (length (take_while hws r2)) r2)) as Ll.
    rewrite skipn_length in Ll.
    split; [|split; [lia|discriminate]].
    rewrite take_while_app. destruct (forallb hws r2) eqn:Eall.
    + rewrite (take_while_all _ _ Eall). rewrite skipn_all. cbn [lb_len]. rewrite app_length. lia.
    + rewrite skipn_app_le by exact Lh.
      pose proof (lb_len_app_mono (skipn (length (take_while hws r2)) r2) x). lia.
  - set (h := length (take_while hws r)). destruct (Nat.eqb (lb_len (skipn h r)) 0) eqn:El; [discriminate|].
    apply Nat.eqb_neq in El. intro H. injection H as He Hf. subst e f.
    destruct (lb_len_skipn_take_while_app r x) as [Hh [Hs Hlt]]; [fold h; lia|]. fold h in Hh, Hs, Hlt.
    (* r ++ x does not start with -- : its head is a blank or a line-break byte *)
    assert (Edd' : starts_with [DASH; DASH] (r ++ x) = false).
    { destruct r as [|c t]; [cbn in Hlt; lia|]. cbn [app starts_with].
      destruct (c =? DASH) eqn:Ec; [|rewrite N.eqb_sym, Ec; reflexivity].
      apply N.eqb_eq in Ec. subst c. exfalso. unfold h in El. vm_compute in El. apply El. reflexivity. }
    rewrite Edd'. rewrite Hh, Hs.
    assert (Hne : skipn h r <> []) by (intro E; rewrite E in El; cbn in El; lia).
    pose proof (lb_len_le_len (skipn h r)) as Ll. rewrite skipn_length in Ll.
    destruct (lb_len_app (skipn h r) x Hne) as [Eq|[x' [E1 [E2 [E3 E4]]]]].
    + rewrite Eq. destruct (Nat.eqb (lb_len (skipn h r)) 0) eqn:El2; [apply Nat.eqb_eq in El2; lia|].
      eexists. split; [reflexivity|]. split; [lia|]. split; [lia|]. intros _. left. reflexivity.
    + rewrite E4. cbn [Nat.eqb]. eexists. split; [reflexivity|]. rewrite E3.
      assert (Lr : (length r = h + 1)%nat).
      { pose proof (skipn_length h r) as L. rewrite E1 in L. cbn [length] in L. lia. }
      split; [lia|]. split; [lia|]. intros _. right. split; [lia|]. split; [lia|].
      split; [exists x'; exact E2|]. exists (firstn h r).
      rewrite <- E1. symmetry. apply firstn_skipn.
Qed.

Lemma match_rest_app_none r x e' f :
  match_rest r = None -> match_rest (r ++ x) = Some (e', f) ->
  nolb r = true /\ (length r < e')%nat /\
  (f = false -> forallb hws r = true) /\ (f = true -> (length r < 2)%nat).
Proof.
  unfold match_rest. destruct (starts_with [DASH; DASH] r) eqn:Edd; [discriminate|].
  set (h := length (take_while hws r)).
  destruct (Nat.eqb (lb_len (skipn h r)) 0) eqn:El; [|discriminate]. apply Nat.eqb_eq in El.
  intros _. destruct (starts_with [DASH; DASH] (r ++ x)) eqn:Edd'.
  - intro H. inversion H. subst f. 
    assert (L : (length r < 2)%nat).
    { destruct (Nat.ltb (length r) 2) eqn:E; [apply Nat.ltb_lt in E; exact E|].
      apply Nat.ltb_ge in E. rewrite starts_with_app_len in Edd' by exact E. congruence. }
    assert (Hp := starts_with_short _ _ _ Edd' ltac:(cbn [length]; lia)).
    split; [|split; [lia|split; [discriminate|intros _; exact L]]].
    rewrite Hp. apply nolb_firstn. reflexivity.
  - rewrite take_while_app. destruct (forallb hws r) eqn:Eall.
    + remember (lb_len (skipn (length (r ++ take_while hws x)) (r ++ x))) as l' eqn:El'.
      destruct (Nat.eqb l' 0) eqn:E0; [discriminate|]. intro H. injection H as He Hf. subst e' f.
      apply Nat.eqb_neq in E0.
      split; [|split; [|split; [intros _; reflexivity|discriminate]]].
      * rewrite <- (take_while_all _ _ Eall). apply nolb_take_while_hws.
      * rewrite app_length. lia.
    + intro H. exfalso. fold h in H. pose proof (take_while_len_le hws r) as Lh. fold h in Lh.
      revert H. rewrite skipn_app_le by exact Lh.
      destruct (skipn h r) as [|c t] eqn:Es.
      * (* h = length r, so all of r is blank *)
        apply skipn_nil_len in Es. assert (h = length r) by lia.
        pose proof (take_while_forallb hws r) as F.
        assert (take_while hws r = r).
        { pose proof (take_while_split hws r) as S. fold h in S. rewrite skipn_all2 in S by lia.
          rewrite app_nil_r in S. symmetry. exact S. }
        congruence.
      * pose proof (take_while_stop hws r c t Es) as Hc.
        cbn [app lb_len] in El |- *.
        destruct (c =? CR) eqn:Ecr; [destruct t as [|d t']; [lia|destruct (d =? LF); lia]|].
        destruct (c =? LF) eqn:Elf; [lia|]. cbn [Nat.eqb]. discriminate.
Qed.

Lemma match_tail_some_dd B s e f : match_tail B s = Some (e, f) -> starts_with (dd B) s = true.
Proof. rewrite match_tail_rest. destruct (starts_with (dd B) s); [reflexivity|discriminate]. Qed.

Lemma match_tail_app_dd B s x e f :
  match_tail B (s ++ x) = Some (e, f) -> (2 + length B <= length s)%nat -> starts_with (dd B) s = true.
Proof.
  intros H L. apply match_tail_some_dd in H. rewrite starts_with_app_len in H; [exact H|].
  rewrite dd_length. exact L.
Qed.

Lemma match_tail_app_some B s x e f :
  match_tail B s = Some (e, f) ->
  exists e', match_tail B (s ++ x) = Some (e', f) /\ (e <= e')%nat /\ (e <= length s)%nat /\
    (f = false -> e' = e \/
       (e = length s /\ e' = S e /\ (exists x', x = LF :: x') /\ exists s0, s = s0 ++ [CR])).
Proof.
  rewrite !match_tail_rest. destruct (starts_with (dd B) s) eqn:Edd; [|discriminate].
  rewrite (starts_with_app _ _ x Edd).
  pose proof (starts_with_len _ _ Edd) as L. rewrite dd_length in L.
  rewrite (skipn_app_le _ _ s x L).
  remember (skipn (2 + length B) s) as r eqn:Er.
  assert (Lr : (length r + (2 + length B) = length s)%nat) by (rewrite Er, skipn_length; lia).
  destruct (match_rest r) as [[e0 f0]|] eqn:Em; [|discriminate].
  intro H. injection H as He Hf. subst e f0.
  destruct (match_rest_app_some r x e0 f Em) as [e1 [H1 [H2 [H3 H4]]]].
  rewrite H1. eexists. split; [reflexivity|]. split; [lia|]. split; [lia|].
  intro Hf. destruct (H4 Hf) as [->|[E1 [E2 [E3 [r0 E4]]]]]; [left; reflexivity|].
  right. split; [lia|]. split; [lia|]. split; [exact E3|].
  exists (firstn (2 + length B) s ++ r0). rewrite <- app_assoc, <- E4, Er. symmetry. apply firstn_skipn.
Qed.

Lemma match_tail_app_none B s x e' f :
  nolb B = true -> match_tail B s = None -> match_tail B (s ++ x) = Some (e', f) ->
  nolb s = true /\ (length s < e')%nat /\
  (f = false -> (length s <= 2 + length B + length (take_while hws (skipn (2 + length B) (s ++ x))))%nat) /\
  (f = true -> (length s < 2 + length B + 2)%nat).
Proof.
  intros HB. rewrite !match_tail_rest.
  destruct (starts_with (dd B) (s ++ x)) eqn:Edd'; [|discriminate].
  destruct (Nat.leb (2 + length B) (length s)) eqn:EL.
  - apply Nat.leb_le in EL. pose proof Edd' as Edd. rewrite starts_with_app_len in Edd by (rewrite dd_length; exact EL).
    rewrite Edd. rewrite (skipn_app_le _ _ s x EL).
    remember (skipn (2 + length B) s) as r eqn:Er.
    assert (Lr : (length r + (2 + length B) = length s)%nat) by (rewrite Er, skipn_length; lia).
    destruct (match_rest r) as [[e0 f0]|] eqn:Em; [discriminate|]. intros _.
    destruct (match_rest (r ++ x)) as [[e1 f1]|] eqn:Em'; [|discriminate].
    intro H. injection H as He Hf. subst e' f1.
    destruct (match_rest_app_none r x e1 f Em Em') as [H1 [H2 [H3 H4]]].
    split; [|split; [lia|split]].
    + rewrite <- (firstn_skipn (2 + length B) s), nolb_app, <- Er, H1, andb_true_r.
      rewrite (starts_with_split _ _ Edd), dd_length, firstn_app, dd_length.
      replace (2 + length B - (2 + length B))%nat with 0%nat by lia. cbn [firstn]. rewrite app_nil_r.
      apply nolb_firstn. apply nolb_dd. exact HB.
    + intro Hf. specialize (H3 Hf). rewrite take_while_app, H3, app_length. lia.
    + intro Hf. specialize (H4 Hf). lia.
  - apply Nat.leb_gt in EL. intros _ H.
    assert (Hp := starts_with_short _ _ _ Edd' ltac:(rewrite dd_length; lia)).
    destruct (match_rest (skipn (2 + length B) (s ++ x))) as [[e1 f1]|]; [|discriminate].
    injection H as He Hf. subst e' f1.
    split; [|split; [lia|split; intros _; lia]].
    rewrite Hp. apply nolb_firstn. apply nolb_dd. exact HB.
Qed.

(* ---------- match_delim ---------- *)

Lemma match_delim_nil opt B : match_delim opt B [] = None.
Proof. unfold match_delim. cbn [lb_len Nat.ltb Nat.leb]. destruct opt; reflexivity. Qed.

Lemma match_tail_head_dash B s e f : match_tail B s = Some (e, f) -> exists r, s = DASH :: r.
Proof.
  intro H. apply match_tail_some_dd in H. destruct s as [|c r]; [discriminate|].
  unfold dd in H. cbn [starts_with] in H. apply andb_prop in H. destruct H as [H _].
  apply N.eqb_eq in H. subst c. exists r. reflexivity.
Qed.

Lemma match_tail_len B s e f : match_tail B s = Some (e, f) -> (2 + length B <= e)%nat.
Proof.
  rewrite match_tail_rest. destruct (starts_with (dd B) s); [|discriminate].
  destruct (match_rest _) as [[e0 f0]|]; [|discriminate]. intro H. injection H as He Hf. lia.
Qed.

(* unfolding as a specification *)
Lemma match_delim_spec opt B s e f :
  match_delim opt B s = Some (e, f) <->
  exists e0, match_tail B (skipn (lb_len s) s) = Some (e0, f) /\ e = (lb_len s + e0)%nat /\
             ((0 < lb_len s)%nat \/ opt = true).
Proof.
  unfold match_delim. destruct (Nat.ltb 0 (lb_len s)) eqn:El.
  - apply Nat.ltb_lt in El. destruct (match_tail B (skipn (lb_len s) s)) as [[e0 f0]|].
    + split.
      * intro H. injection H as He Hf. subst. exists e0. auto.
      * intros [e1 [H1 [H2 _]]]. injection H1 as He Hf. subst. reflexivity.
    + split; [discriminate|]. intros [e1 [H1 _]]. discriminate.
  - apply Nat.ltb_ge in El. assert (E0 : lb_len s = 0%nat) by lia. rewrite E0. cbn [skipn].
    destruct opt.
    + split.
      * intro H. exists e. auto.
      * intros [e0 [H1 [H2 _]]]. rewrite H1. subst. reflexivity.
    + split; [discriminate|]. intros [e0 [_ [_ [H|H]]]]; [lia|discriminate].
Qed.

Lemma match_delim_app_some opt B s x e f :
  match_delim opt B s = Some (e, f) ->
  exists e', match_delim opt B (s ++ x) = Some (e', f) /\ (e <= e')%nat /\ (e <= length s)%nat /\
    (f = false -> e' = e \/
       (e = length s /\ e' = S e /\ (exists x', x = LF :: x') /\ exists s0, s = s0 ++ [CR])).
Proof.
  intro H. apply match_delim_spec in H. destruct H as [e0 [Ht [He Ho]]].
  pose proof (lb_len_le_len s) as Ll.
  assert (Hlb : lb_len (s ++ x) = lb_len s).
  { destruct (match_tail_head_dash _ _ _ _ Ht) as [r Hr].
    destruct (lb_len_app s x) as [E|[x' [E1 _]]]; [|exact E|].
    - intro Es. subst s. rewrite skipn_nil in Hr. discriminate.
    - subst s. cbn [lb_len] in Hr. change (CR =? CR) with true in Hr. cbn [skipn] in Hr. discriminate. }
  destruct (match_tail_app_some B _ x e0 f Ht) as [e1 [H1 [H2 [H3 H4]]]].
  rewrite skipn_length in H3.
  exists (lb_len s + e1)%nat. split; [|split; [lia|split; [lia|]]].
  - apply match_delim_spec. exists e1. rewrite Hlb, skipn_app_le by exact Ll. auto.
  - intro Hf. destruct (H4 Hf) as [->|[E1 [E2 [E3 [s0 E4]]]]]; [left; lia|].
    right. rewrite skipn_length in E1. split; [lia|]. split; [lia|]. split; [exact E3|].
    exists (firstn (lb_len s) s ++ s0). rewrite <- app_assoc, <- E4. symmetry. apply firstn_skipn.
Qed.

(* a match that appears only after extension: either the leading line break itself changed
   (s is empty or the single CR), or the tail at the same offset was incomplete in s *)
Lemma match_delim_app_none opt B s x e' f :
  match_delim opt B s = None -> match_delim opt B (s ++ x) = Some (e', f) ->
  lb_len (s ++ x) <> lb_len s \/
  (lb_len (s ++ x) = lb_len s /\
   match_tail B (skipn (lb_len s) s) = None /\
   match_tail B (skipn (lb_len s) s ++ x) = Some ((e' - lb_len s)%nat, f) /\ (lb_len s <= e')%nat).
Proof.
  intros Hn Hs. destruct (Nat.eq_dec (lb_len (s ++ x)) (lb_len s)) as [E|E]; [right|left; exact E].
  apply match_delim_spec in Hs. destruct Hs as [e0 [Ht [He Ho]]]. rewrite E in *.
  rewrite skipn_app_le in Ht by apply lb_len_le_len.
  split; [reflexivity|]. split; [|split; [|lia]].
  - destruct (match_tail B (skipn (lb_len s) s)) as [[e1 f1]|] eqn:Et; [|reflexivity].
    exfalso. assert (match_delim opt B s = Some ((lb_len s + e1)%nat, f1)); [|congruence].
    apply match_delim_spec. exists e1. auto.
  - rewrite Ht. f_equal. f_equal. lia.
Qed.

Lemma lb_len_app_neq s x :
  lb_len (s ++ x) <> lb_len s -> s = [] \/ (s = [CR] /\ exists x', x = LF :: x').
Proof.
  intro H. destruct s as [|c r]; [left; reflexivity|right].
  destruct (lb_len_app (c :: r) x) as [E|[x' [E1 [E2 _]]]]; [discriminate|congruence|].
  split; [exact E1|exists x'; exact E2].
Qed.

(* ---------- search_delim: leftmost match ---------- *)

Lemma search_delim_at_some opt B s i ms me f :
  search_delim_at opt B s i = Some (ms, me, f) ->
  exists k, ms = (i + k)%nat /\ (k <= length s)%nat /\ (ms <= me)%nat /\
    match_delim opt B (skipn k s) = Some ((me - ms)%nat, f) /\
    forall j, (j < k)%nat -> match_delim opt B (skipn j s) = None.
Proof.
  revert i. induction s as [|c r IH]; intro i; cbn [search_delim_at].
  - rewrite match_delim_nil. discriminate.
  - destruct (match_delim opt B (c :: r)) as [[e f0]|] eqn:Em.
    + intro H. injection H as H1 H2 H3. subst. exists 0%nat.
      split; [lia|]. split; [lia|]. split; [lia|]. split.
      * cbn [skipn]. rewrite Em. f_equal. f_equal. lia.
      * intros j Hj. lia.
    + intro H. destruct (IH _ H) as [k [H1 [H2 [H3 [H4 H5]]]]]. exists (S k).
      split; [lia|]. split; [cbn [length]; lia|]. split; [lia|]. split; [exact H4|].
      intros j Hj. destruct j as [|j]; [exact Em|]. cbn [skipn]. apply H5. lia.
Qed.

Lemma search_delim_at_none opt B s i :
  search_delim_at opt B s i = None -> forall j, match_delim opt B (skipn j s) = None.
Proof.
  revert i. induction s as [|c r IH]; intro i; cbn [search_delim_at].
  - intros _ j. rewrite skipn_nil. apply match_delim_nil.
  - destruct (match_delim opt B (c :: r)) as [[e f0]|] eqn:Em; [discriminate|].
    intros H j. destruct j as [|j]; [exact Em|]. cbn [skipn]. eapply IH. exact H.
Qed.

Lemma search_delim_at_intro opt B s i k e f :
  match_delim opt B (skipn k s) = Some (e, f) ->
  (forall j, (j < k)%nat -> match_delim opt B (skipn j s) = None) ->
  search_delim_at opt B s i = Some ((i + k)%nat, (i + k + e)%nat, f).
Proof.
  revert s i. induction k as [|k IH]; intros s i Hm Hn.
  - cbn [skipn] in Hm. destruct s as [|c r]; [rewrite match_delim_nil in Hm; discriminate|].
    cbn [search_delim_at]. rewrite Hm. f_equal. f_equal. f_equal; lia.
  - destruct s as [|c r]; [rewrite skipn_nil, match_delim_nil in Hm; discriminate|].
    cbn [search_delim_at]. pose proof (Hn 0%nat ltac:(lia)) as H0. cbn [skipn] in H0. rewrite H0. cbn [skipn] in Hm.
    rewrite (IH r (S i) Hm).
    + f_equal. f_equal. f_equal; lia.
    + intros j Hj. apply (Hn (S j)). lia.
Qed.

(* absolute positions *)
Lemma search_delim_some opt B s pos ms me f :
  search_delim opt B s pos = Some (ms, me, f) ->
  (pos <= ms)%nat /\ (ms <= length s)%nat /\ (ms <= me)%nat /\
  match_delim opt B (skipn ms s) = Some ((me - ms)%nat, f) /\
  forall j, (pos <= j < ms)%nat -> match_delim opt B (skipn j s) = None.
Proof.
  unfold search_delim. intro H. apply search_delim_at_some in H.
  destruct H as [k [H1 [H2 [H3 [H4 H5]]]]]. rewrite skipn_length in H2. rewrite skipn_skipn in H4.
  assert (Hpos : (pos <= length s)%nat).
  { destruct (Nat.leb pos (length s)) eqn:E; [apply Nat.leb_le in E; exact E|]. apply Nat.leb_gt in E.
    rewrite skipn_all2 in H4 by lia. rewrite match_delim_nil in H4. discriminate. }
  subst ms. split; [lia|]. split; [lia|]. split; [lia|]. split; [exact H4|].
  intros j Hj. replace j with (pos + (j - pos))%nat by lia. rewrite <- skipn_skipn. apply H5. lia.
Qed.

Lemma search_delim_none opt B s pos :
  search_delim opt B s pos = None -> forall j, (pos <= j)%nat -> match_delim opt B (skipn j s) = None.
Proof.
  unfold search_delim. intros H j Hj. replace j with (pos + (j - pos))%nat by lia.
  rewrite <- skipn_skipn. eapply search_delim_at_none. exact H.
Qed.

Lemma search_delim_intro opt B s pos ms e f :
  (pos <= ms)%nat ->
  match_delim opt B (skipn ms s) = Some (e, f) ->
  (forall j, (pos <= j < ms)%nat -> match_delim opt B (skipn j s) = None) ->
  search_delim opt B s pos = Some (ms, (ms + e)%nat, f).
Proof.
  intros Hp Hm Hn. unfold search_delim.
  replace ms with (pos + (ms - pos))%nat at 1 2 by lia.
  apply search_delim_at_intro.
  - rewrite skipn_skipn. replace (pos + (ms - pos))%nat with ms by lia. exact Hm.
  - intros j Hj. rewrite skipn_skipn. apply Hn. lia.
Qed.

Lemma match_delim_some_bounds opt B s e f :
  match_delim opt B s = Some (e, f) -> (e <= length s)%nat /\ (2 + length B <= e)%nat.
Proof.
  intro H. destruct (match_delim_app_some opt B s [] e f H) as [e' [_ [_ [L _]]]].
  split; [exact L|]. apply match_delim_spec in H. destruct H as [e0 [H1 [H2 _]]].
  apply match_tail_len in H1. lia.
Qed.

(* a match found in s stays the match at that position in s ++ x *)
Lemma match_at_app_some opt B s x j e f :
  match_delim opt B (skipn j s) = Some (e, f) ->
  exists e', match_delim opt B (skipn j (s ++ x)) = Some (e', f) /\ (e <= e')%nat /\
    (j + e <= length s)%nat /\
    (f = false -> e' = e \/
       ((j + e)%nat = length s /\ e' = S e /\ (exists x', x = LF :: x') /\ exists s0, s = s0 ++ [CR])).
Proof.
  intro H. pose proof (match_delim_some_bounds _ _ _ _ _ H) as [Lb _]. rewrite skipn_length in Lb.
  assert (Lj : (j <= length s)%nat).
  { destruct (Nat.leb j (length s)) eqn:E; [apply Nat.leb_le in E; exact E|]. apply Nat.leb_gt in E.
    rewrite skipn_all2 in H by lia. rewrite match_delim_nil in H. discriminate. }
  rewrite skipn_app_le by exact Lj.
  destruct (match_delim_app_some opt B _ x e f H) as [e' [H1 [H2 [H3 H4]]]].
  exists e'. split; [exact H1|]. split; [exact H2|]. split; [lia|].
  intro Hf. destruct (H4 Hf) as [->|[E1 [E2 [E3 [s0 E4]]]]]; [left; reflexivity|].
  right. rewrite skipn_length in E1. split; [lia|]. split; [exact E2|]. split; [exact E3|].
  exists (firstn j s ++ s0). rewrite <- app_assoc, <- E4. symmetry. apply firstn_skipn.
Qed.

(* ---------- match_blank / search_blank ---------- *)

Lemma starts_with_app_new p s x :
  starts_with p s = false -> starts_with p (s ++ x) = true -> (length s < length p)%nat.
Proof.
  intros H1 H2. destruct (Nat.leb (length p) (length s)) eqn:E; [|apply Nat.leb_gt in E; exact E].
  apply Nat.leb_le in E. rewrite starts_with_app_len in H2 by exact E. congruence.
Qed.

Lemma match_blank_cases s :
  match_blank s = 0%nat \/ match_blank s = 2%nat \/ match_blank s = 4%nat.
Proof.
  unfold match_blank. destruct (starts_with [CR; LF; CR; LF] s); [auto|].
  destruct (starts_with [CR; CR] s); [auto|]. destruct (starts_with [LF; LF] s); auto.
Qed.

Lemma match_blank_le_len s : (match_blank s <= length s)%nat.
Proof.
  unfold match_blank.
  destruct (starts_with [CR; LF; CR; LF] s) eqn:E1; [apply starts_with_len in E1; exact E1|].
  destruct (starts_with [CR; CR] s) eqn:E2; [apply starts_with_len in E2; exact E2|].
  destruct (starts_with [LF; LF] s) eqn:E3; [apply starts_with_len in E3; exact E3|lia].
Qed.

Lemma match_blank_app_some s x : match_blank s <> 0%nat -> match_blank (s ++ x) = match_blank s.
Proof.
  unfold match_blank.
  destruct (starts_with [CR; LF; CR; LF] s) eqn:E1; [rewrite (starts_with_app _ _ x E1); reflexivity|].
  destruct (starts_with [CR; CR] s) eqn:E2.
  - intros _. rewrite (starts_with_app _ _ x E2).
    destruct (starts_with [CR; LF; CR; LF] (s ++ x)) eqn:E1'; [|reflexivity]. exfalso.
    destruct s as [|a s1]; [discriminate|]. destruct s1 as [|b r].
    { cbn [starts_with] in E2. rewrite andb_false_r in E2. discriminate. }
    cbn [app starts_with] in E1', E2.
    destruct (CR =? a); [|discriminate]. cbn [andb] in *.
    destruct (CR =? b) eqn:Eb; [|discriminate]. apply N.eqb_eq in Eb. subst b. discriminate.
  - destruct (starts_with [LF; LF] s) eqn:E3; [|congruence].
    intros _. rewrite (starts_with_app _ _ x E3).
    destruct s as [|a s1]; [discriminate|]. cbn [app starts_with] in E3 |- *.
    destruct (LF =? a) eqn:Ea; [|discriminate]. apply N.eqb_eq in Ea. subst a. reflexivity.
Qed.

Lemma match_blank_app_none s x :
  match_blank s = 0%nat -> match_blank (s ++ x) <> 0%nat -> (length s < match_blank (s ++ x))%nat.
Proof.
  unfold match_blank.
  destruct (starts_with [CR; LF; CR; LF] s) eqn:E1; [discriminate|].
  destruct (starts_with [CR; CR] s) eqn:E2; [discriminate|].
  destruct (starts_with [LF; LF] s) eqn:E3; [discriminate|]. intros _.
  destruct (starts_with [CR; LF; CR; LF] (s ++ x)) eqn:E1'.
  { intros _. apply (starts_with_app_new _ _ _ E1 E1'). }
  destruct (starts_with [CR; CR] (s ++ x)) eqn:E2'.
  { intros _. apply (starts_with_app_new _ _ _ E2 E2'). }
  destruct (starts_with [LF; LF] (s ++ x)) eqn:E3'.
  { intros _. apply (starts_with_app_new _ _ _ E3 E3'). }
  congruence.
Qed.

(* the midpoint of a blank line is a line-break byte *)
Lemma match_blank_mid_lb s :
  match_blank s <> 0%nat -> (0 < lb_len (skipn (Nat.div (match_blank s) 2) s))%nat.
Proof.
  unfold match_blank.
  destruct (starts_with [CR; LF; CR; LF] s) eqn:E1.
  { intros _. rewrite (starts_with_split _ _ E1). cbn. lia. }
  destruct (starts_with [CR; CR] s) eqn:E2.
  { intros _. rewrite (starts_with_split _ _ E2). change (Nat.div 2 2) with 1%nat.
    cbn [length app skipn]. apply lb_len_head_lb. reflexivity. }
  destruct (starts_with [LF; LF] s) eqn:E3; [|congruence].
  intros _. rewrite (starts_with_split _ _ E3). change (Nat.div 2 2) with 1%nat.
  cbn [length app skipn]. apply lb_len_head_lb. reflexivity.
Qed.

Lemma match_blank_nil : match_blank [] = 0%nat.
Proof. reflexivity. Qed.

Lemma search_blank_at_some s i ms me :
  search_blank_at s i = Some (ms, me) ->
  exists k, ms = (i + k)%nat /\ (k <= length s)%nat /\
    me = (ms + match_blank (skipn k s))%nat /\ match_blank (skipn k s) <> 0%nat /\
    forall j, (j < k)%nat -> match_blank (skipn j s) = 0%nat.
Proof.
  revert i. induction s as [|c r IH]; intro i; cbn [search_blank_at].
  - rewrite match_blank_nil. discriminate.
  - destruct (match_blank (c :: r)) as [|n] eqn:Em.
    + intro H. destruct (IH _ H) as [k [H1 [H2 [H3 [H4 H5]]]]]. exists (S k).
      split; [lia|]. split; [cbn [length]; lia|]. split; [exact H3|]. split; [exact H4|].
      intros j Hj. destruct j as [|j]; [exact Em|]. cbn [skipn]. apply H5. lia.
    + intro H. injection H as H1 H2. subst. exists 0%nat. cbn [skipn]. rewrite Em.
      split; [lia|]. split; [lia|]. split; [lia|]. split; [lia|]. intros j Hj. lia.
Qed.

Lemma search_blank_at_none s i :
  search_blank_at s i = None -> forall j, match_blank (skipn j s) = 0%nat.
Proof.
  revert i. induction s as [|c r IH]; intro i; cbn [search_blank_at].
  - intros _ j. rewrite skipn_nil. reflexivity.
  - destruct (match_blank (c :: r)) as [|n] eqn:Em; [|discriminate].
    intros H j. destruct j as [|j]; [exact Em|]. cbn [skipn]. eapply IH. exact H.
Qed.

Lemma search_blank_at_intro s i k :
  match_blank (skipn k s) <> 0%nat ->
  (forall j, (j < k)%nat -> match_blank (skipn j s) = 0%nat) ->
  search_blank_at s i = Some ((i + k)%nat, (i + k + match_blank (skipn k s))%nat).
Proof.
  revert s i. induction k as [|k IH]; intros s i Hm Hn.
  - cbn [skipn] in *. destruct s as [|c r]; [rewrite match_blank_nil in Hm; congruence|].
    cbn [search_blank_at]. destruct (match_blank (c :: r)) as [|n]; [congruence|].
    f_equal. f_equal; lia.
  - destruct s as [|c r]; [rewrite skipn_nil, match_blank_nil in Hm; congruence|].
    cbn [search_blank_at]. pose proof (Hn 0%nat ltac:(lia)) as H0. cbn [skipn] in H0. rewrite H0.
    cbn [skipn] in Hm |- *. rewrite (IH r (S i) Hm).
    + f_equal. f_equal; lia.
    + intros j Hj. apply (Hn (S j)). lia.
Qed.

Lemma search_blank_some s pos ms me :
  search_blank s pos = Some (ms, me) ->
  (pos <= ms)%nat /\ (me <= length s)%nat /\
  me = (ms + match_blank (skipn ms s))%nat /\ match_blank (skipn ms s) <> 0%nat /\
  forall j, (pos <= j < ms)%nat -> match_blank (skipn j s) = 0%nat.
Proof.
  unfold search_blank. intro H. apply search_blank_at_some in H.
  destruct H as [k [H1 [H2 [H3 [H4 H5]]]]]. rewrite skipn_skipn in H3, H4. subst ms.
  pose proof (match_blank_le_len (skipn (pos + k) s)) as L. rewrite skipn_length in L.
  split; [lia|]. split; [lia|]. split; [exact H3|]. split; [exact H4|].
  intros j Hj. replace j with (pos + (j - pos))%nat by lia. rewrite <- skipn_skipn. apply H5. lia.
Qed.

Lemma search_blank_none s pos :
  search_blank s pos = None -> forall j, (pos <= j)%nat -> match_blank (skipn j s) = 0%nat.
Proof.
  unfold search_blank. intros H j Hj. replace j with (pos + (j - pos))%nat by lia.
  rewrite <- skipn_skipn. eapply search_blank_at_none. exact H.
Qed.

Lemma search_blank_intro s pos ms :
  (pos <= ms)%nat -> match_blank (skipn ms s) <> 0%nat ->
  (forall j, (pos <= j < ms)%nat -> match_blank (skipn j s) = 0%nat) ->
  search_blank s pos = Some (ms, (ms + match_blank (skipn ms s))%nat).
Proof.
  intros Hp Hm Hn. unfold search_blank.
  assert (E : skipn ms s = skipn (ms - pos) (skipn pos s)).
  { rewrite skipn_skipn. f_equal. lia. }
  rewrite E. replace ms with (pos + (ms - pos))%nat at 1 2 by lia.
  apply search_blank_at_intro.
  - rewrite <- E. exact Hm.
  - intros j Hj. rewrite skipn_skipn. apply Hn. lia.
Qed.

(* ---------- contains ---------- *)

Lemma contains_app p s x : contains p s = true -> contains p (s ++ x) = true.
Proof.
  induction s as [|c r IH]; cbn [contains app].
  - rewrite orb_false_r. intro H. destruct p; [|discriminate]. destruct x; reflexivity.
  - intro H. apply orb_prop in H. destruct H as [H|H].
    + apply (starts_with_app _ _ x) in H. cbn [app] in H. rewrite H. reflexivity.
    + rewrite (IH H). apply orb_true_r.
Qed.

Lemma contains_skipn p s j : starts_with p (skipn j s) = true -> contains p s = true.
Proof.
  revert s. induction j as [|j IH]; intros s H.
  - cbn [skipn] in H. destruct s; cbn [contains]; rewrite H; reflexivity.
  - destruct s as [|c r].
    + cbn [skipn] in H. cbn [contains]. rewrite H. reflexivity.
    + cbn [skipn] in H. cbn [contains]. rewrite (IH _ H). apply orb_true_r.
Qed.

Lemma contains_exists p s : contains p s = true -> exists j, starts_with p (skipn j s) = true.
Proof.
  induction s as [|c r IH]; cbn [contains]; intro H.
  - exists 0%nat. rewrite orb_false_r in H. exact H.
  - apply orb_prop in H. destruct H as [H|H]; [exists 0%nat; exact H|].
    destruct (IH H) as [j Hj]. exists (S j). exact Hj.
Qed.

(* ---------- last_lb / last_newline ---------- *)

Lemma last_lb_nolb s : nolb s = true -> last_lb s = None.
Proof.
  induction s as [|c r IH]; [reflexivity|]. cbn [nolb forallb last_lb]. intro H.
  apply andb_prop in H. destruct H as [H1 H2]. rewrite (IH H2). unfold is_lb in H1.
  destruct ((c =? CR) || (c =? LF)); [discriminate|reflexivity].
Qed.

Lemma last_lb_lt s j : last_lb s = Some j -> (j < length s)%nat.
Proof.
  revert j. induction s as [|c r IH]; intro j; [discriminate|]. cbn [last_lb length].
  destruct (last_lb r) as [k|].
  - specialize (IH k eq_refl).
    destruct ((c =? CR) && Nat.eqb k 0 && match r with d :: _ => d =? LF | [] => false end);
      intro H; injection H as H; lia.
  - destruct ((c =? CR) || (c =? LF)); [|discriminate]. intro H; injection H as H; lia.
Qed.

Lemma last_newline_le_len s : (last_newline s <= length s)%nat.
Proof.
  unfold last_newline. destruct (last_lb s) as [j|] eqn:E; [apply last_lb_lt in E; lia|lia].
Qed.

(* bytes after the last line break do not matter *)
Lemma last_lb_app_nolb a t : nolb t = true -> last_lb (a ++ t) = last_lb a.
Proof.
  intro Ht. induction a as [|c a IH]; [apply last_lb_nolb; exact Ht|].
  cbn [app last_lb]. rewrite IH. destruct (last_lb a) as [k|] eqn:Ea; [|reflexivity].
  destruct a as [|d a']; [discriminate|]. reflexivity.
Qed.

(* a string that starts with its only line break *)
Lemma last_lb_head u :
  (0 < lb_len u)%nat -> nolb (skipn (lb_len u) u) = true -> last_lb u = Some 0%nat.
Proof.
  destruct u as [|c r]; cbn [lb_len]; [lia|].
  destruct (c =? CR) eqn:Ec.
  - destruct r as [|d t].
    + intros _ _. cbn [last_lb]. rewrite Ec. reflexivity.
    + destruct (d =? LF) eqn:Ed.
      * intros _ H. cbn [skipn] in H. cbn [last_lb]. rewrite (last_lb_nolb _ H).
        rewrite Ec, Ed. rewrite orb_true_r. cbn [andb Nat.eqb]. reflexivity.
      * intros _ H. cbn [skipn] in H. change (last_lb (c :: d :: t)) with
          (match last_lb (d :: t) with
           | Some j => if (c =? CR) && Nat.eqb j 0 && (d =? LF) then Some 0%nat else Some (S j)
           | None => if (c =? CR) || (c =? LF) then Some 0%nat else None end).
        rewrite (last_lb_nolb _ H), Ec. reflexivity.
  - destruct (c =? LF) eqn:El; [|lia]. intros _ H. cbn [skipn] in H. cbn [last_lb].
    rewrite (last_lb_nolb _ H), Ec, El. reflexivity.
Qed.

Lemma last_lb_app_le a u k :
  last_lb u = Some k -> exists k', last_lb (a ++ u) = Some k' /\ (k' <= length a + k)%nat.
Proof.
  intro Hu. induction a as [|c a IH]; [exists k; split; [exact Hu|lia]|].
  destruct IH as [k' [H1 H2]]. cbn [app last_lb length]. rewrite H1.
  destruct ((c =? CR) && Nat.eqb k' 0 && match a ++ u with d :: _ => d =? LF | [] => false end);
    eexists; (split; [reflexivity|lia]).
Qed.

(* the hold point is at or before any line break after which no line-break byte follows *)
Lemma last_newline_le s j :
  (0 < lb_len (skipn j s))%nat -> nolb (skipn (j + lb_len (skipn j s)) s) = true ->
  (last_newline s <= j)%nat.
Proof.
  intros Hl Hn. rewrite <- skipn_skipn in Hn.
  pose proof (last_lb_head _ Hl Hn) as H0.
  assert (Lj : (j < length s)%nat).
  { destruct (skipn j s) eqn:E; [cbn in Hl; lia|]. eapply skipn_cons_len. exact E. }
  destruct (last_lb_app_le (firstn j s) _ _ H0) as [k' [H1 H2]].
  rewrite firstn_skipn in H1. unfold last_newline. rewrite H1. rewrite firstn_length in H2. lia.
Qed.

Lemma last_lb_none s : last_lb s = None -> nolb s = true.
Proof.
  induction s as [|c r IH]; [reflexivity|]. cbn [last_lb nolb forallb].
  destruct (last_lb r) as [k|].
  - destruct ((c =? CR) && Nat.eqb k 0 && match r with d :: _ => d =? LF | [] => false end); discriminate.
  - unfold is_lb. destruct ((c =? CR) || (c =? LF)); [discriminate|]. intros _. apply IH. reflexivity.
Qed.

(* the index returned is the start of a line break after which no line-break byte follows *)
Lemma last_lb_spec s k :
  last_lb s = Some k ->
  (0 < lb_len (skipn k s))%nat /\ nolb (skipn (k + lb_len (skipn k s)) s) = true.
Proof.
  revert k. induction s as [|c r IH]; intro k; [discriminate|]. cbn [last_lb].
  destruct (last_lb r) as [j|] eqn:Er.
  - destruct (IH j eq_refl) as [I1 I2].
    destruct ((c =? CR) && Nat.eqb j 0 && match r with d :: _ => d =? LF | [] => false end) eqn:Ec.
    + intro H. injection H as <-. apply andb_prop in Ec. destruct Ec as [Ec E3].
      apply andb_prop in Ec. destruct Ec as [E1 E2]. apply Nat.eqb_eq in E2. subst j.
      destruct r as [|d t]; [discriminate|]. cbn [skipn lb_len]. rewrite E1, E3.
      split; [lia|]. cbn [skipn Nat.add]. cbn [skipn lb_len Nat.add] in I2.
      assert (Ed : d =? CR = false) by (apply N.eqb_eq in E3; subst d; reflexivity).
      rewrite Ed, E3 in I2. exact I2.
    + intro H. injection H as <-. cbn [skipn Nat.add]. split; assumption.
  - apply last_lb_none in Er. unfold nolb in Er.
    destruct ((c =? CR) || (c =? LF)) eqn:Ec; [|discriminate]. intro H. injection H as <-.
    cbn [skipn Nat.add]. split; [apply lb_len_head_lb; exact Ec|].
    assert (E1 : lb_len (c :: r) = 1%nat).
    { cbn [lb_len]. destruct (c =? CR).
      - destruct r as [|d t]; [reflexivity|]. cbn [forallb] in Er. apply andb_prop in Er.
        destruct Er as [Ed _]. unfold is_lb in Ed. destruct (d =? LF); [|reflexivity].
        rewrite orb_true_r in Ed. discriminate.
      - cbn [orb] in Ec. rewrite Ec. reflexivity. }
    rewrite E1. cbn [skipn]. exact Er.
Qed.

(* ... and conversely it is not much before such a line break *)
Lemma last_newline_ge s j :
  (0 < lb_len (skipn j s))%nat -> nolb (skipn (j + lb_len (skipn j s)) s) = true ->
  (j + lb_len (skipn j s) <= last_newline s + 2)%nat.
Proof.
  intros Hl Hn. unfold last_newline. destruct (last_lb s) as [k|] eqn:Ek.
  - destruct (last_lb_spec s k Ek) as [Kl Kn].
    pose proof (lb_len_le2 (skipn j s)) as L2. pose proof (lb_len_le2 (skipn k s)) as L2k.
    (* s[k] is a line-break byte, so k < j + l_j; s[j] is one, so j < k + l_k *)
    apply lb_len_pos_head in Hl. destruct Hl as [cj [rj [Ej Hcj]]].
    pose proof Kl as Kl'. apply lb_len_pos_head in Kl'. destruct Kl' as [ck [rk [Ek' Hck]]].
    assert (A : (k < j + lb_len (skipn j s))%nat).
    { destruct (Nat.ltb k (j + lb_len (skipn j s))) eqn:E; [apply Nat.ltb_lt in E; exact E|].
      apply Nat.ltb_ge in E. exfalso.
      assert (E2 : skipn k s = skipn (k - (j + lb_len (skipn j s))) (skipn (j + lb_len (skipn j s)) s)).
      { rewrite skipn_skipn. f_equal. lia. }
      apply (nolb_skipn (k - (j + lb_len (skipn j s)))) in Hn. rewrite <- E2, Ek' in Hn.
      cbn [nolb forallb] in Hn. rewrite Hck in Hn. discriminate. }
    assert (A2 : (j < k + lb_len (skipn k s))%nat).
    { destruct (Nat.ltb j (k + lb_len (skipn k s))) eqn:E; [apply Nat.ltb_lt in E; exact E|].
      apply Nat.ltb_ge in E. exfalso.
      assert (E2 : skipn j s = skipn (j - (k + lb_len (skipn k s))) (skipn (k + lb_len (skipn k s)) s)).
      { rewrite skipn_skipn. f_equal. lia. }
      apply (nolb_skipn (j - (k + lb_len (skipn k s)))) in Kn. rewrite <- E2, Ej in Kn.
      cbn [nolb forallb] in Kn. rewrite Hcj in Kn. discriminate. }
    destruct (Nat.eq_dec j (S k)) as [E|E]; [|lia].
    (* j = k + 1 and l_k = 2: s[k] = CR, s[j] = LF, so l_j = 1 *)
    assert (L : lb_len (skipn k s) = 2%nat) by lia.
    pose proof (skipn_S_cons _ _ _ _ _ Ek') as E1. rewrite <- E in E1.
    rewrite Ek' in L. cbn [lb_len] in L. destruct (ck =? CR); [|destruct (ck =? LF); lia].
    destruct rk as [|d t]; [lia|]. destruct (d =? LF) eqn:Ed; [|lia].
    rewrite E1. cbn [lb_len]. rewrite Ed.
    assert (Ed' : d =? CR = false) by (apply N.eqb_eq in Ed; subst d; reflexivity). rewrite Ed'. lia.
  - apply last_lb_none in Ek. apply lb_len_pos_head in Hl. destruct Hl as [c [r [Ej Hc]]].
    apply (nolb_skipn j) in Ek. rewrite Ej in Ek. cbn [nolb forallb] in Ek. rewrite Hc in Ek. discriminate.
Qed.
