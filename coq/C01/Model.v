(* C01 / C02 / C10: executable model of sansio.multipart.MultipartDecoder (repaired code:
   last_newline = start of the last line break; DATA_START waits while only the starting line
   break is left) and of the formparser.MultiPartParser.parse loop.  Definitions only.
   Constants and regex texts come from C01/Gen.v (regenerated from /repo on every run). *)
From Wz Require Import lib.Bytes C01.Gen.
Open Scope N_scope.

Definition CR : N := 13.
Definition LF : N := 10.
Definition DASH : N := 45.

(* [^\S\n\r] on bytes: SP, TAB, VT, FF *)
Definition hws (c : N) : bool := (c =? 32) || (c =? 9) || (c =? 11) || (c =? 12).

(* (?:\r\n|\n|\r) anchored at the head: length of the match, 0 = no match *)
Definition lb_len (s : bytes) : nat :=
  match s with
  | c :: r =>
    if c =? CR then match r with d :: _ => if d =? LF then 2%nat else 1%nat | [] => 1%nat end
    else if c =? LF then 1%nat else 0%nat
  | [] => 0%nat
  end.

(* --B(--[hws]*LB?|[hws]*LB) anchored: (length, final?) *)
Definition match_tail (B : bytes) (s : bytes) : option (nat * bool) :=
  if starts_with (DASH :: DASH :: B) s then
    let n0 := (2 + length B)%nat in
    let r := skipn n0 s in
    if starts_with [DASH; DASH] r then
      let r2 := skipn 2 r in
      let h := length (take_while hws r2) in
      Some ((n0 + 2 + h + lb_len (skipn h r2))%nat, true)
    else
      let h := length (take_while hws r) in
      let l := lb_len (skipn h r) in
      if Nat.eqb l 0 then None else Some ((n0 + h + l)%nat, false)
  else None.

(* LB?--B(...) (opt = true, preamble_re) or LB--B(...) (opt = false, boundary_re), anchored *)
Definition match_delim (opt : bool) (B : bytes) (s : bytes) : option (nat * bool) :=
  let l := lb_len s in
  if Nat.ltb 0 l then
    match match_tail B (skipn l s) with
    | Some (e, f) => Some ((l + e)%nat, f)
    | None => None
    end
  else if opt then match_tail B s else None.

(* leftmost match at an index >= the index of the head of s: (start, end, final) *)
Fixpoint search_delim_at (opt : bool) (B : bytes) (s : bytes) (i : nat) : option (nat * nat * bool) :=
  match match_delim opt B s with
  | Some (e, f) => Some (i, (i + e)%nat, f)
  | None => match s with
            | [] => None
            | _ :: r => search_delim_at opt B r (S i)
            end
  end.
Definition search_delim (opt : bool) (B : bytes) (s : bytes) (pos : nat) :=
  search_delim_at opt B (skipn pos s) pos.

(* (?:\r\n\r\n|\r\r|\n\n) *)
Definition match_blank (s : bytes) : nat :=
  if starts_with [CR; LF; CR; LF] s then 4%nat
  else if starts_with [CR; CR] s then 2%nat
  else if starts_with [LF; LF] s then 2%nat else 0%nat.
Fixpoint search_blank_at (s : bytes) (i : nat) : option (nat * nat) :=
  match match_blank s with
  | O => match s with [] => None | _ :: r => search_blank_at r (S i) end
  | n => Some (i, (i + n)%nat)
  end.
Definition search_blank (s : bytes) (pos : nat) := search_blank_at (skipn pos s) pos.

(* bytes.find(sub) != -1 *)
Fixpoint contains (p s : bytes) : bool :=
  starts_with p s || match s with [] => false | _ :: r => contains p r end.

(* last_newline (repaired): index of the start of the last line break, len if none.
   lnl s = (Some index of the start of the last line break) computed right to left *)
Fixpoint last_lb (s : bytes) : option nat :=
  match s with
  | [] => None
  | c :: r =>
    match last_lb r with
    | Some j =>
      (* a later line break exists; if it starts right after c = CR and is a lone LF start, the
         CRLF pair starts at c *)
      if (c =? CR) && Nat.eqb j 0 && (match r with d :: _ => d =? LF | [] => false end)
      then Some 0%nat else Some (S j)
    | None => if (c =? CR) || (c =? LF) then Some 0%nat else None
    end
  end.
Definition last_newline (s : bytes) : nat :=
  match last_lb s with Some j => j | None => length s end.

Inductive state := PREAMBLE | PART | DATA | DATA_START | EPILOGUE | COMPLETE.
Record cfg := mkcfg { st : state; buf : bytes; spos : nat; complete : bool; nparts : nat }.
Inductive event :=
| ENeed | EPreamble (d : bytes) | EPart (hdr : bytes) | EData (d : bytes) (more : bool) | EEpilogue (d : bytes).
(* ErrTooManyParts carries the raw header block: the implementation parses it (and may raise a
   header error) before it counts the part *)
Inductive err := ErrValue | ErrTooLarge | ErrTooManyParts (hdr : list N) | ErrNoLineBreak | ErrOutOfFuel.
Inductive res (A : Type) := Ok (a : A) | Err (e : err).
Arguments Ok {A}. Arguments Err {A}.

Record limits := mklim { max_mem : option nat; max_parts : option nat }.
Definition no_limits := mklim None None.

Definition init : cfg := mkcfg PREAMBLE [] 0 false 0.

(* receive_data(data) ; None is modelled by receive_end *)
Definition receive (lim : limits) (c : cfg) (d : bytes) : res cfg :=
  match max_mem lim with
  | Some m => if Nat.ltb m (length (buf c) + length d)
              then Err ErrTooLarge
              else Ok (mkcfg (st c) (buf c ++ d) (spos c) (complete c) (nparts c))
  | None => Ok (mkcfg (st c) (buf c ++ d) (spos c) (complete c) (nparts c))
  end.
Definition receive_end (c : cfg) : cfg := mkcfg (st c) (buf c) (spos c) true (nparts c).

(* _parse_data: (data, del_index, more_data, new state) ; del_index = 0 with start means
   only the starting line break is left: wait *)
Definition parse_data (B : bytes) (data : bytes) (start : bool) (s0 : state)
  : res (bytes * nat * bool * state) :=
  let ds := if start then lb_len data else 0%nat in
  if start && Nat.eqb ds 0 then Err ErrNoLineBreak else
  let hold :=
    let de := last_newline data in
    if contains (DASH :: DASH :: B) data then de
    else if Nat.ltb (S (2 + length B)) (length data - de) then length data else de in
  let found := if contains (DASH :: DASH :: B) data then search_delim false B data 0 else None in
  match found with
  | Some (ms, me, final) =>
    Ok (firstn (ms - ds) (skipn ds data), me, false, if final then EPILOGUE else PART)
  | None =>
    if Nat.ltb hold ds then Ok ([], 0%nat, true, s0)
    else Ok (firstn (hold - ds) (skipn ds data), hold, true, s0)
  end.

Definition fail_if_complete (c : cfg) (r : event * cfg) : res (event * cfg) :=
  match fst r with
  | ENeed => if complete c then Err ErrValue else Ok r
  | _ => Ok r
  end.

Definition next_event (lim : limits) (B : bytes) (c : cfg) : res (event * cfg) :=
  match st c with
  | PREAMBLE =>
    match search_delim true B (buf c) (spos c) with
    | Some (ms, me, final) =>
      Ok (EPreamble (firstn ms (buf c)),
          mkcfg (if final then EPILOGUE else PART) (skipn me (buf c)) 0 (complete c) (nparts c))
    | None =>
      fail_if_complete c
        (ENeed, mkcfg PREAMBLE (buf c) (length (buf c) - length B - search_extra_length)
                      (complete c) (nparts c))
    end
  | PART =>
    match search_blank (buf c) (spos c) with
    | Some (ms, me) =>
      let np := S (nparts c) in
      match max_parts lim with
      | Some m => if Nat.ltb m np then Err (ErrTooManyParts (firstn ms (buf c)))
                  else Ok (EPart (firstn ms (buf c)),
                           mkcfg DATA_START (skipn (Nat.div (ms + me) 2) (buf c)) 0 (complete c) np)
      | None => Ok (EPart (firstn ms (buf c)),
                    mkcfg DATA_START (skipn (Nat.div (ms + me) 2) (buf c)) 0 (complete c) np)
      end
    | None =>
      fail_if_complete c
        (ENeed, mkcfg PART (buf c) (length (buf c) - search_extra_length) (complete c) (nparts c))
    end
  | DATA_START =>
    match parse_data B (buf c) true DATA_START with
    | Err e => Err e
    | Ok (d, del, more, s') =>
      if Nat.eqb del 0 then fail_if_complete c (ENeed, c)
      else Ok (EData d more,
               mkcfg (if more then DATA else s') (skipn del (buf c)) (spos c) (complete c) (nparts c))
    end
  | DATA =>
    match parse_data B (buf c) false DATA with
    | Err e => Err e
    | Ok (d, del, more, s') =>
      let c' := mkcfg s' (skipn del (buf c)) (spos c) (complete c) (nparts c) in
      match d with
      | [] => if more then fail_if_complete c (ENeed, c') else Ok (EData d more, c')
      | _ => Ok (EData d more, c')
      end
    end
  | EPILOGUE =>
    if complete c then Ok (EEpilogue (buf c), mkcfg COMPLETE [] (spos c) true (nparts c))
    else Ok (ENeed, c)
  | COMPLETE => fail_if_complete c (ENeed, c)
  end.

(* the inner while loop of MultiPartParser.parse: events until Epilogue or NeedData *)
Fixpoint drain (fuel : nat) (lim : limits) (B : bytes) (c : cfg) : res (list event * cfg) :=
  match fuel with
  | O => Err ErrOutOfFuel
  | S f =>
    match next_event lim B c with
    | Err e => Err e
    | Ok (ENeed, c') => Ok ([], c')
    | Ok (EEpilogue d, c') => Ok ([EEpilogue d], c')
    | Ok (ev, c') =>
      match drain f lim B c' with
      | Ok (evs, c'') => Ok (ev :: evs, c'')
      | Err e => Err e
      end
    end
  end.

Definition drain_fuel (c : cfg) : nat := (2 * length (buf c) + 8)%nat.

(* the outer for loop: one receive_data + drain per chunk, then receive_data(None) + drain *)
Fixpoint feed (lim : limits) (B : bytes) (c : cfg) (chunks : list bytes) : res (list event) :=
  match chunks with
  | [] =>
    let c1 := receive_end c in
    match drain (drain_fuel c1) lim B c1 with
    | Ok (evs, _) => Ok evs
    | Err e => Err e
    end
  | d :: rest =>
    match receive lim c d with
    | Err e => Err e
    | Ok c1 =>
      match drain (drain_fuel c1) lim B c1 with
      | Err e => Err e
      | Ok (evs, c2) =>
        match feed lim B c2 rest with
        | Ok evs' => Ok (evs ++ evs')
        | Err e => Err e
        end
      end
    end
  end.

Definition drive (lim : limits) (B : bytes) (chunks : list bytes) : res (list event) :=
  feed lim B init chunks.

(* the fold of MultiPartParser.parse over the events: (raw header block, payload) per part.
   Kind, name, filename and the header list are functions of the raw header block. *)
Fixpoint parts_acc (evs : list event) (cur : option (bytes * bytes)) : list (bytes * bytes) :=
  match evs with
  | [] => []
  | EPart h :: r => parts_acc r (Some (h, []))
  | EData d more :: r =>
    match cur with
    | Some (h, p) => if more then parts_acc r (Some (h, p ++ d)) else (h, p ++ d) :: parts_acc r None
    | None => parts_acc r None
    end
  | _ :: r => parts_acc r cur
  end.
Definition parts_of (evs : list event) : list (bytes * bytes) := parts_acc evs None.

(* the trace as the harness compares it with the implementation, state included *)
Definition state_code (s : state) : N :=
  match s with PREAMBLE => 0 | PART => 1 | DATA => 2 | DATA_START => 3 | EPILOGUE => 4 | COMPLETE => 5 end.

(* the same loops, recording the configuration after every next_event (for the
   correspondence check: the harness compares state, buffer length and search position) *)
Fixpoint drain_t (fuel : nat) (lim : limits) (B : bytes) (c : cfg)
  : list (event * cfg) * option err * cfg :=
  match fuel with
  | O => ([], Some ErrOutOfFuel, c)
  | S f =>
    match next_event lim B c with
    | Err e => ([], Some e, c)
    | Ok (ENeed, c') => ([(ENeed, c')], None, c')
    | Ok (EEpilogue d, c') => ([(EEpilogue d, c')], None, c')
    | Ok (ev, c') =>
      let '(l, e, c'') := drain_t f lim B c' in ((ev, c') :: l, e, c'')
    end
  end.

Fixpoint feed_t (lim : limits) (B : bytes) (c : cfg) (chunks : list bytes)
  : list (event * cfg) * option err :=
  match chunks with
  | [] =>
    let c1 := receive_end c in
    let '(l, e, _) := drain_t (drain_fuel c1) lim B c1 in (l, e)
  | d :: rest =>
    match receive lim c d with
    | Err e => ([], Some e)
    | Ok c1 =>
      let '(l, e, c2) := drain_t (drain_fuel c1) lim B c1 in
      match e with
      | Some _ => (l, e)
      | None => let '(l', e') := feed_t lim B c2 rest in (l ++ l', e')
      end
    end
  end.
Definition trace (lim : limits) (B : bytes) (chunks : list bytes) := feed_t lim B init chunks.
