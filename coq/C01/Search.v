(* C01 step 2: search-position soundness.  After a failed search the decoder re-scans only a
   retained tail of the buffer (len - 8 in PART, len - |B| - 8 in PREAMBLE).  PART: no blank-line
   match of any extension starts before the new search position (unconditional).  PREAMBLE: under
   the blanks hypothesis the new position is not after the -- of the first delimiter of the whole
   body, and a match found from such a position has the end and final flag of that delimiter. *)
From Coq Require Import ZArith Lia ZifyBool ZifyN ZifyNat.
From Wz Require Import lib.Bytes lib.BytesFacts C01.Gen C01.Model C01.Strings C01.Hold.
Open Scope N_scope.

(* ---------- PART: blank-line search ---------- *)

Lemma match_blank_le4 s : (match_blank s <= 4)%nat.
Proof. destruct (match_blank_cases s) as [E|[E|E]]; lia. Qed.

(* a position with at least 4 bytes in s is decided in s *)
Lemma match_blank_decided s x j :
  (j + 4 <= length s)%nat -> match_blank (skipn j (s ++ x)) = match_blank (skipn j s).
Proof.
  intro L. rewrite skipn_app_le by lia.
  destruct (Nat.eq_dec (match_blank (skipn j s)) 0) as [E|E].
  - destruct (Nat.eq_dec (match_blank (skipn j s ++ x)) 0) as [E'|E']; [congruence|].
    pose proof (match_blank_app_none _ x E E') as H. rewrite skipn_length in H.
    pose proof (match_blank_le4 (skipn j s ++ x)). lia.
  - apply match_blank_app_some. exact E.
Qed.

(* the leftmost blank line of s is the leftmost blank line of every extension *)
Lemma blank_leftmost_stable s x ms :
  match_blank (skipn ms s) <> 0%nat ->
  (forall j, (j < ms)%nat -> match_blank (skipn j s) = 0%nat) ->
  forall j, (j < ms)%nat -> match_blank (skipn j (s ++ x)) = 0%nat.
Proof.
  intros Hm Hn j Hj.
  pose proof (match_blank_le_len (skipn ms s)) as Lm. rewrite skipn_length in Lm.
  assert (L2 : (2 <= match_blank (skipn ms s))%nat) by (destruct (match_blank_cases (skipn ms s)) as [E|[E|E]]; lia).
  destruct (Nat.eq_dec (match_blank (skipn j (s ++ x))) 0) as [E|E]; [exact E|exfalso].
  rewrite skipn_app_le in E by lia.
  pose proof (match_blank_app_none _ x (Hn j Hj) E) as H. rewrite skipn_length in H.
  pose proof (match_blank_le4 (skipn j s ++ x)) as L4.
  (* only possibility: 3 bytes CR LF CR of s at j, ms = j + 1 *)
  assert (E4 : match_blank (skipn j s ++ x) = 4%nat) by lia.
  assert (Ems : ms = S j) by lia. assert (El : length (skipn j s) = 3%nat) by (rewrite skipn_length; lia).
  unfold match_blank in E4.
  destruct (starts_with [CR; LF; CR; LF] (skipn j s ++ x)) eqn:Es.
  - apply starts_with_short in Es; [|cbn [length]; lia]. rewrite El in Es. cbn [firstn] in Es.
    pose proof (skipn_S_cons _ _ _ _ _ Es) as E1. rewrite <- Ems in E1. rewrite E1 in Hm.
    apply Hm. reflexivity.
  - destruct (starts_with [CR; CR] (skipn j s ++ x)); [discriminate|].
    destruct (starts_with [LF; LF] (skipn j s ++ x)); discriminate.
Qed.

(* the inductive step of the PART search-position invariant *)
Theorem part_search_sound s pos :
  (forall x j, (j < pos)%nat -> match_blank (skipn j (s ++ x)) = 0%nat) ->
  match search_blank s pos with
  | None => forall x j, (j < length s - search_extra_length)%nat -> match_blank (skipn j (s ++ x)) = 0%nat
  | Some (ms, me) => forall x, search_blank (s ++ x) 0 = Some (ms, me)
  end.
Proof.
  intro Inv. destruct (search_blank s pos) as [[ms me]|] eqn:Es.
  - intro x. apply search_blank_some in Es. destruct Es as [H1 [H2 [H3 [H4 H5]]]].
    assert (Hn : forall j, (j < ms)%nat -> match_blank (skipn j s) = 0%nat).
    { intros j Hj. destruct (Nat.ltb j pos) eqn:E.
      - apply Nat.ltb_lt in E. specialize (Inv [] j E). rewrite app_nil_r in Inv. exact Inv.
      - apply Nat.ltb_ge in E. apply H5. lia. }
    assert (Em : match_blank (skipn ms (s ++ x)) = match_blank (skipn ms s)).
    { rewrite skipn_app_le by lia. apply match_blank_app_some. exact H4. }
    rewrite H3, <- Em. apply search_blank_intro; [lia|rewrite Em; exact H4|].
    intros j Hj. apply (blank_leftmost_stable s x ms H4 Hn). lia.
  - intros x j Hj. unfold search_extra_length in Hj.
    destruct (Nat.ltb j pos) eqn:E.
    + apply Nat.ltb_lt in E. apply Inv. exact E.
    + apply Nat.ltb_ge in E. rewrite match_blank_decided by lia.
      apply (search_blank_none _ _ Es). exact E.
Qed.

(* ---------- PREAMBLE: delimiter search with an optional leading line break ---------- *)

Definition tail_at (B W : bytes) (d : nat) : option (nat * bool) := match_tail B (skipn d W).

(* d is the first position of W where --B(...) matches: (length, final) *)
Definition first_tail (B W : bytes) (d e : nat) (f : bool) : Prop :=
  tail_at B W d = Some (e, f) /\ forall j, (j < d)%nat -> tail_at B W j = None.

(* number of blanks after the --B at d *)
Definition blanks_at (B W : bytes) (d : nat) : nat :=
  length (take_while hws (skipn (d + (2 + length B)) W)).

Lemma match_tail_app_none_hws B s x e' :
  match_tail B s = None -> match_tail B (s ++ x) = Some (e', false) ->
  forallb hws (skipn (2 + length B) s) = true.
Proof.
  rewrite !match_tail_rest.
  destruct (starts_with (dd B) (s ++ x)) eqn:Edd'; [|discriminate].
  destruct (Nat.leb (2 + length B) (length s)) eqn:EL.
  - apply Nat.leb_le in EL. pose proof Edd' as Edd.
    rewrite starts_with_app_len in Edd by (rewrite dd_length; exact EL).
    rewrite Edd. rewrite (skipn_app_le _ _ s x EL).
    destruct (match_rest (skipn (2 + length B) s)) as [[e0 f0]|] eqn:Em; [discriminate|]. intros _.
    destruct (match_rest (skipn (2 + length B) s ++ x)) as [[e1 f1]|] eqn:Em'; [|discriminate].
    intro H. injection H as He Hf. subst f1.
    destruct (match_rest_app_none _ x e1 false Em Em') as [_ [_ [H3 _]]]. apply H3. reflexivity.
  - apply Nat.leb_gt in EL. intros _ _. rewrite skipn_all2 by lia. reflexivity.
Qed.

Lemma match_tail_len_final B s e : match_tail B s = Some (e, true) -> (2 + length B + 2 <= e)%nat.
Proof.
  rewrite match_tail_rest. destruct (starts_with (dd B) s); [|discriminate]. unfold match_rest.
  destruct (starts_with [DASH; DASH] (skipn (2 + length B) s)).
  - intro H. injection H as H. lia.
  - destruct (Nat.eqb _ 0); discriminate.
Qed.

Lemma tail_at_dash B W d e f : tail_at B W d = Some (e, f) -> exists r, skipn d W = DASH :: r.
Proof. apply match_tail_head_dash. Qed.

Lemma tail_at_lb_none B W d : (0 < lb_len (skipn d W))%nat -> tail_at B W d = None.
Proof.
  intro H. unfold tail_at. destruct (match_tail B (skipn d W)) as [[e f]|] eqn:E; [|reflexivity].
  apply match_tail_head_dash in E. destruct E as [r Er]. rewrite Er in H. cbn in H. lia.
Qed.

(* with the optional line break, a delimiter match at j means a tail at j + lb_len *)
Lemma match_delim_true_tail B W j e f :
  match_delim true B (skipn j W) = Some (e, f) ->
  tail_at B W (j + lb_len (skipn j W)) = Some ((e - lb_len (skipn j W))%nat, f) /\
  (lb_len (skipn j W) <= e)%nat.
Proof.
  intro H. apply match_delim_spec in H. destruct H as [e0 [H1 [H2 _]]].
  unfold tail_at. rewrite <- skipn_skipn, H1. split; [f_equal; f_equal; lia|lia].
Qed.

Lemma tail_match_delim_true B W d e f :
  tail_at B W d = Some (e, f) -> match_delim true B (skipn d W) = Some (e, f).
Proof.
  intro H. destruct (tail_at_dash _ _ _ _ _ H) as [r Er]. apply match_delim_spec.
  assert (E0 : lb_len (skipn d W) = 0%nat) by (rewrite Er; reflexivity).
  rewrite E0. cbn [skipn]. exists e. auto.
Qed.

(* the bytes of a leading line break are line-break bytes, hence no tail position *)
Lemma lb_len_inside_none B W j i :
  (i < lb_len (skipn j W))%nat -> tail_at B W (j + i) = None.
Proof.
  intro Hi. apply tail_at_lb_none. rewrite <- skipn_skipn.
  destruct (skipn j W) as [|c r] eqn:E; [cbn in Hi; lia|].
  cbn [lb_len] in Hi. destruct (c =? CR) eqn:Ec.
  - destruct r as [|d t].
    + assert (i = 0%nat) by lia. subst i. cbn [skipn lb_len]. rewrite Ec. lia.
    + destruct (d =? LF) eqn:Ed.
      * destruct i as [|[|i]]; [| |lia]; cbn [skipn lb_len].
        -- rewrite Ec, Ed. lia.
        -- rewrite Ed. destruct (d =? CR); [destruct t as [|t0 t']; [|destruct (t0 =? LF)]|]; lia.
      * assert (i = 0%nat) by lia. subst i. cbn [skipn lb_len]. rewrite Ec, Ed. lia.
  - destruct (c =? LF) eqn:El; [|lia]. assert (i = 0%nat) by lia. subst i. cbn [skipn lb_len].
    rewrite Ec, El. lia.
Qed.

(* a successful preamble search from pos: the tail it ends with is the first tail at or after pos *)
Lemma search_true_tail B W pos ms me f :
  search_delim true B W pos = Some (ms, me, f) ->
  let l := lb_len (skipn ms W) in
  (pos <= ms)%nat /\ (ms + l <= me)%nat /\
  tail_at B W (ms + l) = Some ((me - (ms + l))%nat, f) /\
  forall j, (pos <= j < ms + l)%nat -> tail_at B W j = None.
Proof.
  intros H l. apply search_delim_some in H. destruct H as [H1 [H2 [H3 [H4 H5]]]].
  destruct (match_delim_true_tail _ _ _ _ _ H4) as [T1 T2]. fold l in T1, T2.
  split; [exact H1|]. split; [lia|]. split; [rewrite T1; f_equal; f_equal; lia|].
  intros j Hj. destruct (Nat.ltb j ms) eqn:E.
  - apply Nat.ltb_lt in E. destruct (tail_at B W j) as [[e1 f1]|] eqn:Et; [|reflexivity].
    apply tail_match_delim_true in Et. rewrite H5 in Et by lia. discriminate.
  - apply Nat.ltb_ge in E. replace j with (ms + (j - ms))%nat by lia. apply lb_len_inside_none. fold l. lia.
Qed.

Lemma tail_at_app_some B P r d e f :
  tail_at B P d = Some (e, f) ->
  exists e', tail_at B (P ++ r) d = Some (e', f) /\ (e <= e')%nat /\ (d + e <= length P)%nat /\
    (f = false -> e' = e \/
       ((d + e)%nat = length P /\ e' = S e /\ (exists r', r = LF :: r') /\ exists P0, P = P0 ++ [CR])).
Proof.
  unfold tail_at. intro H.
  assert (Ld : (d <= length P)%nat).
  { destruct (Nat.leb d (length P)) eqn:E; [apply Nat.leb_le in E; exact E|]. apply Nat.leb_gt in E.
    rewrite skipn_all2 in H by lia. discriminate. }
  rewrite skipn_app_le by exact Ld.
  destruct (match_tail_app_some B _ r e f H) as [e' [H1 [H2 [H3 H4]]]]. rewrite skipn_length in H3.
  exists e'. split; [exact H1|]. split; [exact H2|]. split; [lia|].
  intro Hf. destruct (H4 Hf) as [->|[E1 [E2 [E3 [s0 E4]]]]]; [left; reflexivity|].
  right. rewrite skipn_length in E1. split; [lia|]. split; [exact E2|]. split; [exact E3|].
  exists (firstn d P ++ s0). rewrite <- app_assoc, <- E4. symmetry. apply firstn_skipn.
Qed.

(* the inductive step of the PREAMBLE search-position invariant.  W = P ++ r is the whole body,
   P the buffer; (d0, e0, f0) the first tail of W; at most 6 blanks after a non-final first
   delimiter. *)
Theorem preamble_search_sound B P r spos d0 e0 f0 :
  good_boundary B = true ->
  first_tail B (P ++ r) d0 e0 f0 ->
  (f0 = false -> (blanks_at B (P ++ r) d0 + 2 <= search_extra_length)%nat) ->
  (spos <= d0)%nat ->
  match search_delim true B P spos with
  | None => (length P - length B - search_extra_length <= d0)%nat
  | Some (ms, me, f) =>
      f = f0 /\ (ms <= d0)%nat /\ (d0 <= me)%nat /\ (me <= d0 + e0)%nat /\ (me <= length P)%nat /\
      (f0 = false -> me = (d0 + e0)%nat \/
         (me = length P /\ S me = (d0 + e0)%nat /\ (exists r', r = LF :: r') /\ exists P0, P = P0 ++ [CR]))
  end.
Proof.
  unfold good_boundary, search_extra_length. intros HB [T0 Tn] Hbl Hpos.
  destruct (search_delim true B P spos) as [[[ms me] f]|] eqn:Es.
  - pose proof Es as Es'. apply search_delim_some in Es'. destruct Es' as [_ [LmsP [_ [Hmd _]]]].
    pose proof (match_delim_some_bounds _ _ _ _ _ Hmd) as [LmeP _]. rewrite skipn_length in LmeP.
    apply search_true_tail in Es. cbv zeta in Es. set (l := lb_len (skipn ms P)) in *.
    destruct Es as [S1 [S2 [S3 S4]]].
    destruct (tail_at_app_some B P r _ _ _ S3) as [e' [A1 [A2 [A3 A4]]]].
    (* ms + l is a tail position of W, so d0 <= ms + l; show equality *)
    assert (Hge : (d0 <= ms + l)%nat).
    { destruct (Nat.leb d0 (ms + l)) eqn:E; [apply Nat.leb_le in E; exact E|]. apply Nat.leb_gt in E.
      rewrite (Tn _ E) in A1. discriminate. }
    assert (Heq : d0 = (ms + l)%nat).
    { destruct (Nat.eq_dec d0 (ms + l)) as [E|E]; [exact E|exfalso].
      assert (Hlt : (d0 < ms + l)%nat) by lia.
      (* the tail at d0 is not complete in P *)
      pose proof (S4 d0 ltac:(lia)) as Sn. unfold tail_at in Sn, T0.
      assert (Ld0 : (d0 <= length P)%nat) by lia.
      rewrite skipn_app_le in T0 by exact Ld0.
      destruct (match_tail_app_none B _ r e0 f0 HB Sn T0) as [N1 [N2 [N3 N4]]].
      rewrite skipn_length in N2, N3, N4.
      destruct (Nat.ltb 0 l) eqn:El.
      - (* the match at ms starts with a line-break byte inside the incomplete tail *)
        apply Nat.ltb_lt in El. unfold l in El. apply lb_len_pos_head in El.
        destruct El as [c [t [Ec Hc]]].
        assert (Hms : (d0 <= ms)%nat).
        { destruct (Nat.leb d0 ms) eqn:E2; [apply Nat.leb_le in E2; exact E2|]. apply Nat.leb_gt in E2.
          pose proof (lb_len_inside_none B P ms (d0 - ms) ltac:(fold l; lia)) as Hin.
          replace (ms + (d0 - ms))%nat with d0 in Hin by lia.
          (* but W[d0] = DASH and d0 < length P, so P[d0] is DASH: not a line-break byte *)
          destruct (match_tail_head_dash _ _ _ _ T0) as [t0 Et0].
          assert (Hlb : (0 < lb_len (skipn d0 P))%nat).
          { replace d0 with (ms + (d0 - ms))%nat by lia. rewrite <- skipn_skipn. fold l in Hin.
            clear - Ec E2 Hlt. fold l in Hlt.
            assert (Hi : (d0 - ms < l)%nat) by lia. unfold l in Hi. revert Hi. generalize (d0 - ms)%nat as i.
            intros i Hi. rewrite Ec in *. cbn [lb_len] in Hi. destruct (c =? CR) eqn:E1.
            - destruct t as [|d t'].
              + assert (i = 0%nat) by lia. subst i. cbn [skipn lb_len]. rewrite E1. lia.
              + destruct (d =? LF) eqn:Ed.
                * destruct i as [|[|i]]; [| |lia]; cbn [skipn lb_len].
                  -- rewrite E1, Ed. lia.
                  -- rewrite Ed. destruct (d =? CR); [destruct t' as [|t0 t'']; [|destruct (t0 =? LF)]|]; lia.
                * assert (i = 0%nat) by lia. subst i. cbn [skipn lb_len]. rewrite E1, Ed. lia.
            - destruct (c =? LF) eqn:E3; [|lia]. assert (i = 0%nat) by lia. subst i. cbn [skipn lb_len].
              rewrite E1, E3. lia. }
          apply lb_len_pos_head in Hlb. destruct Hlb as [c' [t' [Ec' Hc']]].
          rewrite Ec' in Et0. cbn [app] in Et0. injection Et0 as -> _. discriminate. }
        assert (E2 : skipn ms P = skipn (ms - d0) (skipn d0 P)) by (rewrite skipn_skipn; f_equal; lia).
        apply (nolb_skipn (ms - d0)) in N1. rewrite <- E2, Ec in N1. cbn [nolb forallb] in N1.
        rewrite Hc in N1. discriminate.
      - (* l = 0: a complete --B... at ms > d0 inside the incomplete tail at d0 *)
        apply Nat.ltb_ge in El. assert (l = 0%nat) by lia. replace (ms + l)%nat with ms in * by lia.
        unfold tail_at in S3.
        pose proof (match_tail_len _ _ _ _ S3) as Lt.
        destruct f.
        + (* final: needs --B-- , whose last dash lies in the blank region or beyond P *)
          destruct f0.
          * specialize (N4 eq_refl). pose proof (match_tail_len_final _ _ _ S3). lia.
          * pose proof (match_tail_app_none_hws B _ r e0 Sn T0) as Hh.
            (* byte at ms + |B| + 3 of P is a dash *)
            rewrite match_tail_rest in S3.
            destruct (starts_with (dd B) (skipn ms P)) eqn:Edd; [|discriminate].
            pose proof (starts_with_len _ _ Edd) as Ldd. rewrite dd_length, skipn_length in Ldd.
            unfold match_rest in S3.
            destruct (starts_with [DASH; DASH] (skipn (2 + length B) (skipn ms P))) eqn:E22.
            2:{ destruct (Nat.eqb _ 0); discriminate. }
            rewrite skipn_skipn in E22.
            (* skipn (ms + (2+|B|)) P = skipn (ms - d0) (skipn (2+|B|) (skipn d0 P)) : all blanks *)
            assert (E3 : skipn (ms + (2 + length B)) P =
                         skipn (ms - d0) (skipn (2 + length B) (skipn d0 P))).
            { rewrite !skipn_skipn. f_equal. lia. }
            rewrite E3 in E22.
            assert (Hh2 : forallb hws (skipn (ms - d0) (skipn (2 + length B) (skipn d0 P))) = true).
            { clear - Hh. revert Hh. generalize (skipn (2 + length B) (skipn d0 P)) as u.
              generalize (ms - d0)%nat as n. induction n as [|n IH]; intros u Hu; [exact Hu|].
              destruct u as [|c u']; [reflexivity|]. cbn [skipn]. apply IH. cbn [forallb] in Hu.
              apply andb_prop in Hu. apply Hu. }
            destruct (skipn (ms - d0) (skipn (2 + length B) (skipn d0 P))) as [|c u]; [discriminate|].
            cbn [starts_with] in E22. cbn [forallb] in Hh2.
            destruct (DASH =? c) eqn:Edc; [|discriminate]. apply N.eqb_eq in Edc. subst c. discriminate.
        + (* non-final: needs a line break inside P after ms *)
          rewrite match_tail_rest in S3.
          destruct (starts_with (dd B) (skipn ms P)) eqn:Edd; [|discriminate].
          destruct (match_rest (skipn (2 + length B) (skipn ms P))) as [[e1 f1]|] eqn:Emr; [|discriminate].
          injection S3 as _ Hf1. subst f1. unfold match_rest in Emr.
          destruct (starts_with [DASH; DASH] (skipn (2 + length B) (skipn ms P))); [discriminate|].
          set (u := skipn (2 + length B) (skipn ms P)) in *.
          destruct (Nat.eqb (lb_len (skipn (length (take_while hws u)) u)) 0) eqn:E0; [discriminate|].
          apply Nat.eqb_neq in E0.
          assert (Hu : nolb u = true).
          { unfold u. rewrite skipn_skipn.
            replace (ms + (2 + length B))%nat with (d0 + (ms + (2 + length B) - d0))%nat by lia.
            rewrite <- skipn_skipn. apply nolb_skipn. exact N1. }
          apply (nolb_skipn (length (take_while hws u))) in Hu. apply lb_len_nolb in Hu. lia. }
    subst d0. rewrite T0 in A1. injection A1 as <- <-.
    split; [reflexivity|]. split; [lia|]. split; [lia|]. split; [lia|]. split; [lia|].
    intro Hf. destruct (A4 Hf) as [E|[E1 [E2 [E3 E4]]]]; [left; lia|].
    right. split; [lia|]. split; [lia|]. split; assumption.
  - (* failed search: the tail at d0 is incomplete in P, so P ends within |B| + 8 bytes of d0 *)
    destruct (Nat.leb (length P - length B - 8) d0) eqn:E; [apply Nat.leb_le in E; exact E|].
    apply Nat.leb_gt in E. exfalso.
    assert (Ld0 : (d0 <= length P)%nat) by lia.
    pose proof (search_delim_none _ _ _ _ Es d0 Hpos) as Hn.
    assert (Sn : match_tail B (skipn d0 P) = None).
    { destruct (match_tail B (skipn d0 P)) as [[e1 f1]|] eqn:Et; [|reflexivity].
      apply (tail_match_delim_true B P d0) in Et. congruence. }
    unfold tail_at in T0. rewrite skipn_app_le in T0 by exact Ld0.
    destruct (match_tail_app_none B _ r e0 f0 HB Sn T0) as [_ [_ [N3 N4]]].
    rewrite skipn_length in N3, N4. destruct f0.
    + specialize (N4 eq_refl). lia.
    + specialize (N3 eq_refl). specialize (Hbl eq_refl). unfold blanks_at in Hbl.
      rewrite <- skipn_app_le in N3 by exact Ld0. rewrite skipn_skipn in N3. lia.
Qed.
