(* C01 / C10 proofs, stage 1: buffer monotonicity, limits are guards. *)
From Coq Require Import ZArith Lia ZifyBool ZifyN ZifyNat.
From Wz Require Import lib.Bytes lib.BytesFacts C01.Gen C01.Model C01.Pins.
Open Scope N_scope.

Lemma skipn_length_le (A : Type) n (l : list A) : (length (skipn n l) <= length l)%nat.
Proof. rewrite skipn_length. lia. Qed.

Lemma fail_if_complete_ok c r x : fail_if_complete c r = Ok x -> x = r.
Proof.
  unfold fail_if_complete. destruct (fst r); try (intro H; inversion H; reflexivity).
  destruct (complete c); intro H; inversion H; reflexivity.
Qed.

(* next_event never grows the buffer, never touches the limits' counters except nparts *)
Lemma next_event_buf_le lim B c ev c' :
  next_event lim B c = Ok (ev, c') -> (length (buf c') <= length (buf c))%nat.
Proof.
  unfold next_event. destruct (st c).
  - destruct (search_delim true B (buf c) (spos c)) as [[[ms me] fin]|].
    + intro H. inversion H. subst. cbn [buf]. apply skipn_length_le.
    + intro H. apply fail_if_complete_ok in H. inversion H. subst. cbn [buf]. lia.
  - destruct (search_blank (buf c) (spos c)) as [[ms me]|].
    + destruct (max_parts lim) as [m|].
      * destruct (Nat.ltb m (S (nparts c))); intro H; inversion H. subst. cbn [buf]. apply skipn_length_le.
      * intro H; inversion H. subst. cbn [buf]. apply skipn_length_le.
    + intro H. apply fail_if_complete_ok in H. inversion H. subst. cbn [buf]. lia.
  - destruct (parse_data B (buf c) false DATA) as [[[[d del] more] s']|e]; [|discriminate].
    destruct d as [|d0 dr].
    + destruct more.
      * intro H. apply fail_if_complete_ok in H. inversion H. subst. cbn [buf]. apply skipn_length_le.
      * intro H. inversion H. subst. cbn [buf]. apply skipn_length_le.
    + intro H. inversion H. subst. cbn [buf]. apply skipn_length_le.
  - destruct (parse_data B (buf c) true DATA_START) as [[[[d del] more] s']|e]; [|discriminate].
    destruct (Nat.eqb del 0).
    + intro H. apply fail_if_complete_ok in H. inversion H. subst. lia.
    + intro H. inversion H. subst. cbn [buf]. apply skipn_length_le.
  - destruct (complete c); intro H; inversion H; subst; cbn [buf length]; lia.
  - intro H. apply fail_if_complete_ok in H. inversion H. subst. lia.
Qed.

Lemma next_event_nparts lim B c ev c' m :
  next_event lim B c = Ok (ev, c') -> max_parts lim = Some m ->
  (nparts c <= m)%nat -> (nparts c' <= m)%nat.
Proof.
  unfold next_event. intros H Hm Hle. destruct (st c).
  - destruct (search_delim true B (buf c) (spos c)) as [[[ms me] fin]|].
    + inversion H. subst. exact Hle.
    + apply fail_if_complete_ok in H. inversion H. subst. exact Hle.
  - destruct (search_blank (buf c) (spos c)) as [[ms me]|].
    + rewrite Hm in H. destruct (Nat.ltb m (S (nparts c))) eqn:E; inversion H. subst. cbn [nparts].
      apply Nat.ltb_ge in E. exact E.
    + apply fail_if_complete_ok in H. inversion H. subst. exact Hle.
  - destruct (parse_data B (buf c) false DATA) as [[[[d del] more] s']|e]; [|discriminate].
    destruct d as [|d0 dr].
    + destruct more.
      * apply fail_if_complete_ok in H. inversion H. subst. exact Hle.
      * inversion H. subst. exact Hle.
    + inversion H. subst. exact Hle.
  - destruct (parse_data B (buf c) true DATA_START) as [[[[d del] more] s']|e]; [|discriminate].
    destruct (Nat.eqb del 0).
    + apply fail_if_complete_ok in H. inversion H. subst. exact Hle.
    + inversion H. subst. exact Hle.
  - destruct (complete c); inversion H; subst; exact Hle.
  - apply fail_if_complete_ok in H. inversion H. subst. exact Hle.
Qed.

(* every configuration a run can be in *)
Inductive reach (lim : limits) (B : bytes) : cfg -> Prop :=
| r_init : reach lim B init
| r_recv c d c' : reach lim B c -> receive lim c d = Ok c' -> reach lim B c'
| r_end c : reach lim B c -> reach lim B (receive_end c)
| r_next c ev c' : reach lim B c -> next_event lim B c = Ok (ev, c') -> reach lim B c'.

Theorem buffer_bound lim B c m :
  reach lim B c -> max_mem lim = Some m -> (length (buf c) <= m)%nat.
Proof.
  intros Hr Hm. induction Hr as [|c d c' _ IH Hrecv|c _ IH|c ev c' _ IH Hn].
  - cbn. lia.
  - unfold receive in Hrecv. rewrite Hm in Hrecv.
    destruct (Nat.ltb m (length (buf c) + length d)) eqn:E; inversion Hrecv. subst. cbn [buf].
    rewrite app_length. apply Nat.ltb_ge in E. exact E.
  - exact IH.
  - apply next_event_buf_le in Hn. lia.
Qed.

Theorem parts_bound lim B c m :
  reach lim B c -> max_parts lim = Some m -> (nparts c <= m)%nat.
Proof.
  intros Hr Hm. induction Hr as [|c d c' _ IH Hrecv|c _ IH|c ev c' _ IH Hn].
  - cbn. lia.
  - unfold receive in Hrecv.
    destruct (max_mem lim) as [mm|]; [destruct (Nat.ltb mm (length (buf c) + length d))|];
      inversion Hrecv; subst; exact IH.
  - exact IH.
  - eapply next_event_nparts; eassumption.
Qed.

(* limits are pure guards: a run that succeeds under limits is the unlimited run *)
Lemma receive_guard lim c d c' : receive lim c d = Ok c' -> receive no_limits c d = Ok c'.
Proof.
  unfold receive. cbn [max_mem no_limits].
  destruct (max_mem lim) as [m|]; [destruct (Nat.ltb m (length (buf c) + length d))|]; intro H;
    inversion H; reflexivity.
Qed.

Lemma next_event_guard lim B c x : next_event lim B c = Ok x -> next_event no_limits B c = Ok x.
Proof.
  unfold next_event. destruct (st c); try (intro H; exact H).
  destruct (search_blank (buf c) (spos c)) as [[ms me]|]; [|intro H; exact H].
  cbn [max_parts no_limits].
  destruct (max_parts lim) as [m|]; [destruct (Nat.ltb m (S (nparts c)))|]; intro H;
    inversion H; reflexivity.
Qed.

Lemma drain_guard fuel lim B c x : drain fuel lim B c = Ok x -> drain fuel no_limits B c = Ok x.
Proof.
  revert c x. induction fuel as [|f IH]; intros c x; cbn [drain]; [discriminate|].
  destruct (next_event lim B c) as [[ev c']|e] eqn:E; [|discriminate].
  rewrite (next_event_guard _ _ _ _ E).
  destruct ev; try (intro H; exact H);
    (destruct (drain f lim B c') as [[evs c'']|e] eqn:E2; [|discriminate];
     rewrite (IH _ _ E2); intro H; exact H).
Qed.

Lemma feed_guard lim B chunks c r : feed lim B c chunks = Ok r -> feed no_limits B c chunks = Ok r.
Proof.
  revert c r. induction chunks as [|d rest IH]; intros c r; cbn [feed].
  - destruct (drain (drain_fuel (receive_end c)) lim B (receive_end c)) as [[evs c']|e] eqn:E; [|discriminate].
    rewrite (drain_guard _ _ _ _ _ E). intro H; exact H.
  - destruct (receive lim c d) as [c1|e] eqn:E1; [|discriminate].
    rewrite (receive_guard _ _ _ _ E1).
    destruct (drain (drain_fuel c1) lim B c1) as [[evs c2]|e] eqn:E2; [|discriminate].
    rewrite (drain_guard _ _ _ _ _ E2).
    destruct (feed lim B c2 rest) as [evs'|e] eqn:E3; [|discriminate].
    rewrite (IH _ _ E3). intro H; exact H.
Qed.

Theorem pure_guard lim B chunks r : drive lim B chunks = Ok r -> drive no_limits B chunks = Ok r.
Proof. apply feed_guard. Qed.
