From Wz Require Import lib.Bytes C01.Gen C01.Model.
