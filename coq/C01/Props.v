(* C01 property theorems (theorems only; proofs in the other C01 files). *)
From Coq Require Import Lia.
From Wz Require Import lib.Bytes C01.Gen C01.Model C01.Pins C01.Proofs C01.Strings C01.Hold C01.Search C01.Inv C01.Chunks C01.Render C01.HeaderBlock C01.Identity C01.Tie.
Open Scope N_scope.

(* the pattern texts, templates, state names and SEARCH_EXTRA_LENGTH the hand-written matchers
   stand for are those of the current source *)
Theorem C01_patterns_pinned :
  list_eqb line_break_text pin_line_break_text && list_eqb blank_line_text pin_blank_line_text
  && list_eqb preamble_template pin_preamble_template && list_eqb boundary_template pin_boundary_template
  && list_eqb template_args pin_template_args && lle state_names pin_state_names
  && Nat.eqb search_extra_length 8 = true.
Proof. exact patterns_pinned. Qed.
Print Assumptions C01_patterns_pinned.

(* next_event never grows the buffer *)
Theorem C01_next_event_consumes : forall lim B c ev c',
  next_event lim B c = Ok (ev, c') -> (length (buf c') <= length (buf c))%nat.
Proof. exact next_event_buf_le. Qed.
Print Assumptions C01_next_event_consumes.

(* Hold-back soundness of _parse_data (both start modes), for an arbitrary future x: when no
   delimiter is reported (more_data = true) and del bytes are consumed, the data emitted is exactly
   the bytes between the starting line break and del, and in no extension of the buffer does a
   boundary_re match start before del.  good_boundary B: the boundary has no CR / LF.
   This is the statement violated by the two defects repaired in /repo (3b7aa1f, c7604fe). *)
Theorem C01_holdback_sound : forall B s start st0 d del st',
  good_boundary B = true ->
  parse_data B s start st0 = Ok (d, del, true, st') ->
  let ds := if start then lb_len s else 0%nat in
  (del <= length s)%nat /\ st' = st0 /\ d = firstn (del - ds) (skipn ds s) /\
  (del = 0%nat \/ (ds <= del)%nat) /\
  forall x j, (j < del)%nat -> match_delim false B (skipn j (s ++ x)) = None.
Proof. exact holdback_sound. Qed.
Print Assumptions C01_holdback_sound.

(* a delimiter reported by _parse_data on the buffer s is the leftmost boundary_re match of every
   extension s ++ x, with the same start and final flag; its end can only grow, and for a
   non-final delimiter only by the LF that completes a CR at the very end of s *)
Theorem C01_found_leftmost : forall B s start st0 d del st' x,
  good_boundary B = true ->
  parse_data B s start st0 = Ok (d, del, false, st') ->
  let ds := if start then lb_len s else 0%nat in
  exists ms f e',
    search_delim false B s 0 = Some (ms, del, f) /\
    search_delim false B (s ++ x) 0 = Some (ms, (ms + e')%nat, f) /\
    d = firstn (ms - ds) (skipn ds s) /\ st' = (if f then EPILOGUE else PART) /\
    (del <= length s)%nat /\ (del <= ms + e')%nat /\
    (f = false -> (ms + e')%nat = del \/
       (del = length s /\ (ms + e')%nat = S del /\ (exists x', x = LF :: x') /\ exists s0, s = s0 ++ [CR])).
Proof. exact found_leftmost. Qed.
Print Assumptions C01_found_leftmost.

(* the two repaired defects as instances.  B = bound; payload LF y^30 CR with the LF of the
   delimiter still to come: the CR is held back *)
Example C01_holdback_example_cr :
  let B := [98; 111; 117; 110; 100] in
  let s := LF :: repeat 121 30 ++ [CR] in
  good_boundary B = true /\ parse_data B s false DATA = Ok (firstn 31 s, 31%nat, true, DATA).
Proof. vm_compute. split; reflexivity. Qed.
Print Assumptions C01_holdback_example_cr.

(* body-less part, buffer CR LF - - b o u at DATA_START: nothing is consumed *)
Example C01_holdback_example_bodyless :
  let B := [98; 111; 117; 110; 100] in
  parse_data B [CR; LF; DASH; DASH; 98; 111; 117] true DATA_START = Ok ([], 0%nat, true, DATA_START).
Proof. vm_compute. reflexivity. Qed.
Print Assumptions C01_holdback_example_bodyless.

(* good_boundary is needed: with a LF inside the boundary (B = a LF b) the hold point lies inside
   a partial delimiter, and the extension has a match before it *)
Example C01_holdback_needs_good_boundary :
  let B := [97; LF; 98] in
  let s := [120; CR; LF; DASH; DASH; 97; LF] in
  let x := [98; CR; LF] in
  parse_data B s false DATA = Ok (firstn 6 s, 6%nat, true, DATA) /\
  match_delim false B (skipn 1 (s ++ x)) = Some (9%nat, false).
Proof. vm_compute. split; reflexivity. Qed.
Print Assumptions C01_holdback_needs_good_boundary.

(* Search-position soundness: the inductive step of the invariant behind _search_position.
   PART (unconditional): if no blank-line match of any extension starts before pos, then after a
   failed search none starts before len - SEARCH_EXTRA_LENGTH, and a successful search returns the
   leftmost blank line of every extension.
   PREAMBLE (W = P ++ r the whole body, P the buffer, (d0, e0, f0) the first position of W where
   --B(--[hws]*LB?|[hws]*LB) matches, at most SEARCH_EXTRA_LENGTH - 2 blanks after a non-final first
   delimiter): if spos is not after d0, then after a failed search the new position
   len - |B| - SEARCH_EXTRA_LENGTH is not after d0 either, and a successful search returns the first
   delimiter of W: same final flag, start not after d0, same end (or, for a non-final delimiter, one
   less when P ends with the CR of its CR LF). *)
Theorem C01_search_position_sound :
  (forall s pos,
    (forall x j, (j < pos)%nat -> match_blank (skipn j (s ++ x)) = 0%nat) ->
    match search_blank s pos with
    | None => forall x j, (j < length s - search_extra_length)%nat -> match_blank (skipn j (s ++ x)) = 0%nat
    | Some (ms, me) => forall x, search_blank (s ++ x) 0 = Some (ms, me)
    end) /\
  (forall B P r spos d0 e0 f0,
    good_boundary B = true ->
    first_tail B (P ++ r) d0 e0 f0 ->
    (f0 = false -> (blanks_at B (P ++ r) d0 + 2 <= search_extra_length)%nat) ->
    (spos <= d0)%nat ->
    match search_delim true B P spos with
    | None => (length P - length B - search_extra_length <= d0)%nat
    | Some (ms, me, f) =>
        f = f0 /\ (ms <= d0)%nat /\ (d0 <= me)%nat /\ (me <= d0 + e0)%nat /\ (me <= length P)%nat /\
        (f0 = false -> me = (d0 + e0)%nat \/
           (me = length P /\ S me = (d0 + e0)%nat /\ (exists r', r = LF :: r') /\ exists P0, P = P0 ++ [CR]))
    end).
Proof. split; [exact part_search_sound|exact preamble_search_sound]. Qed.
Print Assumptions C01_search_position_sound.

(* the hypotheses of the PREAMBLE half are satisfiable: B = bound, body CR LF --bound SP SP CR LF x,
   buffer = the body up to the first blank *)
Example C01_search_position_example :
  let B := [98; 111; 117; 110; 100] in
  let P := [CR; LF; DASH; DASH; 98; 111; 117; 110; 100; 32] in
  let r := [32; CR; LF; 120] in
  good_boundary B = true /\ first_tail B (P ++ r) 2 11 false /\
  (blanks_at B (P ++ r) 2 + 2 <= search_extra_length)%nat /\ search_delim true B P 0 = None.
Proof.
  cbv zeta. split; [reflexivity|]. split; [|split; [vm_compute; lia|reflexivity]].
  split; [reflexivity|]. intros j Hj. destruct j as [|[|j]]; [reflexivity|reflexivity|lia].
Qed.
Print Assumptions C01_search_position_example.

(* the blanks hypothesis is needed: with 7 blanks after the first boundary and the buffer ending
   before its line break, the retained search position is after the -- of the delimiter *)
Example C01_search_position_blanks_needed :
  let B := [98; 111; 117; 110; 100] in
  let P := [DASH; DASH; 98; 111; 117; 110; 100; 32; 32; 32; 32; 32; 32; 32] in
  let r := [CR; LF; 120] in
  first_tail B (P ++ r) 0 16 false /\ blanks_at B (P ++ r) 0 = 7%nat /\ search_delim true B P 0 = None /\
  ~ (length P - length B - search_extra_length <= 0)%nat.
Proof.
  cbv zeta. split; [split; [reflexivity|intros j Hj; lia]|]. split; [reflexivity|]. split; [reflexivity|].
  vm_compute. lia.
Qed.
Print Assumptions C01_search_position_blanks_needed.

(* THEOREM A.  Chunk independence relative to the one-shot run, for every body the one-shot decoder
   accepts.  wf_oneshot B W (computable, Inv.v) is the conjunction of
     (1) the one-shot parse of W reaches the final delimiter (body_parts B W is Some),
     (2) at most SEARCH_EXTRA_LENGTH - 2 blanks after a non-final first delimiter,
     (3) no non-final delimiter ends with CR LF and is followed by LF.
   parts_equiv: both runs succeed, same number of parts, payloads byte-identical, each raw header
   block of the chunked run is that of the one-shot run or that with one LF in front (a chunk edge
   between the CR and the LF that end a delimiter line; _parse_headers skips the empty line).
   No hypothesis on the chunks: empty chunks are allowed. *)
Theorem C01_chunk_independence : forall B W chunks,
  good_boundary B = true -> wf_oneshot B W = true -> concat chunks = W ->
  parts_equiv (drive no_limits B chunks) (drive no_limits B [W]).
Proof. exact chunk_independence. Qed.
Print Assumptions C01_chunk_independence.

(* any two chunkings of a wf body: header blocks equal up to one leading LF on either side *)
Theorem C01_chunk_independence_any_two : forall B chunks1 chunks2,
  good_boundary B = true -> wf_oneshot B (concat chunks1) = true -> concat chunks2 = concat chunks1 ->
  parts_equiv2 (drive no_limits B chunks1) (drive no_limits B chunks2).
Proof. exact chunk_independence_any_two. Qed.
Print Assumptions C01_chunk_independence_any_two.

(* the one-shot run returns exactly the parts computed by the walk over the whole body *)
Theorem C01_oneshot_spec : forall B W,
  good_boundary B = true -> wf_oneshot B W = true ->
  exists evs, drive no_limits B [W] = Ok evs /\ parts_of evs = oneshot_parts B W.
Proof. exact oneshot_spec. Qed.
Print Assumptions C01_oneshot_spec.

(* the hypotheses of theorem A hold for a realistic three-part CRLF body: a body-less part, an empty
   payload, and a payload with a look-alike delimiter *)
Example C01_wf_example : good_boundary ex_B = true /\ wf_oneshot ex_B ex_body = true.
Proof. exact wf_example. Qed.
Print Assumptions C01_wf_example.

(* each conjunct of wf_oneshot is needed: dropping it admits a body and a two-chunk schedule on which
   the conclusion fails (the other conjuncts hold) *)
Example C01_wf_needed_oneshot :
  wf_oneshot ex_B ex_W1 = false /\ ~ parts_equiv (drive no_limits ex_B [ex_W1]) (drive no_limits ex_B [ex_W1]).
Proof. exact wf_needed_oneshot. Qed.
Print Assumptions C01_wf_needed_oneshot.

Example C01_wf_needed_blanks :
  first_blanks_ok ex_B ex_W2 = false /\ first_glitch_free ex_B ex_W2 = true /\
  (exists ws, body_parts ex_B ex_W2 = Some ws /\ all_good ws = true) /\
  ~ parts_equiv (drive no_limits ex_B [firstn 14 ex_W2; skipn 14 ex_W2]) (drive no_limits ex_B [ex_W2]).
Proof. exact wf_needed_blanks. Qed.
Print Assumptions C01_wf_needed_blanks.

Example C01_wf_needed_first_glitch :
  first_blanks_ok ex_B ex_W3 = true /\ first_glitch_free ex_B ex_W3 = false /\
  (exists ws, body_parts ex_B ex_W3 = Some ws /\ all_good ws = true) /\
  ~ parts_equiv (drive no_limits ex_B [firstn 8 ex_W3; skipn 8 ex_W3]) (drive no_limits ex_B [ex_W3]).
Proof. exact wf_needed_first_glitch. Qed.
Print Assumptions C01_wf_needed_first_glitch.

Example C01_wf_needed_inner_glitch :
  first_blanks_ok ex_B ex_W4 = true /\ first_glitch_free ex_B ex_W4 = true /\
  (exists ws, body_parts ex_B ex_W4 = Some ws /\ all_good ws = false) /\
  ~ parts_equiv (drive no_limits ex_B [firstn 27 ex_W4; skipn 27 ex_W4]) (drive no_limits ex_B [ex_W4]).
Proof. exact wf_needed_inner_glitch. Qed.
Print Assumptions C01_wf_needed_inner_glitch.

(* THEOREM B.  render B lb pre ps tail = pre ++ --B ++ (LB hdr LB [LB payload] LB --B)* ++ -- ++ tail
   (Render.v; lb = CR LF, LF or CR; pre = preamble and the optional line break of the first
   delimiter; a part with r_body = None is body-less).  wf_body (computable):
     - no --B starts inside pre;
     - every header block is non-empty, does not start with LF, and the first blank line of
       hdr LB LB is the LB LB at its end (the non-empty condition is a simplification: the real
       decoder rejects an empty header block anyway);
     - in [LB payload] LB --B (LB | --) the leftmost boundary_re match is the closing LB --B..., and
       the line break that starts the body is exactly LB (for CR bodies: payload not starting with LF).
   Then the body satisfies the hypotheses of theorem A, and the one-shot run yields exactly the
   rendered parts (raw header block, payload).  This is the sans-io half of C02. *)
Theorem C01_decode_render : forall B lb pre ps tail,
  good_boundary B = true -> wf_body B lb pre ps tail = true ->
  wf_oneshot B (render B lb pre ps tail) = true /\
  exists evs, drive no_limits B [render B lb pre ps tail] = Ok evs /\ parts_of evs = map spec_part ps.
Proof. exact decode_render. Qed.
Print Assumptions C01_decode_render.

(* COROLLARY C.  Every chunking of a rendered body yields the rendered parts: payloads exactly, header
   blocks up to one leading LF.  The read loop of MultiPartParser.parse is the model's feed, so
   every buffer size and every pattern of short reads is an instance. *)
Theorem C01_decode_render_chunked : forall B lb pre ps tail chunks,
  good_boundary B = true -> wf_body B lb pre ps tail = true ->
  concat chunks = render B lb pre ps tail ->
  exists evs, drive no_limits B chunks = Ok evs /\
    Forall2 (fun a e : part => (fst a = fst e \/ fst a = LF :: fst e) /\ snd a = snd e)
            (parts_of evs) (map spec_part ps).
Proof. exact decode_render_chunked. Qed.
Print Assumptions C01_decode_render_chunked.

(* the rendered text part by part, as MultipartEncoder writes it (pre ends with the line break) *)
Theorem C01_render_flat : forall B lb pre ps tail,
  render B lb (pre ++ lbs lb) ps tail =
  pre ++ flat_map (render_part B lb) ps ++ lbs lb ++ dd B ++ [DASH; DASH] ++ tail.
Proof. exact render_flat. Qed.
Print Assumptions C01_render_flat.

(* wf_body is satisfiable: the three-part CR LF body of C01_wf_example is a rendered body *)
Example C01_render_example :
  render ex_B LBcrlf [] [ex_p1; ex_p2; ex_p3] crlf = ex_body /\
  good_boundary ex_B = true /\ wf_body ex_B LBcrlf [] [ex_p1; ex_p2; ex_p3] crlf = true.
Proof. exact render_example. Qed.
Print Assumptions C01_render_example.

(* the restriction of bare-LF bodies to payloads free of the other newline kind is needed *)
Example C01_wf_body_needed_other_newline :
  let p := mkrp [97; 58; 49] (Some [120; CR]) in
  wf_body ex_B LBlf [] [p] [LF] = false /\
  decoded ex_B (render ex_B LBlf [] [p] [LF]) = Some [([97; 58; 49], [120])].
Proof. exact wf_body_needed_other_newline. Qed.
Print Assumptions C01_wf_body_needed_other_newline.

(* a delimiter inside a payload is needed to be excluded *)
Example C01_wf_body_needed_payload_delim :
  let p := mkrp [97; 58; 49] (Some ([120] ++ ex_delim ++ crlf ++ [121])) in
  wf_body ex_B LBcrlf [] [p] crlf = false /\
  decoded ex_B (render ex_B LBcrlf [] [p] crlf) <> Some (map spec_part [p]).
Proof. exact wf_body_needed_payload_delim. Qed.
Print Assumptions C01_wf_body_needed_payload_delim.

(* ---- part identity.  Kind (field or file), name, filename and the header list are functions of
   the PARSED header block (coq/C01/HeaderBlock.v models MultipartDecoder._parse_headers and is
   compared with it on every run).  A leading LF in front of a raw block does not change it ... *)
Theorem C01_parse_headers_leading_lf : forall h, parse_headers (hLF :: h) = parse_headers h.
Proof. exact parse_headers_leading_lf. Qed.
Print Assumptions C01_parse_headers_leading_lf.

(* ... so chunk independence holds as the property states it: same parts, same parsed headers,
   byte-exact payloads, for every chunking of a body the one-shot decoder accepts *)
Theorem C01_chunk_independence_parsed : forall B W chunks,
  good_boundary B = true -> wf_oneshot B W = true -> concat chunks = W ->
  same_parsed_parts (drive no_limits B chunks) (drive no_limits B [W]).
Proof. exact chunk_independence_parsed. Qed.
Print Assumptions C01_chunk_independence_parsed.

(* ---- one level up (second sentence of the property): the parts the form parser obtains do not
   depend on its read buffer size nor on short reads from the input stream.  reads_of models
   formparser._chunk_iter over a stream that returns between 1 and min(buffer_size, k_i) bytes on
   its i-th read; MultiPartParser.parse is the model's feed over those chunks. *)
Theorem C01_formparser_read_schedule : forall B W fuel bs sched,
  good_boundary B = true -> wf_oneshot B W = true ->
  same_parsed_parts (drive no_limits B (reads_of fuel bs sched W)) (drive no_limits B [W]).
Proof. exact formparser_read_schedule. Qed.
Print Assumptions C01_formparser_read_schedule.

Theorem C01_read_schedule_is_chunking : forall fuel bs sched data,
  concat (reads_of fuel bs sched data) = data /\
  ((1 <= bs)%nat -> (length data <= fuel)%nat ->
   forall c, In c (reads_of fuel bs sched data) -> (1 <= length c <= bs)%nat).
Proof. exact (fun fuel bs sched data => conj (reads_concat fuel bs sched data) (fun Hb Hl c => reads_sizes fuel bs sched data c Hb Hl)). Qed.
Print Assumptions C01_read_schedule_is_chunking.

(* ---- tie (a): the arithmetic of the incremental search and of the hold-back used by the hand-written model
   is the arithmetic translated from the current source (gen_* in C01/Gen.v) *)
Theorem C01_tie_search_positions : forall lim B c,
  complete c = false ->
  (st c = PREAMBLE -> search_delim true B (buf c) (spos c) = None ->
   exists c', next_event lim B c = Ok (ENeed, c') /\
              spos c' = gen_preamble_spos (length (buf c)) (length B) /\ buf c' = buf c /\ st c' = PREAMBLE) /\
  (st c = PART -> search_blank (buf c) (spos c) = None ->
   exists c', next_event lim B c = Ok (ENeed, c') /\
              spos c' = gen_part_spos (length (buf c)) /\ buf c' = buf c /\ st c' = PART).
Proof.
  exact (fun lim B c Hc => conj (fun H1 H2 => tie_preamble_spos lim B c H1 H2 Hc)
                                (fun H1 H2 => tie_part_spos lim B c H1 H2 Hc)).
Qed.
Print Assumptions C01_tie_search_positions.

Theorem C01_tie_headers_end : forall B c ms me,
  st c = PART -> search_blank (buf c) (spos c) = Some (ms, me) ->
  exists c', next_event no_limits B c = Ok (EPart (firstn ms (buf c)), c') /\
             buf c' = skipn (gen_headers_end ms me) (buf c) /\ st c' = DATA_START.
Proof. exact tie_headers_end. Qed.
Print Assumptions C01_tie_headers_end.

Theorem C01_tie_parse_data : forall B data start s0,
  parse_data B data start s0 = parse_data_gen B data start s0.
Proof. exact tie_parse_data. Qed.
Print Assumptions C01_tie_parse_data.
