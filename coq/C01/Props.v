(* C01 property theorems (theorems only; proofs in the other C01 files). *)
From Wz Require Import lib.Bytes C01.Gen C01.Model C01.Pins C01.Proofs.
Open Scope N_scope.

(* the pattern texts, templates, state names and SEARCH_EXTRA_LENGTH the hand-written matchers
   stand for are those of the current source *)
Theorem C01_patterns_pinned :
  list_eqb line_break_text pin_line_break_text && list_eqb blank_line_text pin_blank_line_text
  && list_eqb preamble_template pin_preamble_template && list_eqb boundary_template pin_boundary_template
  && list_eqb template_args pin_template_args && lle state_names pin_state_names
  && Nat.eqb search_extra_length 8 = true.
Proof. exact patterns_pinned. Qed.
Print Assumptions C01_patterns_pinned.

(* next_event never grows the buffer *)
Theorem C01_next_event_consumes : forall lim B c ev c',
  next_event lim B c = Ok (ev, c') -> (length (buf c') <= length (buf c))%nat.
Proof. exact next_event_buf_le. Qed.
Print Assumptions C01_next_event_consumes.
