(* C01 step 4b: from one step to whole runs; theorem A (chunk independence). *)
From Coq Require Import ZArith Lia ZifyBool ZifyN ZifyNat.
From Wz Require Import lib.Bytes lib.BytesFacts C01.Gen C01.Model C01.Proofs C01.Strings C01.Hold C01.Search C01.Inv.
Open Scope N_scope.

Fixpoint pfold (evs : list event) (cur : option part) : list part * option part :=
  match evs with
  | [] => ([], cur)
  | ev :: r => let '(d2, c2) := pfold r (snd (pstep cur ev)) in (fst (pstep cur ev) ++ d2, c2)
  end.

Lemma pfold_app evs1 evs2 cur :
  pfold (evs1 ++ evs2) cur =
  (fst (pfold evs1 cur) ++ fst (pfold evs2 (snd (pfold evs1 cur))), snd (pfold evs2 (snd (pfold evs1 cur)))).
Proof.
  revert cur. induction evs1 as [|ev r IH]; intro cur; cbn [app pfold].
  - cbn [fst snd app]. destruct (pfold evs2 cur); reflexivity.
  - rewrite IH. destruct (pfold r (snd (pstep cur ev))) as [d2 c2]. cbn [fst snd].
    rewrite app_assoc. reflexivity.
Qed.

Lemma parts_acc_pfold evs cur : parts_acc evs cur = fst (pfold evs cur).
Proof.
  revert cur. induction evs as [|ev r IH]; intro cur; [reflexivity|].
  rewrite parts_acc_step, IH. cbn [pfold]. destruct (pfold r (snd (pstep cur ev))); reflexivity.
Qed.

(* exactness survives only while no further input is outstanding *)
Definition exr (r : bytes) (ex : bool) : bool := match r with [] => ex | _ => false end.

Lemma parts_rel_exr r ex ex' a e :
  (r = [] -> ex' = ex) -> parts_rel ex' a e -> parts_rel (exr r ex) a e.
Proof.
  intros H R. destruct r as [|x r]; cbn [exr].
  - rewrite <- (H eq_refl). exact R.
  - eapply parts_rel_weaken. exact R.
Qed.

Lemma exr_step r ex ex' : (r = [] -> ex' = ex) -> exr r ex' = exr r ex.
Proof. intro H. destruct r; cbn [exr]; [apply H|]; reflexivity. Qed.

Lemma parts_rel_app ex a1 e1 a2 e2 :
  parts_rel ex a1 e1 -> parts_rel ex a2 e2 -> parts_rel ex (a1 ++ a2) (e1 ++ e2).
Proof. apply Forall2_app. Qed.

Lemma parts_rel_nil_l ex e : parts_rel ex [] e -> e = [].
Proof. intro H. inversion H. reflexivity. Qed.

Lemma drain_inv B : good_boundary B = true -> forall fuel c r ex cur ps,
  inv B c r ex cur ps -> (complete c = true -> r = []) -> (length (buf c) < fuel)%nat ->
  exists evs c' ex' dexp ps',
    drain fuel no_limits B c = Ok (evs, c') /\ complete c' = complete c /\
    (r = [] -> ex' = ex) /\
    parts_rel (exr r ex) (fst (pfold evs cur)) dexp /\ ps = dexp ++ ps' /\
    if complete c then ps' = [] /\ snd (pfold evs cur) = None
    else inv B c' r ex' (snd (pfold evs cur)) ps'.
Proof.
  intro HB. induction fuel as [|fuel IH]; intros c r ex cur ps Hinv Hcomp Hlen; [lia|].
  destruct (step_inv B c r ex cur ps HB Hcomp Hinv) as
    [ev [c1 [Hne [Hc1 [ex1 [dexp1 [ps1 [Hex1 [Hrel1 [Hps1 Hev]]]]]]]]]].
  assert (Flow : forall (Hflow : match ev with ENeed | EEpilogue _ => False | _ => True end),
    (length (buf c1) < length (buf c))%nat -> inv B c1 r ex1 (snd (pstep cur ev)) ps1 ->
    drain (S fuel) no_limits B c =
      match drain fuel no_limits B c1 with Ok (evs, c'') => Ok (ev :: evs, c'') | Err e => Err e end ->
    exists evs c' ex' dexp ps',
      drain (S fuel) no_limits B c = Ok (evs, c') /\ complete c' = complete c /\
      (r = [] -> ex' = ex) /\
      parts_rel (exr r ex) (fst (pfold evs cur)) dexp /\ ps = dexp ++ ps' /\
      if complete c then ps' = [] /\ snd (pfold evs cur) = None
      else inv B c' r ex' (snd (pfold evs cur)) ps').
  { intros _ Hlt Hinv1 Hd.
    destruct (IH c1 r ex1 _ ps1 Hinv1 ltac:(rewrite Hc1; exact Hcomp) ltac:(lia)) as
      [evs [c2 [ex2 [dexp2 [ps2 [Hd2 [Hc2 [Hex2 [Hrel2 [Hps2 Hfin]]]]]]]]]].
    rewrite Hd, Hd2. exists (ev :: evs), c2, ex2, (dexp1 ++ dexp2), ps2.
    split; [reflexivity|]. split; [congruence|]. split; [intro E; rewrite (Hex2 E); apply Hex1; exact E|].
    cbn [pfold]. destruct (pfold evs (snd (pstep cur ev))) as [d2 cu2] eqn:Ef. cbn [fst snd] in *.
    split; [apply parts_rel_app; [eapply parts_rel_exr; eassumption|rewrite <- (exr_step r ex ex1 Hex1); exact Hrel2]|].
    split; [rewrite Hps1, Hps2, app_assoc; reflexivity|].
    rewrite Hc1 in Hfin. exact Hfin. }
  cbn [drain] in *. rewrite Hne in *.
  destruct ev as [|pd|hd|dd more|ed].
  - (* ENeed *)
    destruct Hev as [Hinv1 Hcf]. cbn [pstep fst snd] in *.
    apply parts_rel_nil_l in Hrel1. subst dexp1. cbn [app] in Hps1. subst ps1.
    exists [], c1, ex1, [], ps. split; [reflexivity|]. split; [exact Hc1|]. split; [exact Hex1|].
    cbn [pfold fst snd]. split; [constructor|]. split; [reflexivity|]. rewrite Hcf. exact Hinv1.
  - destruct Hev as [Hlt Hinv1]. apply Flow; [exact I|exact Hlt|exact Hinv1|reflexivity].
  - destruct Hev as [Hlt Hinv1]. apply Flow; [exact I|exact Hlt|exact Hinv1|reflexivity].
  - destruct Hev as [Hlt Hinv1]. apply Flow; [exact I|exact Hlt|exact Hinv1|reflexivity].
  - (* EEpilogue *)
    destruct Hev as [Hps' [Hcur Hct]].
    exists [EEpilogue ed], c1, ex1, dexp1, ps1. split; [reflexivity|]. split; [exact Hc1|]. split; [exact Hex1|].
    cbn [pfold fst snd]. rewrite app_nil_r.
    split; [eapply parts_rel_exr; eassumption|]. split; [exact Hps1|]. rewrite Hct. split; assumption.
Qed.

Definition exf (chunks : list bytes) (ex : bool) : bool := exr (concat (tl chunks)) ex.

Lemma feed_inv B : good_boundary B = true -> forall chunks c ex cur ps,
  inv B c (concat chunks) ex cur ps -> complete c = false ->
  exists evs, feed no_limits B c chunks = Ok evs /\
    snd (pfold evs cur) = None /\ parts_rel (exf chunks ex) (fst (pfold evs cur)) ps.
Proof.
  intro HB. induction chunks as [|d rest IH]; intros c ex cur ps Hinv Hc.
  - cbn [feed concat] in *.
    pose proof (inv_complete_irrelevant B c [] ex cur ps true Hinv) as Hinv1.
    destruct (drain_inv B HB (drain_fuel (receive_end c)) (receive_end c) [] ex cur ps Hinv1
                ltac:(reflexivity) ltac:(unfold drain_fuel, receive_end; cbn [buf]; lia)) as
      [evs [c2 [ex2 [dexp [ps2 [Hd [_ [_ [Hrel [Hps Hfin]]]]]]]]]].
    cbn [receive_end complete] in Hfin. destruct Hfin as [-> Hcur].
    rewrite Hd. exists evs. split; [reflexivity|]. split; [exact Hcur|].
    rewrite app_nil_r in Hps. subst dexp. exact Hrel.
  - cbn [feed concat] in *. unfold receive. cbn [max_mem no_limits].
    set (c1 := mkcfg (st c) (buf c ++ d) (spos c) (complete c) (nparts c)).
    pose proof (inv_receive B c d (concat rest) ex cur ps Hinv) as Hinv1. fold c1 in Hinv1.
    destruct (drain_inv B HB (drain_fuel c1) c1 (concat rest) ex cur ps Hinv1
                ltac:(unfold c1; cbn [complete]; congruence) ltac:(unfold drain_fuel; lia)) as
      [evs1 [c2 [ex2 [dexp [ps2 [Hd [Hc2 [Hex2 [Hrel [Hps Hfin]]]]]]]]]].
    unfold c1 in Hfin at 1. cbn [complete] in Hfin. rewrite Hc in Hfin.
    rewrite Hd.
    destruct (IH c2 ex2 _ ps2 Hfin ltac:(rewrite Hc2; exact Hc)) as [evs2 [Hf [Hcur2 Hrel2]]].
    rewrite Hf. exists (evs1 ++ evs2). split; [reflexivity|]. rewrite pfold_app. cbn [fst snd].
    split; [exact Hcur2|]. rewrite Hps. unfold exf. cbn [tl].
    apply parts_rel_app; [exact Hrel|].
    unfold exf in Hrel2. destruct (concat rest) as [|x0 xr] eqn:Er.
    + cbn [exr]. match type of Hrel2 with context [exr ?t _] => assert (E : t = []) end.
      { destruct rest as [|r0 rr]; [reflexivity|]. cbn [concat tl] in *. apply app_eq_nil in Er. apply Er. }
      rewrite E in Hrel2. cbn [exr] in Hrel2. rewrite (Hex2 eq_refl) in Hrel2. exact Hrel2.
    + cbn [exr]. eapply parts_rel_weaken. exact Hrel2.
Qed.

(* ---------- the initial configuration ---------- *)

Lemma wf_inv B W :
  wf_oneshot B W = true -> inv B init W true None (oneshot_parts B W).
Proof.
  unfold wf_oneshot, oneshot_parts, body_parts, first_blanks_ok, first_glitch_free.
  destruct (search_delim true B W 0) as [[[ms me] f]|] eqn:Es; [|discriminate].
  pose proof (search_true_tail _ _ _ _ _ _ Es) as Ht. cbv zeta in Ht.
  set (l := lb_len (skipn ms W)) in *. destruct Ht as [_ [L1 [T1 T2]]].
  assert (FT : first_tail B W (ms + l) (me - (ms + l)) f).
  { split; [exact T1|]. intros j Hj. apply T2. lia. }
  destruct f.
  - intros _. cbn [map]. eapply inv_pre with (d0 := (ms + l)%nat); cbn [st buf spos init app]; try eassumption.
    + reflexivity.
    + lia.
    + discriminate.
    + reflexivity.
  - destruct (walk (length W) B (skipn me W)) as [ws|] eqn:Ew; [|discriminate]. cbn [orb].
    intro H. apply andb_prop in H. destruct H as [H H3]. apply andb_prop in H. destruct H as [H1 H2].
    apply Nat.leb_le in H1. apply negb_true_iff in H2.
    eapply inv_pre with (d0 := (ms + l)%nat); cbn [st buf spos init app]; try eassumption.
    + reflexivity.
    + lia.
    + intros _. exact H1.
    + replace (ms + l + (me - (ms + l)))%nat with me by lia. unfold cont. split; [exact H2|].
      exists (length W), ws. split; [exact Ew|]. split; [exact H3|reflexivity].
Qed.

(* every chunking of a wf body decodes; its parts are those of the one-shot walk, header blocks
   up to one leading LF; the one-shot run gives them exactly *)
Theorem chunked_spec B chunks :
  good_boundary B = true -> wf_oneshot B (concat chunks) = true ->
  exists evs, drive no_limits B chunks = Ok evs /\
    parts_rel (exf chunks true) (parts_of evs) (oneshot_parts B (concat chunks)).
Proof.
  intros HB Hwf. destruct (feed_inv B HB chunks init true None _ (wf_inv B _ Hwf) eq_refl) as [evs [Hf [_ Hrel]]].
  exists evs. split; [exact Hf|]. unfold parts_of. rewrite parts_acc_pfold. exact Hrel.
Qed.

Theorem oneshot_spec B W :
  good_boundary B = true -> wf_oneshot B W = true ->
  exists evs, drive no_limits B [W] = Ok evs /\ parts_of evs = oneshot_parts B W.
Proof.
  intros HB Hwf. destruct (chunked_spec B [W] HB) as [evs [Hd Hrel]].
  - cbn [concat]. rewrite app_nil_r. exact Hwf.
  - exists evs. split; [exact Hd|]. cbn [concat] in Hrel. rewrite app_nil_r in Hrel.
    apply parts_rel_exact. exact Hrel.
Qed.

(* both runs succeed; same number of parts; payloads identical; each header block of the chunked
   run is that of the one-shot run, or that with one LF in front *)
Definition parts_equiv (a b : res (list event)) : Prop :=
  match a, b with
  | Ok e1, Ok e2 =>
    Forall2 (fun p q : part => (fst p = fst q \/ fst p = LF :: fst q) /\ snd p = snd q)
            (parts_of e1) (parts_of e2)
  | _, _ => False
  end.

Lemma parts_rel_false_equiv a b :
  parts_rel false a b ->
  Forall2 (fun p q : part => (fst p = fst q \/ fst p = LF :: fst q) /\ snd p = snd q) a b.
Proof.
  induction 1 as [|x y l l' [[H|[_ H]] H2] _ IH]; constructor; try exact IH.
  - split; [left; exact H|exact H2].
  - split; [right; exact H|exact H2].
Qed.

Theorem chunk_independence B W chunks :
  good_boundary B = true -> wf_oneshot B W = true -> concat chunks = W ->
  parts_equiv (drive no_limits B chunks) (drive no_limits B [W]).
Proof.
  intros HB Hwf Hc. subst W.
  destruct (chunked_spec B chunks HB Hwf) as [evs [Hd Hrel]].
  destruct (oneshot_spec B _ HB Hwf) as [evs1 [Hd1 Hp1]].
  unfold parts_equiv. rewrite Hd, Hd1, Hp1.
  apply parts_rel_weaken in Hrel. apply parts_rel_false_equiv. exact Hrel.
Qed.

(* any two chunkings of the same wf body: header blocks equal up to one leading LF on either side *)
Definition parts_equiv2 (a b : res (list event)) : Prop :=
  match a, b with
  | Ok e1, Ok e2 =>
    Forall2 (fun p q : part =>
               (fst p = fst q \/ fst p = LF :: fst q \/ fst q = LF :: fst p) /\ snd p = snd q)
            (parts_of e1) (parts_of e2)
  | _, _ => False
  end.

Lemma parts_rel_false_join a b e :
  parts_rel false a e -> parts_rel false b e ->
  Forall2 (fun p q : part =>
             (fst p = fst q \/ fst p = LF :: fst q \/ fst q = LF :: fst p) /\ snd p = snd q) a b.
Proof.
  intro H. revert b. induction H as [|x y l l' [Hx Hx2] _ IH]; intros b Hb; inversion Hb as [|x' y' m m' [Hy Hy2] Hm]; subst.
  - constructor.
  - constructor; [|apply IH; exact Hm]. cbv beta. split; [|congruence].
    destruct Hx as [Hx|[_ Hx]], Hy as [Hy|[_ Hy]].
    + left. congruence.
    + right. right. congruence.
    + right. left. congruence.
    + left. congruence.
Qed.

Theorem chunk_independence_any_two B chunks1 chunks2 :
  good_boundary B = true -> wf_oneshot B (concat chunks1) = true -> concat chunks2 = concat chunks1 ->
  parts_equiv2 (drive no_limits B chunks1) (drive no_limits B chunks2).
Proof.
  intros HB Hwf Hc.
  destruct (chunked_spec B chunks1 HB Hwf) as [evs1 [Hd1 Hrel1]].
  rewrite <- Hc in Hwf. destruct (chunked_spec B chunks2 HB Hwf) as [evs2 [Hd2 Hrel2]].
  unfold parts_equiv2. rewrite Hd1, Hd2. rewrite Hc in Hrel2.
  eapply parts_rel_false_join; eapply parts_rel_weaken; eassumption.
Qed.

(* ---------- examples ---------- *)

(* the three-part CRLF body of Inv.v (body-less part, empty payload, look-alike payload) is wf *)
Example wf_example : good_boundary ex_B = true /\ wf_oneshot ex_B ex_body = true.
Proof. vm_compute. split; reflexivity. Qed.

(* conjunct 1 needed: a body without closing delimiter is not decoded at all *)
Definition ex_W1 : bytes := DASH :: DASH :: ex_B ++ crlf ++ [97; 58; 49] ++ crlf ++ crlf ++ [120].
Example wf_needed_oneshot :
  wf_oneshot ex_B ex_W1 = false /\ ~ parts_equiv (drive no_limits ex_B [ex_W1]) (drive no_limits ex_B [ex_W1]).
Proof. split; [vm_compute; reflexivity|]. vm_compute. intro H. exact H. Qed.

(* conjunct 2 needed: 7 blanks after the first boundary, chunk edge before its line break *)
Definition ex_W2 : bytes :=
  DASH :: DASH :: ex_B ++ repeat 32 7 ++ crlf ++ [97; 58; 49] ++ crlf ++ crlf ++ [120] ++ ex_delim ++ [DASH; DASH] ++ crlf.
Example wf_needed_blanks :
  first_blanks_ok ex_B ex_W2 = false /\ first_glitch_free ex_B ex_W2 = true /\
  (exists ws, body_parts ex_B ex_W2 = Some ws /\ all_good ws = true) /\
  ~ parts_equiv (drive no_limits ex_B [firstn 14 ex_W2; skipn 14 ex_W2]) (drive no_limits ex_B [ex_W2]).
Proof.
  split; [vm_compute; reflexivity|]. split; [vm_compute; reflexivity|]. split.
  - eexists. split; vm_compute; reflexivity.
  - vm_compute. intro H. inversion H.
Qed.

(* conjunct 3 needed: CR LF LF after the first delimiter, chunk edge between the CR and the LF *)
Definition ex_W3 : bytes :=
  DASH :: DASH :: ex_B ++ crlf ++ [LF] ++ [97; 58; 49] ++ crlf ++ crlf ++ [120] ++ ex_delim ++ [DASH; DASH] ++ crlf.
Example wf_needed_first_glitch :
  first_blanks_ok ex_B ex_W3 = true /\ first_glitch_free ex_B ex_W3 = false /\
  (exists ws, body_parts ex_B ex_W3 = Some ws /\ all_good ws = true) /\
  ~ parts_equiv (drive no_limits ex_B [firstn 8 ex_W3; skipn 8 ex_W3]) (drive no_limits ex_B [ex_W3]).
Proof.
  split; [vm_compute; reflexivity|]. split; [vm_compute; reflexivity|]. split.
  - eexists. split; vm_compute; reflexivity.
  - vm_compute. intro H. inversion H as [|x y l l' [[Hh|Hh] _] _]; discriminate.
Qed.

(* ... and the same after an inner delimiter *)
Definition ex_W4 : bytes :=
  DASH :: DASH :: ex_B ++ crlf ++ [97; 58; 49] ++ crlf ++ crlf ++ [120] ++ ex_delim ++ crlf ++ [LF] ++
  [98; 58; 50] ++ crlf ++ crlf ++ [121] ++ ex_delim ++ [DASH; DASH] ++ crlf.
Example wf_needed_inner_glitch :
  first_blanks_ok ex_B ex_W4 = true /\ first_glitch_free ex_B ex_W4 = true /\
  (exists ws, body_parts ex_B ex_W4 = Some ws /\ all_good ws = false) /\
  ~ parts_equiv (drive no_limits ex_B [firstn 27 ex_W4; skipn 27 ex_W4]) (drive no_limits ex_B [ex_W4]).
Proof.
  split; [vm_compute; reflexivity|]. split; [vm_compute; reflexivity|]. split.
  - eexists. split; vm_compute; reflexivity.
  - vm_compute. intro H. inversion H as [|x y l l' _ H2]. subst.
    inversion H2 as [|x' y' m m' [[Hh|Hh] _] _]; discriminate.
Qed.
