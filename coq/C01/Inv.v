(* C01 step 4: the one-shot parse positions as a function of the whole body (walk), and the
   invariant that ties a configuration reached on any chunking to them. *)
From Coq Require Import ZArith Lia ZifyBool ZifyN ZifyNat.
From Wz Require Import lib.Bytes lib.BytesFacts C01.Gen C01.Model C01.Proofs C01.Strings C01.Hold C01.Search.
Open Scope N_scope.
Ltac Zify.zify_post_hook ::= Z.to_euclidean_division_equations.

Definition part := (bytes * bytes)%type.

(* the delimiter that ends at me in T ends with CR LF and is followed by a LF: when a chunk edge
   falls between that CR and LF, the decoder sees LF LF, a blank line, at the start of the header
   block *)
Definition glitch (T : bytes) (me : nat) : bool :=
  match skipn (me - 2) T with
  | a :: b :: c :: _ => (a =? CR) && (b =? LF) && (c =? LF)
  | _ => false
  end.

Definition payload_of (T1 : bytes) (ms : nat) : bytes :=
  firstn (ms - lb_len T1) (skipn (lb_len T1) T1).

(* T: the body from the end of a non-final delimiter on.  One entry per part:
   (raw header block, payload, glitch flag of the delimiter that closes the part) *)
Fixpoint walk (n : nat) (B T : bytes) : option (list (part * bool)) :=
  match n with
  | O => None
  | S n' =>
    match search_blank T 0 with
    | None => None
    | Some (bs, be) =>
      let T1 := skipn (Nat.div (bs + be) 2) T in
      match search_delim false B T1 0 with
      | None => None
      | Some (ms, me, f) =>
        let p := (firstn bs T, payload_of T1 ms) in
        if f then Some [(p, false)]
        else match walk n' B (skipn me T1) with
             | Some ws => Some ((p, glitch T1 me) :: ws)
             | None => None
             end
      end
    end
  end.

Definition all_good (ws : list (part * bool)) : bool := forallb (fun w => negb (snd w)) ws.

(* what follows a delimiter that ends at me in T with final flag f: the remaining parts *)
Definition cont (B T : bytes) (me : nat) (f : bool) (ps : list part) : Prop :=
  if f then ps = []
  else glitch T me = false /\
       exists n ws, walk n B (skipn me T) = Some ws /\ all_good ws = true /\ ps = map fst ws.

(* the whole body: position of the first tail, and the parts *)
Definition body_parts (B W : bytes) : option (list (part * bool)) :=
  match search_delim true B W 0 with
  | None => None
  | Some (ms, me, f) => if f then Some [] else walk (length W) B (skipn me W)
  end.

Definition first_blanks_ok (B W : bytes) : bool :=
  match search_delim true B W 0 with
  | None => true
  | Some (ms, me, f) =>
    f || Nat.leb (blanks_at B W (ms + lb_len (skipn ms W)) + 2) search_extra_length
  end.

Definition first_glitch_free (B W : bytes) : bool :=
  match search_delim true B W 0 with
  | None => true
  | Some (ms, me, f) => f || negb (glitch W me)
  end.

(* computable well-formedness of a body for the one-shot decoder:
   (1) the one-shot parse reaches the final delimiter;
   (2) at most SEARCH_EXTRA_LENGTH - 2 blanks after a non-final first delimiter;
   (3) no non-final delimiter ends with CR LF and is followed by LF *)
Definition wf_oneshot (B W : bytes) : bool :=
  match body_parts B W with
  | None => false
  | Some ws => first_blanks_ok B W && first_glitch_free B W && all_good ws
  end.

Definition oneshot_parts (B W : bytes) : list part :=
  match body_parts B W with Some ws => map fst ws | None => [] end.

(* ---------- relation between the parts of two runs ---------- *)

Definition hdr_rel (ex : bool) (h' h : bytes) : Prop := h' = h \/ (ex = false /\ h' = LF :: h).
Definition part_rel (ex : bool) (a e : part) : Prop := hdr_rel ex (fst a) (fst e) /\ snd a = snd e.
Definition parts_rel (ex : bool) : list part -> list part -> Prop := Forall2 (part_rel ex).

Lemma hdr_rel_weaken ex h' h : hdr_rel ex h' h -> hdr_rel false h' h.
Proof. intros [H|[_ H]]; [left; exact H|right; split; [reflexivity|exact H]]. Qed.

Lemma parts_rel_weaken ex a e : parts_rel ex a e -> parts_rel false a e.
Proof.
  induction 1 as [|x y l l' [H1 H2] _ IH]; constructor; [|exact IH].
  split; [eapply hdr_rel_weaken; exact H1|exact H2].
Qed.

Lemma parts_rel_exact a e : parts_rel true a e -> a = e.
Proof.
  induction 1 as [|[h1 p1] [h2 p2] l l' [H1 H2] _ IH]; [reflexivity|]. cbn [fst snd] in *.
  destruct H1 as [H1|[H1 _]]; [|discriminate]. subst. reflexivity.
Qed.

(* ---------- the fold of MultiPartParser.parse, one event at a time ---------- *)

Definition pstep (cur : option part) (ev : event) : list part * option part :=
  match ev with
  | EPart h => ([], Some (h, []))
  | EData d more =>
    match cur with
    | Some (h, p) => if more then ([], Some (h, p ++ d)) else ([(h, p ++ d)], None)
    | None => ([], None)
    end
  | _ => ([], cur)
  end.

Lemma parts_acc_step ev evs cur :
  parts_acc (ev :: evs) cur = fst (pstep cur ev) ++ parts_acc evs (snd (pstep cur ev)).
Proof.
  destruct ev; cbn [parts_acc pstep fst snd app]; try reflexivity.
  destruct cur as [[h p]|]; [|reflexivity]. destruct more; reflexivity.
Qed.

(* test: a three-part CRLF body; B = bound *)
Definition ex_B : bytes := [98; 111; 117; 110; 100].
Definition crlf : bytes := [CR; LF].
Definition ex_delim : bytes := crlf ++ DASH :: DASH :: ex_B.
(* headers a: 1 / b: 2 / c: 3 ; part 1 body-less, part 2 empty payload, part 3 payload with a
   look-alike CR LF - - b o u n x *)
Definition ex_body : bytes :=
  DASH :: DASH :: ex_B ++ crlf ++
  [97; 58; 49] ++ crlf ++ ex_delim ++ crlf ++
  [98; 58; 50] ++ crlf ++ crlf ++ ex_delim ++ crlf ++
  [99; 58; 51] ++ crlf ++ crlf ++ [120] ++ crlf ++ [DASH; DASH; 98; 111; 117; 110; 120] ++ crlf ++ [121] ++
  ex_delim ++ [DASH; DASH] ++ crlf.


(* ---------- list helpers ---------- *)

Lemma firstn_add (A : Type) n m (l : list A) : firstn (n + m) l = firstn n l ++ firstn m (skipn n l).
Proof.
  revert l. induction n as [|n IH]; intro l; [reflexivity|]. destruct l as [|a l]; cbn [Nat.add firstn skipn app].
  - rewrite firstn_nil. reflexivity.
  - f_equal. apply IH.
Qed.

(* T[a..b) ++ T[b..c) = T[a..c) *)
Lemma slice_app (A : Type) a b c (T : list A) :
  (a <= b)%nat -> (b <= c)%nat ->
  firstn (b - a) (skipn a T) ++ firstn (c - b) (skipn b T) = firstn (c - a) (skipn a T).
Proof.
  intros H1 H2. replace (c - a)%nat with ((b - a) + (c - b))%nat by lia.
  rewrite firstn_add, skipn_skipn. repeat f_equal. lia.
Qed.

Lemma search_blank_at_shift s i :
  search_blank_at s (S i) =
  match search_blank_at s i with Some (a, b) => Some (S a, S b) | None => None end.
Proof.
  revert i. induction s as [|c r IH]; intro i; cbn [search_blank_at].
  - rewrite match_blank_nil. reflexivity.
  - destruct (match_blank (c :: r)) as [|n]; [apply IH|reflexivity].
Qed.

Definition starts_lf (s : bytes) : bool := match s with c :: _ => c =? LF | [] => false end.

Lemma search_blank_lf_shift T :
  starts_lf T = false ->
  search_blank (LF :: T) 0 =
  match search_blank T 0 with Some (a, b) => Some (S a, S b) | None => None end.
Proof.
  intro H. unfold search_blank. cbn [skipn search_blank_at].
  assert (E : match_blank (LF :: T) = 0%nat).
  { unfold match_blank. cbn [starts_with]. change (CR =? LF) with false. cbn [andb].
    rewrite N.eqb_refl. cbn [andb]. destruct T as [|c t]; [reflexivity|]. cbn [starts_lf] in H.
    cbn [starts_with]. rewrite N.eqb_sym, H. reflexivity. }
  rewrite E. apply search_blank_at_shift.
Qed.

Lemma search_delim_skip B T o ms me f :
  search_delim false B T 0 = Some (ms, me, f) -> (o <= ms)%nat ->
  search_delim false B (skipn o T) 0 = Some ((ms - o)%nat, (me - o)%nat, f).
Proof.
  intros H Ho. apply search_delim_some in H. destruct H as [_ [L1 [L2 [Hm Hn]]]].
  replace (me - o)%nat with ((ms - o) + (me - ms))%nat by lia.
  apply search_delim_intro; [lia| |].
  - rewrite skipn_skipn. replace (o + (ms - o))%nat with ms by lia. exact Hm.
  - intros j Hj. rewrite skipn_skipn. apply Hn. lia.
Qed.

(* ---------- the invariant ---------- *)

Inductive inv (B : bytes) (c : cfg) (r : bytes) (ex : bool) : option part -> list part -> Prop :=
| inv_pre d0 e0 f0 ps :
    st c = PREAMBLE ->
    first_tail B (buf c ++ r) d0 e0 f0 -> (spos c <= d0)%nat ->
    (f0 = false -> (blanks_at B (buf c ++ r) d0 + 2 <= search_extra_length)%nat) ->
    cont B (buf c ++ r) (d0 + e0) f0 ps ->
    inv B c r ex None ps
| inv_part T' n ws ps :
    st c = PART ->
    (buf c ++ r = T' \/ (ex = false /\ buf c ++ r = LF :: T' /\ starts_lf T' = false)) ->
    walk n B T' = Some ws -> all_good ws = true -> ps = map fst ws ->
    (forall x j, (j < spos c)%nat -> match_blank (skipn j (buf c ++ x)) = 0%nat) ->
    inv B c r ex None ps
| inv_dstart T1 h' h ms me f ps' ps :
    st c = DATA_START -> spos c = 0%nat ->
    buf c ++ r = T1 -> buf c <> [] -> (0 < lb_len T1)%nat ->
    search_delim false B T1 0 = Some (ms, me, f) -> cont B T1 me f ps' ->
    hdr_rel ex h' h -> ps = (h, payload_of T1 ms) :: ps' ->
    inv B c r ex (Some (h', [])) ps
| inv_data T1 o h' h p' ms me f ps' ps :
    st c = DATA -> spos c = 0%nat ->
    buf c ++ r = skipn o T1 -> (lb_len T1 <= o)%nat -> (o <= ms)%nat ->
    search_delim false B T1 0 = Some (ms, me, f) -> cont B T1 me f ps' ->
    hdr_rel ex h' h -> p' = firstn (o - lb_len T1) (skipn (lb_len T1) T1) ->
    ps = (h, payload_of T1 ms) :: ps' ->
    inv B c r ex (Some (h', p')) ps
| inv_epi : st c = EPILOGUE -> inv B c r ex None [].

(* receiving data moves bytes from the future into the buffer *)
Lemma inv_receive B c d r ex cur ps :
  inv B c (d ++ r) ex cur ps ->
  inv B (mkcfg (st c) (buf c ++ d) (spos c) (complete c) (nparts c)) r ex cur ps.
Proof.
  intro H. destruct H.
  - eapply inv_pre; cbn [st buf spos]; rewrite <- ?app_assoc; eassumption.
  - eapply inv_part; cbn [st buf spos]; rewrite <- ?app_assoc; try eassumption.
    intros x j Hj. rewrite <- app_assoc. auto.
  - eapply inv_dstart; cbn [st buf spos]; rewrite <- ?app_assoc; try eassumption.
    destruct (buf c); [congruence|discriminate].
  - eapply inv_data; cbn [st buf spos]; rewrite <- ?app_assoc; eassumption.
  - apply inv_epi. assumption.
Qed.

Lemma inv_complete_irrelevant B c r ex cur ps b :
  inv B c r ex cur ps -> inv B (mkcfg (st c) (buf c) (spos c) b (nparts c)) r ex cur ps.
Proof.
  intro H. destruct H.
  - eapply inv_pre; cbn [st buf spos]; eassumption.
  - eapply inv_part; cbn [st buf spos]; eassumption.
  - eapply inv_dstart; cbn [st buf spos]; eassumption.
  - eapply inv_data; cbn [st buf spos]; eassumption.
  - apply inv_epi. assumption.
Qed.

Lemma inv_weaken B c r ex cur ps : inv B c r ex cur ps -> inv B c r false cur ps.
Proof.
  intro H. destruct H.
  - eapply inv_pre; eassumption.
  - eapply inv_part; try eassumption.
    match goal with H : _ \/ _ |- _ => destruct H as [H|[_ H]]; [left; exact H|right; split; [reflexivity|exact H]] end.
  - eapply inv_dstart; try eassumption. eapply hdr_rel_weaken; eassumption.
  - eapply inv_data; try eassumption. eapply hdr_rel_weaken; eassumption.
  - apply inv_epi. assumption.
Qed.

(* ---------- after a delimiter ---------- *)

Lemma inv_after_delim B T me f ps' c' r ex :
  cont B T me f ps' ->
  st c' = (if f then EPILOGUE else PART) -> spos c' = 0%nat ->
  (f = false ->
   buf c' ++ r = skipn me T \/
   (buf c' = [] /\
    exists X0 r', T = X0 ++ CR :: LF :: r' /\ (length X0 + 2)%nat = me /\ r = LF :: r')) ->
  exists ex', (r = [] -> ex' = ex) /\ (ex' = ex \/ ex' = false) /\ inv B c' r ex' None ps'.
Proof.
  intros Hc Hst Hsp Hb. destruct f.
  - unfold cont in Hc. subst ps'. exists ex. split; [reflexivity|]. split; [left; reflexivity|]. apply inv_epi. exact Hst.
  - destruct Hc as [Hg [n [ws [Hw [Hgood Hps]]]]].
    destruct (Hb eq_refl) as [Hb'|[Hb' [X0 [r' [ET [El Er]]]]]]; clear Hb; rename Hb' into Hb.
    + exists ex. split; [reflexivity|]. split; [left; reflexivity|]. eapply inv_part; try eassumption.
      * left. exact Hb.
      * intros x j Hj. rewrite Hsp in Hj. lia.
    + exists false. split; [intro E; rewrite E in Er; discriminate|]. split; [right; reflexivity|].
      assert (Esk : skipn me T = r').
      { rewrite ET, <- El. replace (length X0 + 2)%nat with (length X0 + 2)%nat by lia.
        rewrite skipn_app. rewrite skipn_all2 by lia.
        replace (length X0 + 2 - length X0)%nat with 2%nat by lia. reflexivity. }
      rewrite Esk in Hw.
      eapply inv_part; try eassumption.
      * right. split; [reflexivity|]. split; [rewrite Hb, Er; reflexivity|].
        unfold glitch in Hg. rewrite ET, <- El in Hg.
        replace (length X0 + 2 - 2)%nat with (length X0 + 0)%nat in Hg by lia.
        rewrite skipn_app in Hg. rewrite skipn_all2 in Hg by lia.
        replace (length X0 + 0 - length X0)%nat with 0%nat in Hg by lia. cbn [skipn app] in Hg.
        destruct r' as [|c t]; [reflexivity|]. cbn [starts_lf].
        change (CR =? CR) with true in Hg. change (LF =? LF) with true in Hg. exact Hg.
      * intros x j Hj. rewrite Hsp in Hj. lia.
Qed.

(* ---------- one step of next_event under the invariant ---------- *)

Definition step_ok (B : bytes) (c : cfg) (r : bytes) (ex : bool) (cur : option part) (ps : list part) : Prop :=
  exists ev c', next_event no_limits B c = Ok (ev, c') /\ complete c' = complete c /\
    exists ex' dexp ps',
      (r = [] -> ex' = ex) /\ parts_rel ex' (fst (pstep cur ev)) dexp /\ ps = dexp ++ ps' /\
      match ev with
      | ENeed => inv B c' r ex' (snd (pstep cur ev)) ps' /\ complete c = false
      | EEpilogue _ => ps' = [] /\ snd (pstep cur ev) = None /\ complete c = true
      | _ => (length (buf c') < length (buf c))%nat /\ inv B c' r ex' (snd (pstep cur ev)) ps'
      end.

Lemma fail_if_complete_need c c' : complete c = false -> fail_if_complete c (ENeed, c') = Ok (ENeed, c').
Proof. intro H. unfold fail_if_complete. cbn [fst]. rewrite H. reflexivity. Qed.

Lemma complete_false c (r : bytes) : (complete c = true -> r = []) -> r <> [] -> complete c = false.
Proof. intros H Hr. destruct (complete c); [exfalso; apply Hr; apply H; reflexivity|reflexivity]. Qed.

Lemma step_pre B c r ex d0 e0 f0 ps :
  good_boundary B = true -> (complete c = true -> r = []) ->
  st c = PREAMBLE ->
  first_tail B (buf c ++ r) d0 e0 f0 -> (spos c <= d0)%nat ->
  (f0 = false -> (blanks_at B (buf c ++ r) d0 + 2 <= search_extra_length)%nat) ->
  cont B (buf c ++ r) (d0 + e0) f0 ps ->
  step_ok B c r ex None ps.
Proof.
  intros HB Hcomp Hst FT Hpos Hbl Hcont.
  pose proof (preamble_search_sound B (buf c) r (spos c) d0 e0 f0 HB FT Hbl Hpos) as PS.
  unfold step_ok, next_event. rewrite Hst.
  destruct (search_delim true B (buf c) (spos c)) as [[[ms me] f]|] eqn:Es.
  - destruct PS as [Ef [P1 [P2 [P3 [P4 P5]]]]]. subst f.
    apply search_delim_some in Es. destruct Es as [_ [_ [L2 [Hm _]]]].
    apply match_delim_some_bounds in Hm. destruct Hm as [_ Lme].
    eexists. eexists. split; [reflexivity|]. split; [reflexivity|]. cbn [pstep fst snd].
    set (c' := mkcfg (if f0 then EPILOGUE else PART) (skipn me (buf c)) 0 (complete c) (nparts c)).
    destruct (inv_after_delim B (buf c ++ r) (d0 + e0) f0 ps c' r ex Hcont eq_refl eq_refl) as [ex' [Hex [_ Hinv]]].
    { cbn [buf c']. intro Hf.
      destruct (P5 Hf) as [E|[E1 [E2 [[r' Er] [P0 EP]]]]].
      - left. rewrite <- E. symmetry. apply skipn_app_le. exact P4.
      - right. split; [rewrite E1; apply skipn_all|].
        exists P0, r'. split; [rewrite EP, Er, <- app_assoc; reflexivity|]. split; [|exact Er].
        rewrite EP, app_length in E1. cbn [length] in E1. lia. }
    exists ex', [], ps. split; [exact Hex|]. split; [constructor|]. split; [reflexivity|].
    split; [|exact Hinv]. unfold c'. cbn [buf]. rewrite skipn_length. lia.
  - (* failed search *)
    assert (Hr : r <> []).
    { intro E. subst r. rewrite app_nil_r in FT. destruct FT as [T0 _].
      apply tail_match_delim_true in T0. rewrite (search_delim_none _ _ _ _ Es d0 Hpos) in T0. discriminate. }
    pose proof (complete_false c r Hcomp Hr) as Hc.
    rewrite (fail_if_complete_need _ _ Hc).
    eexists. eexists. split; [reflexivity|]. split; [reflexivity|]. cbn [pstep fst snd].
    exists ex, [], ps. split; [reflexivity|]. split; [constructor|]. split; [reflexivity|]. split; [|exact Hc].
    eapply inv_pre; cbn [st buf spos]; try eassumption. reflexivity.
Qed.

Lemma walk_unfold n B T ws :
  walk n B T = Some ws ->
  exists n' bs be ms me f,
    n = S n' /\ search_blank T 0 = Some (bs, be) /\
    search_delim false B (skipn (Nat.div (bs + be) 2) T) 0 = Some (ms, me, f) /\
    let T1 := skipn (Nat.div (bs + be) 2) T in
    let p := (firstn bs T, payload_of T1 ms) in
    if f then ws = [(p, false)]
    else exists ws', walk n' B (skipn me T1) = Some ws' /\ ws = (p, glitch T1 me) :: ws'.
Proof.
  destruct n as [|n']; [discriminate|]. cbn [walk].
  destruct (search_blank T 0) as [[bs be]|] eqn:Eb; [|discriminate].
  destruct (search_delim false B (skipn (Nat.div (bs + be) 2) T) 0) as [[[ms me] f]|] eqn:Ed; [|discriminate].
  intro H. exists n', bs, be, ms, me, f. split; [reflexivity|]. split; [reflexivity|]. split; [exact Ed|].
  cbv zeta. destruct f.
  - injection H as <-. reflexivity.
  - destruct (walk n' B (skipn me (skipn (Nat.div (bs + be) 2) T))) as [ws'|]; [|discriminate].
    injection H as <-. exists ws'. split; reflexivity.
Qed.

Lemma step_part B c r ex T' n ws ps :
  (complete c = true -> r = []) ->
  st c = PART ->
  (buf c ++ r = T' \/ (ex = false /\ buf c ++ r = LF :: T' /\ starts_lf T' = false)) ->
  walk n B T' = Some ws -> all_good ws = true -> ps = map fst ws ->
  (forall x j, (j < spos c)%nat -> match_blank (skipn j (buf c ++ x)) = 0%nat) ->
  step_ok B c r ex None ps.
Proof.
  intros Hcomp Hst HX Hw Hgood Hps Hsp.
  pose proof (part_search_sound (buf c) (spos c) Hsp) as PS.
  destruct (walk_unfold _ _ _ _ Hw) as [n' [bs0 [be0 [ms [me [f [En [Hb0 [Hd Hws]]]]]]]]]. cbv zeta in Hws.
  (* the blank line of X = buf ++ r in terms of that of T' *)
  assert (HbX : exists k, (k <= 1)%nat /\ search_blank (buf c ++ r) 0 = Some ((k + bs0)%nat, (k + be0)%nat) /\
                  (forall m, skipn (k + m) (buf c ++ r) = skipn m T') /\
                  (k = 0%nat \/ ex = false) /\
                  forall m, firstn (k + m) (buf c ++ r) = (if Nat.eqb k 0 then [] else [LF]) ++ firstn m T').
  { destruct HX as [E|[E1 [E2 E3]]].
    - exists 0%nat. rewrite E. split; [lia|]. split; [exact Hb0|]. split; [reflexivity|]. split; [left; reflexivity|reflexivity].
    - exists 1%nat. rewrite E2. split; [lia|]. split; [rewrite (search_blank_lf_shift _ E3), Hb0; reflexivity|].
      split; [reflexivity|]. split; [right; exact E1|reflexivity]. }
  destruct HbX as [k [Hk [HbX [Hskip [Hkex Hfirst]]]]].
  unfold step_ok, next_event. rewrite Hst.
  destruct (search_blank (buf c) (spos c)) as [[bs be]|] eqn:Es.
  - specialize (PS r). rewrite HbX in PS. injection PS as Ebs Ebe.
    apply search_blank_some in Es. destruct Es as [_ [Lbe [Ebe2 [Hmb _]]]].
    assert (Hmb2 : (2 <= match_blank (skipn bs (buf c)))%nat)
      by (destruct (match_blank_cases (skipn bs (buf c))) as [E|[E|E]]; lia).
    cbn [max_parts no_limits].
    eexists. eexists. split; [reflexivity|]. split; [reflexivity|]. cbn [pstep fst snd].
    exists ex, [], ps. split; [reflexivity|]. split; [constructor|]. split; [reflexivity|].
    split; [cbn [buf]; rewrite skipn_length; lia|].
    (* position arithmetic *)
    assert (Emid : Nat.div (bs + be) 2 = (k + Nat.div (bs0 + be0) 2)%nat) by lia.
    assert (Lmid : (Nat.div (bs + be) 2 < be)%nat) by lia.
    set (T1 := skipn (Nat.div (bs0 + be0) 2) T') in *.
    assert (ET1 : skipn (Nat.div (bs + be) 2) (buf c) ++ r = T1).
    { rewrite <- skipn_app_le by lia. rewrite Emid. apply Hskip. }
    assert (Hlb : (0 < lb_len T1)%nat).
    { pose proof Hb0 as Hb0'. apply search_blank_some in Hb0'. destruct Hb0' as [_ [_ [E2 [Hm0 _]]]].
      pose proof (match_blank_mid_lb _ Hm0) as Hl. rewrite skipn_skipn in Hl.
      unfold T1. replace (Nat.div (bs0 + be0) 2) with (bs0 + Nat.div (match_blank (skipn bs0 T')) 2)%nat by lia.
      exact Hl. }
    assert (Hh : hdr_rel ex (firstn bs (buf c)) (firstn bs0 T')).
    { rewrite <- (firstn_app_le _ bs (buf c) r) by lia. rewrite <- Ebs, Hfirst.
      destruct Hkex as [E|E].
      - subst k. left. reflexivity.
      - destruct k as [|k]; [left; reflexivity|right]. split; [exact E|reflexivity]. }
    destruct f.
    + subst ws. cbn [map fst] in Hps.
      eapply inv_dstart with (T1 := T1) (ps' := []); cbn [st buf spos]; try eassumption; try reflexivity.
      * intro E. apply (f_equal (@length N)) in E. rewrite skipn_length in E. cbn [length] in E. lia.
    + destruct Hws as [ws' [Hw' Ews]]. subst ws. cbn [map fst] in Hps. cbn [all_good forallb snd] in Hgood.
      apply andb_prop in Hgood. destruct Hgood as [Hg1 Hg2]. apply negb_true_iff in Hg1.
      eapply inv_dstart with (T1 := T1) (ps' := map fst ws'); cbn [st buf spos]; try eassumption; try reflexivity.
      * intro E. apply (f_equal (@length N)) in E. rewrite skipn_length in E. cbn [length] in E. lia.
      * unfold cont. split; [exact Hg1|]. exists n', ws'. split; [exact Hw'|]. split; [exact Hg2|reflexivity].
  - assert (Hr : r <> []).
    { intro E. subst r. rewrite app_nil_r in HbX. apply search_blank_some in HbX.
      destruct HbX as [_ [_ [_ [Hm _]]]].
      destruct (Nat.ltb (k + bs0) (spos c)) eqn:El.
      - apply Nat.ltb_lt in El. specialize (Hsp [] _ El). rewrite app_nil_r in Hsp. congruence.
      - apply Nat.ltb_ge in El. pose proof (search_blank_none _ _ Es _ El). congruence. }
    pose proof (complete_false c r Hcomp Hr) as Hc.
    rewrite (fail_if_complete_need _ _ Hc).
    eexists. eexists. split; [reflexivity|]. split; [reflexivity|]. cbn [pstep fst snd].
    exists ex, [], ps. split; [reflexivity|]. split; [constructor|]. split; [reflexivity|]. split; [|exact Hc].
    eapply inv_part; cbn [st buf spos]; try eassumption. reflexivity.
Qed.

(* ---------- DATA_START / DATA ---------- *)

Lemma parse_data_more_none B s start st0 d del st' :
  parse_data B s start st0 = Ok (d, del, true, st') -> search_delim false B s 0 = None.
Proof.
  rewrite parse_data_unfold. cbv zeta. destruct (start && Nat.eqb _ 0); [discriminate|].
  destruct (search_delim false B s 0) as [[[ms me] f]|]; [discriminate|reflexivity].
Qed.

Lemma parse_data_no_err B s start st0 e :
  parse_data B s start st0 = Err e -> start = true /\ lb_len s = 0%nat.
Proof.
  rewrite parse_data_unfold. cbv zeta. destruct start; cbn [andb].
  - destruct (Nat.eqb (lb_len s) 0) eqn:E; [intros _; split; [reflexivity|apply Nat.eqb_eq; exact E]|].
    destruct (search_delim false B s 0) as [[[ms me] f]|]; [discriminate|].
    destruct (Nat.ltb _ _); discriminate.
  - destruct (search_delim false B s 0) as [[[ms me] f]|]; [discriminate|].
    destruct (Nat.ltb _ _); discriminate.
Qed.

(* only the CR of a possible CR LF is there: wait *)
Lemma parse_data_single_cr B st0 : parse_data B [CR] true st0 = Ok ([], 0%nat, true, st0).
Proof.
  rewrite parse_data_unfold. cbv zeta.
  assert (E1 : search_delim false B [CR] 0 = None).
  { unfold search_delim. cbn [skipn search_delim_at]. unfold match_delim at 1.
    change (lb_len [CR]) with 1%nat. cbn [Nat.ltb Nat.leb skipn]. unfold match_tail at 1.
    cbn [starts_with]. rewrite match_delim_nil. reflexivity. }
  rewrite E1. change (lb_len [CR]) with 1%nat. cbn [andb Nat.eqb].
  assert (E2 : hold_point B [CR] = 0%nat).
  { unfold hold_point. cbn [contains starts_with]. change (DASH =? CR) with false. cbn [andb orb].
    change (last_newline [CR]) with 0%nat. cbn [length].
    destruct (Nat.ltb (S (2 + length B)) (1 - 0)) eqn:E; [|reflexivity]. apply Nat.ltb_lt in E. lia. }
  rewrite E2. reflexivity.
Qed.

Lemma firstn_nil_skipn (A : Type) n (l : list A) : firstn n l = [] -> skipn n l = l.
Proof. destruct n; [reflexivity|]. destruct l; [reflexivity|discriminate]. Qed.

Lemma firstn_skipn_prefix (A : Type) a n (s x : list A) :
  (a + n <= length s)%nat -> firstn n (skipn a (s ++ x)) = firstn n (skipn a s).
Proof.
  intro H. rewrite skipn_app_le by lia. apply firstn_app_le. rewrite skipn_length. lia.
Qed.

(* the delimiter is found: common part of DATA_START and DATA *)
Lemma found_next B T1 o ms me f ps' bufc r ex start st0 d del s' c' :
  good_boundary B = true ->
  bufc ++ r = skipn o T1 -> (o <= ms)%nat ->
  search_delim false B T1 0 = Some (ms, me, f) -> cont B T1 me f ps' ->
  parse_data B bufc start st0 = Ok (d, del, false, s') ->
  st c' = s' -> spos c' = 0%nat -> buf c' = skipn del bufc ->
  let ds := if start then lb_len bufc else 0%nat in
  d = firstn (ms - o - ds) (skipn ds bufc) /\ (0 < del)%nat /\ (del <= length bufc)%nat /\
  (2 <= length bufc)%nat /\ (ms - o <= length bufc)%nat /\
  exists ex', (r = [] -> ex' = ex) /\ (ex' = ex \/ ex' = false) /\ inv B c' r ex' None ps'.
Proof.
  intros HB HU Ho Hs Hcont Hp Hst Hsp Hbuf ds.
  destruct (found_leftmost B bufc start st0 d del s' r HB Hp) as
    [ms' [f' [e' [F1 [F2 [F3 [F4 [F5 [F6 F7]]]]]]]]].
  pose proof (search_delim_skip B T1 o ms me f Hs Ho) as Hs'. rewrite <- HU, F2 in Hs'.
  injection Hs' as E1 E2 E3. subst f'.
  pose proof Hs as Hs2. apply search_delim_some in Hs2. destruct Hs2 as [_ [LmsT [Lmsme _]]].
  apply search_delim_some in F1. destruct F1 as [_ [G1 [G2 [G3 _]]]].
  apply match_delim_some_bounds in G3. destruct G3 as [_ G3].
  split; [rewrite <- E1; exact F3|]. split; [lia|]. split; [exact F5|]. split; [lia|]. split; [lia|].
  apply (inv_after_delim B T1 me f ps' c' r ex Hcont); [rewrite Hst; exact F4|exact Hsp|].
  intro Hf. rewrite Hbuf. destruct (F7 Hf) as [E|[D1 [D2 [[r' Er] [s0 Es0]]]]].
  - left. rewrite <- skipn_app_le by exact F5. rewrite HU, skipn_skipn. f_equal. lia.
  - right. split; [rewrite D1; apply skipn_all|].
    exists (firstn o T1 ++ s0), r'. split; [|split; [|exact Er]].
    + rewrite <- (firstn_skipn o T1) at 1. rewrite <- HU, Es0, Er, <- !app_assoc. reflexivity.
    + rewrite app_length, firstn_length. rewrite Es0, app_length in D1. cbn [length] in D1. lia.
Qed.

Lemma match_in_future_bound B T1 o ms me f bufc r del :
  bufc ++ r = skipn o T1 -> (o <= ms)%nat -> search_delim false B T1 0 = Some (ms, me, f) ->
  (forall x j, (j < del)%nat -> match_delim false B (skipn j (bufc ++ x)) = None) ->
  (o + del <= ms)%nat.
Proof.
  intros HU Ho Hs Hn. apply search_delim_some in Hs. destruct Hs as [_ [_ [_ [Hm _]]]].
  destruct (Nat.leb (o + del) ms) eqn:E; [apply Nat.leb_le in E; exact E|]. apply Nat.leb_gt in E.
  specialize (Hn r (ms - o)%nat ltac:(lia)). rewrite HU, skipn_skipn in Hn.
  replace (o + (ms - o))%nat with ms in Hn by lia. congruence.
Qed.

Lemma no_match_needs_future B T1 o ms me f bufc r :
  bufc ++ r = skipn o T1 -> (o <= ms)%nat -> search_delim false B T1 0 = Some (ms, me, f) ->
  search_delim false B bufc 0 = None -> r <> [].
Proof.
  intros HU Ho Hs Hn E. subst r. rewrite app_nil_r in HU. subst bufc.
  rewrite (search_delim_skip _ _ _ _ _ _ Hs Ho) in Hn. discriminate.
Qed.

Lemma step_data B c r ex T1 o h' h p' ms me f ps' ps :
  good_boundary B = true -> (complete c = true -> r = []) ->
  st c = DATA -> spos c = 0%nat ->
  buf c ++ r = skipn o T1 -> (lb_len T1 <= o)%nat -> (o <= ms)%nat ->
  search_delim false B T1 0 = Some (ms, me, f) -> cont B T1 me f ps' ->
  hdr_rel ex h' h -> p' = firstn (o - lb_len T1) (skipn (lb_len T1) T1) ->
  ps = (h, payload_of T1 ms) :: ps' ->
  step_ok B c r ex (Some (h', p')) ps.
Proof.
  intros HB Hcomp Hst Hsp HU Hds Ho Hs Hcont Hh Hp' Hps.
  unfold step_ok, next_event. rewrite Hst.
  destruct (parse_data B (buf c) false DATA) as [[[[d del] more] s']|e] eqn:Ep.
  2:{ apply parse_data_no_err in Ep. destruct Ep; discriminate. }
  destruct more.
  - (* no delimiter yet *)
    destruct (holdback_sound B (buf c) false DATA d del s' HB Ep) as [K1 [K2 [K3 [_ K5]]]].
    cbv zeta in K3. cbn [skipn] in K3. rewrite Nat.sub_0_r in K3. subst s'.
    pose proof (match_in_future_bound B T1 o ms me f (buf c) r del HU Ho Hs K5) as Kle.
    destruct d as [|d0 dr].
    + pose proof (no_match_needs_future B T1 o ms me f (buf c) r HU Ho Hs (parse_data_more_none _ _ _ _ _ _ _ Ep)) as Hr.
      pose proof (complete_false c r Hcomp Hr) as Hc.
      rewrite (fail_if_complete_need _ _ Hc).
      eexists. eexists. split; [reflexivity|]. split; [reflexivity|]. cbn [pstep fst snd].
      exists ex, [], ps. split; [reflexivity|]. split; [constructor|]. split; [reflexivity|]. split; [|exact Hc].
      symmetry in K3. apply firstn_nil_skipn in K3.
      eapply inv_data with (T1 := T1) (o := o); cbn [st buf spos]; try eassumption; try reflexivity.
      rewrite K3. exact HU.
    + assert (Hdel : (0 < del)%nat) by (destruct del; [discriminate|lia]).
      eexists. eexists. split; [reflexivity|]. split; [reflexivity|]. cbn [pstep fst snd].
      exists ex, [], ps. split; [reflexivity|]. split; [constructor|]. split; [reflexivity|].
      split; [cbn [buf]; rewrite skipn_length; lia|].
      eapply inv_data with (T1 := T1) (o := (o + del)%nat); cbn [st buf spos]; try eassumption; try reflexivity; try lia.
      * rewrite <- skipn_app_le by exact K1. rewrite HU. apply skipn_skipn.
      * rewrite Hp', K3. rewrite <- (firstn_app_le _ del (buf c) r) by exact K1. rewrite HU.
        replace del with (o + del - o)%nat at 1 by lia. apply slice_app; lia.
  - (* delimiter found *)
    set (c' := mkcfg s' (skipn del (buf c)) (spos c) (complete c) (nparts c)).
    destruct (found_next B T1 o ms me f ps' (buf c) r ex false DATA d del s' c' HB HU Ho Hs Hcont Ep
                eq_refl Hsp eq_refl) as [Ed [D1 [D2 [D3 [D4 [ex' [Hex [Hex2 Hinv]]]]]]]].
    cbn [skipn] in Ed. rewrite Nat.sub_0_r in Ed.
    assert (Hev : (match d with
                   | [] => Ok (EData d false, c')
                   | _ :: _ => Ok (EData d false, c') end) = Ok (EData d false, c')) by (destruct d; reflexivity).
    fold c'. rewrite Hev.
    eexists. eexists. split; [reflexivity|]. split; [reflexivity|]. cbn [pstep fst snd].
    exists ex', [(h, payload_of T1 ms)], ps'. split; [exact Hex|]. split; [|split; [exact Hps|]].
    + constructor; [|constructor]. split; cbn [fst snd].
      * destruct Hex2 as [->| ->]; [exact Hh|eapply hdr_rel_weaken; exact Hh].
      * rewrite Hp', Ed. rewrite <- (firstn_app_le _ (ms - o) (buf c) r) by exact D4. rewrite HU.
        unfold payload_of. apply slice_app; lia.
    + split; [unfold c'; cbn [buf]; rewrite skipn_length; lia|exact Hinv].
Qed.

Lemma step_dstart B c r ex T1 h' h ms me f ps' ps :
  good_boundary B = true -> (complete c = true -> r = []) ->
  st c = DATA_START -> spos c = 0%nat ->
  buf c ++ r = T1 -> buf c <> [] -> (0 < lb_len T1)%nat ->
  search_delim false B T1 0 = Some (ms, me, f) -> cont B T1 me f ps' ->
  hdr_rel ex h' h -> ps = (h, payload_of T1 ms) :: ps' ->
  step_ok B c r ex (Some (h', [])) ps.
Proof.
  intros HB Hcomp Hst Hsp HU Hne Hlb Hs Hcont Hh Hps.
  assert (HU0 : buf c ++ r = skipn 0 T1) by exact HU.
  assert (Hlbb : (0 < lb_len (buf c))%nat).
  { apply lb_len_pos_head in Hlb. destruct Hlb as [c0 [t [E Hc0]]].
    destruct (buf c) as [|b0 bt] eqn:Eb; [congruence|]. rewrite <- HU in E. cbn [app] in E.
    injection E as -> _. apply lb_len_head_lb. exact Hc0. }
  unfold step_ok, next_event. rewrite Hst.
  destruct (parse_data B (buf c) true DATA_START) as [[[[d del] more] s']|e] eqn:Ep.
  2:{ apply parse_data_no_err in Ep. destruct Ep as [_ Ep]. lia. }
  destruct more.
  - destruct (holdback_sound B (buf c) true DATA_START d del s' HB Ep) as [K1 [K2 [K3 [K4 K5]]]].
    cbv zeta in K3, K4. subst s'.
    pose proof (match_in_future_bound B T1 0 ms me f (buf c) r del HU0 ltac:(lia) Hs K5) as Kle.
    destruct (Nat.eqb del 0) eqn:Ed0.
    + pose proof (no_match_needs_future B T1 0 ms me f (buf c) r HU0 ltac:(lia) Hs
                    (parse_data_more_none _ _ _ _ _ _ _ Ep)) as Hr.
      pose proof (complete_false c r Hcomp Hr) as Hc.
      rewrite (fail_if_complete_need _ _ Hc).
      eexists. eexists. split; [reflexivity|]. split; [reflexivity|]. cbn [pstep fst snd].
      exists ex, [], ps. split; [reflexivity|]. split; [constructor|]. split; [reflexivity|]. split; [|exact Hc].
      eapply inv_dstart; eassumption.
    + apply Nat.eqb_neq in Ed0. destruct K4 as [K4|K4]; [lia|].
      (* the starting line break is the same in the buffer and in the whole *)
      assert (Eds : lb_len T1 = lb_len (buf c)).
      { rewrite <- HU. destruct (lb_len_app (buf c) r Hne) as [E|[x' [E1 _]]]; [exact E|].
        rewrite E1 in Ep. rewrite parse_data_single_cr in Ep. injection Ep as _ Ed. lia. }
      eexists. eexists. split; [reflexivity|]. split; [reflexivity|]. cbn [pstep fst snd app].
      exists ex, [], ps. split; [reflexivity|]. split; [constructor|]. split; [reflexivity|].
      split; [cbn [buf]; rewrite skipn_length; lia|].
      eapply inv_data with (T1 := T1) (o := del); cbn [st buf spos]; try eassumption; try reflexivity; try lia.
      * rewrite <- skipn_app_le by exact K1. rewrite HU. reflexivity.
      * rewrite K3, Eds, <- HU. symmetry. apply firstn_skipn_prefix. lia.
  - set (c' := mkcfg s' (skipn del (buf c)) (spos c) (complete c) (nparts c)).
    destruct (found_next B T1 0 ms me f ps' (buf c) r ex true DATA_START d del s' c' HB HU0 ltac:(lia) Hs Hcont Ep
                eq_refl Hsp eq_refl) as [Ed [D1 [D2 [D3 [D4 [ex' [Hex [Hex2 Hinv]]]]]]]].
    cbv zeta in Ed. rewrite Nat.sub_0_r in Ed, D4.
    assert (Ed0 : Nat.eqb del 0 = false) by (apply Nat.eqb_neq; lia). rewrite Ed0.
    assert (Eds : lb_len T1 = lb_len (buf c)) by (rewrite <- HU; apply lb_len_app_2; exact D3).
    eexists. eexists. split; [reflexivity|]. split; [reflexivity|]. cbn [pstep fst snd app].
    exists ex', [(h, payload_of T1 ms)], ps'. split; [exact Hex|]. split; [|split; [exact Hps|]].
    + constructor; [|constructor]. split; cbn [fst snd].
      * destruct Hex2 as [->| ->]; [exact Hh|eapply hdr_rel_weaken; exact Hh].
      * rewrite Ed. unfold payload_of. rewrite Eds, <- HU. symmetry.
        destruct (Nat.leb (lb_len (buf c)) ms) eqn:El.
        -- apply Nat.leb_le in El. apply firstn_skipn_prefix. lia.
        -- apply Nat.leb_gt in El. replace (ms - lb_len (buf c))%nat with 0%nat by lia. reflexivity.
    + split; [unfold c'; cbn [buf]; rewrite skipn_length; lia|exact Hinv].
Qed.

Lemma step_epi B c r ex :
  (complete c = true -> r = []) -> st c = EPILOGUE -> step_ok B c r ex None [].
Proof.
  intros Hcomp Hst. unfold step_ok, next_event. rewrite Hst. destruct (complete c) eqn:Ec.
  - eexists. eexists. split; [reflexivity|]. split; [reflexivity|]. cbn [pstep fst snd].
    exists ex, [], []. split; [reflexivity|]. split; [constructor|]. split; [reflexivity|]. split; [reflexivity|split; reflexivity].
  - eexists. eexists. split; [reflexivity|]. split; [exact Ec|]. cbn [pstep fst snd].
    exists ex, [], []. split; [reflexivity|]. split; [constructor|]. split; [reflexivity|].
    split; [apply inv_epi; exact Hst|reflexivity].
Qed.

Theorem step_inv B c r ex cur ps :
  good_boundary B = true -> (complete c = true -> r = []) ->
  inv B c r ex cur ps -> step_ok B c r ex cur ps.
Proof.
  intros HB Hcomp H. destruct H.
  - eapply step_pre; eassumption.
  - eapply step_part; eassumption.
  - eapply step_dstart; eassumption.
  - eapply step_data; eassumption.
  - apply step_epi; assumption.
Qed.
