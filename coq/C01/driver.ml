let optnat s = if s = "~" then None else Some (nat_of_int (int_of_string s))
let snap c = Printf.sprintf "%d:%d:%d" (int_of_n (state_code c.st)) (List.length c.buf) (int_of_nat c.spos)
let ev_str (e, c) =
  match e with
  | ENeed -> "N@" ^ snap c
  | EPreamble d -> "P:" ^ hex_of_nlist d ^ "@" ^ snap c
  | EPart h -> "H:" ^ hex_of_nlist h ^ "@" ^ snap c
  | EData (d, more) -> "D:" ^ hex_of_nlist d ^ ":" ^ (if more then "1" else "0") ^ "@" ^ snap c
  | EEpilogue d -> "E:" ^ hex_of_nlist d ^ "@" ^ snap c
let err_str = function
  | ErrValue -> "X:value" | ErrTooLarge -> "X:413" | ErrTooManyParts h -> "X:413H:" ^ hex_of_nlist h | ErrNoLineBreak -> "X:AttributeError" | ErrOutOfFuel -> "X:fuel"
let () = iter_lines (fun line ->
  match fields line with
  | ["trace"; b; mm; mp; chunks] ->
      let cs = if chunks = "~" then [] else List.map nlist_of_hex (String.split_on_char ',' chunks) in
      let lim = { max_mem = optnat mm; max_parts = optnat mp } in
      let (l, e) = trace lim (nlist_of_hex b) cs in
      String.concat " " (List.map ev_str l @ (match e with Some x -> [err_str x] | None -> []))
  | ["headers"; h] ->
      (match parse_headers (nlist_of_hex h) with
       | Some l -> "ok " ^ (if l = [] then "-" else String.concat "|" (List.map (fun (n, v) -> csv_of_nlist n ^ "=" ^ csv_of_nlist v) l))
       | None -> "UnicodeDecodeError")
  | _ -> "bad-command")
