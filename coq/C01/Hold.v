(* C01 step 3: hold-back soundness of parse_data for an arbitrary future.
   If parse_data reports no delimiter yet (more = true) and consumes del bytes, then in no
   extension s ++ x of the buffer does a boundary_re match start before del; and a match found
   in s is the leftmost match of every extension.  These are the statements the two repaired
   defects (last_newline as minimum; DATA_START consuming the starting line break) violated. *)
From Coq Require Import ZArith Lia ZifyBool ZifyN ZifyNat.
From Wz Require Import lib.Bytes lib.BytesFacts C01.Gen C01.Model C01.Strings.
Open Scope N_scope.

Definition good_boundary (B : bytes) : bool := nolb B.

(* a boundary_re match at j that exists in s ++ x but not in s *)
Lemma new_match_cases B s x j e' f :
  nolb B = true -> (j < length s)%nat ->
  match_delim false B (skipn j s) = None ->
  match_delim false B (skipn j (s ++ x)) = Some (e', f) ->
  (exists a, s = a ++ [CR] /\ length a = j /\ exists x', x = LF :: x') \/
  ((0 < lb_len (skipn j s))%nat /\
   lb_len (skipn j (s ++ x)) = lb_len (skipn j s) /\
   nolb (skipn (j + lb_len (skipn j s)) s) = true /\
   match_tail B (skipn (j + lb_len (skipn j s)) s) = None /\
   match_tail B (skipn (j + lb_len (skipn j s)) s ++ x) = Some ((e' - lb_len (skipn j s))%nat, f) /\
   (length s < j + e')%nat).
Proof.
  intros HB Lj Hn Hs. rewrite skipn_app_le in Hs by lia.
  destruct (match_delim_app_none _ _ _ _ _ _ Hn Hs) as [Hne|[E1 [E2 [E3 E4]]]].
  - left. apply lb_len_app_neq in Hne. destruct Hne as [E|[E [x' Ex]]].
    + apply skipn_nil_len in E. lia.
    + exists (firstn j s). split; [|split; [rewrite firstn_length; lia|exists x'; exact Ex]].
      rewrite <- E. symmetry. apply firstn_skipn.
  - right. rewrite skipn_app_le by lia. rewrite <- skipn_skipn.
    assert (Hl : (0 < lb_len (skipn j s))%nat).
    { apply match_delim_spec in Hs. destruct Hs as [_ [_ [_ [H|H]]]]; [lia|discriminate]. }
    destruct (match_tail_app_none B _ x _ f HB E2 E3) as [N1 [N2 _]].
    rewrite !skipn_length in N2.
    repeat split; try assumption. lia.
Qed.

Lemma last_lb_snoc_cr a : last_lb (a ++ [CR]) = Some (length a).
Proof.
  induction a as [|c a IH]; [reflexivity|]. cbn [app last_lb length]. rewrite IH.
  destruct a as [|d a']; cbn [length Nat.eqb app].
  - change (CR =? LF) with false. rewrite !andb_false_r. reflexivity.
  - rewrite andb_false_r. reflexivity.
Qed.

(* in both cases the last line break of s starts at or before j *)
Lemma new_match_last_newline B s x j e' f :
  nolb B = true -> (j < length s)%nat ->
  match_delim false B (skipn j s) = None ->
  match_delim false B (skipn j (s ++ x)) = Some (e', f) ->
  (last_newline s <= j)%nat.
Proof.
  intros HB Lj Hn Hs.
  destruct (new_match_cases B s x j e' f HB Lj Hn Hs) as [[a [E1 [E2 _]]]|[H1 [_ [H3 _]]]].
  - subst s. unfold last_newline. rewrite last_lb_snoc_cr. lia.
  - apply last_newline_le; assumption.
Qed.

(* the contains gate does not change the search result *)
Lemma found_gate B s :
  (if contains (DASH :: DASH :: B) s then search_delim false B s 0 else None) = search_delim false B s 0.
Proof.
  destruct (contains (DASH :: DASH :: B) s) eqn:Ec; [reflexivity|].
  destruct (search_delim false B s 0) as [[[ms me] f]|] eqn:Es; [|reflexivity]. exfalso.
  apply search_delim_some in Es. destruct Es as [_ [_ [_ [Hm _]]]].
  apply match_delim_spec in Hm. destruct Hm as [e0 [Ht _]].
  apply match_tail_some_dd in Ht. rewrite skipn_skipn in Ht.
  apply contains_skipn in Ht. unfold dd in Ht. congruence.
Qed.

Definition hold_point (B s : bytes) : nat :=
  let de := last_newline s in
  if contains (DASH :: DASH :: B) s then de
  else if Nat.ltb (S (2 + length B)) (length s - de) then length s else de.

Lemma hold_point_le_len B s : (hold_point B s <= length s)%nat.
Proof.
  unfold hold_point. pose proof (last_newline_le_len s).
  destruct (contains _ s); [lia|]. destruct (Nat.ltb _ _); lia.
Qed.

(* no boundary_re match of any extension starts before the hold point *)
Lemma hold_point_sound B s x j :
  nolb B = true -> search_delim false B s 0 = None ->
  (j < hold_point B s)%nat -> match_delim false B (skipn j (s ++ x)) = None.
Proof.
  intros HB Hs Hj. pose proof (hold_point_le_len B s) as Lh.
  assert (Hn : match_delim false B (skipn j s) = None) by (apply (search_delim_none _ _ _ _ Hs); lia).
  destruct (match_delim false B (skipn j (s ++ x))) as [[e' f]|] eqn:Em; [exfalso|reflexivity].
  assert (Lj : (j < length s)%nat) by lia.
  pose proof (new_match_last_newline B s x j e' f HB Lj Hn Em) as Hde.
  unfold hold_point in Hj. destruct (contains (DASH :: DASH :: B) s) eqn:Ec; [lia|].
  destruct (Nat.ltb (S (2 + length B)) (length s - last_newline s)) eqn:Efar; [|lia].
  apply Nat.ltb_lt in Efar.
  destruct (new_match_cases B s x j e' f HB Lj Hn Em) as [[a [E1 [E2 _]]]|[H1 [_ [H3 [_ [H5 _]]]]]].
  - subst s. unfold last_newline in Efar. rewrite last_lb_snoc_cr, app_length in Efar. cbn [length] in Efar. lia.
  - pose proof (last_newline_ge s j H1 H3) as Hge.
    assert (Hdd : starts_with (dd B) (skipn (j + lb_len (skipn j s)) s) = true).
    { eapply match_tail_app_dd; [exact H5|]. rewrite skipn_length. lia. }
    apply contains_skipn in Hdd. unfold dd in Hdd. congruence.
Qed.

Lemma parse_data_unfold B s start st0 :
  parse_data B s start st0 =
  let ds := if start then lb_len s else 0%nat in
  if start && Nat.eqb ds 0 then Err ErrNoLineBreak else
  match search_delim false B s 0 with
  | Some (ms, me, final) =>
    Ok (firstn (ms - ds) (skipn ds s), me, false, if final then EPILOGUE else PART)
  | None =>
    if Nat.ltb (hold_point B s) ds then Ok ([], 0%nat, true, st0)
    else Ok (firstn (hold_point B s - ds) (skipn ds s), hold_point B s, true, st0)
  end.
Proof. unfold parse_data. rewrite found_gate. reflexivity. Qed.

(* hold-back soundness: the full statement *)
Theorem holdback_sound B s start st0 d del st' :
  good_boundary B = true ->
  parse_data B s start st0 = Ok (d, del, true, st') ->
  let ds := if start then lb_len s else 0%nat in
  (del <= length s)%nat /\ st' = st0 /\
  d = firstn (del - ds) (skipn ds s) /\
  (del = 0%nat \/ (ds <= del)%nat) /\
  forall x j, (j < del)%nat -> match_delim false B (skipn j (s ++ x)) = None.
Proof.
  unfold good_boundary. intros HB. rewrite parse_data_unfold. cbv zeta.
  set (ds := if start then lb_len s else 0%nat).
  destruct (start && Nat.eqb ds 0); [discriminate|].
  destruct (search_delim false B s 0) as [[[ms me] fin]|] eqn:Es; [discriminate|].
  pose proof (hold_point_le_len B s) as Lh.
  destruct (Nat.ltb (hold_point B s) ds) eqn:El; intro H; injection H as <- <- <-.
  - split; [lia|]. split; [reflexivity|]. split; [reflexivity|]. split; [left; reflexivity|]. intros x j Hj. lia.
  - apply Nat.ltb_ge in El. split; [exact Lh|]. split; [reflexivity|]. split; [reflexivity|].
    split; [right; exact El|]. intros x j Hj. apply hold_point_sound; assumption.
Qed.

(* a match found in s is the leftmost match of every extension *)
Lemma leftmost_stable B s x ms e f :
  nolb B = true ->
  match_delim false B (skipn ms s) = Some (e, f) ->
  (forall j, (j < ms)%nat -> match_delim false B (skipn j s) = None) ->
  forall j, (j < ms)%nat -> match_delim false B (skipn j (s ++ x)) = None.
Proof.
  intros HB Hm Hn j Hj.
  pose proof (match_delim_some_bounds _ _ _ _ _ Hm) as [Lb Lb2]. rewrite skipn_length in Lb.
  destruct (match_delim false B (skipn j (s ++ x))) as [[e' f']|] eqn:Em; [exfalso|reflexivity].
  assert (Lj : (j < length s)%nat) by lia.
  destruct (new_match_cases B s x j e' f' HB Lj (Hn j Hj) Em) as [[a [E1 [E2 _]]]|[H1 [_ [H3 [H4 _]]]]].
  - subst s. rewrite app_length in Lb. cbn [length] in Lb. lia.
  - apply match_delim_spec in Hm. destruct Hm as [e0 [Ht [He [Hl|Hl]]]]; [|discriminate].
    pose proof (lb_len_le2 (skipn j s)) as L2.
    destruct (Nat.leb (j + lb_len (skipn j s)) ms) eqn:Ecmp.
    + apply Nat.leb_le in Ecmp. apply lb_len_pos_head in Hl. destruct Hl as [c [r [Ec Hc]]].
      assert (E : skipn ms s = skipn (ms - (j + lb_len (skipn j s))) (skipn (j + lb_len (skipn j s)) s)).
      { rewrite skipn_skipn. f_equal. lia. }
      apply (nolb_skipn (ms - (j + lb_len (skipn j s)))) in H3. rewrite <- E, Ec in H3.
      cbn [nolb forallb] in H3. rewrite Hc in H3. discriminate.
    + apply Nat.leb_gt in Ecmp. assert (Ems : ms = S j) by lia. assert (El2 : lb_len (skipn j s) = 2%nat) by lia.
      rewrite El2 in H4. replace (j + 2)%nat with (S (S j)) in H4 by lia.
      (* s[j] = CR, s[j+1] = LF: the match at j+1 has its tail at j+2, where the tail is None *)
      destruct (skipn j s) as [|c r] eqn:Esk; [cbn in El2; lia|].
      pose proof (skipn_S_cons _ _ _ _ _ Esk) as Esk1. rewrite <- Ems in Esk1.
      cbn [lb_len] in El2. destruct (c =? CR); [|destruct (c =? LF); lia].
      destruct r as [|d t]; [lia|]. destruct (d =? LF) eqn:Ed; [|lia].
      rewrite Esk1 in Ht. cbn [lb_len] in Ht. rewrite Ed in Ht.
      assert (Ecr : d =? CR = false) by (apply N.eqb_eq in Ed; subst d; reflexivity).
      rewrite Ecr in Ht. cbn [skipn] in Ht.
      pose proof (skipn_S_cons _ _ _ _ _ Esk1) as Esk2. rewrite Ems in Esk2. rewrite Esk2 in H4. congruence.
Qed.

Theorem found_leftmost B s start st0 d del st' x :
  good_boundary B = true ->
  parse_data B s start st0 = Ok (d, del, false, st') ->
  let ds := if start then lb_len s else 0%nat in
  exists ms f e',
    search_delim false B s 0 = Some (ms, del, f) /\
    search_delim false B (s ++ x) 0 = Some (ms, (ms + e')%nat, f) /\
    d = firstn (ms - ds) (skipn ds s) /\ st' = (if f then EPILOGUE else PART) /\
    (del <= length s)%nat /\ (del <= ms + e')%nat /\
    (f = false -> (ms + e')%nat = del \/
       (del = length s /\ (ms + e')%nat = S del /\ (exists x', x = LF :: x') /\ exists s0, s = s0 ++ [CR])).
Proof.
  unfold good_boundary. intros HB. rewrite parse_data_unfold. cbv zeta.
  set (ds := if start then lb_len s else 0%nat).
  destruct (start && Nat.eqb ds 0); [discriminate|].
  destruct (search_delim false B s 0) as [[[ms me] fin]|] eqn:Es.
  2:{ destruct (Nat.ltb (hold_point B s) ds); discriminate. }
  intro H. injection H as <- <- <-.
  apply search_delim_some in Es. destruct Es as [_ [L1 [L2 [Hm Hn]]]].
  destruct (match_at_app_some false B s x ms _ fin Hm) as [e' [H1 [H2 [H3 H4]]]].
  exists ms, fin, e'. split; [reflexivity|]. split.
  - apply search_delim_intro; [lia|exact H1|]. intros j Hj.
    apply (leftmost_stable B s x ms _ fin HB Hm); [|lia]. intros j' Hj'. apply Hn. lia.
  - split; [reflexivity|]. split; [reflexivity|]. split; [lia|]. split; [lia|].
    intro Hf. destruct (H4 Hf) as [E|[E1 [E2 [E3 E4]]]]; [left; lia|].
    right. split; [lia|]. split; [lia|]. split; assumption.
Qed.
