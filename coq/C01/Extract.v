From Coq Require Extraction ExtrOcamlBasic.
From Wz Require Import lib.Bytes lib.ExtractBase C01.Gen C01.Model C01.HeaderBlock.
Extraction Language OCaml.
Extraction "C01/model_extracted.ml" force_types trace drive parts_of state_code parse_headers.
