(* C01: model of MultipartDecoder._parse_headers on a raw header block, and the fact that makes
   part identity chunk-independent: a leading LF in front of the block (left there when a chunk edge
   falls between the CR and the LF that end a delimiter line) does not change the parsed headers. *)
From Coq Require Import ZArith Lia ZifyBool ZifyN.
From Wz Require Import lib.Bytes lib.BytesFacts lib.Utf8.
Open Scope N_scope.

Definition hCR : N := 13.
Definition hLF : N := 10.
Definition hSP : N := 32.
Definition hblank (c : N) : bool := (c =? 32) || (c =? 9).

(* HEADER_CONTINUATION_RE.sub(b" ", data) with  (?:\r\n|\n|\r)[ \t] *)
Fixpoint cont_sub (s : bytes) : bytes :=
  match s with
  | [] => []
  | c :: r =>
    if c =? hCR then
      match r with
      | d :: r' =>
        if d =? hLF then
          match r' with
          | e :: r'' => if hblank e then hSP :: cont_sub r'' else c :: d :: cont_sub r'
          | [] => [c; d]
          end
        else if hblank d then hSP :: cont_sub r' else c :: cont_sub r
      | [] => [c]
      end
    else if c =? hLF then
      match r with
      | d :: r' => if hblank d then hSP :: cont_sub r' else c :: cont_sub r
      | [] => [c]
      end
    else c :: cont_sub r
  end.

(* bytes.splitlines(): breaks at \n, \r\n, \r; no trailing empty line *)
Fixpoint splitlines (s : bytes) (cur : bytes) : list bytes :=
  match s with
  | [] => match cur with [] => [] | _ => [cur] end
  | c :: r =>
    if c =? hLF then cur :: splitlines r []
    else if c =? hCR then
      match r with
      | d :: r' => if d =? hLF then cur :: splitlines r' [] else cur :: splitlines r []
      | [] => [cur]
      end
    else splitlines r (cur ++ [c])
  end.

Definition nonempty (l : bytes) : bool := match l with [] => false | _ => true end.

(* the stripped, non-empty lines *)
Definition header_lines_of (data : bytes) : list bytes :=
  filter nonempty (map (strip ascii_ws) (splitlines (cont_sub data) [])).

Definition COLON : N := 58.
(* line.decode().partition(":") then .strip() of both halves; None models UnicodeDecodeError *)
Definition parse_line (line : bytes) : option (str * str) :=
  match utf8_decode line with
  | None => None
  | Some s =>
    match partition1 COLON s with
    | (n, Some v) => Some (strip uni_ws n, strip uni_ws v)
    | (n, None) => Some (strip uni_ws n, [])
    end
  end.

Fixpoint parse_lines (ls : list bytes) : option (list (str * str)) :=
  match ls with
  | [] => Some []
  | l :: r => match parse_line l, parse_lines r with
              | Some h, Some hs => Some (h :: hs)
              | _, _ => None
              end
  end.

Definition parse_headers (data : bytes) : option (list (str * str)) := parse_lines (header_lines_of data).

(* ------------------------------------------------------------------ facts *)

Lemma hblank_ws c : hblank c = true -> ascii_ws c = true /\ (c =? hLF) = false /\ (c =? hCR) = false.
Proof. unfold hblank, ascii_ws, hLF, hCR. lia. Qed.

Lemma strip_blank_head a l : ascii_ws a = true -> strip ascii_ws (a :: l) = strip ascii_ws l.
Proof. intro H. unfold strip. cbn [drop_while]. rewrite H. reflexivity. Qed.

(* a blank character in front of the current line does not change the stripped non-empty lines *)
Lemma lines_blank_prefix X : forall a cur,
  ascii_ws a = true ->
  filter nonempty (map (strip ascii_ws) (splitlines X (a :: cur)))
  = filter nonempty (map (strip ascii_ws) (splitlines X cur)).
Proof.
  induction X as [|c r IH]; intros a cur Ha.
  - cbn [splitlines]. destruct cur as [|c0 cr].
    + cbn [map filter]. rewrite strip_blank_head by exact Ha. reflexivity.
    + cbn [map filter]. rewrite strip_blank_head by exact Ha. reflexivity.
  - cbn [splitlines]. destruct (c =? hLF).
    + cbn [map filter]. rewrite strip_blank_head by exact Ha. reflexivity.
    + destruct (c =? hCR).
      * destruct r as [|d r']; [|destruct (d =? hLF)]; cbn [map filter];
          rewrite strip_blank_head by exact Ha; reflexivity.
      * change ((a :: cur) ++ [c]) with (a :: (cur ++ [c])). apply IH. exact Ha.
Qed.

Lemma splitlines_cons_plain c X :
  (c =? hLF) = false -> (c =? hCR) = false -> splitlines (c :: X) [] = splitlines X [c].
Proof. intros H1 H2. cbn [splitlines]. rewrite H1, H2. reflexivity. Qed.

Lemma cont_sub_lf d r' :
  cont_sub (hLF :: d :: r') = if hblank d then hSP :: cont_sub r' else hLF :: cont_sub (d :: r').
Proof. cbn [cont_sub]. replace (hLF =? hCR) with false by reflexivity. rewrite N.eqb_refl. reflexivity. Qed.

Lemma cont_sub_plain d r' :
  (d =? hLF) = false -> (d =? hCR) = false -> cont_sub (d :: r') = d :: cont_sub r'.
Proof. intros Hl Hc. cbn [cont_sub]. rewrite Hc, Hl. reflexivity. Qed.

Theorem header_lines_leading_lf h : header_lines_of (hLF :: h) = header_lines_of h.
Proof.
  unfold header_lines_of. destruct h as [|d r'].
  - reflexivity.
  - rewrite cont_sub_lf. destruct (hblank d) eqn:Hb.
    + (* continuation: LF blank -> SP ; without the LF the blank starts the first line *)
      destruct (hblank_ws d Hb) as [Hws [Hl Hc]].
      rewrite (cont_sub_plain d r' Hl Hc).
      rewrite !splitlines_cons_plain by (try exact Hl; try exact Hc; reflexivity).
      rewrite (lines_blank_prefix _ hSP []) by reflexivity.
      rewrite (lines_blank_prefix _ d []) by exact Hws. reflexivity.
    + (* the LF stays and makes an empty first line, which is skipped *)
      generalize (cont_sub (d :: r')). intro Y. cbn [splitlines]. rewrite N.eqb_refl. cbn [map filter]. reflexivity.
Qed.

Theorem parse_headers_leading_lf h : parse_headers (hLF :: h) = parse_headers h.
Proof. unfold parse_headers. rewrite header_lines_leading_lf. reflexivity. Qed.

(* ------------------------------------------------------------------ a well-formed header block:
   clean lines (no CR, no LF, not empty, no ASCII white space at either end) joined by CRLF parse
   back to exactly those lines *)
Definition clean_line (l : bytes) : bool :=
  nonempty l && forallb (fun c => negb (c =? hCR) && negb (c =? hLF)) l
  && list_eqb (strip ascii_ws l) l.

Definition crlf_tail (r : list bytes) : bytes := flat_map (fun x => hCR :: hLF :: x) r.
Definition join_crlf (ls : list bytes) : bytes :=
  match ls with
  | [] => []
  | l :: r => l ++ crlf_tail r
  end.

Lemma list_eqb_true a b : list_eqb a b = true -> a = b.
Proof.
  revert b. induction a as [|x a IH]; destruct b as [|y b]; cbn [list_eqb]; intro H;
    try discriminate; [reflexivity|].
  apply andb_prop in H. destruct H as [Hx Hab]. apply N.eqb_eq in Hx. subst y.
  f_equal. apply IH. exact Hab.
Qed.

Lemma clean_line_facts l : clean_line l = true ->
  l <> [] /\ forallb (fun c => negb (c =? hCR) && negb (c =? hLF)) l = true /\ strip ascii_ws l = l.
Proof.
  unfold clean_line. intro H. apply andb_prop in H. destruct H as [H H3]. apply andb_prop in H. destruct H as [H1 H2].
  repeat split; [destruct l; [discriminate|discriminate]|exact H2|apply list_eqb_true; exact H3].
Qed.

(* a line without CR/LF passes through cont_sub, whatever follows it *)
Lemma cont_sub_plain_run l X :
  forallb (fun c => negb (c =? hCR) && negb (c =? hLF)) l = true -> cont_sub (l ++ X) = l ++ cont_sub X.
Proof.
  induction l as [|c l IH]; cbn [app forallb]; intro H; [reflexivity|].
  apply andb_prop in H. destruct H as [Hc Hl]. apply andb_prop in Hc. destruct Hc as [H1 H2].
  rewrite cont_sub_plain by (destruct (c =? hLF), (c =? hCR); try discriminate; reflexivity).
  rewrite IH by exact Hl. reflexivity.
Qed.

Lemma splitlines_plain_run l X cur :
  forallb (fun c => negb (c =? hCR) && negb (c =? hLF)) l = true ->
  splitlines (l ++ X) cur = splitlines X (cur ++ l).
Proof.
  revert cur. induction l as [|c l IH]; intros cur H; cbn [app forallb] in *.
  - rewrite app_nil_r. reflexivity.
  - apply andb_prop in H. destruct H as [Hc Hl]. apply andb_prop in Hc. destruct Hc as [H1 H2].
    cbn [splitlines]. destruct (c =? hLF); [discriminate|]. destruct (c =? hCR); [discriminate|].
    rewrite IH by exact Hl. rewrite <- app_assoc. reflexivity.
Qed.

(* the first character of a stripped non-empty line is not a blank *)
Lemma clean_line_head l : clean_line l = true ->
  match l with c :: _ => hblank c = false | [] => False end.
Proof.
  intro H. destruct (clean_line_facts l H) as [Hne [_ Hs]]. destruct l as [|c r]; [congruence|].
  unfold strip in Hs. cbn [drop_while] in Hs. destruct (ascii_ws c) eqn:E.
  - (* the strip would have removed c: the result is shorter than c :: r *)
    exfalso. assert (Hlen : (length (rstrip ascii_ws (drop_while ascii_ws r)) <= length r)%nat).
    { clear. assert (G : forall s, (length (rstrip ascii_ws s) <= length s)%nat).
      { induction s as [|x s IHs]; cbn [rstrip length]; [lia|].
        destruct (rstrip ascii_ws s); [destruct (ascii_ws x); cbn [length]; lia|cbn [length] in *; lia]. }
      assert (G2 : forall s, (length (drop_while ascii_ws s) <= length s)%nat).
      { induction s as [|x s IHs]; cbn [drop_while length]; [lia|]. destruct (ascii_ws x); cbn [length]; lia. }
      specialize (G (drop_while ascii_ws r)). specialize (G2 r). lia. }
    rewrite Hs in Hlen. cbn [length] in Hlen. lia.
  - unfold hblank, ascii_ws in *. lia.
Qed.

Lemma cont_sub_crlf_nonblank c Z :
  hblank c = false -> cont_sub (hCR :: hLF :: c :: Z) = hCR :: hLF :: cont_sub (c :: Z).
Proof. intro Hh. cbn [cont_sub]. rewrite N.eqb_refl. rewrite N.eqb_refl. rewrite Hh. reflexivity. Qed.

Lemma lines_tail r : forallb clean_line r = true -> forall l, clean_line l = true ->
  filter nonempty (map (strip ascii_ws) (splitlines (cont_sub (l ++ crlf_tail r)) [])) = l :: r.
Proof.
  induction r as [|l2 r2 IH]; intros Hr l Hl;
    destruct (clean_line_facts l Hl) as [Hne [Hplain Hstrip]].
  - unfold crlf_tail. cbn [flat_map]. rewrite cont_sub_plain_run by exact Hplain.
    cbn [cont_sub]. rewrite splitlines_plain_run by exact Hplain. cbn [app splitlines].
    destruct l as [|c l']; [congruence|]. cbn [map filter]. rewrite Hstrip. reflexivity.
  - cbn [forallb] in Hr. apply andb_prop in Hr. destruct Hr as [Hl2 Hr2].
    pose proof (clean_line_head l2 Hl2) as Hh.
    destruct l2 as [|c2 l2']; [destruct Hh|].
    unfold crlf_tail. cbn [flat_map]. fold (crlf_tail r2). cbn [app].
    rewrite cont_sub_plain_run by exact Hplain.
    rewrite cont_sub_crlf_nonblank by exact Hh.
    rewrite splitlines_plain_run by exact Hplain. cbn [app splitlines].
    replace (hCR =? hLF) with false by reflexivity. rewrite N.eqb_refl. rewrite N.eqb_refl.
    cbn [map filter]. rewrite Hstrip. destruct l as [|c l']; [congruence|]. cbn [nonempty].
    f_equal. change (c2 :: l2' ++ crlf_tail r2) with ((c2 :: l2') ++ crlf_tail r2).
    apply IH; assumption.
Qed.

Theorem header_lines_of_clean ls :
  forallb clean_line ls = true -> header_lines_of (join_crlf ls) = ls.
Proof.
  unfold header_lines_of. destruct ls as [|l r]; [reflexivity|].
  cbn [forallb join_crlf]. intro H. apply andb_prop in H. destruct H as [Hl Hr].
  apply lines_tail; assumption.
Qed.
