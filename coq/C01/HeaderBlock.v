(* C01: model of MultipartDecoder._parse_headers on a raw header block, and the fact that makes
   part identity chunk-independent: a leading LF in front of the block (left there when a chunk edge
   falls between the CR and the LF that end a delimiter line) does not change the parsed headers. *)
From Coq Require Import ZArith Lia ZifyBool ZifyN.
From Wz Require Import lib.Bytes lib.BytesFacts lib.Utf8.
Open Scope N_scope.

Definition hCR : N := 13.
Definition hLF : N := 10.
Definition hSP : N := 32.
Definition hblank (c : N) : bool := (c =? 32) || (c =? 9).

(* HEADER_CONTINUATION_RE.sub(b" ", data) with  (?:\r\n|\n|\r)[ \t] *)
Fixpoint cont_sub (s : bytes) : bytes :=
  match s with
  | [] => []
  | c :: r =>
    if c =? hCR then
      match r with
      | d :: r' =>
        if d =? hLF then
          match r' with
          | e :: r'' => if hblank e then hSP :: cont_sub r'' else c :: d :: cont_sub r'
          | [] => [c; d]
          end
        else if hblank d then hSP :: cont_sub r' else c :: cont_sub r
      | [] => [c]
      end
    else if c =? hLF then
      match r with
      | d :: r' => if hblank d then hSP :: cont_sub r' else c :: cont_sub r
      | [] => [c]
      end
    else c :: cont_sub r
  end.

(* bytes.splitlines(): breaks at \n, \r\n, \r; no trailing empty line *)
Fixpoint splitlines (s : bytes) (cur : bytes) : list bytes :=
  match s with
  | [] => match cur with [] => [] | _ => [cur] end
  | c :: r =>
    if c =? hLF then cur :: splitlines r []
    else if c =? hCR then
      match r with
      | d :: r' => if d =? hLF then cur :: splitlines r' [] else cur :: splitlines r []
      | [] => [cur]
      end
    else splitlines r (cur ++ [c])
  end.

Definition nonempty (l : bytes) : bool := match l with [] => false | _ => true end.

(* the stripped, non-empty lines *)
Definition header_lines_of (data : bytes) : list bytes :=
  filter nonempty (map (strip ascii_ws) (splitlines (cont_sub data) [])).

Definition COLON : N := 58.
(* line.decode().partition(":") then .strip() of both halves; None models UnicodeDecodeError *)
Definition parse_line (line : bytes) : option (str * str) :=
  match utf8_decode line with
  | None => None
  | Some s =>
    match partition1 COLON s with
    | (n, Some v) => Some (strip uni_ws n, strip uni_ws v)
    | (n, None) => Some (strip uni_ws n, [])
    end
  end.

Fixpoint parse_lines (ls : list bytes) : option (list (str * str)) :=
  match ls with
  | [] => Some []
  | l :: r => match parse_line l, parse_lines r with
              | Some h, Some hs => Some (h :: hs)
              | _, _ => None
              end
  end.

Definition parse_headers (data : bytes) : option (list (str * str)) := parse_lines (header_lines_of data).

(* ------------------------------------------------------------------ facts *)

Lemma hblank_ws c : hblank c = true -> ascii_ws c = true /\ (c =? hLF) = false /\ (c =? hCR) = false.
Proof. unfold hblank, ascii_ws, hLF, hCR. lia. Qed.

Lemma strip_blank_head a l : ascii_ws a = true -> strip ascii_ws (a :: l) = strip ascii_ws l.
Proof. intro H. unfold strip. cbn [drop_while]. rewrite H. reflexivity. Qed.

(* a blank character in front of the current line does not change the stripped non-empty lines *)
Lemma lines_blank_prefix X : forall a cur,
  ascii_ws a = true ->
  filter nonempty (map (strip ascii_ws) (splitlines X (a :: cur)))
  = filter nonempty (map (strip ascii_ws) (splitlines X cur)).
Proof.
  induction X as [|c r IH]; intros a cur Ha.
  - cbn [splitlines]. destruct cur as [|c0 cr].
    + cbn [map filter]. rewrite strip_blank_head by exact Ha. reflexivity.
    + cbn [map filter]. rewrite strip_blank_head by exact Ha. reflexivity.
  - cbn [splitlines]. destruct (c =? hLF).
    + cbn [map filter]. rewrite strip_blank_head by exact Ha. reflexivity.
    + destruct (c =? hCR).
      * destruct r as [|d r']; [|destruct (d =? hLF)]; cbn [map filter];
          rewrite strip_blank_head by exact Ha; reflexivity.
      * change ((a :: cur) ++ [c]) with (a :: (cur ++ [c])). apply IH. exact Ha.
Qed.

Lemma splitlines_cons_plain c X :
  (c =? hLF) = false -> (c =? hCR) = false -> splitlines (c :: X) [] = splitlines X [c].
Proof. intros H1 H2. cbn [splitlines]. rewrite H1, H2. reflexivity. Qed.

Lemma cont_sub_lf d r' :
  cont_sub (hLF :: d :: r') = if hblank d then hSP :: cont_sub r' else hLF :: cont_sub (d :: r').
Proof. cbn [cont_sub]. replace (hLF =? hCR) with false by reflexivity. rewrite N.eqb_refl. reflexivity. Qed.

Lemma cont_sub_plain d r' :
  (d =? hLF) = false -> (d =? hCR) = false -> cont_sub (d :: r') = d :: cont_sub r'.
Proof. intros Hl Hc. cbn [cont_sub]. rewrite Hc, Hl. reflexivity. Qed.

Theorem header_lines_leading_lf h : header_lines_of (hLF :: h) = header_lines_of h.
Proof.
  unfold header_lines_of. destruct h as [|d r'].
  - reflexivity.
  - rewrite cont_sub_lf. destruct (hblank d) eqn:Hb.
    + (* continuation: LF blank -> SP ; without the LF the blank starts the first line *)
      destruct (hblank_ws d Hb) as [Hws [Hl Hc]].
      rewrite (cont_sub_plain d r' Hl Hc).
      rewrite !splitlines_cons_plain by (try exact Hl; try exact Hc; reflexivity).
      rewrite (lines_blank_prefix _ hSP []) by reflexivity.
      rewrite (lines_blank_prefix _ d []) by exact Hws. reflexivity.
    + (* the LF stays and makes an empty first line, which is skipped *)
      generalize (cont_sub (d :: r')). intro Y. cbn [splitlines]. rewrite N.eqb_refl. cbn [map filter]. reflexivity.
Qed.

Theorem parse_headers_leading_lf h : parse_headers (hLF :: h) = parse_headers h.
Proof. unfold parse_headers. rewrite header_lines_leading_lf. reflexivity. Qed.
