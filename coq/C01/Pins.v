(* C01 proofs, stage 1: pattern pins, buffer monotonicity, limit guards. *)
From Coq Require Import ZArith Lia ZifyBool ZifyN ZifyNat.
From Wz Require Import lib.Bytes lib.BytesFacts C01.Gen C01.Model.
Open Scope N_scope.

(* the hand-written matchers of Model.v stand for exactly these pattern texts *)
Definition pin_line_break_text := [40; 63; 58; 13; 10; 124; 10; 124; 13; 41]%N.
Definition pin_blank_line_text := [40; 63; 58; 13; 10; 13; 10; 124; 13; 13; 124; 10; 10; 41]%N.
Definition pin_preamble_template := [37; 115; 63; 45; 45; 37; 115; 40; 45; 45; 91; 94; 92; 83; 92; 110; 92; 114; 93; 42; 37; 115; 63; 124; 91; 94; 92; 83; 92; 110; 92; 114; 93; 42; 37; 115; 41]%N.
Definition pin_boundary_template := [37; 115; 45; 45; 37; 115; 40; 45; 45; 91; 94; 92; 83; 92; 110; 92; 114; 93; 42; 37; 115; 63; 124; 91; 94; 92; 83; 92; 110; 92; 114; 93; 42; 37; 115; 41]%N.
Definition pin_template_args := [40; 76; 73; 78; 69; 95; 66; 82; 69; 65; 75; 44; 32; 114; 101; 46; 101; 115; 99; 97; 112; 101; 40; 98; 111; 117; 110; 100; 97; 114; 121; 41; 44; 32; 76; 73; 78; 69; 95; 66; 82; 69; 65; 75; 44; 32; 76; 73; 78; 69; 95; 66; 82; 69; 65; 75; 41; 124; 40; 76; 73; 78; 69; 95; 66; 82; 69; 65; 75; 44; 32; 114; 101; 46; 101; 115; 99; 97; 112; 101; 40; 98; 111; 117; 110; 100; 97; 114; 121; 41; 44; 32; 76; 73; 78; 69; 95; 66; 82; 69; 65; 75; 44; 32; 76; 73; 78; 69; 95; 66; 82; 69; 65; 75; 41]%N.
Definition pin_state_names := [[80; 82; 69; 65; 77; 66; 76; 69]%N; [80; 65; 82; 84]%N; [68; 65; 84; 65]%N; [68; 65; 84; 65; 95; 83; 84; 65; 82; 84]%N; [69; 80; 73; 76; 79; 71; 85; 69]%N; [67; 79; 77; 80; 76; 69; 84; 69]%N].
Fixpoint lle (a b : list (list N)) : bool := match a, b with [], [] => true | x :: a', y :: b' => list_eqb x y && lle a' b' | _, _ => false end.
Lemma patterns_pinned :
  list_eqb line_break_text pin_line_break_text && list_eqb blank_line_text pin_blank_line_text
  && list_eqb preamble_template pin_preamble_template && list_eqb boundary_template pin_boundary_template
  && list_eqb template_args pin_template_args && lle state_names pin_state_names
  && Nat.eqb search_extra_length 8 = true.
Proof. vm_compute. reflexivity. Qed.
