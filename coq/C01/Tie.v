(* C01: the arithmetic of the incremental search and of the hold-back in the hand-written model is
   the arithmetic translated from the source (C01/Gen.v, regenerated on every run). *)
From Coq Require Import ZArith Lia ZifyBool ZifyNat.
From Wz Require Import lib.Bytes C01.Gen C01.Model C01.Strings.

(* PREAMBLE, no match yet: the new search position is the translated formula *)
Lemma tie_preamble_spos lim B c :
  st c = PREAMBLE -> search_delim true B (buf c) (spos c) = None -> complete c = false ->
  exists c', next_event lim B c = Ok (ENeed, c') /\
             spos c' = gen_preamble_spos (length (buf c)) (length B) /\ buf c' = buf c /\ st c' = PREAMBLE.
Proof.
  intros Hst Hs Hc. unfold next_event. rewrite Hst, Hs. unfold fail_if_complete. cbn [fst]. rewrite Hc.
  eexists. split; [reflexivity|]. cbn [spos buf st]. unfold gen_preamble_spos. repeat split; reflexivity.
Qed.

(* PART, no blank line yet *)
Lemma tie_part_spos lim B c :
  st c = PART -> search_blank (buf c) (spos c) = None -> complete c = false ->
  exists c', next_event lim B c = Ok (ENeed, c') /\
             spos c' = gen_part_spos (length (buf c)) /\ buf c' = buf c /\ st c' = PART.
Proof.
  intros Hst Hs Hc. unfold next_event. rewrite Hst, Hs. unfold fail_if_complete. cbn [fst]. rewrite Hc.
  eexists. split; [reflexivity|]. cbn [spos buf st]. unfold gen_part_spos. repeat split; reflexivity.
Qed.

(* PART, blank line found: the buffer is cut at the translated headers_end *)
Lemma tie_headers_end B c ms me :
  st c = PART -> search_blank (buf c) (spos c) = Some (ms, me) ->
  exists c', next_event no_limits B c = Ok (EPart (firstn ms (buf c)), c') /\
             buf c' = skipn (gen_headers_end ms me) (buf c) /\ st c' = DATA_START.
Proof.
  intros Hst Hs. unfold next_event. rewrite Hst, Hs. cbn [max_parts no_limits].
  eexists. split; [reflexivity|]. cbn [buf st]. unfold gen_headers_end. split; reflexivity.
Qed.

(* the far-from-a-boundary shortcut and the wait test of _parse_data *)
Lemma tie_far (data B : bytes) :
  gen_far (length data) (last_newline data) (length B)
  = Nat.ltb (S (2 + length B)) (length data - last_newline data).
Proof. pose proof (last_newline_le_len data). unfold gen_far. lia. Qed.

Lemma tie_wait hold ds : gen_wait hold ds = Nat.ltb hold ds.
Proof. reflexivity. Qed.

(* parse_data, written with the translated tests *)
Definition parse_data_gen (B : bytes) (data : bytes) (start : bool) (s0 : state)
  : res (bytes * nat * bool * state) :=
  let ds := if start then lb_len data else 0%nat in
  if start && Nat.eqb ds 0 then Err ErrNoLineBreak else
  let hold :=
    let de := last_newline data in
    if contains (DASH :: DASH :: B) data then de
    else if gen_far (length data) de (length B) then length data else de in
  let found := if contains (DASH :: DASH :: B) data then search_delim false B data 0 else None in
  match found with
  | Some (ms, me, final) =>
    Ok (firstn (ms - ds) (skipn ds data), me, false, if final then EPILOGUE else PART)
  | None =>
    if gen_wait hold ds then Ok ([], 0%nat, true, s0)
    else Ok (firstn (hold - ds) (skipn ds data), hold, true, s0)
  end.

Theorem tie_parse_data B data start s0 : parse_data B data start s0 = parse_data_gen B data start s0.
Proof. unfold parse_data, parse_data_gen. rewrite tie_far. reflexivity. Qed.
