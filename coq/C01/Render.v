(* C01 step 5: the rendered-body spec and theorem B: the one-shot run (hence, by theorem A, every
   chunking) of a rendered body yields exactly the parts that were rendered. *)
From Coq Require Import ZArith Lia ZifyBool ZifyN ZifyNat.
From Wz Require Import lib.Bytes lib.BytesFacts C01.Gen C01.Model C01.Proofs C01.Strings C01.Hold C01.Search C01.Inv C01.Chunks.
Open Scope N_scope.
Ltac Zify.zify_post_hook ::= Z.to_euclidean_division_equations.

(* ---------- more stability lemmas ---------- *)

(* a successful blank-line search is stable under extension *)
Lemma search_blank_app s x a b : search_blank s 0 = Some (a, b) -> search_blank (s ++ x) 0 = Some (a, b).
Proof.
  intro H. pose proof (part_search_sound s 0 ltac:(intros; lia)) as PS. rewrite H in PS. apply PS.
Qed.

(* a successful boundary_re search is stable under extension: same start and flag *)
Lemma search_false_app B s x ms me f :
  good_boundary B = true -> search_delim false B s 0 = Some (ms, me, f) ->
  exists me', search_delim false B (s ++ x) 0 = Some (ms, me', f) /\ (me <= me')%nat /\
    (f = false -> me' = me \/ (me = length s /\ exists x', x = LF :: x')).
Proof.
  unfold good_boundary. intros HB H. apply search_delim_some in H. destruct H as [_ [L1 [L2 [Hm Hn]]]].
  destruct (match_at_app_some false B s x ms _ f Hm) as [e' [H1 [H2 [H3 H4]]]].
  exists (ms + e')%nat. split; [|split; [lia|]].
  - apply search_delim_intro; [lia|exact H1|]. intros j Hj.
    apply (leftmost_stable B s x ms _ f HB Hm); [|lia]. intros j' Hj'. apply Hn. lia.
  - intro Hf. destruct (H4 Hf) as [E|[E1 [E2 [E3 _]]]]; [left; lia|right]. split; [lia|exact E3].
Qed.

(* the first tail position determines the preamble search *)
Lemma first_tail_search B W d0 e0 f0 :
  first_tail B W d0 e0 f0 ->
  exists ms, search_delim true B W 0 = Some (ms, (d0 + e0)%nat, f0) /\ (ms + lb_len (skipn ms W))%nat = d0.
Proof.
  intros [T0 Tn]. destruct (search_delim true B W 0) as [[[ms me] f]|] eqn:Es.
  - pose proof (search_true_tail _ _ _ _ _ _ Es) as Ht. cbv zeta in Ht. destruct Ht as [_ [L1 [T1 T2]]].
    assert (E : (ms + lb_len (skipn ms W))%nat = d0).
    { destruct (Nat.lt_trichotomy (ms + lb_len (skipn ms W)) d0) as [Hl|[He|Hg]]; [|exact He|].
      - rewrite (Tn _ Hl) in T1. discriminate.
      - rewrite (T2 d0 ltac:(lia)) in T0. discriminate. }
    rewrite E in T1. rewrite T0 in T1. injection T1 as E1 E2. subst f.
    exists ms. split; [|exact E]. f_equal. f_equal. f_equal. lia.
  - apply tail_match_delim_true in T0. rewrite (search_delim_none _ _ _ _ Es d0 ltac:(lia)) in T0. discriminate.
Qed.

(* an occurrence of p in a ++ b lies in a or runs over its end *)
Lemma starts_with_app_split p a b :
  starts_with p (a ++ b) = true ->
  ((length p <= length a)%nat /\ starts_with p a = true) \/
  ((length a < length p)%nat /\ starts_with (skipn (length a) p) b = true).
Proof.
  revert a. induction p as [|c p IH]; intros a H.
  - left. split; [cbn; lia|reflexivity].
  - destruct a as [|d a].
    + right. split; [cbn; lia|exact H].
    + cbn [app starts_with] in H. apply andb_prop in H. destruct H as [H1 H2].
      destruct (IH a H2) as [[L S]|[L S]].
      * left. split; [cbn [length]; lia|]. cbn [starts_with]. rewrite H1, S. reflexivity.
      * right. split; [cbn [length]; lia|exact S].
Qed.

Lemma starts_with_nolb_head p s c r :
  starts_with p s = true -> p <> [] -> nolb p = true -> s = c :: r -> is_lb c = false.
Proof.
  intros H Hp Hn ->. destruct p as [|a p]; [congruence|]. cbn [starts_with] in H.
  apply andb_prop in H. destruct H as [H _]. apply N.eqb_eq in H. subst c.
  cbn [nolb forallb] in Hn. apply andb_prop in Hn. destruct Hn as [Hn _].
  destruct (is_lb a); [discriminate|reflexivity].
Qed.

(* glitch means: the byte at me is a LF *)
Lemma glitch_lf T me : (2 <= me)%nat -> glitch T me = true -> starts_lf (skipn me T) = true.
Proof.
  intros L H. unfold glitch in H. destruct (skipn (me - 2) T) as [|a [|b [|c t]]] eqn:E; try discriminate.
  apply andb_prop in H. destruct H as [_ H].
  replace me with (me - 2 + 2)%nat by lia. rewrite <- skipn_skipn, E. cbn [skipn starts_lf]. exact H.
Qed.

Lemma walk_fuel_mono n B T ws : walk n B T = Some ws -> walk (S n) B T = Some ws.
Proof.
  revert T ws. induction n as [|n IH]; intros T ws; [discriminate|].
  intro H. cbn [walk] in H. change (walk (S (S n)) B T) with
    (match search_blank T 0 with
     | None => None
     | Some (bs, be) =>
       let T1 := skipn (Nat.div (bs + be) 2) T in
       match search_delim false B T1 0 with
       | None => None
       | Some (ms, me, f) =>
         let p := (firstn bs T, payload_of T1 ms) in
         if f then Some [(p, false)]
         else match walk (S n) B (skipn me T1) with
              | Some ws => Some ((p, glitch T1 me) :: ws)
              | None => None
              end
       end
     end).
  destruct (search_blank T 0) as [[bs be]|]; [|discriminate]. cbv zeta in *.
  destruct (search_delim false B (skipn (Nat.div (bs + be) 2) T) 0) as [[[ms me] f]|]; [|discriminate].
  destruct f; [exact H|].
  destruct (walk n B (skipn me (skipn (Nat.div (bs + be) 2) T))) as [ws'|] eqn:Ew; [|discriminate].
  rewrite (IH _ _ Ew). exact H.
Qed.

Lemma walk_fuel_le n m B T ws : (n <= m)%nat -> walk n B T = Some ws -> walk m B T = Some ws.
Proof. induction 1 as [|m _ IH]; intro H; [exact H|]. apply walk_fuel_mono. apply IH. exact H. Qed.

(* ---------- the rendered body ---------- *)

Inductive lbk := LBcrlf | LBlf | LBcr.
Definition lbs (k : lbk) : bytes := match k with LBcrlf => [CR; LF] | LBlf => [LF] | LBcr => [CR] end.

(* raw header block (header lines joined by the line break, no trailing line break) and the
   payload; None = body-less part: the delimiter follows the header block directly *)
Record rpart := mkrp { r_hdr : bytes; r_body : option bytes }.

Definition body_text (lb : lbk) (p : rpart) : bytes :=
  match r_body p with None => [] | Some d => lbs lb ++ d end.
Definition spec_part (p : rpart) : part :=
  (r_hdr p, match r_body p with None => [] | Some d => d end).

(* the text after the --B of a delimiter *)
Fixpoint render_from (B : bytes) (lb : lbk) (ps : list rpart) (tail : bytes) : bytes :=
  match ps with
  | [] => [DASH; DASH] ++ tail
  | p :: r => lbs lb ++ r_hdr p ++ lbs lb ++ body_text lb p ++ lbs lb ++ dd B ++ render_from B lb r tail
  end.
(* pre: everything before the first --B, i.e. the preamble and the (optional) line break of the first
   delimiter *)
Definition render (B : bytes) (lb : lbk) (pre : bytes) (ps : list rpart) (tail : bytes) : bytes :=
  pre ++ dd B ++ render_from B lb ps tail.

(* the same text part by part, as an encoder writes it *)
Definition render_part (B : bytes) (lb : lbk) (p : rpart) : bytes :=
  lbs lb ++ dd B ++ lbs lb ++ r_hdr p ++ lbs lb ++ body_text lb p.
Lemma render_flat B lb pre ps tail :
  render B lb (pre ++ lbs lb) ps tail =
  pre ++ flat_map (render_part B lb) ps ++ lbs lb ++ dd B ++ [DASH; DASH] ++ tail.
Proof.
  unfold render. rewrite <- app_assoc. f_equal. induction ps as [|p r IH]; [reflexivity|].
  cbn [flat_map render_from]. rewrite <- app_assoc, <- IH. unfold render_part.
  rewrite <- !app_assoc. reflexivity.
Qed.

Definition zhead (lb : lbk) (fin : bool) : bytes := if fin then [DASH; DASH] else lbs lb.
Definition is_last (r : list rpart) : bool := match r with [] => true | _ => false end.
Definition is_nil (s : bytes) : bool := match s with [] => true | _ => false end.

Definition blank_is (o : option (nat * nat)) (a b : nat) : bool :=
  match o with Some (x, y) => Nat.eqb x a && Nat.eqb y b | None => false end.
Definition delim_is (o : option (nat * nat * bool)) (a b : nat) (f : bool) : bool :=
  match o with Some (x, y, g) => Nat.eqb x a && Nat.eqb y b && Bool.eqb g f | None => false end.

(* local conditions on one part; fin = it is the last part (the closing delimiter follows).
   - the header block is not empty and does not start with LF;
   - the first blank line of  hdr LB LB  is the LB LB at its end;
   - in  [LB payload] LB --B (LB | --)  the leftmost boundary_re match is the final LB --B..., it
     ends at the end of that text, and the line break that starts the body is exactly LB *)
Definition part_ok (B : bytes) (lb : lbk) (p : rpart) (fin : bool) : bool :=
  let l := lbs lb in
  let hdr := r_hdr p in
  let s := body_text lb p ++ l ++ dd B ++ zhead lb fin in
  negb (is_nil hdr) && negb (starts_lf hdr)
  && blank_is (search_blank (hdr ++ l ++ l) 0) (length hdr) (length hdr + 2 * length l)
  && delim_is (search_delim false B s 0) (length (body_text lb p)) (length s) fin
  && Nat.eqb (lb_len s) (length l).

Fixpoint wf_parts (B : bytes) (lb : lbk) (ps : list rpart) : bool :=
  match ps with
  | [] => true
  | p :: r => part_ok B lb p (is_last r) && wf_parts B lb r
  end.

(* no --B starts inside pre (not even one that runs into the first delimiter); the tail (after the
   closing --B--) is arbitrary *)
Definition wf_body (B : bytes) (lb : lbk) (pre : bytes) (ps : list rpart) (tail : bytes) : bool :=
  negb (contains (dd B) (pre ++ firstn (1 + length B) (dd B))) && wf_parts B lb ps.

(* ---------- one part ---------- *)

Definition after_lb (B : bytes) (lb : lbk) (p : rpart) (r : list rpart) (tail : bytes) : bytes :=
  r_hdr p ++ lbs lb ++ body_text lb p ++ lbs lb ++ dd B ++ render_from B lb r tail.

Definition rest_of (B : bytes) (lb : lbk) (r : list rpart) (tail : bytes) : bytes :=
  match r with [] => tail | q :: r' => after_lb B lb q r' tail end.

Lemma render_from_zhead B lb r tail :
  render_from B lb r tail = zhead lb (is_last r) ++ rest_of B lb r tail.
Proof. destruct r as [|q r']; reflexivity. Qed.

Lemma lbs_len lb : (1 <= length (lbs lb) <= 2)%nat.
Proof. destruct lb; cbn; lia. Qed.

Lemma lbs_head lb : exists c t, lbs lb = c :: t /\ is_lb c = true.
Proof. destruct lb; eexists; eexists; split; reflexivity. Qed.

Lemma starts_lf_app a b : a <> [] -> starts_lf (a ++ b) = starts_lf a.
Proof. destruct a; [congruence|reflexivity]. Qed.

Lemma blank_is_eq o a b : blank_is o a b = true -> o = Some (a, b).
Proof.
  destruct o as [[x y]|]; [|discriminate]. cbn [blank_is]. intro H. apply andb_prop in H.
  destruct H as [H1 H2]. apply Nat.eqb_eq in H1, H2. subst. reflexivity.
Qed.

Lemma delim_is_eq o a b f : delim_is o a b f = true -> o = Some (a, b, f).
Proof.
  destruct o as [[[x y] g]|]; [|discriminate]. cbn [delim_is]. intro H. apply andb_prop in H.
  destruct H as [H H3]. apply andb_prop in H. destruct H as [H1 H2].
  apply Nat.eqb_eq in H1, H2. apply eqb_prop in H3. subst. reflexivity.
Qed.

Lemma part_ok_hdr B lb p fin : part_ok B lb p fin = true -> r_hdr p <> [] /\ starts_lf (r_hdr p) = false.
Proof.
  unfold part_ok. intro H. repeat (apply andb_prop in H; destruct H as [H ?]).
  split; [destruct (r_hdr p); [discriminate|congruence]|].
  destruct (starts_lf (r_hdr p)); [discriminate|reflexivity].
Qed.

(* what the walk sees at one part *)
Lemma walk_part B lb p r tail :
  good_boundary B = true -> part_ok B lb p (is_last r) = true ->
  starts_lf (rest_of B lb r tail) = false \/ is_last r = true ->
  let T := after_lb B lb p r tail in
  let l := lbs lb in
  let s := body_text lb p ++ l ++ dd B ++ zhead lb (is_last r) in
  let T1 := s ++ rest_of B lb r tail in
  search_blank T 0 = Some (length (r_hdr p), (length (r_hdr p) + 2 * length l)%nat) /\
  skipn (length (r_hdr p) + length l) T = T1 /\
  firstn (length (r_hdr p)) T = r_hdr p /\
  exists me, search_delim false B T1 0 = Some (length (body_text lb p), me, is_last r) /\
    payload_of T1 (length (body_text lb p)) = snd (spec_part p) /\
    (is_last r = false -> me = length s /\ skipn me T1 = rest_of B lb r tail /\ glitch T1 me = false).
Proof.
  intros HB Hok Hnext T l s T1. unfold part_ok in Hok. fold l s in Hok.
  repeat (apply andb_prop in Hok; destruct Hok as [Hok ?]).
  match goal with H : blank_is _ _ _ = true |- _ => apply blank_is_eq in H; rename H into Hb end.
  match goal with H : delim_is _ _ _ _ = true |- _ => apply delim_is_eq in H; rename H into Hd end.
  match goal with H : Nat.eqb _ _ = true |- _ => apply Nat.eqb_eq in H; rename H into Hl end.
  (* T = (hdr ++ l ++ l) ++ ... *)
  assert (ET : T = (r_hdr p ++ l) ++ T1).
  { unfold T, after_lb, T1, s. rewrite render_from_zhead. fold l. rewrite <- !app_assoc. reflexivity. }
  assert (ET2 : exists y, T = (r_hdr p ++ l ++ l) ++ y).
  { rewrite ET. unfold T1, s, body_text. destruct (r_body p) as [d|]; cbn [app]; fold l;
      eexists; rewrite <- !app_assoc; reflexivity. }
  split; [destruct ET2 as [y ->]; apply search_blank_app; exact Hb|].
  split; [rewrite ET, skipn_app, skipn_all2 by (rewrite app_length; lia);
          rewrite app_length; replace (_ - _)%nat with 0%nat by lia; reflexivity|].
  split; [rewrite ET, <- app_assoc, firstn_app, firstn_all, Nat.sub_diag; cbn [firstn]; apply app_nil_r|].
  destruct (search_false_app B s (rest_of B lb r tail) _ _ _ HB Hd) as [me [Hs [Hme Hgrow]]].
  exists me. split; [exact Hs|].
  assert (Ls : (2 <= length s)%nat).
  { unfold s. rewrite !app_length, dd_length. lia. }
  split.
  - unfold payload_of, T1. rewrite lb_len_app_2 by exact Ls. rewrite Hl.
    unfold s, body_text, spec_part. cbn [snd]. destruct (r_body p) as [d|].
    + fold l. rewrite app_length. replace (length l + length d - length l)%nat with (length d) by lia.
      rewrite <- !app_assoc. rewrite skipn_app, skipn_all, Nat.sub_diag. cbn [skipn app].
      rewrite firstn_app, firstn_all, Nat.sub_diag. cbn [firstn]. apply app_nil_r.
    + reflexivity.
  - intro Hfin. destruct Hnext as [Hnext|Hnext]; [|congruence].
    assert (Eme : me = length s).
    { destruct (Hgrow Hfin) as [E|[_ [x' Ex]]]; [exact E|]. rewrite Ex in Hnext. discriminate. }
    subst me. split; [reflexivity|]. split.
    + unfold T1. rewrite skipn_app, skipn_all, Nat.sub_diag. reflexivity.
    + destruct (glitch T1 (length s)) eqn:Eg; [|reflexivity].
      apply glitch_lf in Eg; [|exact Ls]. unfold T1 in Eg.
      rewrite skipn_app, skipn_all, Nat.sub_diag in Eg. cbn [skipn app] in Eg. congruence.
Qed.

(* ---------- all parts ---------- *)

Definition spec_ws (ps : list rpart) : list (part * bool) := map (fun q => (spec_part q, false)) ps.

Lemma spec_ws_good ps : all_good (spec_ws ps) = true.
Proof. induction ps as [|p r IH]; [reflexivity|exact IH]. Qed.

Lemma spec_ws_parts ps : map fst (spec_ws ps) = map spec_part ps.
Proof. unfold spec_ws. rewrite map_map. reflexivity. Qed.

Lemma after_lb_starts_lf B lb q r tail :
  r_hdr q <> [] -> starts_lf (r_hdr q) = false -> starts_lf (after_lb B lb q r tail) = false.
Proof. intros H1 H2. unfold after_lb. rewrite starts_lf_app by exact H1. exact H2. Qed.

Lemma walk_render B lb tail : good_boundary B = true -> forall ps p n,
  wf_parts B lb (p :: ps) = true -> (length ps < n)%nat ->
  walk n B (after_lb B lb p ps tail) = Some (spec_ws (p :: ps)).
Proof.
  intro HB. induction ps as [|q r IH]; intros p n Hwf Hn.
  - cbn [wf_parts] in Hwf. apply andb_prop in Hwf. destruct Hwf as [Hok _].
    destruct (walk_part B lb p [] tail HB Hok ltac:(right; reflexivity)) as [Hb [Hsk [Hfi [me [Hd [Hpay _]]]]]].
    destruct n as [|n]; [lia|]. cbn [walk]. rewrite Hb.
    replace (Nat.div (length (r_hdr p) + (length (r_hdr p) + 2 * length (lbs lb))) 2)
      with (length (r_hdr p) + length (lbs lb))%nat by lia.
    cbv zeta. cbn [is_last] in *. rewrite Hsk, Hd. rewrite Hfi, Hpay. reflexivity.
  - pose proof Hwf as Hwf0. cbn [wf_parts] in Hwf. apply andb_prop in Hwf. destruct Hwf as [Hok Hwf'].
    assert (Hq : part_ok B lb q (is_last r) = true).
    { cbn [wf_parts] in Hwf'. apply andb_prop in Hwf'. apply Hwf'. }
    destruct (part_ok_hdr _ _ _ _ Hq) as [Hq1 Hq2].
    destruct (walk_part B lb p (q :: r) tail HB Hok
                ltac:(left; cbn [rest_of]; apply after_lb_starts_lf; assumption))
      as [Hb [Hsk [Hfi [me [Hd [Hpay Hnf]]]]]].
    destruct (Hnf eq_refl) as [Eme [Hrest Hg]].
    destruct n as [|n]; [lia|]. cbn [walk]. rewrite Hb.
    replace (Nat.div (length (r_hdr p) + (length (r_hdr p) + 2 * length (lbs lb))) 2)
      with (length (r_hdr p) + length (lbs lb))%nat by lia.
    cbv zeta. cbn [is_last] in *. rewrite Hsk, Hd. rewrite Hrest, Hg, Hfi, Hpay. cbn [rest_of].
    rewrite (IH q n Hwf' ltac:(cbn [length] in Hn; lia)). reflexivity.
Qed.

Lemma lb_len_lbs lb x : starts_lf x = false -> lb_len (lbs lb ++ x) = length (lbs lb).
Proof.
  destruct lb; cbn [lbs app lb_len length]; try reflexivity.
  intro H. change (CR =? CR) with true. cbn iota. destruct x as [|c t]; [reflexivity|].
  cbn [starts_lf] in H. rewrite H. reflexivity.
Qed.

Lemma render_from_len B lb ps tail : (length ps + 2 <= length (render_from B lb ps tail))%nat.
Proof.
  induction ps as [|p r IH]; cbn [render_from length].
  - rewrite app_length. cbn [length]. lia.
  - rewrite !app_length. pose proof (lbs_len lb). lia.
Qed.

Lemma match_rest_lbs lb Z :
  starts_lf Z = false ->
  match_rest (lbs lb ++ Z) = Some (length (lbs lb), false) /\ length (take_while hws (lbs lb ++ Z)) = 0%nat.
Proof.
  intro H. unfold match_rest. destruct lb; cbn [lbs app starts_with take_while length skipn].
  - change (DASH =? CR) with false. change (hws CR) with false. cbn [andb length skipn lb_len].
    change (CR =? CR) with true. change (LF =? LF) with true. cbn iota. split; reflexivity.
  - change (DASH =? LF) with false. change (hws LF) with false. cbn [andb length skipn lb_len].
    change (LF =? CR) with false. change (LF =? LF) with true. cbn iota. split; reflexivity.
  - change (DASH =? CR) with false. change (hws CR) with false. cbn [andb length skipn lb_len].
    change (CR =? CR) with true. cbn iota. destruct Z as [|d z]; [split; reflexivity|].
    cbn [starts_lf] in H. rewrite H. split; reflexivity.
Qed.

(* the tail match at the first --B of the rendered body *)
Lemma render_first_tail B lb pre ps tail :
  good_boundary B = true -> wf_body B lb pre ps tail = true ->
  exists e0, first_tail B (render B lb pre ps tail) (length pre) e0 (is_last ps) /\
    (is_last ps = false -> e0 = (2 + length B + length (lbs lb))%nat /\
                           blanks_at B (render B lb pre ps tail) (length pre) = 0%nat).
Proof.
  unfold good_boundary. intros HB Hwf. set (W := render B lb pre ps tail).
  unfold wf_body in Hwf. apply andb_prop in Hwf.
  destruct Hwf as [Hpre Hps]. apply negb_true_iff in Hpre.
  assert (Esk : skipn (length pre) W = dd B ++ render_from B lb ps tail).
  { unfold W, render. rewrite skipn_app, skipn_all, Nat.sub_diag. reflexivity. }
  assert (Htail : exists e0, match_tail B (dd B ++ render_from B lb ps tail) = Some (e0, is_last ps) /\
            (is_last ps = false -> e0 = (2 + length B + length (lbs lb))%nat /\
               length (take_while hws (render_from B lb ps tail)) = 0%nat)).
  { rewrite match_tail_rest, starts_with_refl_app.
    rewrite <- dd_length, skipn_app, skipn_all, Nat.sub_diag. cbn [skipn app].
    destruct ps as [|p r].
    - cbn [render_from is_last]. unfold match_rest. cbn [app starts_with]. rewrite N.eqb_refl. cbn [andb].
      eexists. split; [reflexivity|discriminate].
    - cbn [render_from is_last]. cbn [wf_parts] in Hps. apply andb_prop in Hps. destruct Hps as [Hok _].
      destruct (part_ok_hdr _ _ _ _ Hok) as [Hh1 Hh2].
      destruct (match_rest_lbs lb (r_hdr p ++ lbs lb ++ body_text lb p ++ lbs lb ++ dd B ++ render_from B lb r tail))
        as [M1 M2]; [rewrite starts_lf_app by exact Hh1; exact Hh2|].
      rewrite M1.
      eexists. split; [reflexivity|]. intros _. split; [rewrite dd_length; lia|exact M2]. }
  destruct Htail as [e0 [Ht Hnf]]. exists e0. split.
  - split; [unfold tail_at; rewrite Esk; exact Ht|].
    intros j Hj. unfold tail_at. destruct (match_tail B (skipn j W)) as [[e f]|] eqn:Em; [exfalso|reflexivity].
    apply match_tail_some_dd in Em.
    (* the occurrence lies inside pre ++ all but the last byte of --B *)
    assert (EW : W = (pre ++ firstn (1 + length B) (dd B)) ++ skipn (1 + length B) (dd B) ++ render_from B lb ps tail).
    { unfold W, render. rewrite <- app_assoc. f_equal. rewrite app_assoc, firstn_skipn. reflexivity. }
    assert (LA : length (pre ++ firstn (1 + length B) (dd B)) = (length pre + (1 + length B))%nat).
    { rewrite app_length, firstn_length, dd_length. lia. }
    rewrite EW in Em. rewrite skipn_app_le in Em by lia.
    rewrite starts_with_app_len in Em by (rewrite skipn_length, dd_length; lia).
    apply contains_skipn in Em. congruence.
  - intro Hf. destruct (Hnf Hf) as [E1 E2]. split; [exact E1|].
    unfold blanks_at. rewrite <- skipn_skipn, Esk. rewrite <- dd_length, skipn_app, skipn_all, Nat.sub_diag.
    cbn [skipn app]. exact E2.
Qed.

(* THEOREM B, walk level: a wf rendered body is accepted and its one-shot parts are the rendered ones *)
Theorem render_wf_oneshot B lb pre ps tail :
  good_boundary B = true -> wf_body B lb pre ps tail = true ->
  wf_oneshot B (render B lb pre ps tail) = true /\
  oneshot_parts B (render B lb pre ps tail) = map spec_part ps.
Proof.
  intros HB Hwf. destruct (render_first_tail B lb pre ps tail HB Hwf) as [e0 [FT Hnf]].
  set (W := render B lb pre ps tail) in *. set (d0 := length pre) in *.
  destruct (first_tail_search B W d0 e0 _ FT) as [ms [Hs Hms]].
  assert (Hbody : body_parts B W = Some (spec_ws ps) /\
                  first_blanks_ok B W = true /\ first_glitch_free B W = true).
  { unfold body_parts, first_blanks_ok, first_glitch_free. rewrite Hs. destruct ps as [|p r].
    - cbn [is_last]. repeat split; reflexivity.
    - cbn [is_last] in *. destruct (Hnf eq_refl) as [Ee0 Hbl]. rewrite Hms, Hbl. cbn [orb].
      unfold wf_body in Hwf. apply andb_prop in Hwf. destruct Hwf as [_ Hps].
      assert (Esk : skipn (d0 + e0) W = after_lb B lb p r tail).
      { unfold W, render, d0. rewrite Ee0. cbn [render_from]. fold (after_lb B lb p r tail).
        rewrite !app_assoc. rewrite skipn_app, skipn_all2 by (rewrite !app_length, dd_length; lia).
        rewrite !app_length, dd_length. replace (_ - _)%nat with 0%nat by lia. reflexivity. }
      rewrite Esk. split; [|split; [reflexivity|]].
      + apply walk_render; [exact HB|exact Hps|].
        unfold W, render. rewrite !app_length. pose proof (render_from_len B lb (p :: r) tail) as L.
        cbn [length] in L. lia.
      + destruct (glitch W (d0 + e0)) eqn:Eg; [|reflexivity].
        apply glitch_lf in Eg; [|rewrite Ee0; lia]. rewrite Esk in Eg.
        cbn [wf_parts] in Hps. apply andb_prop in Hps. destruct Hps as [Hok _].
        destruct (part_ok_hdr _ _ _ _ Hok) as [Hh1 Hh2].
        rewrite (after_lb_starts_lf B lb p r tail Hh1 Hh2) in Eg. discriminate. }
  destruct Hbody as [Hb [H1 H2]]. unfold wf_oneshot, oneshot_parts. rewrite Hb, H1, H2, spec_ws_good.
  split; [reflexivity|apply spec_ws_parts].
Qed.

(* THEOREM B: the one-shot run on a rendered body yields the parts that were rendered *)
Theorem decode_render B lb pre ps tail :
  good_boundary B = true -> wf_body B lb pre ps tail = true ->
  wf_oneshot B (render B lb pre ps tail) = true /\
  exists evs, drive no_limits B [render B lb pre ps tail] = Ok evs /\ parts_of evs = map spec_part ps.
Proof.
  intros HB Hwf. destruct (render_wf_oneshot B lb pre ps tail HB Hwf) as [H1 H2].
  split; [exact H1|]. destruct (oneshot_spec B _ HB H1) as [evs [Hd Hp]].
  exists evs. split; [exact Hd|]. rewrite Hp. exact H2.
Qed.

(* COROLLARY C: every chunking of a rendered body yields the rendered parts (header blocks up to
   one leading LF).  The read loop of MultiPartParser.parse is feed: any buffer size and any short
   reads are just a chunking. *)
Theorem decode_render_chunked B lb pre ps tail chunks :
  good_boundary B = true -> wf_body B lb pre ps tail = true ->
  concat chunks = render B lb pre ps tail ->
  exists evs, drive no_limits B chunks = Ok evs /\
    Forall2 (fun a e : part => (fst a = fst e \/ fst a = LF :: fst e) /\ snd a = snd e)
            (parts_of evs) (map spec_part ps).
Proof.
  intros HB Hwf Hc. destruct (render_wf_oneshot B lb pre ps tail HB Hwf) as [H1 H2].
  rewrite <- Hc in H1. destruct (chunked_spec B chunks HB H1) as [evs [Hd Hrel]].
  exists evs. split; [exact Hd|]. rewrite Hc, H2 in Hrel.
  apply parts_rel_false_equiv. eapply parts_rel_weaken. exact Hrel.
Qed.

(* ---------- examples ---------- *)

Definition ex_p1 := mkrp [97; 58; 49] None.
Definition ex_p2 := mkrp [98; 58; 50] (Some []).
Definition ex_p3 := mkrp [99; 58; 51] (Some ([120] ++ crlf ++ [DASH; DASH; 98; 111; 117; 110; 120] ++ crlf ++ [121])).

(* the three-part body of Inv.v is a rendered body, and it is wf *)
Example render_example :
  render ex_B LBcrlf [] [ex_p1; ex_p2; ex_p3] crlf = ex_body /\
  good_boundary ex_B = true /\ wf_body ex_B LBcrlf [] [ex_p1; ex_p2; ex_p3] crlf = true.
Proof. vm_compute. repeat split; reflexivity. Qed.

(* bare-LF and bare-CR bodies, with a preamble, an epilogue and payloads containing the line break *)
Example render_example_lf :
  wf_body ex_B LBlf [112; LF] [mkrp [97; 58; 49] (Some [120; LF; LF; DASH; DASH; 121]); ex_p1] [LF; 101] = true.
Proof. vm_compute. reflexivity. Qed.
Example render_example_cr :
  wf_body ex_B LBcr [112; CR] [mkrp [97; 58; 49] (Some [120; CR; CR; DASH; DASH; 121]); ex_p1] [CR; 101] = true.
Proof. vm_compute. reflexivity. Qed.

Definition decoded (B W : bytes) : option (list part) :=
  match drive no_limits B [W] with Ok evs => Some (parts_of evs) | Err _ => None end.

(* each condition of wf_body is needed: without it the decoded parts are not the rendered ones *)
(* --B inside the preamble *)
Example wf_body_needed_pre :
  let pre := DASH :: DASH :: ex_B ++ crlf ++ [120] ++ crlf in
  wf_body ex_B LBcrlf pre [ex_p2] crlf = false /\ wf_parts ex_B LBcrlf [ex_p2] = true /\
  decoded ex_B (render ex_B LBcrlf pre [ex_p2] crlf) <> Some (map spec_part [ex_p2]).
Proof. vm_compute. repeat split; try reflexivity. discriminate. Qed.

(* a blank line inside the header block *)
Example wf_body_needed_hdr_blank :
  let p := mkrp ([97; 58; 49] ++ crlf ++ crlf ++ [98]) (Some [120]) in
  wf_body ex_B LBcrlf [] [p] crlf = false /\
  decoded ex_B (render ex_B LBcrlf [] [p] crlf) <> Some (map spec_part [p]).
Proof. vm_compute. split; [reflexivity|discriminate]. Qed.

(* a delimiter inside the payload *)
Example wf_body_needed_payload_delim :
  let p := mkrp [97; 58; 49] (Some ([120] ++ ex_delim ++ crlf ++ [121])) in
  wf_body ex_B LBcrlf [] [p] crlf = false /\
  decoded ex_B (render ex_B LBcrlf [] [p] crlf) <> Some (map spec_part [p]).
Proof. vm_compute. split; [reflexivity|discriminate]. Qed.

(* LF body whose payload ends with CR: the CR joins the delimiter (the property restricts bare-LF
   bodies to payloads free of the other newline kind) *)
Example wf_body_needed_other_newline :
  let p := mkrp [97; 58; 49] (Some [120; CR]) in
  wf_body ex_B LBlf [] [p] [LF] = false /\
  decoded ex_B (render ex_B LBlf [] [p] [LF]) = Some [([97; 58; 49], [120])].
Proof. vm_compute. split; reflexivity. Qed.

(* CR body whose payload starts with LF: the LF joins the line break that starts the body *)
Example wf_body_needed_start_lb :
  let p := mkrp [97; 58; 49] (Some [LF; 120]) in
  wf_body ex_B LBcr [] [p] [CR] = false /\
  decoded ex_B (render ex_B LBcr [] [p] [CR]) = Some [([97; 58; 49], [120])].
Proof. vm_compute. split; reflexivity. Qed.

(* a header block that starts with LF after a CR LF delimiter line: one-shot decoding is fine, but
   the body is outside wf_oneshot (theorem A does not apply: see wf_needed_first_glitch) *)
Example wf_body_needed_hdr_lf :
  let p := mkrp [LF; 97; 58; 49] (Some [120]) in
  wf_body ex_B LBcrlf [] [p] crlf = false /\
  wf_oneshot ex_B (render ex_B LBcrlf [] [p] crlf) = false.
Proof. vm_compute. split; reflexivity. Qed.
