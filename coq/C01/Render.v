(* C01 step 5: the rendered-body spec and theorem B: the one-shot run (hence, by theorem A, every
   chunking) of a rendered body yields exactly the parts that were rendered. *)
From Coq Require Import ZArith Lia ZifyBool ZifyN ZifyNat.
From Wz Require Import lib.Bytes lib.BytesFacts C01.Gen C01.Model C01.Proofs C01.Strings C01.Hold C01.Search C01.Inv C01.Chunks.
Open Scope N_scope.
Ltac Zify.zify_post_hook ::= Z.to_euclidean_division_equations.

(* ---------- more stability lemmas ---------- *)

(* a successful blank-line search is stable under extension *)
Lemma search_blank_app s x a b : search_blank s 0 = Some (a, b) -> search_blank (s ++ x) 0 = Some (a, b).
Proof.
  intro H. pose proof (part_search_sound s 0 ltac:(intros; lia)) as PS. rewrite H in PS. apply PS.
Qed.

(* a successful boundary_re search is stable under extension: same start and flag *)
Lemma search_false_app B s x ms me f :
  good_boundary B = true -> search_delim false B s 0 = Some (ms, me, f) ->
  exists me', search_delim false B (s ++ x) 0 = Some (ms, me', f) /\ (me <= me')%nat /\
    (f = false -> me' = me \/ (me = length s /\ exists x', x = LF :: x')).
Proof.
  unfold good_boundary. intros HB H. apply search_delim_some in H. destruct H as [_ [L1 [L2 [Hm Hn]]]].
  destruct (match_at_app_some false B s x ms _ f Hm) as [e' [H1 [H2 [H3 H4]]]].
  exists (ms + e')%nat. split; [|split; [lia|]].
  - apply search_delim_intro; [lia|exact H1|]. intros j Hj.
    apply (leftmost_stable B s x ms _ f HB Hm); [|lia]. intros j' Hj'. apply Hn. lia.
  - intro Hf. destruct (H4 Hf) as [E|[E1 [E2 [E3 _]]]]; [left; lia|right]. split; [lia|exact E3].
Qed.

(* the first tail position determines the preamble search *)
Lemma first_tail_search B W d0 e0 f0 :
  first_tail B W d0 e0 f0 ->
  exists ms, search_delim true B W 0 = Some (ms, (d0 + e0)%nat, f0) /\ (ms + lb_len (skipn ms W))%nat = d0.
Proof.
  intros [T0 Tn]. destruct (search_delim true B W 0) as [[[ms me] f]|] eqn:Es.
  - pose proof (search_true_tail _ _ _ _ _ _ Es) as Ht. cbv zeta in Ht. destruct Ht as [_ [L1 [T1 T2]]].
    assert (E : (ms + lb_len (skipn ms W))%nat = d0).
    { destruct (Nat.lt_trichotomy (ms + lb_len (skipn ms W)) d0) as [Hl|[He|Hg]]; [|exact He|].
      - rewrite (Tn _ Hl) in T1. discriminate.
      - rewrite (T2 d0 ltac:(lia)) in T0. discriminate. }
    rewrite E in T1. rewrite T0 in T1. injection T1 as E1 E2. subst f.
    exists ms. split; [|exact E]. f_equal. f_equal. f_equal. lia.
  - apply tail_match_delim_true in T0. rewrite (search_delim_none _ _ _ _ Es d0 ltac:(lia)) in T0. discriminate.
Qed.

(* an occurrence of p in a ++ b lies in a or runs over its end *)
Lemma starts_with_app_split p a b :
  starts_with p (a ++ b) = true ->
  ((length p <= length a)%nat /\ starts_with p a = true) \/
  ((length a < length p)%nat /\ starts_with (skipn (length a) p) b = true).
Proof.
  revert a. induction p as [|c p IH]; intros a H.
  - left. split; [cbn; lia|reflexivity].
  - destruct a as [|d a].
    + right. split; [cbn; lia|exact H].
    + cbn [app starts_with] in H. apply andb_prop in H. destruct H as [H1 H2].
      destruct (IH a H2) as [[L S]|[L S]].
      * left. split; [cbn [length]; lia|]. cbn [starts_with]. rewrite H1, S. reflexivity.
      * right. split; [cbn [length]; lia|exact S].
Qed.

Lemma starts_with_nolb_head p s c r :
  starts_with p s = true -> p <> [] -> nolb p = true -> s = c :: r -> is_lb c = false.
Proof.
  intros H Hp Hn ->. destruct p as [|a p]; [congruence|]. cbn [starts_with] in H.
  apply andb_prop in H. destruct H as [H _]. apply N.eqb_eq in H. subst c.
  cbn [nolb forallb] in Hn. apply andb_prop in Hn. destruct Hn as [Hn _].
  destruct (is_lb a); [discriminate|reflexivity].
Qed.

(* glitch means: the byte at me is a LF *)
Lemma glitch_lf T me : (2 <= me)%nat -> glitch T me = true -> starts_lf (skipn me T) = true.
Proof.
  intros L H. unfold glitch in H. destruct (skipn (me - 2) T) as [|a [|b [|c t]]] eqn:E; try discriminate.
  apply andb_prop in H. destruct H as [_ H].
  replace me with (me - 2 + 2)%nat by lia. rewrite <- skipn_skipn, E. cbn [skipn starts_lf]. exact H.
Qed.

Lemma walk_fuel_mono n B T ws : walk n B T = Some ws -> walk (S n) B T = Some ws.
Proof.
  revert T ws. induction n as [|n IH]; intros T ws; [discriminate|].
  intro H. cbn [walk] in H. change (walk (S (S n)) B T) with
    (match search_blank T 0 with
     | None => None
     | Some (bs, be) =>
       let T1 := skipn (Nat.div (bs + be) 2) T in
       match search_delim false B T1 0 with
       | None => None
       | Some (ms, me, f) =>
         let p := (firstn bs T, payload_of T1 ms) in
         if f then Some [(p, false)]
         else match walk (S n) B (skipn me T1) with
              | Some ws => Some ((p, glitch T1 me) :: ws)
              | None => None
              end
       end
     end).
  destruct (search_blank T 0) as [[bs be]|]; [|discriminate]. cbv zeta in *.
  destruct (search_delim false B (skipn (Nat.div (bs + be) 2) T) 0) as [[[ms me] f]|]; [|discriminate].
  destruct f; [exact H|].
  destruct (walk n B (skipn me (skipn (Nat.div (bs + be) 2) T))) as [ws'|] eqn:Ew; [|discriminate].
  rewrite (IH _ _ Ew). exact H.
Qed.

Lemma walk_fuel_le n m B T ws : (n <= m)%nat -> walk n B T = Some ws -> walk m B T = Some ws.
Proof. induction 1 as [|m _ IH]; intro H; [exact H|]. apply walk_fuel_mono. apply IH. exact H. Qed.

(* ---------- the rendered body ---------- *)

Inductive lbk := LBcrlf | LBlf | LBcr.
Definition lbs (k : lbk) : bytes := match k with LBcrlf => [CR; LF] | LBlf => [LF] | LBcr => [CR] end.

(* raw header block (header lines joined by the line break, no trailing line break) and the
   payload; None = body-less part: the delimiter follows the header block directly *)
Record rpart := mkrp { r_hdr : bytes; r_body : option bytes }.

Definition body_text (lb : lbk) (p : rpart) : bytes :=
  match r_body p with None => [] | Some d => lbs lb ++ d end.
Definition spec_part (p : rpart) : part :=
  (r_hdr p, match r_body p with None => [] | Some d => d end).

(* the text after the --B of a delimiter *)
Fixpoint render_from (B : bytes) (lb : lbk) (ps : list rpart) (tail : bytes) : bytes :=
  match ps with
  | [] => [DASH; DASH] ++ tail
  | p :: r => lbs lb ++ r_hdr p ++ lbs lb ++ body_text lb p ++ lbs lb ++ dd B ++ render_from B lb r tail
  end.
Definition render (B : bytes) (lb : lbk) (pre : bytes) (ps : list rpart) (tail : bytes) : bytes :=
  pre ++ lbs lb ++ dd B ++ render_from B lb ps tail.

(* the same text part by part, as an encoder writes it *)
Definition render_part (B : bytes) (lb : lbk) (p : rpart) : bytes :=
  lbs lb ++ dd B ++ lbs lb ++ r_hdr p ++ lbs lb ++ body_text lb p.
Lemma render_flat B lb pre ps tail :
  render B lb pre ps tail =
  pre ++ flat_map (render_part B lb) ps ++ lbs lb ++ dd B ++ [DASH; DASH] ++ tail.
Proof.
  unfold render. f_equal. induction ps as [|p r IH]; [reflexivity|].
  cbn [flat_map render_from]. unfold render_part. rewrite <- !app_assoc. do 5 f_equal.
  rewrite <- IH. reflexivity.
Qed.

Definition zhead (lb : lbk) (fin : bool) : bytes := if fin then [DASH; DASH] else lbs lb.
Definition is_last (r : list rpart) : bool := match r with [] => true | _ => false end.
Definition is_nil (s : bytes) : bool := match s with [] => true | _ => false end.

Definition blank_is (o : option (nat * nat)) (a b : nat) : bool :=
  match o with Some (x, y) => Nat.eqb x a && Nat.eqb y b | None => false end.
Definition delim_is (o : option (nat * nat * bool)) (a b : nat) (f : bool) : bool :=
  match o with Some (x, y, g) => Nat.eqb x a && Nat.eqb y b && Bool.eqb g f | None => false end.

(* local conditions on one part; fin = it is the last part (the closing delimiter follows).
   - the header block is not empty and does not start with LF;
   - the first blank line of  hdr LB LB  is the LB LB at its end;
   - in  [LB payload] LB --B (LB | --)  the leftmost boundary_re match is the final LB --B..., it
     ends at the end of that text, and the line break that starts the body is exactly LB *)
Definition part_ok (B : bytes) (lb : lbk) (p : rpart) (fin : bool) : bool :=
  let l := lbs lb in
  let hdr := r_hdr p in
  let s := body_text lb p ++ l ++ dd B ++ zhead lb fin in
  negb (is_nil hdr) && negb (starts_lf hdr)
  && blank_is (search_blank (hdr ++ l ++ l) 0) (length hdr) (length hdr + 2 * length l)
  && delim_is (search_delim false B s 0) (length (body_text lb p)) (length s) fin
  && Nat.eqb (lb_len s) (length l).

Fixpoint wf_parts (B : bytes) (lb : lbk) (ps : list rpart) : bool :=
  match ps with
  | [] => true
  | p :: r => part_ok B lb p (is_last r) && wf_parts B lb r
  end.

(* the preamble does not contain --B; the tail (after the closing --B--) is arbitrary *)
Definition wf_body (B : bytes) (lb : lbk) (pre : bytes) (ps : list rpart) (tail : bytes) : bool :=
  negb (contains (dd B) pre) && wf_parts B lb ps.

(* ---------- one part ---------- *)

Definition after_lb (B : bytes) (lb : lbk) (p : rpart) (r : list rpart) (tail : bytes) : bytes :=
  r_hdr p ++ lbs lb ++ body_text lb p ++ lbs lb ++ dd B ++ render_from B lb r tail.

Definition rest_of (B : bytes) (lb : lbk) (r : list rpart) (tail : bytes) : bytes :=
  match r with [] => tail | q :: r' => after_lb B lb q r' tail end.

Lemma render_from_zhead B lb r tail :
  render_from B lb r tail = zhead lb (is_last r) ++ rest_of B lb r tail.
Proof. destruct r as [|q r']; reflexivity. Qed.

Lemma lbs_len lb : (1 <= length (lbs lb) <= 2)%nat.
Proof. destruct lb; cbn; lia. Qed.

Lemma lbs_head lb : exists c t, lbs lb = c :: t /\ is_lb c = true.
Proof. destruct lb; eexists; eexists; split; reflexivity. Qed.

Lemma starts_lf_app a b : a <> [] -> starts_lf (a ++ b) = starts_lf a.
Proof. destruct a; [congruence|reflexivity]. Qed.

Lemma blank_is_eq o a b : blank_is o a b = true -> o = Some (a, b).
Proof.
  destruct o as [[x y]|]; [|discriminate]. cbn [blank_is]. intro H. apply andb_prop in H.
  destruct H as [H1 H2]. apply Nat.eqb_eq in H1, H2. subst. reflexivity.
Qed.

Lemma delim_is_eq o a b f : delim_is o a b f = true -> o = Some (a, b, f).
Proof.
  destruct o as [[[x y] g]|]; [|discriminate]. cbn [delim_is]. intro H. apply andb_prop in H.
  destruct H as [H H3]. apply andb_prop in H. destruct H as [H1 H2].
  apply Nat.eqb_eq in H1, H2. apply eqb_prop in H3. subst. reflexivity.
Qed.

Lemma part_ok_hdr B lb p fin : part_ok B lb p fin = true -> r_hdr p <> [] /\ starts_lf (r_hdr p) = false.
Proof.
  unfold part_ok. intro H. repeat (apply andb_prop in H; destruct H as [H ?]).
  split; [destruct (r_hdr p); [discriminate|congruence]|].
  destruct (starts_lf (r_hdr p)); [discriminate|reflexivity].
Qed.

(* what the walk sees at one part *)
Lemma walk_part B lb p r tail :
  good_boundary B = true -> part_ok B lb p (is_last r) = true ->
  starts_lf (rest_of B lb r tail) = false \/ is_last r = true ->
  let T := after_lb B lb p r tail in
  let l := lbs lb in
  let s := body_text lb p ++ l ++ dd B ++ zhead lb (is_last r) in
  let T1 := s ++ rest_of B lb r tail in
  search_blank T 0 = Some (length (r_hdr p), (length (r_hdr p) + 2 * length l)%nat) /\
  skipn (length (r_hdr p) + length l) T = T1 /\
  firstn (length (r_hdr p)) T = r_hdr p /\
  exists me, search_delim false B T1 0 = Some (length (body_text lb p), me, is_last r) /\
    payload_of T1 (length (body_text lb p)) = snd (spec_part p) /\
    (is_last r = false -> me = length s /\ skipn me T1 = rest_of B lb r tail /\ glitch T1 me = false).
Proof.
  intros HB Hok Hnext T l s T1. unfold part_ok in Hok. fold l s in Hok.
  repeat (apply andb_prop in Hok; destruct Hok as [Hok ?]).
  match goal with H : blank_is _ _ _ = true |- _ => apply blank_is_eq in H; rename H into Hb end.
  match goal with H : delim_is _ _ _ _ = true |- _ => apply delim_is_eq in H; rename H into Hd end.
  match goal with H : Nat.eqb _ _ = true |- _ => apply Nat.eqb_eq in H; rename H into Hl end.
  (* T = (hdr ++ l ++ l) ++ ... *)
  assert (ET : T = (r_hdr p ++ l) ++ T1).
  { unfold T, after_lb, T1, s. rewrite render_from_zhead. fold l. rewrite <- !app_assoc. reflexivity. }
  assert (ET2 : exists y, T = (r_hdr p ++ l ++ l) ++ y).
  { rewrite ET. unfold T1, s, body_text. destruct (r_body p) as [d|]; cbn [app]; fold l;
      eexists; rewrite <- !app_assoc; reflexivity. }
  split; [destruct ET2 as [y ->]; apply search_blank_app; exact Hb|].
  split; [rewrite ET, skipn_app, skipn_all2 by (rewrite app_length; lia);
          rewrite app_length; replace (_ - _)%nat with 0%nat by lia; reflexivity|].
  split; [rewrite ET, <- app_assoc, firstn_app, firstn_all, Nat.sub_diag; cbn [firstn]; apply app_nil_r|].
  destruct (search_false_app B s (rest_of B lb r tail) _ _ _ HB Hd) as [me [Hs [Hme Hgrow]]].
  exists me. split; [exact Hs|].
  assert (Ls : (2 <= length s)%nat).
  { unfold s. rewrite !app_length, dd_length. lia. }
  split.
  - unfold payload_of, T1. rewrite lb_len_app_2 by exact Ls. rewrite Hl.
    unfold s, body_text, spec_part. cbn [snd]. destruct (r_body p) as [d|].
    + fold l. rewrite app_length. replace (length l + length d - length l)%nat with (length d) by lia.
      rewrite <- !app_assoc. rewrite skipn_app, skipn_all, Nat.sub_diag. cbn [skipn app].
      rewrite firstn_app, firstn_all, Nat.sub_diag. cbn [firstn]. apply app_nil_r.
    + reflexivity.
  - intro Hfin. destruct Hnext as [Hnext|Hnext]; [|congruence].
    assert (Eme : me = length s).
    { destruct (Hgrow Hfin) as [E|[_ [x' Ex]]]; [exact E|]. rewrite Ex in Hnext. discriminate. }
    subst me. split; [reflexivity|]. split.
    + unfold T1. rewrite skipn_app, skipn_all, Nat.sub_diag. reflexivity.
    + destruct (glitch T1 (length s)) eqn:Eg; [|reflexivity].
      apply glitch_lf in Eg; [|exact Ls]. unfold T1 in Eg.
      rewrite skipn_app, skipn_all, Nat.sub_diag in Eg. cbn [skipn app] in Eg. congruence.
Qed.
