(* C01: chunk independence at the level the property states it: kind, name, filename and headers
   are functions of the parsed header block, and the parsed header block is chunk-independent. *)
From Wz Require Import lib.Bytes C01.Gen C01.Model C01.Strings C01.Hold C01.Inv C01.Chunks C01.HeaderBlock.

Definition same_parsed_parts (a b : res (list event)) : Prop :=
  match a, b with
  | Ok e1, Ok e2 =>
    Forall2 (fun p q : part => parse_headers (fst p) = parse_headers (fst q) /\ snd p = snd q)
            (parts_of e1) (parts_of e2)
  | _, _ => False
  end.

Lemma Forall2_weaken' (A C : Type) (R1 R2 : A -> C -> Prop) l l' :
  (forall a b, R1 a b -> R2 a b) -> Forall2 R1 l l' -> Forall2 R2 l l'.
Proof. intros H F. induction F as [|a b l l' Hab _ IH]; constructor; [apply H; exact Hab|exact IH]. Qed.

Theorem chunk_independence_parsed B W chunks :
  good_boundary B = true -> wf_oneshot B W = true -> concat chunks = W ->
  same_parsed_parts (drive no_limits B chunks) (drive no_limits B [W]).
Proof.
  intros HB Hwf Hc. pose proof (chunk_independence B W chunks HB Hwf Hc) as H.
  unfold parts_equiv in H. unfold same_parsed_parts.
  destruct (drive no_limits B chunks) as [e1|]; [|exact H].
  destruct (drive no_limits B [W]) as [e2|]; [|exact H].
  eapply Forall2_weaken'; [|exact H]. intros a e [[H1|H1] H2]; (split; [|exact H2]).
  - rewrite H1. reflexivity.
  - rewrite H1. apply parse_headers_leading_lf.
Qed.
