(* C01: chunk independence at the level the property states it: kind, name, filename and headers
   are functions of the parsed header block, and the parsed header block is chunk-independent. *)
From Wz Require Import lib.Bytes C01.Gen C01.Model C01.Strings C01.Hold C01.Inv C01.Chunks C01.HeaderBlock.

Definition same_parsed_parts (a b : res (list event)) : Prop :=
  match a, b with
  | Ok e1, Ok e2 =>
    Forall2 (fun p q : part => parse_headers (fst p) = parse_headers (fst q) /\ snd p = snd q)
            (parts_of e1) (parts_of e2)
  | _, _ => False
  end.

Lemma Forall2_weaken' (A C : Type) (R1 R2 : A -> C -> Prop) l l' :
  (forall a b, R1 a b -> R2 a b) -> Forall2 R1 l l' -> Forall2 R2 l l'.
Proof. intros H F. induction F as [|a b l l' Hab _ IH]; constructor; [apply H; exact Hab|exact IH]. Qed.

Theorem chunk_independence_parsed B W chunks :
  good_boundary B = true -> wf_oneshot B W = true -> concat chunks = W ->
  same_parsed_parts (drive no_limits B chunks) (drive no_limits B [W]).
Proof.
  intros HB Hwf Hc. pose proof (chunk_independence B W chunks HB Hwf Hc) as H.
  unfold parts_equiv in H. unfold same_parsed_parts.
  destruct (drive no_limits B chunks) as [e1|]; [|exact H].
  destruct (drive no_limits B [W]) as [e2|]; [|exact H].
  eapply Forall2_weaken'; [|exact H]. intros a e [[H1|H1] H2]; (split; [|exact H2]).
  - rewrite H1. reflexivity.
  - rewrite H1. apply parse_headers_leading_lf.
Qed.

(* ---- one level up: formparser._chunk_iter(stream.read, buffer_size).  The stream returns, on its
   i-th read(buffer_size) call, at least one and at most min(buffer_size, k_i) bytes while data
   remains (k_i = 0 or a missing entry: no bound of its own), and nothing at the end. *)
From Coq Require Import Lia.

Fixpoint reads_of (fuel : nat) (bs : nat) (sched : list nat) (data : bytes) : list bytes :=
  match fuel with
  | O => match data with [] => [] | _ => [data] end
  | S f =>
    match data with
    | [] => []
    | _ =>
      let k := match sched with k :: _ => if Nat.eqb k 0 then bs else Nat.min bs k | [] => bs end in
      let n := Nat.max 1 k in
      firstn n data :: reads_of f bs (tl sched) (skipn n data)
    end
  end.

Lemma reads_concat fuel bs sched data : concat (reads_of fuel bs sched data) = data.
Proof.
  revert sched data. induction fuel as [|f IH]; intros sched data; cbn [reads_of].
  - destruct data; cbn [concat]; [reflexivity|]. rewrite app_nil_r. reflexivity.
  - destruct data as [|d0 dr]; [reflexivity|].
    cbn [concat]. rewrite IH. apply firstn_skipn.
Qed.

(* the parts the form parser sees do not depend on its buffer size nor on short reads *)
Theorem formparser_read_schedule B W fuel bs sched :
  good_boundary B = true -> wf_oneshot B W = true ->
  same_parsed_parts (drive no_limits B (reads_of fuel bs sched W)) (drive no_limits B [W]).
Proof. intros HB Hwf. apply chunk_independence_parsed; [exact HB|exact Hwf|apply reads_concat]. Qed.

(* every read is non-empty and at most buffer_size long (buffer_size >= 1), as _chunk_iter needs *)
Lemma reads_sizes fuel bs sched data c :
  (1 <= bs)%nat -> (length data <= fuel)%nat -> In c (reads_of fuel bs sched data) ->
  (1 <= length c <= bs)%nat.
Proof.
  intro Hbs. revert sched data. induction fuel as [|f IH]; intros sched data Hlen Hin; cbn [reads_of] in Hin.
  - destruct data; [destruct Hin|]. cbn [length] in Hlen. lia.
  - destruct data as [|d0 dr]; [destruct Hin|].
    destruct Hin as [<-|Hin].
    + rewrite firstn_length. cbn [length].
      destruct sched as [|k sr]; [lia|]. destruct (Nat.eqb k 0); lia.
    + apply IH in Hin; [exact Hin|]. rewrite skipn_length. cbn [length] in *. lia.
Qed.
