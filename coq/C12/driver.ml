(* C12 driver: one case per line (rule / map / adapter syntax as in coq/C03/driver.ml)
   match <cfg> <rules> <adapter> <meth> <path> -> outcome of MapAdapter.match with defaults / alias canonicalisation
   matchrt <cfg> <rules> <adapter> <meth> <path> <idx=template|..> -> the same with Rule.redirect_to string templates
   tourl <conv> <value>                              -> U text | VALUEERROR | UNSUPPORTED
   rt <conv> <value>                                 -> to_url, unquote, in_lang, to_python in one line
   unq <text>                                        -> unquoted text
   build <cfg> <rules> <adapter> <ep> <vals> <meth|~> <force_external>  -> U url | NONE | VALUEERROR | UNSUPPORTED
   b2m <cfg> <rules> <adapter> <ep> <vals> <meth>   -> outcome of matching the built URL *)
let sp c s = String.split_on_char c s
let str s = nlist_of_csv s
let opt f s = if s = "~" then None else Some (f s)
let b s = (s = "1")
let zi s = z_of_int (int_of_string s)
let ni s = n_of_int (int_of_string s)
let lst c f s = if s = "_" then [] else List.map f (sp c s)
let conv s = match sp '.' s with
  | ["s"; e; mn; mx] -> CStr (opt ni e, ni mn, opt ni mx)
  | ["i"; fx; mn; mx; sg] -> CInt (ni fx, opt zi mn, opt zi mx, b sg)
  | ["f"; sg] -> CFloat (b sg)
  | ["a"; items] -> CAny (lst '|' str items)
  | ["u"] -> CUuid | ["p"] -> CPath
  | _ -> failwith ("conv " ^ s)
let seg s = match sp ':' s with
  | ["L"; k] -> SLit (str k)
  | ["D"; pre; c; name; post] -> SDyn (str pre, conv c, str name, str post)
  | _ -> failwith ("seg " ^ s)
let tl s = String.sub s 1 (String.length s - 1)
let value s = match s.[0] with
  | 'I' -> VInt (zi (tl s)) | 'F' -> VFloat (str (tl s)) | 'U' -> VUuid (str (tl s)) | _ -> VStr (str (tl s))
let kv s = match sp '=' s with [k; v] -> (str k, value v) | _ -> failwith ("kv " ^ s)
let rule s = match sp ';' s with
  | [idx; ep; dom; segs; tail; br; meths; st; mg; ws; al; defs] ->
      { r_idx = ni idx; r_endpoint = ni ep; r_dom = seg dom; r_segs = lst '^' seg segs; r_tail = opt str tail;
        r_branch = b br; r_methods = opt (lst '|' str) meths; r_strict_opt = opt b st; r_merge_opt = opt b mg;
        r_websocket = b ws; r_alias = b al; r_defaults = lst '|' kv defs }
  | _ -> failwith ("rule " ^ s)
let rmap cfg rules =
  { m_rules = lst '+' rule rules; m_strict = (cfg.[0] = '1'); m_merge = (cfg.[1] = '1');
    m_redirect_defaults = (cfg.[2] = '1'); m_host_matching = (cfg.[3] = '1') }
let adapter s = match sp '|' s with
  | [sch; srv; scr; sub; q] -> { a_scheme = str sch; a_server = str srv; a_script = str scr; a_subdomain = opt str sub; a_query = str q }
  | _ -> failwith ("adapter " ^ s)
let zs z = string_of_int (int_of_z z)
let show_value = function
  | VStr s -> "S" ^ csv_of_nlist s | VInt z -> "I" ^ zs z | VFloat t -> "F" ^ csv_of_nlist t | VFloatRaw t -> "F" ^ csv_of_nlist t | VUuid h -> "U" ^ csv_of_nlist h
let show_args l = if l = [] then "-" else String.concat "|" (List.map (fun (k, v) -> csv_of_nlist k ^ "=" ^ show_value v) l)
let show_outcome = function
  | Match (r, vs) -> Printf.sprintf "M %d %d %s" (int_of_n r.r_idx) (int_of_n r.r_endpoint) (show_args vs)
  | RedirectTo u -> "R " ^ csv_of_nlist u
  | NotFound -> "404"
  | MethodNotAllowed ms -> "405 " ^ String.concat "|" (List.map csv_of_nlist ms)
  | WsMismatch -> "WS"
  | Raised u -> if u then "UNSUPPORTED" else "EXN ValueError"
let () = iter_lines (fun line ->
  match fields line with
  | ["match"; cfg; rules; a; meth; path] -> show_outcome (router_match (rmap cfg rules) (adapter a) (str path) (str meth))
  | ["matchbo"; cfg; rules; a; meth; path; bo] ->
      (* bo: idx|idx : the rules created with build_only=True *)
      let l = lst '|' int_of_string bo in
      show_outcome (router_match_bo (fun i -> List.mem (int_of_n i) l) (rmap cfg rules) (adapter a) (str path) (str meth))
  | ["matchrt"; cfg; rules; a; meth; path; rt] ->
      (* rt: idx=template|idx=template : Rule.redirect_to string templates by rule index *)
      let tbl = lst '|' (fun kv -> match sp '=' kv with [i; t] -> (int_of_string i, str t) | _ -> failwith "rt") rt in
      show_outcome (router_match_rt (fun i -> List.assoc_opt (int_of_n i) tbl) (rmap cfg rules) (adapter a) (str path) (str meth))
  | _ -> "bad-command")
