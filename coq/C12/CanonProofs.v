(* C12: the defaults / alias canonicalisation converges.  The URL the router builds for the canonical rule
   of an endpoint is answered by that rule, and the router does not redirect again - given that no other
   rule of the map admits the canonical URL (it is not shadowed) and that no two rules of the endpoint
   have the same trace. *)
From Coq Require Import ZArith Lia.
From Wz Require Import lib.Bytes lib.BytesFacts lib.Utf8 C03.Gen C03.Trie C03.TrieFacts C03.Model C03.Proofs
  C04.Model C04.Proofs C04.MapProofs C04.SubdomainProofs C12.Model C12.Proofs.
Open Scope N_scope.

(* ------------------------------------------------------------------ dictionaries *)
Lemma list_eqb_neq (a b : str) : a <> b -> list_eqb a b = false.
Proof. intro H. destruct (list_eqb a b) eqn:E; [apply list_eqb_eq in E; contradiction|reflexivity]. Qed.

Lemma get_set_same k v d : dict_get k (dict_set k v d) = Some v.
Proof.
  induction d as [|[k' v'] d IH]; cbn [dict_set dict_get].
  - rewrite list_eqb_refl. reflexivity.
  - destruct (list_eqb k' k) eqn:E; cbn [dict_get]; rewrite E; [reflexivity|exact IH].
Qed.

Lemma get_set_other k0 k v d : k0 <> k -> dict_get k (dict_set k0 v d) = dict_get k d.
Proof.
  intro Hne. induction d as [|[k' v'] d IH]; cbn [dict_set dict_get].
  - rewrite (list_eqb_neq _ _ Hne). reflexivity.
  - destruct (list_eqb k' k0) eqn:E; cbn [dict_get].
    + apply list_eqb_eq in E. subst k'. rewrite (list_eqb_neq _ _ Hne). reflexivity.
    + destruct (list_eqb k' k); [reflexivity|exact IH].
Qed.

Lemma get_update_notin k upd : forall d, ~ In k (map fst upd) -> dict_get k (dict_update d upd) = dict_get k d.
Proof.
  unfold dict_update. induction upd as [|[k0 v0] upd IH]; intros d Hn; cbn [fold_left]; [reflexivity|].
  cbn [map fst In] in Hn. rewrite IH by tauto. cbn [fst snd]. apply get_set_other. intro E. apply Hn. left. exact E.
Qed.

Lemma get_update_in k upd : forall d, In k (map fst upd) ->
  exists v, In (k, v) upd /\ dict_get k (dict_update d upd) = Some v.
Proof.
  unfold dict_update. induction upd as [|[k0 v0] upd IH]; intros d Hin; cbn [fold_left]; [destruct Hin|].
  cbn [fst snd]. destruct (in_dec (list_eq_dec N.eq_dec) k (map fst upd)) as [Hi|Hn].
  - destruct (IH (dict_set k0 v0 d) Hi) as (v & H1 & H2). exists v. split; [right; exact H1|exact H2].
  - destruct Hin as [E|Hi]; [|contradiction]. cbn [fst] in E. subst k0. exists v0. split; [left; reflexivity|].
    pose proof (get_update_notin k upd (dict_set k v0 d) Hn) as H. unfold dict_update in H. rewrite H. apply get_set_same.
Qed.

Lemma dict_get_in k (d : list (str * value)) y : dict_get k d = Some y -> In (k, y) d.
Proof.
  induction d as [|[k' v'] d IH]; cbn [dict_get]; [discriminate|].
  destruct (list_eqb k' k) eqn:E.
  - intro H. injection H as <-. apply list_eqb_eq in E. subst k'. left. reflexivity.
  - intro H. right. exact (IH H).
Qed.

Lemma dict_get_some_keys k (d : list (str * value)) : In k (map fst d) -> dict_get k d <> None.
Proof.
  induction d as [|[k' v'] d IH]; cbn [map fst In dict_get]; [tauto|].
  intros [E|Hi]; [subst k'; rewrite list_eqb_refl; discriminate|].
  destruct (list_eqb k' k); [discriminate|exact (IH Hi)].
Qed.

Lemma value_eqb_eq a b : value_eqb a b = true -> a = b.
Proof.
  destruct a, b; cbn [value_eqb]; try discriminate; intro H;
    try (apply list_eqb_eq in H; subst; reflexivity). apply Z.eqb_eq in H. subst. reflexivity.
Qed.

(* ------------------------------------------------------------------ sets of argument names *)
Lemma has_in k l : has k l = true -> In k l.
Proof.
  unfold has. intro H. apply existsb_exists in H. destruct H as (x & Hx & E). apply list_eqb_eq in E. subst x. exact Hx.
Qed.
Lemma in_has k l : In k l -> has k l = true.
Proof. intro H. unfold has. apply existsb_exists. exists k. split; [exact H|apply list_eqb_refl]. Qed.
Lemma subset_in x y k : subset x y = true -> In k x -> In k y.
Proof. unfold subset. intros H Hk. apply has_in. exact (proj1 (forallb_forall _ _) H k Hk). Qed.
Lemma subset_trans x y z : subset x y = true -> subset y z = true -> subset x z = true.
Proof.
  intros H1 H2. unfold subset. apply forallb_forall. intros k Hk. apply in_has.
  eapply subset_in; [exact H2|]. eapply subset_in; [exact H1|exact Hk].
Qed.

Lemma provides_parts r r0 :
  provides_defaults_for r r0 = true ->
  is_nil (r_defaults r) = false /\ r_endpoint r = r_endpoint r0
  /\ trace_eqb (rule_trace r) (rule_trace r0) = false
  /\ subset (rule_arguments r) (rule_arguments r0) = true /\ subset (rule_arguments r0) (rule_arguments r) = true.
Proof.
  unfold provides_defaults_for, set_eqb. intro H.
  apply andb_prop in H. destruct H as [H H4]. apply andb_prop in H. destruct H as [H H3]. apply andb_prop in H. destruct H as [H1 H2].
  apply andb_prop in H4. destruct H4 as [H4 H5].
  repeat split; try assumption.
  - destruct (is_nil (r_defaults r)); [discriminate|reflexivity].
  - apply N.eqb_eq. exact H2.
  - destruct (trace_eqb _ _); [discriminate|reflexivity].
Qed.

Lemma provides_trans r' r r0 :
  provides_defaults_for r' r = true -> provides_defaults_for r r0 = true ->
  trace_eqb (rule_trace r') (rule_trace r0) = false -> provides_defaults_for r' r0 = true.
Proof.
  intros H1 H2 Ht. destruct (provides_parts _ _ H1) as (A1 & A2 & _ & A4 & A5). destruct (provides_parts _ _ H2) as (_ & B2 & _ & B4 & B5).
  unfold provides_defaults_for, set_eqb. rewrite A1, Ht, A2, B2, N.eqb_refl.
  rewrite (subset_trans _ _ _ A4 B4), (subset_trans _ _ _ B5 A5). reflexivity.
Qed.

(* a rule whose arguments are among those of r is suitable for the values the request was answered with
   if it is suitable for the values of the follow-up request *)
Lemma suitable_transfer r r' vals w meth :
  subset (rule_arguments r') (rule_arguments r) = true ->
  suitable_for r' w (Some meth) = true ->
  (forall k, In k (rule_arguments r) -> dict_has k vals = true) ->
  (forall k x, In k (rule_arguments r) -> dict_get k vals = Some x -> dict_get k w = Some x) ->
  suitable_for r' vals (Some meth) = true.
Proof.
  intros Hsub Hs Hall Hag. unfold suitable_for in *.
  apply andb_prop in Hs. destruct Hs as [Hs H3]. apply andb_prop in Hs. destruct Hs as [H1 H2].
  rewrite H1. cbn [andb]. apply andb_true_intro. split.
  - apply forallb_forall. intros k Hk. rewrite (Hall k (subset_in _ _ _ Hsub Hk)). apply orb_true_r.
  - apply forallb_forall. intros [k d] Hkd. cbn [fst snd].
    assert (Hk : In k (rule_arguments r)).
    { apply (subset_in _ _ _ Hsub). unfold rule_arguments. apply in_or_app. right. apply in_map_iff. exists (k, d). split; [reflexivity|exact Hkd]. }
    destruct (dict_get k vals) as [x|] eqn:Ex; [|reflexivity].
    pose proof (proj1 (forallb_forall _ _) H3 (k, d) Hkd) as H. cbn [fst snd] in H. rewrite (Hag k x Hk Ex) in H. exact H.
Qed.

(* ------------------------------------------------------------------ the two searches of the router *)
Lemma default_loop_found m a meth r0 vals : forall rs u,
  default_redirect_loop m a meth r0 vals rs = BOk (Some u) ->
  exists pre r post dp,
    rs = pre ++ r :: post
    /\ (forall r', In r' pre -> (r_idx r' =? r_idx r0) = false
                              /\ provides_defaults_for r' r0 && suitable_for r' vals (Some meth) = false)
    /\ (r_idx r =? r_idx r0) = false
    /\ provides_defaults_for r r0 = true /\ suitable_for r vals (Some meth) = true
    /\ build_rule r (dict_update vals (r_defaults r)) = BOk dp
    /\ u = make_redirect_url m a (snd dp) (Some (fst dp)).
Proof.
  induction rs as [|r rs IH]; intros u; cbn [default_redirect_loop]; [discriminate|].
  destruct (r_idx r =? r_idx r0) eqn:Ei; [discriminate|].
  destruct (provides_defaults_for r r0 && suitable_for r vals (Some meth)) eqn:Et.
  - destruct (build_rule r (dict_update vals (r_defaults r))) as [dp| |] eqn:Eb; cbn [bbind]; try discriminate.
    intro H. injection H as <-. apply andb_prop in Et. destruct Et as [E1 E2].
    exists [], r, rs, dp. cbn [app]. split; [reflexivity|]. split; [intros r' []|]. auto 10.
  - intro H. destruct (IH u H) as (pre & r1 & post & dp & -> & Hpre & H1 & H2 & H3 & H4 & H5).
    exists (r :: pre), r1, post, dp. cbn [app]. split; [reflexivity|]. split; [|auto 10].
    intros r' [<-|Hr]; [split; assumption|exact (Hpre _ Hr)].
Qed.

Lemma default_loop_none m a meth r w post : forall pre,
  (forall r', In r' pre -> (r_idx r' =? r_idx r) = true
                           \/ provides_defaults_for r' r && suitable_for r' w (Some meth) = false) ->
  default_redirect_loop m a meth r w (pre ++ r :: post) = BOk None.
Proof.
  induction pre as [|r' pre IH]; intro H; cbn [app default_redirect_loop].
  - rewrite N.eqb_refl. reflexivity.
  - destruct (H r' (or_introl eq_refl)) as [E|E]; rewrite E; [reflexivity|].
    destruct (r_idx r' =? r_idx r); [reflexivity|]. apply IH. intros r2 H2. apply H. right. exact H2.
Qed.

Lemma partial_build_found vals meth r dp path : forall rs,
  partial_build rs vals meth = BOk (Some (r, dp, path)) ->
  exists pre post, rs = pre ++ r :: post
    /\ (forall r', In r' pre -> suitable_for r' vals meth = false)
    /\ suitable_for r vals meth = true /\ build_rule r vals = BOk (dp, path).
Proof.
  induction rs as [|r1 rs IH]; cbn [partial_build]; [discriminate|].
  destruct (suitable_for r1 vals meth) eqn:Es.
  - destruct (build_rule r1 vals) as [[dp1 path1]| |] eqn:Eb; cbn [bbind fst snd]; try discriminate.
    intro H. injection H as <- <- <-. exists [], rs. cbn [app]. split; [reflexivity|]. split; [intros r' []|]. split; assumption.
  - intro H. destruct (IH H) as (pre & post & -> & Hpre & H1 & H2). exists (r1 :: pre), post. cbn [app].
    split; [reflexivity|]. split; [|split; assumption]. intros r' [<-|Hr]; [exact Es|exact (Hpre _ Hr)].
Qed.

(* ------------------------------------------------------------------ the values of the follow-up match *)
(* every value the rule's parts capture from the URL it built is the value it was built from *)
Definition entries_ok (defs bv V : list (str * value)) : Prop :=
  Forall (fun kv => exists v, dict_get (fst kv) defs = None /\ dict_get (fst kv) bv = Some v /\ snd kv = reval v) V.

Lemma seg_entries defs bv s t caps vs : seg_built defs bv s t caps vs -> entries_ok defs bv vs.
Proof.
  intros [k Hk Hne|pre c name post v tv H1 H2 Hiso Hd Hg Hc Hns]; [constructor|].
  constructor; [|constructor]. exists v. cbn [fst snd]. auto.
Qed.
Lemma segs_entries defs bv l ts caps vs : segs_built defs bv l ts caps vs -> entries_ok defs bv vs.
Proof.
  intro H. induction H as [|s t c v l ts cl vl Hs Hl IH]; [constructor|].
  apply Forall_app. split; [eapply seg_entries; eassumption|exact IH].
Qed.
Lemma dom_entries defs bv s dt dcaps dvs : dom_built defs bv s dt dcaps dvs -> entries_ok defs bv dvs.
Proof.
  intros [k Hk|pre c name post v tv H1 H2 Hiso Hd Hg Hu Hl Hp]; [constructor|].
  constructor; [|constructor]. exists v. cbn [fst snd]. auto.
Qed.
Lemma tail_entries defs bv branch tail tts restP tcaps tvs :
  tail_built defs bv branch tail tts restP tcaps tvs -> entries_ok defs bv tvs.
Proof.
  intros [|n tp Hd Hg Hv Hl He]; [constructor|]. constructor; [|constructor]. exists (VStr tp). cbn [fst snd reval]. auto.
Qed.

Lemma convs_names l : map fst (flat_map seg_convs l) = flat_map seg_names l.
Proof. induction l as [|s l IH]; [reflexivity|]. cbn [flat_map]. rewrite map_app, IH. reflexivity. Qed.

Lemma built_keys r bv dt dcaps dvs ts caps vs tts restP tcaps tvs :
  dom_built (r_defaults r) bv (r_dom r) dt dcaps dvs ->
  segs_built (r_defaults r) bv (r_segs r) ts caps vs ->
  tail_built (r_defaults r) bv (is_branch r) (r_tail r) tts restP tcaps tvs ->
  map fst (dvs ++ vs ++ tvs) = map fst (rule_convs r).
Proof.
  intros Hd Hs Ht. unfold rule_convs. rewrite !map_app, (dom_built_keys _ _ _ _ _ _ Hd), (segs_built_keys _ _ _ _ _ _ Hs), convs_names.
  f_equal. f_equal. inversion Ht; subst; reflexivity.
Qed.

Lemma entries_get defs bv V k :
  entries_ok defs bv V -> In k (map fst V) ->
  exists v, dict_get k defs = None /\ dict_get k bv = Some v /\ dict_get k V = Some (reval v).
Proof.
  intros He Hk. destruct (dict_get k V) as [y|] eqn:Ey; [|exfalso; exact (dict_get_some_keys k V Hk Ey)].
  pose proof (dict_get_in _ _ _ Ey) as Hin. destruct (proj1 (Forall_forall _ _) He _ Hin) as (v & H1 & H2 & H3).
  cbn [fst snd] in *. exists v. subst y. auto.
Qed.

Lemma follow_values_agree r vals bv V meth :
  suitable_for r vals (Some meth) = true ->
  entries_ok (r_defaults r) bv V -> map fst V = map fst (rule_convs r) ->
  (forall k, dict_get k (r_defaults r) = None -> dict_get k bv = dict_get k vals) ->
  (forall k x, dict_get k vals = Some x -> reval x = x) ->
  forall k x, In k (rule_arguments r) -> dict_get k vals = Some x -> dict_get k (dict_update V (r_defaults r)) = Some x.
Proof.
  intros Hs He Hkeys Hbv Hnf k x Hk Ex.
  destruct (in_dec (list_eq_dec N.eq_dec) k (map fst (r_defaults r))) as [Hi|Hn].
  - destruct (get_update_in k (r_defaults r) V Hi) as (v & Hv & ->).
    unfold suitable_for in Hs. apply andb_prop in Hs. destruct Hs as [_ H3].
    pose proof (proj1 (forallb_forall _ _) H3 (k, v) Hv) as H. cbn [fst snd] in H. rewrite Ex in H.
    apply value_eqb_eq in H. subst v. reflexivity.
  - rewrite (get_update_notin k (r_defaults r) V Hn).
    unfold rule_arguments in Hk. apply in_app_or in Hk. destruct Hk as [Hk|Hk]; [|contradiction].
    rewrite <- Hkeys in Hk. destruct (entries_get _ _ _ _ He Hk) as (v & H1 & H2 & H3).
    rewrite H3. rewrite (Hbv k H1), Ex in H2. injection H2 as <-. rewrite (Hnf k x Ex). reflexivity.
Qed.

Lemma update_keeps_others (vals defs : list (str * value)) k :
  dict_get k defs = None -> dict_get k (dict_update vals defs) = dict_get k vals.
Proof.
  intro H. apply get_update_notin. intro Hi. exact (dict_get_some_keys k defs Hi H).
Qed.

(* ------------------------------------------------------------------ the follow-up request *)
(* a rule that admits the path, alone among the rules of the map, answers the request *)
Lemma unshadowed_match m r dt P meth ws V :
  In r (m_rules m) -> admits m r (dt :: split_slash P) = ADirect rres V ->
  (forall r', In r' (m_rules m) -> admits m r' (dt :: split_slash P) <> ANo rres -> r' = r) ->
  rmethod_ok r meth = true -> r_websocket r = ws ->
  matcher_run m (trie_of m) dt P meth ws = MOk rule rres r V.
Proof.
  intros Hin Hadm Hother Hm Hw.
  assert (Hserves : serves m meth ws r (dt :: split_slash P)).
  { split; [rewrite Hadm; discriminate|split; assumption]. }
  destruct (matcher_first_pass m dt P meth ws r Hin Hserves) as [(r1 & v1 & E)|(E & r2 & Hin2 & Ha2)].
  - rewrite E. destruct (matcher_ok_sound _ _ _ _ _ _ _ E) as (Hin1 & Ha1 & _ & _).
    assert (r1 = r) by (apply Hother; [exact Hin1|intro Hc; pose proof (eq_trans (eq_sym Hc) Ha1) as Hd; discriminate Hd]). subst r1.
    pose proof (eq_trans (eq_sym Hadm) Ha1) as Hd. injection Hd as <-. reflexivity.
  - assert (r2 = r) by (apply Hother; [exact Hin2|intro Hc; pose proof (eq_trans (eq_sym Hc) Ha2) as Hd; discriminate Hd]). subst r2.
    pose proof (eq_trans (eq_sym Hadm) Ha2) as Hd. discriminate Hd.
Qed.

Lemma final_match m a p me r V :
  matcher_run m (trie_of m) (domain_part m a) (path_part p) (upper me) (a_websocket a) = MOk rule rres r V ->
  r_alias r = false ->
  get_default_redirect m a (upper me) r (dict_update V (r_defaults r)) = BOk None ->
  router_match m a p me = Match r (dict_update V (r_defaults r)).
Proof.
  intros E Hal Hd. unfold router_match, map_match, adapter_match. fold (upper me). rewrite E, Hal. cbn [andb].
  destruct (m_redirect_defaults m); [|reflexivity]. cbn [router_hooks h_default]. rewrite Hd. reflexivity.
Qed.

Lemma suitable_method r vals meth : suitable_for r vals (Some meth) = true -> rmethod_ok r meth = true.
Proof.
  unfold suitable_for, rmethod_ok, Trie.method_ok. intro H. apply andb_prop in H. destruct H as [H _]. apply andb_prop in H. destruct H as [H _].
  destruct (rmethods r); [exact H|reflexivity].
Qed.

(* the canonical rule r built (dom, path) from the values bv; the request for that URL is answered by r
   and not redirected again, when no earlier rule of the endpoint was suitable for the original values *)
Lemma canonical_is_final m a' me r vals bv dom path pre post dt dcaps dvs ts caps vs tts restP tcaps tvs k rest :
  In r (m_rules m) -> rules_for m (r_endpoint r) = pre ++ r :: post ->
  suitable_for r vals (Some (upper me)) = true ->
  build_rule r bv = BOk (dom, path) ->
  (forall k, dict_get k (r_defaults r) = None -> dict_get k bv = dict_get k vals) ->
  (forall r', In r' pre -> provides_defaults_for r' r = true -> suitable_for r' vals (Some (upper me)) = true ->
              (r_idx r' =? r_idx r) = true) ->
  dom_built (r_defaults r) bv (r_dom r) dt dcaps dvs -> r_segs r = SLit k :: rest ->
  segs_built (r_defaults r) bv (r_segs r) ts caps vs ->
  tail_built (r_defaults r) bv (is_branch r) (r_tail r) tts restP tcaps tvs ->
  (forall k, In k (rule_arguments r) -> dict_has k vals = true) ->
  (forall k x, dict_get k vals = Some x -> reval x = x) ->
  (forall r', In r' (m_rules m) -> admits m r' (dom :: [] :: ts ++ restP) <> ANo rres -> r' = r) ->
  r_alias r = false -> r_websocket r = a_websocket a' -> domain_part m a' = dom ->
  router_match m a' (unquote path) me = Match r (dict_update (dvs ++ vs ++ tvs) (r_defaults r)).
Proof.
  intros Hin HL Hsuit Hb Hbv Hpre Hdb Hsegs Hsb Htb Hall Hnf Hother Hal Hws Hdom.
  destruct (rule_build_walk_dom r bv dt dcaps dvs ts caps vs tts restP tcaps tvs k rest Hdb Hsegs Hsb Htb)
    as ((path' & Hb' & Hu) & Hparts & (wcaps & Hwalk & Hconv)).
  rewrite Hb in Hb'. injection Hb' as <- <-.
  set (V := dvs ++ vs ++ tvs) in *.
  assert (Hadm : admits m r (dom :: split_slash (path_part (unquote path))) = ADirect rres V).
  { rewrite Hu, Hparts. unfold admits, Trie.admits, Trie.convert_adm. rewrite Hwalk, Hconv. reflexivity. }
  apply final_match; [|exact Hal|].
  - rewrite Hdom, <- Hws. apply unshadowed_match; try assumption; try reflexivity.
    + intros r' Hr' Hne. apply Hother; [exact Hr'|]. rewrite Hu, Hparts in Hne. exact Hne.
    + exact (suitable_method _ _ _ Hsuit).
  - unfold get_default_redirect. rewrite HL. apply default_loop_none. intros r' Hr'.
    destruct (provides_defaults_for r' r) eqn:Ep; [|right; reflexivity].
    destruct (suitable_for r' (dict_update V (r_defaults r)) (Some (upper me))) eqn:Es; [|right; reflexivity].
    left. apply (Hpre r' Hr' Ep). destruct (provides_parts _ _ Ep) as (_ & _ & _ & Hsub & _).
    apply (suitable_transfer r r' vals _ _ Hsub Es Hall).
    apply (follow_values_agree r vals bv V (upper me) Hsuit); try assumption.
    + unfold V, entries_ok. apply Forall_app. split; [eapply dom_entries; eassumption|].
      apply Forall_app. split; [eapply segs_entries; eassumption|eapply tail_entries; eassumption].
    + unfold V. eapply built_keys; eassumption.
Qed.

(* ================================================================== C12_defaults_converge *)
(* get_default_redirect answered the match of rule0 (values vals) with the URL u.  Then u was built by a
   rule r of the same endpoint that provides defaults for rule0, and the request for u - same method, an
   adapter a2 bound to the host u names - is answered by r itself without another redirect, provided
     - r builds a well-formed URL (the derivation dom_built / segs_built / tail_built of C04),
     - vals carries every argument of rule0 (the values of a match do) and no float,
     - no other rule of the map admits the built path (r is not shadowed),
     - no other rule of the endpoint has the trace of rule0,
     - r is not an alias and serves the protocol of the adapter. *)
Theorem defaults_converge m a a2 me rule0 vals u :
  get_default_redirect m a (upper me) rule0 vals = BOk (Some u) ->
  exists r dom path,
    In r (m_rules m) /\ provides_defaults_for r rule0 = true
    /\ build_rule r (dict_update vals (r_defaults r)) = BOk (dom, path)
    /\ u = make_redirect_url m a path (Some dom)
    /\ forall dt dcaps dvs ts caps vs tts restP tcaps tvs k rest,
        dom_built (r_defaults r) (dict_update vals (r_defaults r)) (r_dom r) dt dcaps dvs -> r_segs r = SLit k :: rest ->
        segs_built (r_defaults r) (dict_update vals (r_defaults r)) (r_segs r) ts caps vs ->
        tail_built (r_defaults r) (dict_update vals (r_defaults r)) (is_branch r) (r_tail r) tts restP tcaps tvs ->
        (forall k, In k (rule_arguments rule0) -> dict_has k vals = true) ->
        (forall k x, dict_get k vals = Some x -> reval x = x) ->
        (forall r', In r' (m_rules m) -> admits m r' (dom :: [] :: ts ++ restP) <> ANo rres -> r' = r) ->
        (forall r', In r' (m_rules m) -> r_endpoint r' = r_endpoint rule0 ->
                    trace_eqb (rule_trace r') (rule_trace rule0) = true -> r_idx r' = r_idx rule0) ->
        r_alias r = false -> r_websocket r = a_websocket a2 -> domain_part m a2 = dom ->
        router_match m a2 (unquote path) me = Match r (dict_update (dvs ++ vs ++ tvs) (r_defaults r)).
Proof.
  unfold get_default_redirect. intro H.
  destruct (default_loop_found _ _ _ _ _ _ _ H) as (pre & r & post & [dom path] & HL & Hpre & Hidx & Hprov & Hsuit & Hb & ->).
  assert (HinL : In r (rules_for m (r_endpoint rule0))) by (rewrite HL; apply in_or_app; right; left; reflexivity).
  destruct (rules_for_in _ _ _ HinL) as [Hin Hep].
  exists r, dom, path. cbn [fst snd]. split; [exact Hin|]. split; [exact Hprov|]. split; [exact Hb|]. split; [reflexivity|].
  intros dt dcaps dvs ts caps vs tts restP tcaps tvs k rest Hdb Hsegs Hsb Htb Hall Hnf Hother Htrace Hal Hws Hdom.
  destruct (provides_parts _ _ Hprov) as (_ & _ & _ & Hsub1 & Hsub2).
  eapply (canonical_is_final m a2 me r vals (dict_update vals (r_defaults r)) dom path pre post); try eassumption.
  - rewrite Hep. exact HL.
  - intros k0 Hk0. apply update_keeps_others. exact Hk0.
  - (* an earlier rule that would redirect the follow-up would have redirected the original request *)
    intros r' Hr' Ep Es. exfalso. destruct (Hpre r' Hr') as [Hi Ht].
    assert (Hr'L : In r' (rules_for m (r_endpoint rule0))) by (rewrite HL; apply in_or_app; left; exact Hr').
    destruct (rules_for_in _ _ _ Hr'L) as [Hin' Hep'].
    assert (Htr : trace_eqb (rule_trace r') (rule_trace rule0) = false).
    { destruct (trace_eqb (rule_trace r') (rule_trace rule0)) eqn:E; [|reflexivity].
      rewrite (Htrace r' Hin' Hep' E), N.eqb_refl in Hi. discriminate. }
    rewrite (provides_trans _ _ _ Ep Hprov Htr), Es in Ht. discriminate.
  - intros k0 Hk0. apply Hall. exact (subset_in _ _ _ Hsub1 Hk0).
Qed.

(* ================================================================== C12_alias_converge *)
(* The alias redirect (host_matching off): the URL is built by the first rule r of the endpoint, in build
   order, that is suitable for the values; the request for that URL is answered by r without another
   redirect, provided r is not itself an alias (the endpoint has a canonical rule), the alias carries the
   arguments of r, and r is not shadowed. *)
Theorem alias_converge m a a2 me rule0 vals u :
  m_host_matching m = false ->
  alias_redirect_url m a (upper me) rule0 vals = BOk u ->
  exists r dom path u0,
    In r (m_rules m) /\ r_endpoint r = r_endpoint rule0
    /\ build_rule r vals = BOk (dom, path)
    /\ adapter_build m a (r_endpoint rule0) vals (Some (upper me)) true = BOk (Some u0) /\ u = u0 ++ query_suffix a
    /\ partial_build (rules_for m (r_endpoint rule0)) vals (Some (upper me)) = BOk (Some (r, dom, path))
    /\ forall dt dcaps dvs ts caps vs tts restP tcaps tvs k rest,
        dom_built (r_defaults r) vals (r_dom r) dt dcaps dvs -> r_segs r = SLit k :: rest ->
        segs_built (r_defaults r) vals (r_segs r) ts caps vs ->
        tail_built (r_defaults r) vals (is_branch r) (r_tail r) tts restP tcaps tvs ->
        (forall k, In k (rule_arguments r) -> dict_has k vals = true) ->
        (forall k x, dict_get k vals = Some x -> reval x = x) ->
        (forall r', In r' (m_rules m) -> admits m r' (dom :: [] :: ts ++ restP) <> ANo rres -> r' = r) ->
        r_alias r = false -> r_websocket r = a_websocket a2 -> domain_part m a2 = dom ->
        router_match m a2 (unquote path) me = Match r (dict_update (dvs ++ vs ++ tvs) (r_defaults r)).
Proof.
  intros Hhm H. unfold alias_redirect_url in H.
  destruct (adapter_build m a (r_endpoint rule0) vals (Some (upper me)) true) as [[u0|]| |] eqn:Eab; cbn [bbind] in H; try discriminate.
  injection H as <-. pose proof Eab as Eab0. unfold adapter_build, pbuild in Eab. rewrite Hhm in Eab.
  destruct (partial_build (rules_for m (r_endpoint rule0)) vals (Some (upper me))) as [[[[r dom] path]|]| |] eqn:Ep; cbn [bbind] in Eab; try discriminate.
  destruct (partial_build_found _ _ _ _ _ _ Ep) as (pre & post & HL & Hpre & Hsuit & Hb).
  assert (HinL : In r (rules_for m (r_endpoint rule0))) by (rewrite HL; apply in_or_app; right; left; reflexivity).
  destruct (rules_for_in _ _ _ HinL) as [Hin Hep].
  exists r, dom, path, u0. split; [exact Hin|]. split; [exact Hep|]. split; [exact Hb|]. split; [reflexivity|]. split; [reflexivity|].
  split; [reflexivity|].
  intros dt dcaps dvs ts caps vs tts restP tcaps tvs k rest Hdb Hsegs Hsb Htb Hall Hnf Hother Hal Hws Hdom.
  eapply (canonical_is_final m a2 me r vals vals dom path pre post); try eassumption.
  - rewrite Hep. exact HL.
  - reflexivity.
  - intros r' Hr' _ Es. rewrite (Hpre r' Hr') in Es. discriminate.
Qed.

(* ------------------------------------------------------------------ an instance
   Map([Rule('/g/<int:x>', endpoint=e), Rule('/g', defaults={'x': 1}, endpoint=e), Rule('/old/<int:x>', endpoint=e, alias=True)]) *)
Definition LG : str := [103].
Definition LX : str := [120].
Definition cx_var : rule :=
  {| r_idx := 0; r_endpoint := 7; r_dom := SLit []; r_segs := [SLit LG; SDyn [] (CInt 0 None None false) LX []]; r_tail := None;
     r_branch := false; r_methods := None; r_strict_opt := None; r_merge_opt := None; r_websocket := false; r_alias := false;
     r_defaults := [] |}.
Definition cx_def : rule :=
  {| r_idx := 1; r_endpoint := 7; r_dom := SLit []; r_segs := [SLit LG]; r_tail := None;
     r_branch := false; r_methods := None; r_strict_opt := None; r_merge_opt := None; r_websocket := false; r_alias := false;
     r_defaults := [(LX, VInt 1)] |}.
Definition cx_old : rule :=
  {| r_idx := 2; r_endpoint := 7; r_dom := SLit []; r_segs := [SLit [111; 108; 100]; SDyn [] (CInt 0 None None false) LX []]; r_tail := None;
     r_branch := false; r_methods := None; r_strict_opt := None; r_merge_opt := None; r_websocket := false; r_alias := true;
     r_defaults := [] |}.
Definition cx_map : rmap := mk_map [cx_var; cx_def; cx_old].

(* '/g/1' is redirected to '/g', which is answered by the defaults rule *)
Lemma cx_first : router_match cx_map ex_adapter [47; 103; 47; 49] GET
                 = RedirectTo (HTTP ++ [COLON; SLASH; SLASH] ++ a_server ex_adapter ++ [47; 103]).
Proof. vm_compute. reflexivity. Qed.

Lemma cx_unshadowed r' : In r' (m_rules cx_map) -> admits cx_map r' ([] :: [] :: [LG] ++ []) <> ANo rres -> r' = cx_def.
Proof.
  intros [<-|[<-|[<-|[]]]] H; [exfalso; apply H; vm_compute; reflexivity|reflexivity|exfalso; apply H; vm_compute; reflexivity].
Qed.

Lemma cx_segs vals : segs_built (r_defaults cx_def) vals (r_segs cx_def) [LG] [] [].
Proof.
  change (segs_built (r_defaults cx_def) vals [SLit LG] ([LG]) ([] ++ []) ([] ++ [])). constructor; [|constructor].
  constructor; [split; vm_compute; reflexivity|discriminate].
Qed.

Lemma cx_defaults_converge :
  get_default_redirect cx_map ex_adapter (upper GET) cx_var [(LX, VInt 1)] = BOk (Some (HTTP ++ [COLON; SLASH; SLASH] ++ a_server ex_adapter ++ [47; 103]))
  /\ router_match cx_map ex_adapter [47; 103] GET = Match cx_def [(LX, VInt 1)].
Proof.
  split; [vm_compute; reflexivity|].
  destruct (defaults_converge cx_map ex_adapter ex_adapter GET cx_var [(LX, VInt 1)] _ (eq_refl : get_default_redirect cx_map ex_adapter (upper GET) cx_var [(LX, VInt 1)] = BOk (Some (HTTP ++ [COLON; SLASH; SLASH] ++ a_server ex_adapter ++ [47; 103]))))
    as (r & dom & path & Hin & Hprov & Hb & Hu & Hconv).
  (* the rule is determined by the search *)
  assert (Hr : r = cx_def /\ dom = [] /\ path = [47; 103]).
  { destruct Hin as [<-|[<-|[<-|[]]]]; try (vm_compute in Hprov; discriminate). vm_compute in Hb. injection Hb as <- <-. auto. }
  destruct Hr as (-> & -> & ->).
  apply (Hconv [] [] [] [LG] [] [] [] [] [] [] LG []).
  - constructor. reflexivity.
  - reflexivity.
  - apply cx_segs.
  - constructor.
  - intros k [<-|[]]. reflexivity.
  - intros k x Hk. cbn [dict_get] in Hk. destruct (list_eqb LX k); [injection Hk as <-; reflexivity|discriminate].
  - exact cx_unshadowed.
  - intros r' [<-|[<-|[<-|[]]]] _ Ht; try reflexivity; vm_compute in Ht; discriminate.
  - reflexivity.
  - reflexivity.
  - reflexivity.
Qed.

Lemma cx_alias_converge :
  router_match cx_map ex_adapter [47; 111; 108; 100; 47; 49] GET
  = RedirectTo (HTTP ++ [COLON; SLASH; SLASH] ++ a_server ex_adapter ++ [47; 103])
  /\ alias_redirect_url cx_map ex_adapter (upper GET) cx_old [(LX, VInt 1)]
     = BOk (HTTP ++ [COLON; SLASH; SLASH] ++ a_server ex_adapter ++ [47; 103]).
Proof. split; vm_compute; reflexivity. Qed.

(* ================================================================== the scheme of a redirect *)
(* every URL make_redirect_url produces (slash / merged-slash redirects, and the defaults redirect with the built
   host part) carries the scheme the adapter is bound with; for an adapter bound to a websocket request that is
   ws:// or wss:// - the redirect of a websocket handshake stays a websocket URL of the same security *)
Theorem redirect_scheme m a path dp :
  has (eff_scheme a) uses_netloc = true ->
  exists rest, make_redirect_url m a path dp = eff_scheme a ++ [COLON; SLASH; SLASH] ++ rest.
Proof.
  intro H. rewrite (make_redirect_url_shape m a path dp H). unfold url_root.
  eexists. repeat first [rewrite <- app_assoc | progress cbn [app]]. reflexivity.
Qed.

Theorem websocket_redirect_scheme m a path dp :
  a_websocket a = true ->
  (a_scheme a = WS \/ a_scheme a = WSS)
  /\ exists rest, make_redirect_url m a path dp = a_scheme a ++ [COLON; SLASH; SLASH] ++ rest.
Proof.
  intro Hw. unfold a_websocket in Hw. apply orb_prop in Hw.
  assert (Hs : a_scheme a = WS \/ a_scheme a = WSS) by (destruct Hw as [E|E]; apply list_eqb_eq in E; auto).
  split; [exact Hs|].
  assert (He : eff_scheme a = a_scheme a) by (unfold eff_scheme; destruct Hs as [->| ->]; reflexivity).
  rewrite <- He. apply redirect_scheme. rewrite He. destruct Hs as [->| ->]; vm_compute; reflexivity.
Qed.

(* ws://example.com/3 under Rule('/<int(max=5):a>/') is redirected to ws://example.com/3/ *)
Definition ex_adapter_ws : adapter :=
  {| a_scheme := WS; a_server := a_server ex_adapter; a_script := [SLASH]; a_subdomain := None; a_query := [] |}.
Lemma ex_ws_redirect :
  a_websocket ex_adapter_ws = true
  /\ map_match no_hooks (mk_map [{| r_idx := 0; r_endpoint := 0; r_dom := SLit []; r_segs := [SDyn [] (CInt 0 None (Some 5%Z) false) [97] []];
                                    r_tail := None; r_branch := true; r_methods := None; r_strict_opt := None; r_merge_opt := None;
                                    r_websocket := true; r_alias := false; r_defaults := [] |}]) ex_adapter_ws [47; 51] GET
     = RedirectTo (WS ++ [COLON; SLASH; SLASH] ++ a_server ex_adapter ++ [47; 51; 47]).
Proof. split; vm_compute; reflexivity. Qed.

(* ================================================================== Rule.redirect_to *)
Lemma rt_subst_plain cs vals s : mem LT s = false -> rt_subst cs vals None s = BOk s.
Proof.
  induction s as [|c s IH]; [reflexivity|]. rewrite mem_cons. intro H. apply orb_false_elim in H. destruct H as [H1 H2].
  cbn [rt_subst]. rewrite N.eqb_sym, H1, (IH H2). reflexivity.
Qed.

Lemma rt_subst_name cs vals n acc rest : mem GT n = false ->
  rt_subst cs vals (Some acc) (n ++ GT :: rest)
  = if is_nil (acc ++ n) then bbind (rt_subst cs vals None rest) (fun t => BOk (LT :: GT :: t))
    else match dict_get (acc ++ n) vals, conv_get (acc ++ n) cs with
         | Some v, Some cv => bbind (to_url cv v) (fun u => bbind (rt_subst cs vals None rest) (fun t => BOk (u ++ t)))
         | _, _ => BUnsupported
         end.
Proof.
  revert acc. induction n as [|c n IH]; intros acc H.
  - cbn [app rt_subst]. rewrite N.eqb_refl, app_nil_r. reflexivity.
  - rewrite mem_cons in H. apply orb_false_elim in H. destruct H as [H1 H2].
    cbn [app rt_subst]. rewrite N.eqb_sym, H1. etransitivity; [exact (IH (acc ++ [c]) H2)|]. rewrite <- app_assoc. reflexivity.
Qed.

(* plain text, then <name>, then the rest: the variable is replaced by its converter's to_url of the matched value *)
Theorem rt_subst_var cs vals pre n rest v cv :
  mem LT pre = false -> mem GT n = false -> n <> [] ->
  dict_get n vals = Some v -> conv_get n cs = Some cv ->
  rt_subst cs vals None (pre ++ LT :: n ++ GT :: rest)
  = bbind (to_url cv v) (fun u => bbind (rt_subst cs vals None rest) (fun t => BOk (pre ++ u ++ t))).
Proof.
  intros Hp Hn Hne Hv Hc. induction pre as [|c pre IH].
  - cbn [app rt_subst]. rewrite N.eqb_refl. etransitivity; [exact (rt_subst_name cs vals n [] rest Hn)|]. cbn [app].
    destruct n; [contradiction|]. cbn [is_nil]. rewrite Hv, Hc. reflexivity.
  - rewrite mem_cons in Hp. apply orb_false_elim in Hp. destruct Hp as [H1 H2].
    cbn [app rt_subst]. rewrite N.eqb_sym, H1, (IH H2).
    destruct (to_url cv v) as [u| |]; cbn [bbind]; try reflexivity.
    destruct (rt_subst cs vals None rest) as [t| |]; reflexivity.
Qed.

(* where a redirect_to redirect points: scheme://host/script-root/ of the adapter, then the substituted template, which is a
   relative reference without a leading slash (it cannot replace the authority) *)
Theorem redirect_to_on_base m a r vals tpl u :
  redirect_to_url m a r vals tpl = BOk u ->
  exists t, rt_subst (rule_convs r) vals None tpl = BOk t /\ u = redirect_base m a ++ t
    /\ starts_with [SLASH] t = false /\ t <> [].
Proof.
  unfold redirect_to_url. destruct (rt_subst (rule_convs r) vals None tpl) as [t| |]; cbn [bbind]; try discriminate.
  destruct (plain_reference t) eqn:Ep; cbn [andb]; [|discriminate]. destruct (no_dot_segments (lstrip_slash (script_name a))); [|discriminate].
  intro H. injection H as <-. exists t. split; [reflexivity|]. split; [reflexivity|].
  unfold plain_reference in Ep. apply andb_prop in Ep. destruct Ep as [Ep _]. apply andb_prop in Ep. destruct Ep as [Ep _].
  apply andb_prop in Ep. destruct Ep as [E1 E2]. split.
  - destruct (starts_with [SLASH] t); [discriminate|reflexivity].
  - intros ->. discriminate.
Qed.

(* a rule with redirect_to answers with RequestRedirect to exactly that URL, after the defaults / alias canonicalisation *)
Theorem router_match_rt_spec rt m a p me :
  match router_match m a p me with
  | Match r vs =>
      match rt (r_idx r) with
      | None => router_match_rt rt m a p me = Match r vs
      | Some tpl => forall u, redirect_to_url m a r vs tpl = BOk u -> router_match_rt rt m a p me = RedirectTo u
      end
  | o => router_match_rt rt m a p me = o
  end.
Proof.
  unfold router_match_rt. destruct (router_match m a p me) as [r vs| | | | |]; try reflexivity.
  destruct (rt (r_idx r)) as [tpl|]; [|reflexivity]. intros u H. rewrite H. reflexivity.
Qed.

(* Rule('/<int(max=5):a>/', redirect_to='new/<a>/x'): '/3/' -> http://example.com/new/3/x *)
Lemma ex_redirect_to :
  router_match_rt (fun i => if i =? 0 then Some [110; 101; 119; 47; 60; 97; 62; 47; 120] else None) ex_map2 ex_adapter [47; 51; 47] GET
  = RedirectTo (HTTP ++ [COLON; SLASH; SLASH] ++ a_server ex_adapter ++ [47; 110; 101; 119; 47; 51; 47; 120]).
Proof. vm_compute. reflexivity. Qed.

(* ================================================================== the scheme of the build-based redirects
   The alias redirect is MapAdapter.build(endpoint, values, method, force_external=True): ws / wss for a websocket rule,
   http / https for any other, of the security (TLS or not) of the scheme the adapter is bound with - for the four
   schemes an adapter is bound with, and never a downgrade from wss / https.  (The defaults redirect is
   make_redirect_url: C12_websocket_redirect_scheme.)  The url_scheme argument of MapAdapter.build is not modelled:
   the router does not pass it. *)
Theorem build_scheme_table a ws_rule :
  ((a_scheme a = HTTPS \/ a_scheme a = WSS) -> build_scheme a ws_rule = if ws_rule then WSS else HTTPS)
  /\ ((a_scheme a = HTTP \/ a_scheme a = WS) -> build_scheme a ws_rule = if ws_rule then WS else HTTP).
Proof. split; intros [E|E]; unfold build_scheme; rewrite E; destruct ws_rule; reflexivity. Qed.

Theorem alias_redirect_scheme m a meth rule0 vals u :
  alias_redirect_url m a meth rule0 vals = BOk u ->
  exists r rest, In r (m_rules m) /\ r_endpoint r = r_endpoint rule0
    /\ u = (if is_nil (build_scheme a (r_websocket r)) then [] else build_scheme a (r_websocket r) ++ [COLON]) ++ [SLASH; SLASH] ++ rest.
Proof.
  unfold alias_redirect_url, adapter_build.
  destruct (pbuild m a (rules_for m (r_endpoint rule0)) vals (Some meth)) as [[[[r dp] path]|]| |] eqn:Ep; cbn [bbind]; try discriminate.
  apply pbuild_sound in Ep. destruct Ep as [Hin Hb]. apply rules_for_in in Hin. destruct Hin as [H1 H2].
  cbn [orb negb andb bbind]. intro H. injection H as <-. exists r. eexists. split; [exact H1|]. split; [exact H2|].
  unfold build_scheme. repeat first [rewrite <- app_assoc | progress cbn [app]]. reflexivity.
Qed.

(* wss://example.com/old under Rule('/new', websocket=True) + Rule('/old', websocket=True, alias=True) -> wss://example.com/new *)
Definition cx_ws_new : rule :=
  {| r_idx := 0; r_endpoint := 3; r_dom := SLit []; r_segs := [SLit [110; 101; 119]]; r_tail := None; r_branch := false;
     r_methods := None; r_strict_opt := None; r_merge_opt := None; r_websocket := true; r_alias := false; r_defaults := [] |}.
Definition cx_ws_old : rule :=
  {| r_idx := 1; r_endpoint := 3; r_dom := SLit []; r_segs := [SLit [111; 108; 100]]; r_tail := None; r_branch := false;
     r_methods := None; r_strict_opt := None; r_merge_opt := None; r_websocket := true; r_alias := true; r_defaults := [] |}.
Lemma ex_wss_alias :
  router_match (mk_map [cx_ws_new; cx_ws_old])
    {| a_scheme := WSS; a_server := a_server ex_adapter; a_script := [SLASH]; a_subdomain := None; a_query := [] |} [47; 111; 108; 100] GET
  = RedirectTo (WSS ++ [COLON; SLASH; SLASH] ++ a_server ex_adapter ++ [47; 110; 101; 119]).
Proof. vm_compute. reflexivity. Qed.

(* ================================================================== Rule(build_only=True) *)
Lemma matchable_in bo mall r : In r (m_rules (matchable bo mall)) -> In r (m_rules mall) /\ bo (r_idx r) = false.
Proof.
  cbn [matchable m_rules]. intro H. apply filter_In in H. destruct H as [H1 H2]. split; [exact H1|].
  destruct (bo (r_idx r)); [discriminate|reflexivity].
Qed.

(* a build_only rule never answers a request, and never is the rule a defaults redirect is built from *)
Theorem build_only_never_matches bo mall a p me r vs :
  router_match_bo bo mall a p me = Match r vs -> In r (m_rules mall) /\ bo (r_idx r) = false.
Proof.
  unfold router_match_bo, map_match, adapter_match. fold (upper me).
  destruct (matcher_run (matchable bo mall) (trie_of (matchable bo mall)) (domain_part (matchable bo mall) a) (path_part p) (upper me) (a_websocket a))
    as [r0 v0|p'|hm wsm] eqn:E; [|discriminate|destruct (negb (is_nil hm)); [discriminate|destruct wsm; discriminate]].
  apply matcher_ok_sound in E. destruct E as (Hin & _).
  destruct (r_alias r0 && m_redirect_defaults (matchable bo mall)).
  - cbn [h_alias]. destruct (alias_redirect_url mall a (upper me) r0 _); discriminate.
  - destruct (m_redirect_defaults (matchable bo mall)).
    + cbn [h_default]. destruct (get_default_redirect (matchable bo mall) a (upper me) r0 _) as [[u|]| |]; try discriminate.
      intro H. injection H as <- _. exact (matchable_in _ _ _ Hin).
    + intro H. injection H as <- _. exact (matchable_in _ _ _ Hin).
Qed.

Theorem build_only_never_provides_defaults bo mall a meth rule0 vals u :
  get_default_redirect (matchable bo mall) a meth rule0 vals = BOk (Some u) ->
  exists r dp, In r (m_rules mall) /\ bo (r_idx r) = false /\ provides_defaults_for r rule0 = true
    /\ build_rule r (dict_update vals (r_defaults r)) = BOk dp /\ u = make_redirect_url (matchable bo mall) a (snd dp) (Some (fst dp)).
Proof.
  unfold get_default_redirect. intro H.
  destruct (default_loop_found _ _ _ _ _ _ _ H) as (pre & r & post & dp & HL & _ & _ & Hprov & _ & Hb & Hu).
  assert (HinL : In r (rules_for (matchable bo mall) (r_endpoint rule0))) by (rewrite HL; apply in_or_app; right; left; reflexivity).
  destruct (rules_for_in _ _ _ HinL) as [Hin _]. destruct (matchable_in _ _ _ Hin) as [H1 H2].
  exists r, dp. auto 6.
Qed.

(* Map([Rule('/', defaults={'x': 1}, build_only=True, endpoint=e), Rule('/g/<int:x>', endpoint=e)]): '/g/1' is answered, not redirected *)
Definition cx_bo : rule :=
  {| r_idx := 5; r_endpoint := 7; r_dom := SLit []; r_segs := []; r_tail := None;
     r_branch := true; r_methods := None; r_strict_opt := None; r_merge_opt := None; r_websocket := false; r_alias := false;
     r_defaults := [(LX, VInt 1)] |}.
Lemma ex_build_only :
  router_match_bo (fun i => i =? 5) (mk_map [cx_bo; cx_var]) ex_adapter [47; 103; 47; 49] GET = Match cx_var [(LX, VInt 1)]
  /\ router_match_bo (fun i => i =? 5) (mk_map [cx_bo; cx_var]) ex_adapter [47] GET = NotFound
  /\ exists u, router_match (mk_map [cx_bo; cx_var]) ex_adapter [47; 103; 47; 49] GET = RedirectTo u.
Proof. split; [vm_compute; reflexivity|]. split; [vm_compute; reflexivity|]. eexists. vm_compute. reflexivity. Qed.
