(* C12 property theorems (statements only).  Model: C03/Model.v (matcher, MapAdapter.match,
   make_redirect_url, quote, urlunsplit) + C12/Model.v (url_root, on_host). *)
From Coq Require Import ZArith.
From Wz Require Import lib.Bytes lib.Utf8 C03.Gen C03.Trie C03.Model C03.Proofs C04.Model C04.MapProofs C04.SubdomainProofs
  C12.Model C12.Proofs C12.Converge C12.ConvergeProofs C12.CanonProofs.
Open Scope N_scope.

(* every redirect MapAdapter.match issues for a missing trailing slash or for merged slashes is
     scheme://host/script-root/ ++ rest ++ ?query
   with the bound scheme, host and script root, a rest that cannot re-open the authority (no leading
   slash) and has no ? or #, and the bound query string - for every request path, including
   //host/... forms.  The only other redirects are those whose target the URL builder supplies
   (alias / defaults canonicalisation: second disjunct, characterised in C12_builder_on_host). *)
Theorem C12_on_host_path_redirects : forall h m a p me u,
  has (eff_scheme a) uses_netloc = true ->
  map_match h m a p me = RedirectTo u ->
  on_host m a None u
  \/ exists r v, In r (m_rules m) /\ admits m r (request_parts m a p) = ADirect _ v
       /\ m_redirect_defaults m = true
       /\ (r_alias r = true /\ h_alias h m a (upper me) r (dict_update v (r_defaults r)) = BOk u
           \/ h_default h m a (upper me) r (dict_update v (r_defaults r)) = BOk (Some u)).
Proof. exact on_host_or_builder. Qed.
Print Assumptions C12_on_host_path_redirects.

(* the hypothesis is satisfiable and the conclusion non-trivial: '//evil.com/3' under
   Rule('/evil.com/<int(max=5):a>/') bound to https://example.com/app with query q=1 is redirected to
   https://example.com/app/evil.com/3/?q=1 *)
Example C12_on_host_example :
  map_match no_hooks (mk_map [ex_r3]) ex_adapter_app [47; 47; 101; 118; 105; 108; 46; 99; 111; 109; 47; 51] GET
  = RedirectTo ([104; 116; 116; 112; 115; 58; 47; 47] ++ a_server ex_adapter ++ [47; 97; 112; 112; 47]
                ++ [101; 118; 105; 108; 46; 99; 111; 109; 47; 51; 47] ++ [63; 113; 61; 49])
  /\ has (eff_scheme ex_adapter_app) uses_netloc = true.
Proof. exact ex_evil. Qed.
Print Assumptions C12_on_host_example.

(* make_redirect_url in general (also used for defaults redirects, with the built domain part) *)
Theorem C12_make_redirect_url : forall m a path dp,
  has (eff_scheme a) uses_netloc = true ->
  make_redirect_url m a path dp = url_root m a dp ++ lstrip_slash path ++ query_suffix a.
Proof. exact make_redirect_url_shape. Qed.
Print Assumptions C12_make_redirect_url.

(* C12_on_host at full strength, for MapAdapter.match with everything the router does on its own
   (router_match: defaults and alias canonicalisation through the URL builder of C04/Model.v):
   a redirect is either a slash / merged-slash redirect, on the bound scheme, host and script root, or the
   canonical URL the builder produced for a rule of the map with the endpoint of the matched rule:
     defaults: url_root(scheme://host(dp)/script-root/) ++ built path without leading slashes ++ ?query
     alias:    alias_root(http(s)://host(dp) + script_name) ++ built path without leading slashes ++ ?query
   where dp is the domain part built for that rule (its subdomain / host pattern filled with the matched values). *)
Theorem C12_on_host : forall m a p me u,
  has (eff_scheme a) uses_netloc = true ->
  router_match m a p me = RedirectTo u ->
  on_host m a None u
  \/ exists r v, In r (m_rules m) /\ admits m r (request_parts m a p) = ADirect _ v
       /\ builder_target m a (r_endpoint r) u.
Proof. exact router_on_host. Qed.
Print Assumptions C12_on_host.

Example C12_defaults_example :
  router_match (mk_map [ex_all; ex_page]) ex_adapter_app ([47] ++ ALL ++ [47] ++ PAGE ++ [47; 49]) GET
  = RedirectTo ([104; 116; 116; 112; 115; 58; 47; 47] ++ a_server ex_adapter ++ [47; 97; 112; 112; 47] ++ ALL ++ [47; 63; 113; 61; 49])
  /\ router_match (mk_map [ex_all; ex_page]) ex_adapter_app ([47] ++ ALL ++ [47] ++ PAGE ++ [47; 50]) GET
     = Match ex_page [(PAGE, VInt 2)].
Proof. exact ex_defaults. Qed.
Print Assumptions C12_defaults_example.

(* without host matching, every host the router puts into a redirect is the bound server name,
   alone or behind a subdomain label - never text from the request path in authority position *)
Theorem C12_host_is_bound_server : forall m a dp,
  m_host_matching m = false ->
  exists sub, get_host m a dp = (if is_nil sub then [] else sub ++ [DOT]) ++ a_server a.
Proof. exact get_host_bound. Qed.
Print Assumptions C12_host_is_bound_server.

(* C12_converges, partial: DESIGN.md plans "the target matches, for the rule that caused the redirect,
   without a further redirect of the same kind".  Proved here for every slash / merged-slash redirect:
   the rule that caused it admits the target path p' directly for the same method and protocol, hence
   (C03_served_never_refused) the follow-up request for any path_info addressing p' is answered by a
   match or a redirect, never NotFound / MethodNotAllowed.  NOT proved (what "partial" stands for): that
   this answer is a match of that very rule with no further hop - that needs the priority order on the
   candidates of p' and is checked by the harness, which follows every redirect (c12.py, judge_c12).
   rule_wf: path converters only as the trailing segment, no empty literal segment (the C03 grammar);
   uniform_merge: merge_slashes set at map level.  The second disjunct is the builder's redirects. *)
Theorem C12_converges_partial : forall m a p me u,
  (forall r, In r (m_rules m) -> rule_wf r = true) -> uniform_merge m ->
  router_match m a p me = RedirectTo u ->
  (exists p', u = make_redirect_url m a (quote safe_redirect p') None
     /\ (exists r v, In r (m_rules m) /\ admits m r (domain_part m a :: split_slash p') = ADirect _ v
                     /\ rmethod_ok r (upper me) = true /\ r_websocket r = a_websocket a)
     /\ forall p2, path_part p2 = p' ->
          (exists r' vs, router_match m a p2 me = Match r' vs) \/ (exists u', router_match m a p2 me = RedirectTo u')
          \/ (exists e, router_match m a p2 me = Raised e))
  \/ (exists r v, In r (m_rules m) /\ admits m r (request_parts m a p) = ADirect _ v /\ m_redirect_defaults m = true
        /\ (r_alias r = true /\ alias_redirect_url m a (upper me) r (dict_update v (r_defaults r)) = BOk u
            \/ get_default_redirect m a (upper me) r (dict_update v (r_defaults r)) = BOk (Some u))).
Proof. exact converges_partial. Qed.
Print Assumptions C12_converges_partial.

Example C12_converges_example :
  (forall r, In r (m_rules (mk_map [ex_r3])) -> rule_wf r = true) /\ uniform_merge (mk_map [ex_r3])
  /\ exists u, router_match (mk_map [ex_r3]) ex_adapter_app [47; 47; 101; 118; 105; 108; 46; 99; 111; 109; 47; 51] GET = RedirectTo u.
Proof. exact ex_converges_hyps. Qed.
Print Assumptions C12_converges_example.

(* the redirect URL addresses that target: behind the root, percent-decoded, is the target path *)
Theorem C12_redirect_addresses_target : forall m a p',
  has (eff_scheme a) uses_netloc = true -> valid_text p' = true ->
  exists rest, make_redirect_url m a (quote safe_redirect p') None = url_root m a None ++ rest ++ query_suffix a
               /\ unquote rest = lstrip_slash p'.
Proof. exact redirect_url_addresses_target. Qed.
Print Assumptions C12_redirect_addresses_target.

(* C12_converges, one hop (stronger than C12_converges_partial on the router side): after a slash or
   merged-slash redirect to the path p', the matcher answers the follow-up request with a direct match
   (MOk r' v'): no further slash / merged-slash redirect, no NotFound / MethodNotAllowed.  The adapter
   then returns that match, unless redirect_defaults makes the URL builder canonicalise it (alias / defaults).
   rule_wf2: the C03 grammar - path converter only as trailing segment, no empty literal segment, no variable
   segment that matches the empty text.  No assumption on merge_slashes settings.
   That r' is the rule that caused the redirect, with the same arguments, is C12_converges below (maps without a
   trailing path converter); here r' is a priority-minimal rule serving the target (C03_priority), among whose
   serving candidates the causing rule is (C12_converges_partial). *)
Theorem C12_converges_one_hop : forall m a p me u,
  (forall r, In r (m_rules m) -> rule_wf2 r = true) ->
  router_match m a p me = RedirectTo u ->
  (exists p', u = make_redirect_url m a (quote safe_redirect p') None
     /\ exists r' v', matcher_run m (trie_of m) (domain_part m a) p' (upper me) (a_websocket a) = MOk rule (list (str * value)) r' v'
        /\ forall p2, path_part p2 = p' ->
             router_match m a p2 me = Match r' (dict_update v' (r_defaults r'))
             \/ (m_redirect_defaults m = true
                 /\ ((exists u', router_match m a p2 me = RedirectTo u') \/ (exists e, router_match m a p2 me = Raised e))))
  \/ (exists r v, In r (m_rules m) /\ admits m r (request_parts m a p) = ADirect _ v /\ m_redirect_defaults m = true
        /\ (r_alias r = true /\ alias_redirect_url m a (upper me) r (dict_update v (r_defaults r)) = BOk u
            \/ get_default_redirect m a (upper me) r (dict_update v (r_defaults r)) = BOk (Some u))).
Proof. exact converges_one_hop. Qed.
Print Assumptions C12_converges_one_hop.

Example C12_converges_one_hop_example :
  (forall r, In r (m_rules (mk_map [ex_r3])) -> rule_wf2 r = true)
  /\ exists u, router_match (mk_map [ex_r3]) ex_adapter_app [47; 47; 101; 118; 105; 108; 46; 99; 111; 109; 47; 51] GET = RedirectTo u.
Proof. exact ex_one_hop_hyps. Qed.
Print Assumptions C12_converges_one_hop_example.

(* C12_converges (no longer partial), for maps whose rules have no trailing <path:name> (rule_wf3 = rule_wf2
   + no trailing path converter + a host part that does not match the empty text): the request for the
   target p' of a slash / merged-slash redirect is answered by the rule r that caused the redirect, with the
   same arguments v:
     caused_redirect m domain path r v p'  :=
         p' = path/        and r, a strict rule ending in a slash, admits path without its slash, its own parts
                           capturing the texts that convert to v                       (slash_args)
       | p' = merged/      the same for the merged path (merge_slashes)
       | p' = merged       and r admits the merged path directly with v.
   The proof is an order isomorphism between the two searches (C12/Converge.v): in a tree whose variable
   parts look at one segment each, every candidate of the search for path ++ [""] is a candidate of the search
   for path, of the same kind or KSlash turned KHere, in the same order; so the first hit of the first search
   (the rule that raised SlashRequired) is the first hit of the second.
   What remains outside: rules with a trailing path converter.  There a path part consumes several segments and
   "/a/b" vs "/a/b/" can be split differently between a non-greedy path part and what follows; for these
   C12_converges_one_hop (a direct match of a priority-minimal serving rule) is what is proved.  Neither a proof nor a
   refutation of the same-rule clause was obtained for them: extending Converge.v needs, per tree node, the number of
   captures made so far (the hit status of a candidate behind a non-suffixed path part must not depend on the captured
   text, which holds only at the position of the path converter).  On the implementation no counter-example exists in
   the campaigns: tools/c12.py same_rule_campaign reads the rule and the captures off the interpreter at the moment
   SlashRequired is raised and requires the redirect target to be answered by that rule with those arguments (maps of
   path-tail rules, 40k+ redirects in a one-off run, ~1.1k per quick run); judge_c12 checks endpoint and arguments on
   every followed redirect. *)
Theorem C12_converges : forall m a p me u,
  (forall r, In r (m_rules m) -> rule_wf3 r = true) ->
  router_match m a p me = RedirectTo u ->
  (exists p' r v, u = make_redirect_url m a (quote safe_redirect p') None
     /\ In r (m_rules m) /\ rmethod_ok r (upper me) = true /\ r_websocket r = a_websocket a
     /\ caused_redirect m (domain_part m a) (path_part p) r v p'
     /\ matcher_run m (trie_of m) (domain_part m a) p' (upper me) (a_websocket a) = MOk rule (list (str * value)) r v
     /\ forall p2, path_part p2 = p' ->
          router_match m a p2 me = Match r (dict_update v (r_defaults r))
          \/ (m_redirect_defaults m = true
              /\ ((exists u', router_match m a p2 me = RedirectTo u') \/ (exists e, router_match m a p2 me = Raised e))))
  \/ (exists r v, In r (m_rules m) /\ admits m r (request_parts m a p) = ADirect _ v /\ m_redirect_defaults m = true
        /\ (r_alias r = true /\ alias_redirect_url m a (upper me) r (dict_update v (r_defaults r)) = BOk u
            \/ get_default_redirect m a (upper me) r (dict_update v (r_defaults r)) = BOk (Some u))).
Proof. exact converges. Qed.
Print Assumptions C12_converges.

Example C12_converges_hyps_example :
  (forall r, In r (m_rules (mk_map [ex_r3])) -> rule_wf3 r = true)
  /\ exists u, router_match (mk_map [ex_r3]) ex_adapter_app [47; 47; 101; 118; 105; 108; 46; 99; 111; 109; 47; 51] GET = RedirectTo u.
Proof. exact ex_converges_same_hyps. Qed.
Print Assumptions C12_converges_hyps_example.

(* The second disjunct of C12_converges: the defaults canonicalisation converges in one hop.
   get_default_redirect answered the match of rule0 (values vals) with the URL u.  Then u was built by a rule r
   of the same endpoint that provides defaults for rule0, and the request for u - same method, an adapter a2
   bound to the host that u names - is answered by r itself, with the values r captures from the URL and its
   defaults, and is not redirected again.  Hypotheses (what the generator of tools/c12.py enforces for every
   defaults / alias group):
     - r builds a well-formed URL from the values (the C04 derivation dom_built / segs_built / tail_built),
     - vals carries every argument of rule0 (the values of a match do) and no float,
     - r is not shadowed: no other rule of the map admits the URL r built,
     - no other rule of the endpoint has the trace of rule0 (Rule.__eq__),
     - r is not an alias and serves the protocol of the adapter.
   Without "not shadowed" / "distinct traces" the router can answer the follow-up with another redirect, and a
   pair of rules that shadow each other can send a client back and forth; such maps are outside the statement. *)
Theorem C12_defaults_converge : forall m a a2 me rule0 vals u,
  get_default_redirect m a (upper me) rule0 vals = BOk (Some u) ->
  exists r dom path,
    In r (m_rules m) /\ provides_defaults_for r rule0 = true
    /\ build_rule r (dict_update vals (r_defaults r)) = BOk (dom, path)
    /\ u = make_redirect_url m a path (Some dom)
    /\ forall dt dcaps dvs ts caps vs tts restP tcaps tvs k rest,
        dom_built (r_defaults r) (dict_update vals (r_defaults r)) (r_dom r) dt dcaps dvs -> r_segs r = SLit k :: rest ->
        segs_built (r_defaults r) (dict_update vals (r_defaults r)) (r_segs r) ts caps vs ->
        tail_built (r_defaults r) (dict_update vals (r_defaults r)) (is_branch r) (r_tail r) tts restP tcaps tvs ->
        (forall k, In k (rule_arguments rule0) -> dict_has k vals = true) ->
        (forall k x, dict_get k vals = Some x -> reval x = x) ->
        (forall r', In r' (m_rules m) -> admits m r' (dom :: [] :: ts ++ restP) <> ANo (list (str * value)) -> r' = r) ->
        (forall r', In r' (m_rules m) -> r_endpoint r' = r_endpoint rule0 ->
                    trace_eqb (rule_trace r') (rule_trace rule0) = true -> r_idx r' = r_idx rule0) ->
        r_alias r = false -> r_websocket r = a_websocket a2 -> domain_part m a2 = dom ->
        router_match m a2 (unquote path) me = Match r (dict_update (dvs ++ vs ++ tvs) (r_defaults r)).
Proof. exact defaults_converge. Qed.
Print Assumptions C12_defaults_converge.

(* Map([Rule('/g/<int:x>', endpoint=e), Rule('/g', defaults={'x': 1}, endpoint=e), Rule('/old/<int:x>', endpoint=e, alias=True)]):
   the match of '/g/1' is redirected to http://example.com/g, and (by the theorem, all hypotheses discharged)
   '/g' is answered by the defaults rule with x = 1 *)
Example C12_defaults_converge_example :
  get_default_redirect cx_map ex_adapter (upper GET) cx_var [(LX, VInt 1)] = BOk (Some (HTTP ++ [COLON; SLASH; SLASH] ++ a_server ex_adapter ++ [47; 103]))
  /\ router_match cx_map ex_adapter [47; 103] GET = Match cx_def [(LX, VInt 1)].
Proof. exact cx_defaults_converge. Qed.
Print Assumptions C12_defaults_converge_example.

(* ... and the alias canonicalisation (host_matching off): the URL is built by the first rule r of the endpoint,
   in build order, that is suitable for the values; the request for it is answered by r and not redirected again,
   when r is not itself an alias (the endpoint has a canonical rule - see observation 1 below for what happens
   otherwise), the alias rule carries the arguments of r, and r is not shadowed. *)
Theorem C12_alias_converge : forall m a a2 me rule0 vals u,
  m_host_matching m = false ->
  alias_redirect_url m a (upper me) rule0 vals = BOk u ->
  exists r dom path u0,
    In r (m_rules m) /\ r_endpoint r = r_endpoint rule0
    /\ build_rule r vals = BOk (dom, path)
    /\ adapter_build m a (r_endpoint rule0) vals (Some (upper me)) true = BOk (Some u0) /\ u = u0 ++ query_suffix a
    /\ partial_build (rules_for m (r_endpoint rule0)) vals (Some (upper me)) = BOk (Some (r, dom, path))
    /\ forall dt dcaps dvs ts caps vs tts restP tcaps tvs k rest,
        dom_built (r_defaults r) vals (r_dom r) dt dcaps dvs -> r_segs r = SLit k :: rest ->
        segs_built (r_defaults r) vals (r_segs r) ts caps vs ->
        tail_built (r_defaults r) vals (is_branch r) (r_tail r) tts restP tcaps tvs ->
        (forall k, In k (rule_arguments r) -> dict_has k vals = true) ->
        (forall k x, dict_get k vals = Some x -> reval x = x) ->
        (forall r', In r' (m_rules m) -> admits m r' (dom :: [] :: ts ++ restP) <> ANo (list (str * value)) -> r' = r) ->
        r_alias r = false -> r_websocket r = a_websocket a2 -> domain_part m a2 = dom ->
        router_match m a2 (unquote path) me = Match r (dict_update (dvs ++ vs ++ tvs) (r_defaults r)).
Proof. exact alias_converge. Qed.
Print Assumptions C12_alias_converge.

(* '/old/1' of the same map is redirected to http://example.com/g *)
Example C12_alias_converge_example :
  router_match cx_map ex_adapter [47; 111; 108; 100; 47; 49] GET
  = RedirectTo (HTTP ++ [COLON; SLASH; SLASH] ++ a_server ex_adapter ++ [47; 103])
  /\ alias_redirect_url cx_map ex_adapter (upper GET) cx_old [(LX, VInt 1)]
     = BOk (HTTP ++ [COLON; SLASH; SLASH] ++ a_server ex_adapter ++ [47; 103]).
Proof. exact cx_alias_converge. Qed.
Print Assumptions C12_alias_converge_example.

(* the scheme of a redirect: every URL make_redirect_url produces carries the scheme the adapter is bound with; an adapter
   bound to a websocket request (url_scheme ws / wss, set by bind_to_environ from the Upgrade header - pinned in Gen.v)
   redirects to a ws:// resp. wss:// URL.  The subdomain an adapter is bound with is an input of the model: the harness
   resolves Map.default_subdomain and the "<invalid>" subdomain of a server_name mismatch (both statements pinned). *)
Theorem C12_websocket_redirect_scheme : forall m a path dp,
  a_websocket a = true ->
  (a_scheme a = WS \/ a_scheme a = WSS)
  /\ exists rest, make_redirect_url m a path dp = a_scheme a ++ [COLON; SLASH; SLASH] ++ rest.
Proof. exact websocket_redirect_scheme. Qed.
Print Assumptions C12_websocket_redirect_scheme.

Example C12_websocket_redirect_example :
  a_websocket ex_adapter_ws = true
  /\ map_match no_hooks (mk_map [{| r_idx := 0; r_endpoint := 0; r_dom := SLit []; r_segs := [SDyn [] (CInt 0 None (Some 5%Z) false) [97] []];
                                    r_tail := None; r_branch := true; r_methods := None; r_strict_opt := None; r_merge_opt := None;
                                    r_websocket := true; r_alias := false; r_defaults := [] |}]) ex_adapter_ws [47; 51] GET
     = RedirectTo (WS ++ [COLON; SLASH; SLASH] ++ a_server ex_adapter ++ [47; 51; 47]).
Proof. exact ex_ws_redirect. Qed.
Print Assumptions C12_websocket_redirect_example.

(* the scheme of the build-based redirects: the alias redirect is MapAdapter.build(force_external=True) - ws / wss for a
   websocket rule, http / https for any other rule, of the security of the scheme the adapter is bound with (http, https,
   ws, wss; an https request with Upgrade: websocket is bound as wss - pinned): never a downgrade.  The url_scheme argument
   of MapAdapter.build is not modelled (the router does not pass it). *)
Theorem C12_alias_redirect_scheme : forall m a meth rule0 vals u,
  alias_redirect_url m a meth rule0 vals = BOk u ->
  exists r rest, In r (m_rules m) /\ r_endpoint r = r_endpoint rule0
    /\ u = (if is_nil (build_scheme a (r_websocket r)) then [] else build_scheme a (r_websocket r) ++ [COLON]) ++ [SLASH; SLASH] ++ rest.
Proof. exact alias_redirect_scheme. Qed.
Print Assumptions C12_alias_redirect_scheme.

Theorem C12_build_scheme_table : forall a ws_rule,
  ((a_scheme a = HTTPS \/ a_scheme a = WSS) -> build_scheme a ws_rule = if ws_rule then WSS else HTTPS)
  /\ ((a_scheme a = HTTP \/ a_scheme a = WS) -> build_scheme a ws_rule = if ws_rule then WS else HTTP).
Proof. exact build_scheme_table. Qed.
Print Assumptions C12_build_scheme_table.

Example C12_wss_alias_example :
  router_match (mk_map [cx_ws_new; cx_ws_old])
    {| a_scheme := WSS; a_server := a_server ex_adapter; a_script := [SLASH]; a_subdomain := None; a_query := [] |} [47; 111; 108; 100] GET
  = RedirectTo (WSS ++ [COLON; SLASH; SLASH] ++ a_server ex_adapter ++ [47; 110; 101; 119]).
Proof. exact ex_wss_alias. Qed.
Print Assumptions C12_wss_alias_example.

(* Rule(build_only=True) (C12/Model.v: matchable, router_match_bo): such a rule is not given to the matcher and provides no
   defaults, but MapAdapter.build sees it.  It never answers a request, and a defaults redirect is never built from it. *)
Theorem C12_build_only_never_matches : forall bo mall a p me r vs,
  router_match_bo bo mall a p me = Match r vs -> In r (m_rules mall) /\ bo (r_idx r) = false.
Proof. exact build_only_never_matches. Qed.
Print Assumptions C12_build_only_never_matches.

Theorem C12_build_only_never_provides_defaults : forall bo mall a meth rule0 vals u,
  get_default_redirect (matchable bo mall) a meth rule0 vals = BOk (Some u) ->
  exists r dp, In r (m_rules mall) /\ bo (r_idx r) = false /\ provides_defaults_for r rule0 = true
    /\ build_rule r (dict_update vals (r_defaults r)) = BOk dp /\ u = make_redirect_url (matchable bo mall) a (snd dp) (Some (fst dp)).
Proof. exact build_only_never_provides_defaults. Qed.
Print Assumptions C12_build_only_never_provides_defaults.

(* Map([Rule('/', defaults={'x': 1}, build_only=True, endpoint=e), Rule('/g/<int:x>', endpoint=e)]): '/g/1' is answered, '/' is
   NotFound; without build_only the same map redirects '/g/1' *)
Example C12_build_only_example :
  router_match_bo (fun i => i =? 5) (mk_map [cx_bo; cx_var]) ex_adapter [47; 103; 47; 49] GET = Match cx_var [(LX, VInt 1)]
  /\ router_match_bo (fun i => i =? 5) (mk_map [cx_bo; cx_var]) ex_adapter [47] GET = NotFound
  /\ exists u, router_match (mk_map [cx_bo; cx_var]) ex_adapter [47; 103; 47; 49] GET = RedirectTo u.
Proof. exact ex_build_only. Qed.
Print Assumptions C12_build_only_example.

(* Rule.redirect_to with a string template (C12/Model.v: rt_subst, redirect_to_url, router_match_rt; the callable form is a
   user function and outside the model).  A rule with redirect_to answers with RequestRedirect to exactly the substituted
   target, after the defaults / alias canonicalisation; every other outcome is that of router_match. *)
Theorem C12_redirect_to_target : forall rt m a p me,
  match router_match m a p me with
  | Match r vs =>
      match rt (r_idx r) with
      | None => router_match_rt rt m a p me = Match r vs
      | Some tpl => forall u, redirect_to_url m a r vs tpl = BOk u -> router_match_rt rt m a p me = RedirectTo u
      end
  | o => router_match_rt rt m a p me = o
  end.
Proof. exact router_match_rt_spec. Qed.
Print Assumptions C12_redirect_to_target.

(* the substitution: plain text, a variable in angle brackets, the rest *)
Theorem C12_redirect_to_subst : forall cs vals pre n rest v cv,
  mem LT pre = false -> mem GT n = false -> n <> [] ->
  dict_get n vals = Some v -> conv_get n cs = Some cv ->
  rt_subst cs vals None (pre ++ LT :: n ++ GT :: rest)
  = bbind (to_url cv v) (fun u => bbind (rt_subst cs vals None rest) (fun t => BOk (pre ++ u ++ t))).
Proof. exact rt_subst_var. Qed.
Print Assumptions C12_redirect_to_subst.

(* where it points: scheme://host/script-root/ of the adapter followed by the substituted template, a relative reference
   without leading slash (the on-host clause for relative templates; unlike the router's own redirects the bound query
   string is not appended).  Absolute templates, templates with a scheme or with dot segments go through urljoin's
   resolution, which is not modelled (BUnsupported). *)
Theorem C12_redirect_to_on_base : forall m a r vals tpl u,
  redirect_to_url m a r vals tpl = BOk u ->
  exists t, rt_subst (rule_convs r) vals None tpl = BOk t /\ u = redirect_base m a ++ t
    /\ starts_with [SLASH] t = false /\ t <> [].
Proof. exact redirect_to_on_base. Qed.
Print Assumptions C12_redirect_to_on_base.

(* Rule('/<int(max=5):a>/', redirect_to='new/<a>/x'): '/3/' -> http://example.com/new/3/x *)
Example C12_redirect_to_example :
  router_match_rt (fun i => if i =? 0 then Some [110; 101; 119; 47; 60; 97; 62; 47; 120] else None) ex_map2 ex_adapter [47; 51; 47] GET
  = RedirectTo (HTTP ++ [COLON; SLASH; SLASH] ++ a_server ex_adapter ++ [47; 110; 101; 119; 47; 51; 47; 120]).
Proof. exact ex_redirect_to. Qed.
Print Assumptions C12_redirect_to_example.

(* Two behaviours observed while building this check, and why they are not findings of C12:

   1. An alias rule whose endpoint has no other (canonical) rule redirects to itself:
        Map([Rule('/old/<int:p>', endpoint='e', alias=True)]), GET /old/1 -> 308 to http://example.com/old/1, for ever.
      Rule's documentation defines alias=True as "an alias for another rule with the same endpoint and arguments": a map
      without that other rule violates the documented precondition of the option, so it is outside the maps C12 quantifies
      over (the generator always emits the canonical rule).  make_alias_redirect_url carries
      `assert url != path, "detected invalid alias setting..."`, meant to reject exactly this configuration, but it compares
      the built URL with the string domain|path and can never fire; worth reporting upstream, not a router-redirect defect.
      In the model the self-redirect is the RedirectTo outcome of alias_redirect_url; C12_on_host covers where it points.

   2. Defaults canonicalisation can raise instead of redirecting when the rules of one endpoint use different converters for
      the same argument:  Map([Rule('/y/<any(a,b):p>', defaults={'q': 1}, endpoint='e'), Rule('/x/<p>/<int:q>', endpoint='e')]),
      GET /x/zz/1 -> ValueError("'zz' is not one of 'a', 'b'") escapes MapAdapter.match (get_default_redirect builds the
      defaults rule with the matched values; AnyConverter.to_url validates and raises ValueError, which Rule.build does not
      catch).  No redirect is issued, so none of C12's clauses (where a redirect points, that following it converges) is
      about this request, and C03's grammar has no defaults; the model represents the outcome as Raised false
      (alias_redirect_url / get_default_redirect return BValueError) and C03_served_never_refused lists it as the third
      possibility.  The harness keeps the converters of one argument equal across the rules of an endpoint. *)
