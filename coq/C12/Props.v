(* C12 property theorems (statements only).  Model: C03/Model.v (matcher, MapAdapter.match,
   make_redirect_url, quote, urlunsplit) + C12/Model.v (url_root, on_host). *)
From Coq Require Import ZArith.
From Wz Require Import lib.Bytes lib.Utf8 C03.Gen C03.Trie C03.Model C03.Proofs C04.Model C12.Model C12.Proofs.
Open Scope N_scope.

(* every redirect MapAdapter.match issues for a missing trailing slash or for merged slashes is
     scheme://host/script-root/ ++ rest ++ ?query
   with the bound scheme, host and script root, a rest that cannot re-open the authority (no leading
   slash) and has no ? or #, and the bound query string - for every request path, including
   //host/... forms.  The only other redirects are those whose target the URL builder supplies
   (alias / defaults canonicalisation: second disjunct, characterised in C12_builder_on_host). *)
Theorem C12_on_host_path_redirects : forall h m a p me u,
  has (eff_scheme a) uses_netloc = true ->
  map_match h m a p me = RedirectTo u ->
  on_host m a None u
  \/ exists r v, In r (m_rules m) /\ admits m r (request_parts m a p) = ADirect _ v
       /\ m_redirect_defaults m = true
       /\ (r_alias r = true /\ h_alias h m a (upper me) r (dict_update v (r_defaults r)) = BOk u
           \/ h_default h m a (upper me) r (dict_update v (r_defaults r)) = BOk (Some u)).
Proof. exact on_host_or_builder. Qed.
Print Assumptions C12_on_host_path_redirects.

(* the hypothesis is satisfiable and the conclusion non-trivial: '//evil.com/3' under
   Rule('/evil.com/<int(max=5):a>/') bound to https://example.com/app with query q=1 is redirected to
   https://example.com/app/evil.com/3/?q=1 *)
Example C12_on_host_example :
  map_match no_hooks (mk_map [ex_r3]) ex_adapter_app [47; 47; 101; 118; 105; 108; 46; 99; 111; 109; 47; 51] GET
  = RedirectTo ([104; 116; 116; 112; 115; 58; 47; 47] ++ a_server ex_adapter ++ [47; 97; 112; 112; 47]
                ++ [101; 118; 105; 108; 46; 99; 111; 109; 47; 51; 47] ++ [63; 113; 61; 49])
  /\ has (eff_scheme ex_adapter_app) uses_netloc = true.
Proof. exact ex_evil. Qed.
Print Assumptions C12_on_host_example.

(* make_redirect_url in general (also used for defaults redirects, with the built domain part) *)
Theorem C12_make_redirect_url : forall m a path dp,
  has (eff_scheme a) uses_netloc = true ->
  make_redirect_url m a path dp = url_root m a dp ++ lstrip_slash path ++ query_suffix a.
Proof. exact make_redirect_url_shape. Qed.
Print Assumptions C12_make_redirect_url.

(* C12_on_host at full strength, for MapAdapter.match with everything the router does on its own
   (router_match: defaults and alias canonicalisation through the URL builder of C04/Model.v):
   a redirect is either a slash / merged-slash redirect, on the bound scheme, host and script root, or the
   canonical URL the builder produced for a rule of the map with the endpoint of the matched rule:
     defaults: url_root(scheme://host(dp)/script-root/) ++ built path without leading slashes ++ ?query
     alias:    alias_root(http(s)://host(dp) + script_name) ++ built path without leading slashes ++ ?query
   where dp is the domain part built for that rule (its subdomain / host pattern filled with the matched values). *)
Theorem C12_on_host : forall m a p me u,
  has (eff_scheme a) uses_netloc = true ->
  router_match m a p me = RedirectTo u ->
  on_host m a None u
  \/ exists r v, In r (m_rules m) /\ admits m r (request_parts m a p) = ADirect _ v
       /\ builder_target m a (r_endpoint r) u.
Proof. exact router_on_host. Qed.
Print Assumptions C12_on_host.

Example C12_defaults_example :
  router_match (mk_map [ex_all; ex_page]) ex_adapter_app ([47] ++ ALL ++ [47] ++ PAGE ++ [47; 49]) GET
  = RedirectTo ([104; 116; 116; 112; 115; 58; 47; 47] ++ a_server ex_adapter ++ [47; 97; 112; 112; 47] ++ ALL ++ [47; 63; 113; 61; 49])
  /\ router_match (mk_map [ex_all; ex_page]) ex_adapter_app ([47] ++ ALL ++ [47] ++ PAGE ++ [47; 50]) GET
     = Match ex_page [(PAGE, VInt 2)].
Proof. exact ex_defaults. Qed.
Print Assumptions C12_defaults_example.

(* without host matching, every host the router puts into a redirect is the bound server name,
   alone or behind a subdomain label - never text from the request path in authority position *)
Theorem C12_host_is_bound_server : forall m a dp,
  m_host_matching m = false ->
  exists sub, get_host m a dp = (if is_nil sub then [] else sub ++ [DOT]) ++ a_server a.
Proof. exact get_host_bound. Qed.
Print Assumptions C12_host_is_bound_server.

(* C12_converges, partial: DESIGN.md plans "the target matches, for the rule that caused the redirect,
   without a further redirect of the same kind".  Proved here for every slash / merged-slash redirect:
   the rule that caused it admits the target path p' directly for the same method and protocol, hence
   (C03_served_never_refused) the follow-up request for any path_info addressing p' is answered by a
   match or a redirect, never NotFound / MethodNotAllowed.  NOT proved (what "partial" stands for): that
   this answer is a match of that very rule with no further hop - that needs the priority order on the
   candidates of p' and is checked by the harness, which follows every redirect (c12.py, judge_c12).
   rule_wf: path converters only as the trailing segment, no empty literal segment (the C03 grammar);
   uniform_merge: merge_slashes set at map level.  The second disjunct is the builder's redirects. *)
Theorem C12_converges_partial : forall m a p me u,
  (forall r, In r (m_rules m) -> rule_wf r = true) -> uniform_merge m ->
  router_match m a p me = RedirectTo u ->
  (exists p', u = make_redirect_url m a (quote safe_redirect p') None
     /\ (exists r v, In r (m_rules m) /\ admits m r (domain_part m a :: split_slash p') = ADirect _ v
                     /\ rmethod_ok r (upper me) = true /\ r_websocket r = a_websocket a)
     /\ forall p2, path_part p2 = p' ->
          (exists r' vs, router_match m a p2 me = Match r' vs) \/ (exists u', router_match m a p2 me = RedirectTo u')
          \/ (exists e, router_match m a p2 me = Raised e))
  \/ (exists r v, In r (m_rules m) /\ admits m r (request_parts m a p) = ADirect _ v /\ m_redirect_defaults m = true
        /\ (r_alias r = true /\ alias_redirect_url m a (upper me) r (dict_update v (r_defaults r)) = BOk u
            \/ get_default_redirect m a (upper me) r (dict_update v (r_defaults r)) = BOk (Some u))).
Proof. exact converges_partial. Qed.
Print Assumptions C12_converges_partial.

Example C12_converges_example :
  (forall r, In r (m_rules (mk_map [ex_r3])) -> rule_wf r = true) /\ uniform_merge (mk_map [ex_r3])
  /\ exists u, router_match (mk_map [ex_r3]) ex_adapter_app [47; 47; 101; 118; 105; 108; 46; 99; 111; 109; 47; 51] GET = RedirectTo u.
Proof. exact ex_converges_hyps. Qed.
Print Assumptions C12_converges_example.

(* the redirect URL addresses that target: behind the root, percent-decoded, is the target path *)
Theorem C12_redirect_addresses_target : forall m a p',
  has (eff_scheme a) uses_netloc = true -> valid_text p' = true ->
  exists rest, make_redirect_url m a (quote safe_redirect p') None = url_root m a None ++ rest ++ query_suffix a
               /\ unquote rest = lstrip_slash p'.
Proof. exact redirect_url_addresses_target. Qed.
Print Assumptions C12_redirect_addresses_target.

(* C12_converges, one hop (stronger than C12_converges_partial on the router side): after a slash or
   merged-slash redirect to the path p', the matcher answers the follow-up request with a direct match
   (MOk r' v'): no further slash / merged-slash redirect, no NotFound / MethodNotAllowed.  The adapter
   then returns that match, unless redirect_defaults makes the URL builder canonicalise it (alias / defaults).
   rule_wf2: the C03 grammar - path converter only as trailing segment, no empty literal segment, no variable
   segment that matches the empty text.  No assumption on merge_slashes settings.
   Still only checked by the harness (judge_c12 follows every redirect): that r' is the rule that caused the
   redirect with the same arguments - it holds for the plain merged-slash redirect by determinism (the follow-up
   repeats the very search that found the rule), for the slash redirects r' is a priority-minimal rule serving
   the target (C03_priority), among whose serving candidates the causing rule is (C12_converges_partial). *)
Theorem C12_converges_one_hop : forall m a p me u,
  (forall r, In r (m_rules m) -> rule_wf2 r = true) ->
  router_match m a p me = RedirectTo u ->
  (exists p', u = make_redirect_url m a (quote safe_redirect p') None
     /\ exists r' v', matcher_run m (trie_of m) (domain_part m a) p' (upper me) (a_websocket a) = MOk rule (list (str * value)) r' v'
        /\ forall p2, path_part p2 = p' ->
             router_match m a p2 me = Match r' (dict_update v' (r_defaults r'))
             \/ (m_redirect_defaults m = true
                 /\ ((exists u', router_match m a p2 me = RedirectTo u') \/ (exists e, router_match m a p2 me = Raised e))))
  \/ (exists r v, In r (m_rules m) /\ admits m r (request_parts m a p) = ADirect _ v /\ m_redirect_defaults m = true
        /\ (r_alias r = true /\ alias_redirect_url m a (upper me) r (dict_update v (r_defaults r)) = BOk u
            \/ get_default_redirect m a (upper me) r (dict_update v (r_defaults r)) = BOk (Some u))).
Proof. exact converges_one_hop. Qed.
Print Assumptions C12_converges_one_hop.

Example C12_converges_one_hop_example :
  (forall r, In r (m_rules (mk_map [ex_r3])) -> rule_wf2 r = true)
  /\ exists u, router_match (mk_map [ex_r3]) ex_adapter_app [47; 47; 101; 118; 105; 108; 46; 99; 111; 109; 47; 51] GET = RedirectTo u.
Proof. exact ex_one_hop_hyps. Qed.
Print Assumptions C12_converges_one_hop_example.
