From Coq Require Extraction ExtrOcamlBasic.
From Wz Require Import lib.Bytes lib.Utf8 lib.ExtractBase C03.Gen C03.Trie C03.Model C04.Model C12.Model.
Extraction Language OCaml.
Extraction "C12/model_extracted.ml" force_types router_match rule_trace router_match_rt router_match_bo.
