(* C12_converges for maps of rules without a trailing path converter: the follow-up of a slash /
   merged-slash redirect is matched by the rule that caused the redirect, with the same arguments. *)
From Coq Require Import ZArith Lia.
From Wz Require Import lib.Bytes lib.BytesFacts lib.Utf8 C03.Gen C03.Trie C03.TrieFacts C03.Model C03.Proofs
  C04.Model C12.Model C12.Proofs C12.Converge.
Open Scope N_scope.

(* the C03 grammar without the trailing <path:name>: every part looks at its own segment only *)
Definition rule_wf3 (r : rule) : bool :=
  rule_wf2 r && seg_no_empty_match (r_dom r) && match r_tail r with None => true | Some _ => false end.

Notation cdgood := (dgood dpart pmatch).
Notation cokparts := (okparts dpart pmatch).

Lemma dgood_seg pre c n post :
  conv_isolating c = true -> seg_no_empty_match (SDyn pre c n post) = true ->
  match to_cpart (seg_part (SDyn pre c n post)) with PDyn _ d => cdgood d | PStatic _ _ => True end.
Proof.
  intros Hiso Hne. pose proof (seg_part_ne (SDyn pre c n post) eq_refl Hne Hiso) as H.
  cbn [seg_part to_cpart] in *. split; [|exact H].
  intros p rest. apply pmatch_nonfinal; cbn [d_final d_suffixed]; [rewrite Hiso|]; reflexivity.
Qed.

Lemma okparts_segs l (branch : bool) : forall depth,
  (2 <= depth)%nat -> forallb seg_isolating l = true -> forallb seg_nonempty l = true -> forallb seg_no_empty_match l = true ->
  cokparts depth (map to_cpart (map seg_part l) ++ (if branch then [PStatic dpart []] else [])).
Proof.
  induction l as [|s l IH]; intros depth Hd H1 H2 H3.
  - cbn [map app]. destruct branch; cbn [okparts]; [split; [intros _ _; reflexivity|exact I]|exact I].
  - cbn [forallb] in H1, H2, H3. apply andb_prop in H1, H2, H3. destruct H1 as [A1 B1], H2 as [A2 B2], H3 as [A3 B3].
    cbn [map app]. destruct s as [k|pre c n post]; cbn [seg_part to_cpart okparts].
    + split; [|apply IH; [lia|assumption..]]. intros -> _. cbn [seg_nonempty is_nil negb] in A2. discriminate.
    + split; [|apply IH; [lia|assumption..]]. cbn [seg_isolating] in A1. exact (dgood_seg pre c n post A1 A3).
Qed.

Lemma okparts_rule r : rule_wf3 r = true -> cokparts 0 (rparts r).
Proof.
  unfold rule_wf3, rule_wf2, rule_wf. intro H. apply andb_prop in H. destruct H as [H Ht]. apply andb_prop in H. destruct H as [H Hdne].
  apply andb_prop in H. destruct H as [H Hnm]. apply andb_prop in H. destruct H as [H Hne]. apply andb_prop in H. destruct H as [Hd Hs].
  destruct (r_tail r) eqn:Et; [discriminate|].
  unfold rparts, rule_parts. rewrite Et. cbn [map].
  assert (Hrest : cokparts 1 (PStatic dpart [] :: map to_cpart (map seg_part (r_segs r) ++ (if is_branch r then [Static [] w0] else [])))).
  { cbn [okparts]. split; [intros _ Hlt; lia|]. rewrite map_app.
    replace (map to_cpart (if is_branch r then [Static [] w0] else [])) with (if is_branch r then [PStatic dpart []] else []) by (destruct (is_branch r); reflexivity).
    apply okparts_segs; [lia|assumption..]. }
  destruct (r_dom r) as [k|pre c n post] eqn:Ed; cbn [seg_part to_cpart okparts].
  - split; [intros _ Hlt; lia|exact Hrest].
  - split; [|exact Hrest]. cbn [seg_isolating] in Hd. exact (dgood_seg pre c n post Hd Hdne).
Qed.

Lemma okstate_trie m : (forall r, In r (m_rules m) -> rule_wf3 r = true) -> okstate dpart rule pmatch 0 (trie_of m).
Proof.
  intro H. unfold trie_of. apply (okstate_build dpart rule pmatch dpart_eqb dpart_wlt rparts dpart_eqb_eq).
  intros r Hr. apply okparts_rule. exact (H r Hr).
Qed.

(* the arguments a rule ending in a slash yields for the path without that slash: the rule's own parts
   except the final "" consume the path, and the captured texts convert to v *)
Definition slash_args (r : rule) (parts : list str) (v : rres) : Prop :=
  exists sigma caps, rparts r = sigma ++ [PStatic dpart []]
    /\ walk dpart pmatch sigma parts = Some (caps, []) /\ rconvert r caps = Some v.

(* the search for path ++ "/" after a slash redirect for path *)
Lemma pass_slash_then_same m domain path meth ws h w :
  (forall r, In r (m_rules m) -> rule_wf3 r = true) ->
  smatch dpart rule rres pmatch rmethods r_websocket (rstrict m) rconvert meth ws (trie_of m) (domain :: split_slash path) [] = (MSlash rule rres, h, w) ->
  exists r v h' w', In r (m_rules m) /\ admits m r (domain :: split_slash path) = ASlash rres
    /\ slash_args r (domain :: split_slash path) v
    /\ rmethod_ok r meth = true /\ r_websocket r = ws
    /\ smatch dpart rule rres pmatch rmethods r_websocket (rstrict m) rconvert meth ws (trie_of m) (domain :: split_slash (path ++ [SLASH])) []
       = (MFound rule rres r v, h', w').
Proof.
  intros Hwf E. rewrite (smatch_scan dpart rule rres pmatch rmethods r_websocket (rstrict m) rconvert) in E.
  destruct (split_slash_cons_nonempty path) as (x & l & Hsp).
  assert (Hlen : (2 <= length (domain :: split_slash path))%nat) by (rewrite Hsp; cbn [length]; lia).
  destruct (slash_then_same_rule dpart rule rres pmatch rmethods r_websocket (rstrict m) rconvert meth ws (trie_of m)
              (domain :: split_slash path) h w (okstate_trie m Hwf) Hlen E)
    as (r & caps & v & h' & w' & Hfh & Hc & Hst & Hm & Hw & Hscan).
  exists r, v, h', w'.
  apply (first_hit_in rule rres rmethods r_websocket (rstrict m) rconvert meth ws) in Hfh. destruct Hfh as [Hin _].
  unfold trie_of in Hin.
  destruct (root_cand_adm dpart rule rres pmatch dpart_eqb dpart_wlt (rstrict m) rconvert rparts dpart_eqb_eq _ _ _ _ _ Hin) as [Hr Ha].
  unfold cand_adm, Trie.convert_adm in Ha. rewrite Hc, Hst in Ha.
  split; [exact Hr|]. split; [exact Ha|].
  split.
  { apply (cands_sound dpart rule pmatch) in Hin. destruct Hin as (sigma & caps' & Hv & Hsto & Hwk). cbn [app] in Hv. subst caps'.
    apply (stored_build dpart rule dpart_eqb dpart_wlt rparts dpart_eqb_eq) in Hsto. destruct Hsto as [_ Hsig].
    exists sigma, caps. auto. }
  split; [exact Hm|]. split; [exact Hw|].
  rewrite (smatch_scan dpart rule rres pmatch rmethods r_websocket (rstrict m) rconvert), split_slash_snoc. exact Hscan.
Qed.

(* C12_converges: after a slash / merged-slash redirect to p', the matcher answers the request for p' with a
   direct match of the rule that caused the redirect *)
Theorem matcher_follow_same m domain path meth ws p' :
  (forall r, In r (m_rules m) -> rule_wf3 r = true) ->
  matcher_run m (trie_of m) domain path meth ws = MPath rule rres p' ->
  exists r v,
    matcher_run m (trie_of m) domain p' meth ws = MOk rule rres r v
    /\ In r (m_rules m) /\ rmethod_ok r meth = true /\ r_websocket r = ws
    /\ ((p' = path ++ [SLASH] /\ admits m r (domain :: split_slash path) = ASlash rres /\ slash_args r (domain :: split_slash path) v)
        \/ (m_merge m = true /\ p' = merge_slashes path ++ [SLASH] /\ admits m r (domain :: split_slash (merge_slashes path)) = ASlash rres
            /\ slash_args r (domain :: split_slash (merge_slashes path)) v)
        \/ (m_merge m = true /\ p' = merge_slashes path /\ admits m r (domain :: split_slash (merge_slashes path)) = ADirect rres v)).
Proof.
  intros Hwf H. unfold matcher_run, matcher_match in H.
  destruct (smatch _ _ _ _ _ _ _ _ _ _ (trie_of m) (domain :: split_slash path) []) as [[x h1] w1] eqn:E1.
  assert (Hfound : forall q r v h w,
            smatch dpart rule rres pmatch rmethods r_websocket (rstrict m) rconvert meth ws (trie_of m) (domain :: split_slash q) [] = (MFound rule rres r v, h, w) ->
            matcher_run m (trie_of m) domain q meth ws = MOk rule rres r v).
  { intros q r v h w Hq. unfold matcher_run, matcher_match. rewrite Hq. reflexivity. }
  destruct x as [|r1 v1|].
  - destruct (m_merge m) eqn:Em; [|discriminate].
    destruct (smatch _ _ _ _ _ _ _ _ _ _ (trie_of m) (domain :: split_slash (merge_slashes path)) []) as [[x2 h2] w2] eqn:E2.
    destruct x2 as [|r2 v2|]; try discriminate.
    + destruct (rmerge m r2) eqn:Er; [|discriminate]. injection H as <-.
      exists r2, v2. split; [exact (Hfound _ _ _ _ _ E2)|]. unfold trie_of in E2.
      destruct (root_found_sound dpart rule rres pmatch dpart_eqb dpart_wlt rmethods r_websocket (rstrict m) rconvert rparts
                  dpart_eqb_eq _ _ _ _ _ _ _ _ E2) as (Hin & Ha & Hm & Hw).
      repeat split; try assumption. right. right. auto.
    + injection H as <-. destruct (pass_slash_then_same m domain (merge_slashes path) meth ws h2 w2 Hwf E2)
        as (r & v & h' & w' & Hin & Ha & Hsa & Hm & Hw & Hf).
      exists r, v. split; [exact (Hfound _ _ _ _ _ Hf)|]. repeat split; try assumption. right. left. auto.
  - discriminate.
  - injection H as <-. destruct (pass_slash_then_same m domain path meth ws h1 w1 Hwf E1) as (r & v & h' & w' & Hin & Ha & Hsa & Hm & Hw & Hf).
    exists r, v. split; [exact (Hfound _ _ _ _ _ Hf)|]. repeat split; try assumption. left. auto.
Qed.

(* what "rule r caused the path redirect of (domain, path) to p', with the arguments v" means *)
Definition caused_redirect (m : rmap) (domain path : str) (r : rule) (v : rres) (p' : str) : Prop :=
  (p' = path ++ [SLASH] /\ admits m r (domain :: split_slash path) = ASlash rres /\ slash_args r (domain :: split_slash path) v)
  \/ (m_merge m = true /\ p' = merge_slashes path ++ [SLASH] /\ admits m r (domain :: split_slash (merge_slashes path)) = ASlash rres
      /\ slash_args r (domain :: split_slash (merge_slashes path)) v)
  \/ (m_merge m = true /\ p' = merge_slashes path /\ admits m r (domain :: split_slash (merge_slashes path)) = ADirect rres v).

(* C12_converges on the router: the follow-up of a slash / merged-slash redirect is answered by the rule
   that caused it, with the same arguments - as a match, or (redirect_defaults) handed to the URL builder
   for the alias / defaults canonicalisation of that very match *)
Theorem converges m a p me u :
  (forall r, In r (m_rules m) -> rule_wf3 r = true) ->
  router_match m a p me = RedirectTo u ->
  (exists p' r v, u = make_redirect_url m a (quote safe_redirect p') None
     /\ In r (m_rules m) /\ rmethod_ok r (upper me) = true /\ r_websocket r = a_websocket a
     /\ caused_redirect m (domain_part m a) (path_part p) r v p'
     /\ matcher_run m (trie_of m) (domain_part m a) p' (upper me) (a_websocket a) = MOk rule rres r v
     /\ forall p2, path_part p2 = p' ->
          router_match m a p2 me = Match r (dict_update v (r_defaults r))
          \/ (m_redirect_defaults m = true
              /\ ((exists u', router_match m a p2 me = RedirectTo u') \/ (exists e, router_match m a p2 me = Raised e))))
  \/ (exists r v, In r (m_rules m) /\ admits m r (request_parts m a p) = ADirect _ v /\ m_redirect_defaults m = true
        /\ (r_alias r = true /\ alias_redirect_url m a (upper me) r (dict_update v (r_defaults r)) = BOk u
            \/ get_default_redirect m a (upper me) r (dict_update v (r_defaults r)) = BOk (Some u))).
Proof.
  intros Hwf H. unfold router_match, map_match, adapter_match in H. fold (upper me) in H.
  destruct (matcher_run m (trie_of m) (domain_part m a) (path_part p) (upper me) (a_websocket a)) as [r0 v0|p0|hm wsm] eqn:E.
  - right. apply matcher_ok_sound in E. destruct E as (Hin & Ha & Hm & Hw). exists r0, v0.
    split; [exact Hin|]. split; [exact Ha|].
    destruct (r_alias r0) eqn:Eal; cbn [andb] in H.
    + destruct (m_redirect_defaults m) eqn:Erd; [|discriminate]. split; [reflexivity|].
      cbn [router_hooks h_alias] in H. destruct (alias_redirect_url m a (upper me) r0 _) as [u0| |] eqn:Eh; try discriminate.
      injection H as <-. left. auto.
    + destruct (m_redirect_defaults m) eqn:Erd; [|discriminate]. split; [reflexivity|].
      cbn [router_hooks h_default] in H. destruct (get_default_redirect m a (upper me) r0 _) as [[u0|]| |] eqn:Ed; try discriminate.
      injection H as <-. right. reflexivity.
  - left. injection H as <-. destruct (matcher_follow_same m _ _ _ _ _ Hwf E) as (r & v & Hf & Hin & Hm & Hw & Hc).
    exists p0, r, v. split; [reflexivity|]. split; [exact Hin|]. split; [exact Hm|]. split; [exact Hw|]. split; [exact Hc|].
    split; [exact Hf|]. intros p2 Hp2. unfold router_match. apply adapter_of_matcher. rewrite Hp2. exact Hf.
  - destruct (negb (is_nil hm)); [discriminate|]. destruct wsm; discriminate.
Qed.

(* the hypotheses are satisfiable: '//evil.com/3' under Rule('/evil.com/<int(max=5):a>/') *)
Lemma ex_converges_same_hyps :
  (forall r, In r (m_rules (mk_map [ex_r3])) -> rule_wf3 r = true)
  /\ exists u, router_match (mk_map [ex_r3]) ex_adapter_app [47; 47; 101; 118; 105; 108; 46; 99; 111; 109; 47; 51] GET = RedirectTo u.
Proof. split; [intros r [<-|[]]; vm_compute; reflexivity|eexists; vm_compute; reflexivity]. Qed.
