(* C12: router redirects.  The matcher, MapAdapter.match and make_redirect_url are C03/Model.v;
   this file adds the vocabulary of the C12 statements (where a redirect points). Definitions only. *)
From Coq Require Import ZArith.
From Wz Require Import lib.Bytes lib.Utf8 C03.Gen C03.Trie C03.Model.
Open Scope N_scope.

Definition HASH : N := 35.

(* self.url_scheme or "http" *)
Definition eff_scheme (a : adapter) : str := if is_nil (a_scheme a) then HTTP else a_scheme a.
(* the bound script root, as it appears in every URL the adapter generates: "/" or "/app/" *)
Definition script_root (a : adapter) : str :=
  let s := strip_slash (script_name a) in if is_nil s then [SLASH] else SLASH :: s ++ [SLASH].
(* scheme://host/script-root/ ; dp: the domain part (None = the bound subdomain / server name) *)
Definition url_root (m : rmap) (a : adapter) (dp : option str) : str :=
  eff_scheme a ++ [COLON; SLASH; SLASH] ++ get_host m a dp ++ script_root a.
Definition query_suffix (a : adapter) : str := if is_nil (a_query a) then [] else QMARK :: a_query a.

(* u = root ++ rest ++ ?query : rest is relative to the script root (no leading slash, so the
   authority cannot be replaced), and has no ? or #, so the query of u is the bound query *)
Definition on_host (m : rmap) (a : adapter) (dp : option str) (u : str) : Prop :=
  exists rest, u = url_root m a dp ++ rest ++ query_suffix a
    /\ starts_with [SLASH] rest = false
    /\ forallb (fun c => negb (c =? QMARK) && negb (c =? HASH)) rest = true.

(* ------------------------------------------------------------------ defaults / alias canonicalisation
   (MapAdapter.get_default_redirect, make_alias_redirect_url), on the URL builder of C04/Model.v *)
From Wz Require Import C04.Model.

(* Rule._trace: what Rule.__eq__ compares *)
Definition BAR : N := 124.
Definition trace_seg (s : seg) : list (bool * str) :=
  match s with
  | SLit k => if is_nil k then [] else [(false, k)]
  | SDyn pre _ n post =>
      (if is_nil pre then [] else [(false, pre)]) ++ [(true, n)] ++ (if is_nil post then [] else [(false, post)])
  end.
Definition rule_trace (r : rule) : list (bool * str) :=
  trace_seg (r_dom r) ++ [(false, [BAR])]
  ++ flat_map (fun s => (false, [SLASH]) :: trace_seg s)
       (r_segs r ++ match r_tail r with Some n => [SDyn [] CPath n []] | None => [] end)
  ++ (if is_branch r then [(false, [SLASH])] else []).

Definition trace_item_eqb (x y : bool * str) : bool := Bool.eqb (fst x) (fst y) && list_eqb (snd x) (snd y).
Definition trace_eqb (x y : list (bool * str)) : bool := lex_eq trace_item_eqb x y.
Definition subset (x y : list str) : bool := forallb (fun k => has k y) x.
Definition set_eqb (x y : list str) : bool := subset x y && subset y x.

(* Rule.provides_defaults_for(rule) *)
Definition provides_defaults_for (r rule0 : rule) : bool :=
  negb (is_nil (r_defaults r)) && (r_endpoint r =? r_endpoint rule0)
  && negb (trace_eqb (rule_trace r) (rule_trace rule0))
  && set_eqb (rule_arguments r) (rule_arguments rule0).

(* get_default_redirect: the rules of the endpoint in build order, up to the matched rule itself *)
Fixpoint default_redirect_loop (m : rmap) (a : adapter) (meth : str) (rule0 : rule) (vals : list (str * value))
         (rs : list rule) : bres (option str) :=
  match rs with
  | [] => BOk None
  | r :: rs' =>
      if r_idx r =? r_idx rule0 then BOk None
      else if provides_defaults_for r rule0 && suitable_for r vals (Some meth) then
        bbind (build_rule r (dict_update vals (r_defaults r))) (fun dp =>
          BOk (Some (make_redirect_url m a (snd dp) (Some (fst dp)))))
      else default_redirect_loop m a meth rule0 vals rs'
  end.
Definition get_default_redirect (m : rmap) (a : adapter) (meth : str) (rule0 : rule) (vals : list (str * value))
  : bres (option str) :=
  default_redirect_loop m a meth rule0 vals (rules_for m (r_endpoint rule0)).

(* make_alias_redirect_url: build(endpoint, values, method, append_unknown=False, force_external=True) + ?query;
   a BuildError is an exception *)
Definition alias_redirect_url (m : rmap) (a : adapter) (meth : str) (rule0 : rule) (vals : list (str * value)) : bres str :=
  bbind (adapter_build m a (r_endpoint rule0) vals (Some meth) true) (fun ou =>
    match ou with
    | Some u => BOk (u ++ query_suffix a)
    | None => BValueError
    end).

Definition router_hooks : hooks := {| h_alias := alias_redirect_url; h_default := get_default_redirect |}.
(* MapAdapter.match with everything the router does on its own *)
Definition router_match (m : rmap) (a : adapter) (path_info meth : str) : outcome :=
  map_match router_hooks m a path_info meth.
