(* C12: router redirects.  The matcher, MapAdapter.match and make_redirect_url are C03/Model.v;
   this file adds the vocabulary of the C12 statements (where a redirect points). Definitions only. *)
From Coq Require Import ZArith.
From Wz Require Import lib.Bytes lib.Utf8 C03.Gen C03.Trie C03.Model.
Open Scope N_scope.

Definition HASH : N := 35.

(* self.url_scheme or "http" *)
Definition eff_scheme (a : adapter) : str := if is_nil (a_scheme a) then HTTP else a_scheme a.
(* the bound script root, as it appears in every URL the adapter generates: "/" or "/app/" *)
Definition script_root (a : adapter) : str :=
  let s := strip_slash (script_name a) in if is_nil s then [SLASH] else SLASH :: s ++ [SLASH].
(* scheme://host/script-root/ ; dp: the domain part (None = the bound subdomain / server name) *)
Definition url_root (m : rmap) (a : adapter) (dp : option str) : str :=
  eff_scheme a ++ [COLON; SLASH; SLASH] ++ get_host m a dp ++ script_root a.
Definition query_suffix (a : adapter) : str := if is_nil (a_query a) then [] else QMARK :: a_query a.

(* u = root ++ rest ++ ?query : rest is relative to the script root (no leading slash, so the
   authority cannot be replaced), and has no ? or #, so the query of u is the bound query *)
Definition on_host (m : rmap) (a : adapter) (dp : option str) (u : str) : Prop :=
  exists rest, u = url_root m a dp ++ rest ++ query_suffix a
    /\ starts_with [SLASH] rest = false
    /\ forallb (fun c => negb (c =? QMARK) && negb (c =? HASH)) rest = true.

(* ------------------------------------------------------------------ defaults / alias canonicalisation
   (MapAdapter.get_default_redirect, make_alias_redirect_url), on the URL builder of C04/Model.v *)
From Wz Require Import C04.Model.

(* Rule._trace: what Rule.__eq__ compares *)
Definition BAR : N := 124.
Definition trace_seg (s : seg) : list (bool * str) :=
  match s with
  | SLit k => if is_nil k then [] else [(false, k)]
  | SDyn pre _ n post =>
      (if is_nil pre then [] else [(false, pre)]) ++ [(true, n)] ++ (if is_nil post then [] else [(false, post)])
  end.
Definition rule_trace (r : rule) : list (bool * str) :=
  trace_seg (r_dom r) ++ [(false, [BAR])]
  ++ flat_map (fun s => (false, [SLASH]) :: trace_seg s)
       (r_segs r ++ match r_tail r with Some n => [SDyn [] CPath n []] | None => [] end)
  ++ (if is_branch r then [(false, [SLASH])] else []).

Definition trace_item_eqb (x y : bool * str) : bool := Bool.eqb (fst x) (fst y) && list_eqb (snd x) (snd y).
Definition trace_eqb (x y : list (bool * str)) : bool := lex_eq trace_item_eqb x y.
Definition subset (x y : list str) : bool := forallb (fun k => has k y) x.
Definition set_eqb (x y : list str) : bool := subset x y && subset y x.

(* Rule.provides_defaults_for(rule) *)
Definition provides_defaults_for (r rule0 : rule) : bool :=
  negb (is_nil (r_defaults r)) && (r_endpoint r =? r_endpoint rule0)
  && negb (trace_eqb (rule_trace r) (rule_trace rule0))
  && set_eqb (rule_arguments r) (rule_arguments rule0).

(* get_default_redirect: the rules of the endpoint in build order, up to the matched rule itself *)
Fixpoint default_redirect_loop (m : rmap) (a : adapter) (meth : str) (rule0 : rule) (vals : list (str * value))
         (rs : list rule) : bres (option str) :=
  match rs with
  | [] => BOk None
  | r :: rs' =>
      if r_idx r =? r_idx rule0 then BOk None
      else if provides_defaults_for r rule0 && suitable_for r vals (Some meth) then
        bbind (build_rule r (dict_update vals (r_defaults r))) (fun dp =>
          BOk (Some (make_redirect_url m a (snd dp) (Some (fst dp)))))
      else default_redirect_loop m a meth rule0 vals rs'
  end.
Definition get_default_redirect (m : rmap) (a : adapter) (meth : str) (rule0 : rule) (vals : list (str * value))
  : bres (option str) :=
  default_redirect_loop m a meth rule0 vals (rules_for m (r_endpoint rule0)).

(* make_alias_redirect_url: build(endpoint, values, method, append_unknown=False, force_external=True) + ?query;
   a BuildError is an exception *)
Definition alias_redirect_url (m : rmap) (a : adapter) (meth : str) (rule0 : rule) (vals : list (str * value)) : bres str :=
  bbind (adapter_build m a (r_endpoint rule0) vals (Some meth) true) (fun ou =>
    match ou with
    | Some u => BOk (u ++ query_suffix a)
    | None => BValueError
    end).

Definition router_hooks : hooks := {| h_alias := alias_redirect_url; h_default := get_default_redirect |}.
(* MapAdapter.match with everything the router does on its own *)
Definition router_match (m : rmap) (a : adapter) (path_info meth : str) : outcome :=
  map_match router_hooks m a path_info meth.

(* ------------------------------------------------------------------ Rule.redirect_to (string template)
   MapAdapter.match, after the defaults canonicalisation: _simple_rule_re = <([^>]+)> ; every <name> of the template
   is replaced by rule._converters[name].to_url(rv[name]); the result is joined to scheme://host/script-root/ with
   urllib.parse.urljoin.  urljoin is modelled for what it leaves alone: a relative reference without scheme,
   authority, leading slash or dot segments (everything else: BUnsupported).  A name that is not an argument of the
   rule is a KeyError (BUnsupported here: the harness does not write such templates). *)
Definition LT : N := 60.
Definition GT : N := 62.
Fixpoint conv_get (k : str) (cs : list (str * conv)) : option conv :=
  match cs with
  | [] => None
  | (k', c) :: cs' => if list_eqb k' k then Some c else conv_get k cs'
  end.
Fixpoint rt_subst (cs : list (str * conv)) (vals : list (str * value)) (st : option str) (s : str) : bres str :=
  match s with
  | [] => BOk (match st with None => [] | Some acc => LT :: acc end)
  | c :: r =>
      match st with
      | None => if c =? LT then rt_subst cs vals (Some []) r
                else bbind (rt_subst cs vals None r) (fun t => BOk (c :: t))
      | Some acc =>
          if c =? GT then
            if is_nil acc then bbind (rt_subst cs vals None r) (fun t => BOk (LT :: GT :: t))
            else match dict_get acc vals, conv_get acc cs with
                 | Some v, Some cv => bbind (to_url cv v) (fun u => bbind (rt_subst cs vals None r) (fun t => BOk (u ++ t)))
                 | _, _ => BUnsupported
                 end
          else rt_subst cs vals (Some (acc ++ [c])) r
      end
  end.

Definition DOT' : N := 46.
(* the reference urljoin appends unchanged to a base that ends in a slash *)
(* urljoin drops "." and ".." segments and empty segments in the middle of the joined path *)
Definition not_dots (sg : str) : bool := negb (list_eqb sg [DOT']) && negb (list_eqb sg [DOT'; DOT']).
Definition no_dot_segments (t : str) : bool :=
  forallb (fun sg => negb (is_nil sg) && not_dots sg) (removelast (split_slash t)) && not_dots (last (split_slash t) []).
Definition plain_reference (t : str) : bool :=
  negb (is_nil t) && negb (starts_with [SLASH] t)
  && forallb (fun c => negb (c =? COLON)) (hd [] (split_slash t))
  && no_dot_segments t.
Definition redirect_base (m : rmap) (a : adapter) : str :=
  eff_scheme a ++ [COLON; SLASH; SLASH] ++ get_host m a None ++ script_name a.
Definition redirect_to_url (m : rmap) (a : adapter) (r : rule) (vals : list (str * value)) (tpl : str) : bres str :=
  bbind (rt_subst (rule_convs r) vals None tpl) (fun t =>
    if plain_reference t && no_dot_segments (lstrip_slash (script_name a)) then BOk (redirect_base m a ++ t) else BUnsupported).

(* MapAdapter.match with redirect_to templates given per rule index *)
Definition router_match_rt (rt : N -> option str) (m : rmap) (a : adapter) (path_info meth : str) : outcome :=
  match router_match m a path_info meth with
  | Match r vs =>
      match rt (r_idx r) with
      | Some tpl => match redirect_to_url m a r vs tpl with
                    | BOk u => RedirectTo u
                    | BValueError => Raised false
                    | BUnsupported => Raised true
                    end
      | None => Match r vs
      end
  | o => o
  end.

(* ------------------------------------------------------------------ Rule(build_only=True)
   Map.add does not hand a build_only rule to the matcher, Rule.provides_defaults_for is False for it, but it stays in
   Map._rules_by_endpoint: MapAdapter.build - and with it the alias redirect - sees it.  bo: the indices of the
   build_only rules of the map mall (all rules, in insertion order). *)
Definition matchable (bo : N -> bool) (mall : rmap) : rmap :=
  {| m_rules := filter (fun r => negb (bo (r_idx r))) (m_rules mall); m_strict := m_strict mall; m_merge := m_merge mall;
     m_redirect_defaults := m_redirect_defaults mall; m_host_matching := m_host_matching mall |}.
Definition router_match_bo (bo : N -> bool) (mall : rmap) (a : adapter) (path_info meth : str) : outcome :=
  map_match {| h_alias := fun _ a' me r v => alias_redirect_url mall a' me r v; h_default := get_default_redirect |}
    (matchable bo mall) a path_info meth.
