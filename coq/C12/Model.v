(* C12: router redirects.  The matcher, MapAdapter.match and make_redirect_url are C03/Model.v;
   this file adds the vocabulary of the C12 statements (where a redirect points). Definitions only. *)
From Coq Require Import ZArith.
From Wz Require Import lib.Bytes lib.Utf8 C03.Gen C03.Trie C03.Model.
Open Scope N_scope.

Definition HASH : N := 35.

(* self.url_scheme or "http" *)
Definition eff_scheme (a : adapter) : str := if is_nil (a_scheme a) then HTTP else a_scheme a.
(* the bound script root, as it appears in every URL the adapter generates: "/" or "/app/" *)
Definition script_root (a : adapter) : str :=
  let s := strip_slash (script_name a) in if is_nil s then [SLASH] else SLASH :: s ++ [SLASH].
(* scheme://host/script-root/ ; dp: the domain part (None = the bound subdomain / server name) *)
Definition url_root (m : rmap) (a : adapter) (dp : option str) : str :=
  eff_scheme a ++ [COLON; SLASH; SLASH] ++ get_host m a dp ++ script_root a.
Definition query_suffix (a : adapter) : str := if is_nil (a_query a) then [] else QMARK :: a_query a.

(* u = root ++ rest ++ ?query : rest is relative to the script root (no leading slash, so the
   authority cannot be replaced), and has no ? or #, so the query of u is the bound query *)
Definition on_host (m : rmap) (a : adapter) (dp : option str) (u : str) : Prop :=
  exists rest, u = url_root m a dp ++ rest ++ query_suffix a
    /\ starts_with [SLASH] rest = false
    /\ forallb (fun c => negb (c =? QMARK) && negb (c =? HASH)) rest = true.
