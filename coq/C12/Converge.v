(* C12: the order isomorphism between the search for a path and the search for the same path with a
   trailing slash, on the generic transition tree (C03/Trie.v), for trees whose dynamic parts all look at
   their own segment only (no final / path-converter parts) and never match the empty segment.
   If the search for P stops at the slash redirect caused by rule r with the captures caps, the search for
   P ++ [""] stops at r itself, matched directly with the same captures. *)
From Coq Require Import Lia.
From Wz Require Import lib.Bytes C03.Trie C03.TrieFacts.
Open Scope N_scope.

Section Conv.
  Variable dpart : Type.
  Variable rule : Type.
  Variable res : Type.
  Variable pmatch : dpart -> str -> list str -> option (list str * list str).
  Variable rmethods : rule -> option (list str).
  Variable rws : rule -> bool.
  Variable rstrict : rule -> bool.
  Variable rconvert : rule -> list str -> option res.
  Variable meth : str.
  Variable ws : bool.

  Notation state := (state dpart rule).
  Notation St := (St dpart rule).
  Notation cand := (cand rule).
  Notation cands := (cands dpart rule pmatch).
  Notation scan := (scan rule res rmethods rws rstrict rconvert).
  Notation cand_step := (cand_step rule res rmethods rws rstrict rconvert).
  Notation stat_find := (stat_find dpart rule).
  Notation dyn_collect := (Trie.dyn_collect dpart rule pmatch).

  (* ------------------------------------------------------------------ the first candidate that is a hit *)
  Definition hitb (c : cand) : bool :=
    match cand_step meth ws c with SFound _ _ | SSlashReq _ => true | _ => false end.
  Fixpoint first_hit (l : list cand) : option cand :=
    match l with [] => None | c :: l' => if hitb c then Some c else first_hit l' end.

  Lemma first_hit_app a b : first_hit (a ++ b) = match first_hit a with Some x => Some x | None => first_hit b end.
  Proof. induction a as [|c a IH]; [reflexivity|]. cbn [app first_hit]. destruct (hitb c); [reflexivity|exact IH]. Qed.

  Lemma first_hit_in l c : first_hit l = Some c -> In c l /\ hitb c = true.
  Proof.
    induction l as [|x l IH]; cbn [first_hit]; [discriminate|]. destruct (hitb x) eqn:E.
    - intro H. injection H as <-. split; [left; reflexivity|exact E].
    - intro H. destruct (IH H) as [H1 H2]. split; [right; exact H1|exact H2].
  Qed.

  (* the three ways a rule is tried agree on whether it serves the request *)
  Lemma hitb_slash_here r v : hitb (KSlash, r, v) = hitb (KHere, r, v).
  Proof.
    unfold hitb, Trie.cand_step. cbn [andb]. destruct (rconvert r v); [|reflexivity].
    destruct (rstrict r); cbn [andb].
    - destruct (method_ok rule rmethods r meth); cbn [negb andb]; [|rewrite andb_false_r; reflexivity].
      rewrite andb_true_r. destruct ws, (rws r); reflexivity.
    - reflexivity.
  Qed.
  Lemma hitb_late r v : hitb (KLate, r, v) = negb (rstrict r) && hitb (KHere, r, v).
  Proof. unfold hitb, Trie.cand_step. cbn [andb]. destruct (rstrict r); reflexivity. Qed.

  Lemma first_hit_here_of_slash v l :
    first_hit (map (fun r => (KHere, r, v)) l)
    = match first_hit (map (fun r => (KSlash, r, v)) l) with Some (_, r, _) => Some (KHere, r, v) | None => None end.
  Proof.
    induction l as [|r l IH]; [reflexivity|]. cbn [map first_hit]. rewrite hitb_slash_here.
    destruct (hitb (KHere, r, v)); [reflexivity|exact IH].
  Qed.

  Lemma first_hit_slash_shape v l c :
    first_hit (map (fun r => (KSlash, r, v)) l) = Some c -> exists r, c = (KSlash, r, v).
  Proof. intro H. apply first_hit_in in H. destruct H as [H _]. apply in_map_iff in H. destruct H as (r & <- & _). eauto. Qed.

  Lemma first_hit_late_none v l :
    first_hit (map (fun r => (KHere, r, v)) l) = None -> first_hit (map (fun r => (KLate, r, v)) l) = None.
  Proof.
    induction l as [|r l IH]; [reflexivity|]. cbn [map first_hit]. rewrite hitb_late.
    destruct (hitb (KHere, r, v)); [discriminate|]. rewrite andb_false_r. exact IH.
  Qed.

  Lemma first_hit_kind (f : rule -> cand) k l c :
    (forall r, fst (fst (f r)) = k) -> first_hit (map f l) = Some c -> fst (fst c) = k.
  Proof. intros Hf H. apply first_hit_in in H. destruct H as [H _]. apply in_map_iff in H. destruct H as (r & <- & _). apply Hf. Qed.

  (* ------------------------------------------------------------------ trees without final parts *)
  Definition dgood (d : dpart) : Prop :=
    (forall p rest, pmatch d p rest = match pmatch d p [] with Some (g, _) => Some (g, rest) | None => None end)
    /\ (forall rest, pmatch d [] rest = None).

  (* depth: the number of transitions taken from the root.  From depth 2 on (behind the domain part and the
     leading slash) the empty static transition is a trailing slash: nothing follows it. *)
  Inductive okstate : nat -> state -> Prop :=
  | ok_intro depth dyn rules stat :
      (forall d c, In (d, c) dyn -> dgood d /\ okstate (S depth) c) ->
      (forall k c, In (k, c) stat -> okstate (S depth) c) ->
      (2 <= depth -> forall c, stat_find [] stat = Some c -> stat_find [] (st_stat dpart rule c) = None)%nat ->
      okstate depth (St dyn rules stat).

  Lemma dyn_collect_empty f vals dyn :
    (forall d c, In (d, c) dyn -> pmatch d [] [] = None) -> dyn_collect f [] [] vals dyn = [].
  Proof.
    induction dyn as [|[d c] dyn IH]; intro H; [reflexivity|]. cbn [Trie.dyn_collect].
    rewrite (H d c (or_introl eq_refl)). apply IH. intros d' c' Hin. apply (H d' c'). right. exact Hin.
  Qed.

  Definition conv_at (s : state) (P vals : list str) : Prop :=
    (first_hit (cands s P vals) = None -> first_hit (cands s (P ++ [[]]) vals) = None)
    /\ (forall r v, first_hit (cands s P vals) = Some (KSlash, r, v) -> first_hit (cands s (P ++ [[]]) vals) = Some (KHere, r, v)).

  Lemma conv_dyn p rest vals dyn :
    (forall d c, In (d, c) dyn -> dgood d /\ forall v0, conv_at c rest v0) ->
    (first_hit (dyn_collect (fun c rem vs => cands c rem vs) p rest vals dyn) = None ->
     first_hit (dyn_collect (fun c rem vs => cands c rem vs) p (rest ++ [[]]) vals dyn) = None)
    /\ (forall r v, first_hit (dyn_collect (fun c rem vs => cands c rem vs) p rest vals dyn) = Some (KSlash, r, v) ->
                    first_hit (dyn_collect (fun c rem vs => cands c rem vs) p (rest ++ [[]]) vals dyn) = Some (KHere, r, v)).
  Proof.
    induction dyn as [|[d c] dyn IH]; intro H; [split; [reflexivity|discriminate]|].
    destruct (H d c (or_introl eq_refl)) as [[Hpl _] Hc].
    assert (IH' := IH (fun d' c' Hin => H d' c' (or_intror Hin))). destruct IH' as [IH1 IH2].
    cbn [Trie.dyn_collect]. rewrite (Hpl p (rest ++ [[]])), (Hpl p rest).
    destruct (pmatch d p []) as [[g r0]|]; [|split; assumption].
    destruct (Hc (vals ++ g)) as [C1 C2]. rewrite !first_hit_app. split.
    - destruct (first_hit (cands c rest (vals ++ g))) as [x|] eqn:E; [discriminate|]. rewrite (C1 eq_refl). exact IH1.
    - intros r v. destruct (first_hit (cands c rest (vals ++ g))) as [x|] eqn:E.
      + intro Hx. injection Hx as ->. rewrite (C2 r v eq_refl). reflexivity.
      + rewrite (C1 eq_refl). apply IH2.
  Qed.

  Theorem conv_step : forall s depth P vals,
    okstate depth s -> (2 <= depth + length P)%nat -> conv_at s P vals.
  Proof.
    induction s as [dyn rules stat IHd IHs] using (state_ind' dpart rule). intros depth P vals Hok Hlen.
    inversion Hok as [? ? ? ? Hdy Hst Hchain]; subst.
    destruct P as [|p rest].
    - (* the path is exhausted here: depth >= 2 *)
      cbn [length] in Hlen. assert (Hd2 : (2 <= depth)%nat) by lia.
      unfold conv_at. cbn [app]. cbn [Trie.cands Trie.is_empty_part].
      rewrite (stat_apply_find dpart rule), dyn_collect_empty by (intros d c Hin; exact (proj2 (proj1 (Hdy d c Hin)) [])).
      cbn [app].
      destruct (stat_find [] stat) as [c|] eqn:Ef.
      + pose proof (Hchain Hd2 c eq_refl) as Hnone. destruct c as [cd cr cs]. cbn [Trie.st_stat Trie.st_rules] in *.
        cbn [Trie.cands]. rewrite Hnone, app_nil_r. rewrite !first_hit_app, (first_hit_here_of_slash vals cr). split.
        * destruct (first_hit (map (fun r => (KHere, r, vals)) rules)) eqn:E1; [discriminate|].
          destruct (first_hit (map (fun r => (KSlash, r, vals)) cr)) eqn:E2; [discriminate|]. intros _.
          apply first_hit_late_none. exact E1.
        * intros r v. destruct (first_hit (map (fun r0 => (KHere, r0, vals)) rules)) as [x|] eqn:E1.
          -- intro Hx. injection Hx as ->. pose proof (first_hit_kind (fun r0 => (KHere, r0, vals)) KHere _ _ (fun _ => eq_refl) E1) as Hk. discriminate Hk.
          -- intro Hx. rewrite Hx. destruct (first_hit_slash_shape _ _ _ Hx) as (r' & Hr'). injection Hr' as <- <-. reflexivity.
      + cbn [app]. rewrite app_nil_r. split.
        * intro H. apply first_hit_late_none. exact H.
        * intros r v Hx. pose proof (first_hit_kind (fun r0 => (KHere, r0, vals)) KHere _ _ (fun _ => eq_refl) Hx) as Hk. discriminate Hk.
    - unfold conv_at. cbn [app]. cbn [Trie.cands].
      assert (Hne : Trie.is_empty_part (p :: rest ++ [[]]) = false) by (destruct p; [destruct rest; reflexivity|reflexivity]).
      rewrite Hne, app_nil_r. rewrite !(stat_apply_find dpart rule).
      assert (HA : match stat_find p stat with
                   | Some c => conv_at c rest vals
                   | None => True end).
      { destruct (stat_find p stat) as [c|] eqn:Ef; [|exact I]. apply (stat_find_in dpart rule) in Ef.
        apply (IHs p c Ef (S depth)); [exact (Hst p c Ef)|cbn [length] in Hlen; lia]. }
      assert (HB : (first_hit (dyn_collect (fun c rem vs => cands c rem vs) p rest vals dyn) = None ->
                    first_hit (dyn_collect (fun c rem vs => cands c rem vs) p (rest ++ [[]]) vals dyn) = None)
                   /\ (forall r v, first_hit (dyn_collect (fun c rem vs => cands c rem vs) p rest vals dyn) = Some (KSlash, r, v) ->
                          first_hit (dyn_collect (fun c rem vs => cands c rem vs) p (rest ++ [[]]) vals dyn) = Some (KHere, r, v))).
      { apply conv_dyn. intros d c Hin. destruct (Hdy d c Hin) as [Hg Hokc]. split; [exact Hg|]. intro v0.
        apply (IHd d c Hin (S depth)); [exact Hokc|cbn [length] in Hlen; lia]. }
      destruct HB as [HB1 HB2].
      set (A := match stat_find p stat with Some c => cands c rest vals | None => [] end) in *.
      set (A' := match stat_find p stat with Some c => cands c (rest ++ [[]]) vals | None => [] end) in *.
      assert (HA1 : first_hit A = None -> first_hit A' = None).
      { unfold A, A'. destruct (stat_find p stat); [exact (proj1 HA)|reflexivity]. }
      assert (HA2 : forall r v, first_hit A = Some (KSlash, r, v) -> first_hit A' = Some (KHere, r, v)).
      { unfold A, A'. destruct (stat_find p stat); [exact (proj2 HA)|discriminate]. }
      rewrite !first_hit_app. split.
      + destruct (first_hit A) eqn:EA; [discriminate|]. rewrite (HA1 eq_refl).
        destruct (first_hit (dyn_collect (fun c rem vs => cands c rem vs) p rest vals dyn)) eqn:EB; [discriminate|]. intros _.
        exact (HB1 eq_refl).
      + intros r v. destruct (first_hit A) as [x|] eqn:EA.
        * intro Hx. injection Hx as ->. rewrite (HA2 r v eq_refl). reflexivity.
        * rewrite (HA1 eq_refl).
          destruct (first_hit (dyn_collect (fun c rem vs => cands c rem vs) p rest vals dyn)) as [y|] eqn:EB.
          -- intro Hy. injection Hy as ->. exact (HB2 r v eq_refl).
          -- (* the late clause tries rules as KLate: never the slash candidate *)
             intro Hl. destruct (Trie.is_empty_part (p :: rest)); [|discriminate].
             pose proof (first_hit_kind (fun r0 => (KLate, r0, vals)) KLate _ _ (fun _ => eq_refl) Hl) as Hk. discriminate Hk.
  Qed.

  (* ------------------------------------------------------------------ first_hit and scan *)
  Lemma scan_of_first_hit l :
    match first_hit l with
    | None => exists h w, scan meth ws l = (MNone rule res, h, w)
    | Some c =>
        match cand_step meth ws c with
        | SFound _ v => exists h w, scan meth ws l = (MFound rule res (snd (fst c)) v, h, w)
        | SSlashReq _ => exists h w, scan meth ws l = (MSlash rule res, h, w)
        | _ => False
        end
    end.
  Proof.
    induction l as [|c l IH]; cbn [first_hit Trie.scan]; [exists [], false; reflexivity|]. unfold hitb.
    destruct (cand_step meth ws c) eqn:Es.
    - destruct (first_hit l) as [c'|].
      + destruct (cand_step meth ws c'); try contradiction; exact IH.
      + exact IH.
    - destruct (first_hit l) as [c'|].
      + destruct (cand_step meth ws c'); try contradiction; destruct IH as (h & w & ->); eauto.
      + destruct IH as (h & w & ->). eauto.
    - destruct (first_hit l) as [c'|].
      + destruct (cand_step meth ws c'); try contradiction; destruct IH as (h & w & ->); eauto.
      + destruct IH as (h & w & ->). eauto.
    - rewrite Es. eauto.
    - rewrite Es. eauto.
  Qed.

  (* the search stops at a slash redirect: the same search with the slash appended stops at the rule
     that caused it, matched directly with the same captures *)
  Theorem slash_then_same_rule root P h w :
    okstate 0 root -> (2 <= length P)%nat ->
    scan meth ws (cands root P []) = (MSlash rule res, h, w) ->
    exists r caps v h' w',
      first_hit (cands root P []) = Some (KSlash, r, caps) /\ rconvert r caps = Some v
      /\ rstrict r = true /\ method_ok rule rmethods r meth = true /\ rws r = ws
      /\ scan meth ws (cands root (P ++ [[]]) []) = (MFound rule res r v, h', w').
  Proof.
    intros Hok Hlen Hs. pose proof (scan_of_first_hit (cands root P [])) as H1.
    destruct (first_hit (cands root P [])) as [[[k r] caps]|] eqn:Ef.
    - destruct (cand_step meth ws (k, r, caps)) eqn:Es; try contradiction.
      + destruct H1 as (h1 & w1 & H1). rewrite H1 in Hs. discriminate.
      + destruct (step_slash rule res rmethods rws rstrict rconvert meth ws k r caps Es) as (-> & Hstrict & (v & Hc) & Hm & Hw).
        destruct (conv_step root 0 P [] Hok ltac:(lia)) as [_ C2]. pose proof (C2 r caps Ef) as Ef'.
        pose proof (scan_of_first_hit (cands root (P ++ [[]]) [])) as H2. rewrite Ef' in H2.
        assert (Es' : cand_step meth ws (KHere, r, caps) = SFound res v).
        { unfold Trie.cand_step. cbn [andb]. rewrite Hc, Hm, Hw, Bool.eqb_reflx. reflexivity. }
        rewrite Es' in H2. cbn [fst snd] in H2. destruct H2 as (h' & w' & H2). exists r, caps, v, h', w'. auto 10.
    - destruct H1 as (h1 & w1 & H1). rewrite H1 in Hs. discriminate.
  Qed.
End Conv.

(* ------------------------------------------------------------------ the built tree is such a tree *)
Section Built.
  Variable dpart : Type.
  Variable rule : Type.
  Variable pmatch : dpart -> str -> list str -> option (list str * list str).
  Variable dpart_eqb : dpart -> dpart -> bool.
  Variable wlt : dpart -> dpart -> bool.
  Variable rparts : rule -> list (cpart dpart).
  Hypothesis dpart_eqb_eq : forall a b, dpart_eqb a b = true -> a = b.

  Notation state := (state dpart rule).
  Notation St := (St dpart rule).
  Notation okstate := (okstate dpart rule pmatch).
  Notation dgood := (dgood dpart pmatch).
  Notation stat_find := (stat_find dpart rule).
  Notation add_parts := (add_parts dpart rule dpart_eqb).
  Notation update := (update dpart rule wlt).
  Notation empty_state := (empty_state dpart rule).

  Fixpoint okparts (depth : nat) (ps : list (cpart dpart)) : Prop :=
    match ps with
    | [] => True
    | PStatic _ k :: ps' => (k = [] -> (2 <= depth)%nat -> ps' = []) /\ okparts (S depth) ps'
    | PDyn _ d :: ps' => dgood d /\ okparts (S depth) ps'
    end.

  Lemma okstate_empty depth : okstate depth empty_state.
  Proof. constructor; [intros ? ? []|intros ? ? []|intros _ c H; discriminate H]. Qed.

  Lemma stat_find_upd_same k f l :
    stat_find k (Trie.stat_upd dpart rule k f l) = Some (f (match stat_find k l with Some c => c | None => empty_state end)).
  Proof.
    induction l as [|[k0 c0] l IH]; cbn [Trie.stat_upd Trie.stat_find].
    - rewrite list_eqb_refl. reflexivity.
    - destruct (list_eqb k0 k) eqn:E; cbn [Trie.stat_find]; rewrite E; [reflexivity|exact IH].
  Qed.
  Lemma stat_find_upd_other k' k f l : k' <> k -> stat_find k' (Trie.stat_upd dpart rule k f l) = stat_find k' l.
  Proof.
    intro Hne. induction l as [|[k0 c0] l IH]; cbn [Trie.stat_upd Trie.stat_find].
    - destruct (list_eqb k k') eqn:E; [apply list_eqb_eq in E; subst; contradiction|reflexivity].
    - destruct (list_eqb k0 k) eqn:E; cbn [Trie.stat_find].
      + destruct (list_eqb k0 k') eqn:E'; [|reflexivity]. apply list_eqb_eq in E, E'. subst. contradiction.
      + destruct (list_eqb k0 k'); [reflexivity|exact IH].
  Qed.

  Lemma okstate_add r : forall ps depth s, okstate depth s -> okparts depth ps -> okstate depth (add_parts ps r s).
  Proof.
    induction ps as [|p ps IH]; intros depth s Hok Hps; inversion Hok as [? dyn rules stat Hdy Hst Hchain]; subst.
    - cbn [Trie.add_parts Trie.st_dyn Trie.st_rules Trie.st_stat]. constructor; assumption.
    - destruct p as [k|d]; cbn [okparts] in Hps; destruct Hps as [Hp Hps'];
        cbn [Trie.add_parts Trie.st_dyn Trie.st_rules Trie.st_stat]; constructor; try assumption.
      + intros k' c Hin. apply (stat_upd_in dpart rule) in Hin. destruct Hin as [Hin|(-> & [(c0 & Hin & ->)| ->])].
        * exact (Hst _ _ Hin).
        * apply IH; [exact (Hst _ _ Hin)|exact Hps'].
        * apply IH; [apply okstate_empty|exact Hps'].
      + intros Hd2 c Hf. destruct (list_eq_dec N.eq_dec k []) as [->|Hk].
        * rewrite stat_find_upd_same in Hf. injection Hf as <-. rewrite (Hp eq_refl Hd2).
          cbn [Trie.add_parts Trie.st_stat]. destruct (stat_find [] stat) as [c0|] eqn:E0; [exact (Hchain Hd2 c0 eq_refl)|reflexivity].
        * rewrite stat_find_upd_other in Hf by (intro E; apply Hk; symmetry; exact E). exact (Hchain Hd2 c Hf).
      + intros d' c Hin. apply (dyn_upd_in dpart rule dpart_eqb dpart_eqb_eq) in Hin.
        destruct Hin as [Hin|(-> & [(c0 & Hin & ->)| ->])].
        * exact (Hdy _ _ Hin).
        * split; [exact Hp|]. apply IH; [exact (proj2 (Hdy _ _ Hin))|exact Hps'].
        * split; [exact Hp|]. apply IH; [apply okstate_empty|exact Hps'].
  Qed.

  Lemma stat_find_map_update k l :
    stat_find k (map (fun kc => (fst kc, update (snd kc))) l) = option_map update (stat_find k l).
  Proof.
    induction l as [|[k0 c0] l IH]; [reflexivity|]. cbn [map fst snd Trie.stat_find]. destruct (list_eqb k0 k); [reflexivity|exact IH].
  Qed.

  Lemma okstate_update : forall s depth, okstate depth s -> okstate depth (update s).
  Proof.
    induction s as [dyn rules stat IHd IHs] using (state_ind' dpart rule). intros depth H.
    inversion H as [? ? ? ? Hdy Hst Hchain]; subst. cbn [Trie.update]. constructor.
    - intros d c Hin. apply (sort_dyn_in dpart rule wlt) in Hin. apply in_map_iff in Hin. destruct Hin as ([d0 c0] & Heq & Hin0).
      cbn [fst snd] in Heq. injection Heq as <- <-. destruct (Hdy _ _ Hin0) as [Hg Hc]. split; [exact Hg|]. exact (IHd _ _ Hin0 _ Hc).
    - intros k c Hin. apply in_map_iff in Hin. destruct Hin as ([k0 c0] & Heq & Hin0). cbn [fst snd] in Heq. injection Heq as <- <-.
      exact (IHs _ _ Hin0 _ (Hst _ _ Hin0)).
    - intros Hd2 c Hf. rewrite stat_find_map_update in Hf. destruct (stat_find [] stat) as [c0|] eqn:E0; [|discriminate].
      cbn [option_map] in Hf. injection Hf as <-. pose proof (Hchain Hd2 c0 eq_refl) as Hn. destruct c0 as [cd cr cs].
      cbn [Trie.update Trie.st_stat] in *. rewrite stat_find_map_update, Hn. reflexivity.
  Qed.

  Theorem okstate_build rules :
    (forall r, In r rules -> okparts 0 (rparts r)) -> okstate 0 (build_trie dpart rule dpart_eqb wlt rparts rules).
  Proof.
    intro H. unfold Trie.build_trie. apply okstate_update.
    assert (Hf : forall s0, okstate 0 s0 -> okstate 0 (fold_left (fun s r => add_parts (rparts r) r s) rules s0)).
    { revert H. induction rules as [|r rs IH]; intros H s0 Hs; [exact Hs|]. cbn [fold_left]. apply IH.
      - intros r' Hr'. apply H. right. exact Hr'.
      - apply okstate_add; [exact Hs|apply H; left; reflexivity]. }
    apply Hf. apply okstate_empty.
  Qed.
End Built.
