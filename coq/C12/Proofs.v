(* C12 proofs. *)
From Coq Require Import ZArith Lia.
From Wz Require Import lib.Bytes lib.BytesFacts lib.Utf8 C03.Gen C03.Trie C03.TrieFacts C03.Model C03.Proofs C12.Model.
Open Scope N_scope.

Lemma drop_while_head (p : N -> bool) s x r : drop_while p s = x :: r -> p x = false.
Proof.
  induction s as [|y s IH]; cbn [drop_while]; [discriminate|].
  destruct (p y) eqn:E; [exact IH|]. intro H. injection H as <- _. exact E.
Qed.

Lemma rstrip_head (p : N -> bool) x r y t : p x = false -> rstrip p (x :: r) = y :: t -> y = x.
Proof.
  intros Hx. cbn [rstrip]. destruct (rstrip p r); [rewrite Hx|]; intro H; injection H as <- _; reflexivity.
Qed.

Lemma strip_head (p : N -> bool) s y t : strip p s = y :: t -> p y = false.
Proof.
  unfold strip. destruct (drop_while p s) as [|x r] eqn:E; [discriminate|].
  pose proof (drop_while_head _ _ _ _ E) as Hx. intro H.
  rewrite (rstrip_head _ _ _ _ _ Hx H). exact Hx.
Qed.

Lemma lstrip_no_slash s : starts_with [SLASH] (lstrip_slash s) = false.
Proof.
  unfold lstrip_slash. destruct (drop_while (N.eqb SLASH) s) as [|x r] eqn:E; [reflexivity|].
  apply drop_while_head in E. cbn [starts_with]. rewrite E. reflexivity.
Qed.

Lemma eff_scheme_nonempty a : is_nil (eff_scheme a) = false.
Proof. unfold eff_scheme. destruct (a_scheme a) eqn:E; reflexivity. Qed.

(* MapAdapter.make_redirect_url always yields root ++ (path without leading slashes) ++ ?query *)
Lemma make_redirect_url_shape m a pi dp :
  has (eff_scheme a) uses_netloc = true ->
  make_redirect_url m a pi dp = url_root m a dp ++ lstrip_slash pi ++ query_suffix a.
Proof.
  intro Hs. unfold make_redirect_url, urlunsplit, url_root, script_root, query_suffix.
  fold (eff_scheme a). rewrite eff_scheme_nonempty. cbn [negb]. rewrite Hs. cbn [andb].
  pose proof (lstrip_no_slash pi) as Hl.
  destruct (strip_slash (script_name a)) as [|c s] eqn:Estrip; cbn [is_nil app].
  - assert (H1 : starts_with [SLASH; SLASH] (SLASH :: lstrip_slash pi) = false).
    { cbn [starts_with]. rewrite N.eqb_refl. cbn [andb]. destruct (lstrip_slash pi) as [|x r]; [reflexivity|].
      cbn [starts_with] in Hl |- *. destruct (SLASH =? x); [discriminate|reflexivity]. }
    rewrite H1. cbn [negb]. rewrite orb_true_r.
    cbn [starts_with]. rewrite N.eqb_refl. cbn [andb negb].
    destruct (is_nil (a_query a)); repeat first [rewrite <- app_assoc | progress cbn [app]]; rewrite ?app_nil_r; reflexivity.
  - pose proof (strip_head _ _ _ _ Estrip) as Hc.
    assert (H1 : starts_with [SLASH; SLASH] (c :: s ++ SLASH :: lstrip_slash pi) = false).
    { cbn [starts_with]. rewrite Hc. reflexivity. }
    rewrite H1. cbn [negb]. rewrite orb_true_r.
    assert (H2 : starts_with [SLASH] (c :: s ++ SLASH :: lstrip_slash pi) = false).
    { cbn [starts_with]. rewrite Hc. reflexivity. }
    rewrite H2. cbn [negb andb].
    destruct (is_nil (a_query a)); repeat first [rewrite <- app_assoc | progress cbn [app]]; rewrite ?app_nil_r; reflexivity.
Qed.

Lemma safe_redirect_no_delims : mem QMARK safe_redirect = false /\ mem HASH safe_redirect = false.
Proof. split; vm_compute; reflexivity. Qed.

Lemma hex_digit_no_delim n : (hex_digit n =? QMARK) = false /\ (hex_digit n =? HASH) = false.
Proof.
  unfold hex_digit, QMARK, HASH. destruct (n <? 10) eqn:E.
  - apply N.ltb_lt in E. split; apply N.eqb_neq; lia.
  - apply N.ltb_ge in E. split; apply N.eqb_neq; lia.
Qed.

Lemma always_safe_no_delim : always_safe QMARK = false /\ always_safe HASH = false.
Proof. split; vm_compute; reflexivity. Qed.

Lemma quote_byte_no_delims b c :
  In c (quote_byte safe_redirect b) -> (c =? QMARK) = false /\ (c =? HASH) = false.
Proof.
  unfold quote_byte.
  destruct ((b <? 128) && (always_safe b || mem b safe_redirect)) eqn:E.
  - intros [<-|[]]. apply andb_prop in E. destruct E as [_ E].
    split; apply N.eqb_neq; intro Hb; subst b.
    + destruct always_safe_no_delim as [H1 _]. destruct safe_redirect_no_delims as [H2 _].
      rewrite H1, H2 in E. discriminate.
    + destruct always_safe_no_delim as [_ H1]. destruct safe_redirect_no_delims as [_ H2].
      rewrite H1, H2 in E. discriminate.
  - intros [<-|[<-|[<-|[]]]].
    + split; reflexivity.
    + apply hex_digit_no_delim.
    + apply hex_digit_no_delim.
Qed.

Lemma quote_no_delims s :
  forallb (fun c => negb (c =? QMARK) && negb (c =? HASH)) (quote safe_redirect s) = true.
Proof.
  apply forallb_forall. intros c Hin. unfold quote in Hin. apply in_flat_map in Hin.
  destruct Hin as (b & _ & Hc). destruct (quote_byte_no_delims _ _ Hc) as [H1 H2]. rewrite H1, H2. reflexivity.
Qed.

Lemma forallb_drop_while (p q : N -> bool) s : forallb p s = true -> forallb p (drop_while q s) = true.
Proof.
  induction s as [|x s IH]; cbn [drop_while forallb]; [reflexivity|]. intro H.
  apply andb_prop in H. destruct H as [Hx Hs]. destruct (q x); [exact (IH Hs)|].
  cbn [forallb]. rewrite Hx, Hs. reflexivity.
Qed.

(* the slash / merged-slash redirects (RequestPath) *)
Lemma path_redirect_on_host m a p' :
  has (eff_scheme a) uses_netloc = true ->
  on_host m a None (make_redirect_url m a (quote safe_redirect p') None).
Proof.
  intro Hs. exists (lstrip_slash (quote safe_redirect p')). split; [apply make_redirect_url_shape; exact Hs|].
  split; [apply lstrip_no_slash|]. apply forallb_drop_while. apply quote_no_delims.
Qed.

Theorem on_host_or_builder h m a p me u :
  has (eff_scheme a) uses_netloc = true ->
  map_match h m a p me = RedirectTo u ->
  on_host m a None u
  \/ exists r v, In r (m_rules m) /\ admits m r (request_parts m a p) = ADirect _ v
       /\ m_redirect_defaults m = true
       /\ (r_alias r = true /\ u = h_alias h m a (upper me) r (dict_update v (r_defaults r))
           \/ h_default h m a (upper me) r (dict_update v (r_defaults r)) = Some u).
Proof.
  intros Hs H. apply redirect_sound in H. destruct H as [p' Hp ->|r v Hin Ha Hm Hw Hrd Hb].
  - left. apply path_redirect_on_host. exact Hs.
  - right. exists r, v. auto.
Qed.

Definition ex_adapter_app : adapter :=
  {| a_scheme := [104; 116; 116; 112; 115]; a_server := a_server ex_adapter; a_script := [47; 97; 112; 112];
     a_subdomain := None; a_query := [113; 61; 49] |}.
(* '//evil.com/3' under Rule('/evil.com/<int(max=5):a>/'), bound to https://example.com/app with ?q=1 *)
Definition ex_r3 : rule := mk_rule 0 [SLit [101; 118; 105; 108; 46; 99; 111; 109]; SDyn [] (CInt 0 None (Some 5%Z) false) [97] []] None true None.
Lemma ex_evil :
  map_match no_hooks (mk_map [ex_r3]) ex_adapter_app [47; 47; 101; 118; 105; 108; 46; 99; 111; 109; 47; 51] GET
  = RedirectTo ([104; 116; 116; 112; 115; 58; 47; 47] ++ a_server ex_adapter ++ [47; 97; 112; 112; 47]
                ++ [101; 118; 105; 108; 46; 99; 111; 109; 47; 51; 47] ++ [63; 113; 61; 49])
  /\ has (eff_scheme ex_adapter_app) uses_netloc = true.
Proof. split; vm_compute; reflexivity. Qed.
