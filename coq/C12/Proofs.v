(* C12 proofs. *)
From Coq Require Import ZArith Lia.
From Wz Require Import lib.Bytes lib.BytesFacts lib.Utf8 C03.Gen C03.Trie C03.TrieFacts C03.Model C03.Proofs C12.Model.
Open Scope N_scope.

Lemma drop_while_head (p : N -> bool) s x r : drop_while p s = x :: r -> p x = false.
Proof.
  induction s as [|y s IH]; cbn [drop_while]; [discriminate|].
  destruct (p y) eqn:E; [exact IH|]. intro H. injection H as <- _. exact E.
Qed.

Lemma rstrip_head (p : N -> bool) x r y t : p x = false -> rstrip p (x :: r) = y :: t -> y = x.
Proof.
  intros Hx. cbn [rstrip]. destruct (rstrip p r); [rewrite Hx|]; intro H; injection H as <- _; reflexivity.
Qed.

Lemma strip_head (p : N -> bool) s y t : strip p s = y :: t -> p y = false.
Proof.
  unfold strip. destruct (drop_while p s) as [|x r] eqn:E; [discriminate|].
  pose proof (drop_while_head _ _ _ _ E) as Hx. intro H.
  rewrite (rstrip_head _ _ _ _ _ Hx H). exact Hx.
Qed.

Lemma lstrip_no_slash s : starts_with [SLASH] (lstrip_slash s) = false.
Proof.
  unfold lstrip_slash. destruct (drop_while (N.eqb SLASH) s) as [|x r] eqn:E; [reflexivity|].
  apply drop_while_head in E. cbn [starts_with]. rewrite E. reflexivity.
Qed.

Lemma eff_scheme_nonempty a : is_nil (eff_scheme a) = false.
Proof. unfold eff_scheme. destruct (a_scheme a) eqn:E; reflexivity. Qed.

(* MapAdapter.make_redirect_url always yields root ++ (path without leading slashes) ++ ?query *)
Lemma make_redirect_url_shape m a pi dp :
  has (eff_scheme a) uses_netloc = true ->
  make_redirect_url m a pi dp = url_root m a dp ++ lstrip_slash pi ++ query_suffix a.
Proof.
  intro Hs. unfold make_redirect_url, urlunsplit, url_root, script_root, query_suffix.
  fold (eff_scheme a). rewrite eff_scheme_nonempty. cbn [negb]. rewrite Hs. cbn [andb].
  pose proof (lstrip_no_slash pi) as Hl.
  destruct (strip_slash (script_name a)) as [|c s] eqn:Estrip; cbn [is_nil app].
  - assert (H1 : starts_with [SLASH; SLASH] (SLASH :: lstrip_slash pi) = false).
    { cbn [starts_with]. rewrite N.eqb_refl. cbn [andb]. destruct (lstrip_slash pi) as [|x r]; [reflexivity|].
      cbn [starts_with] in Hl |- *. destruct (SLASH =? x); [discriminate|reflexivity]. }
    rewrite H1. cbn [negb]. rewrite orb_true_r.
    cbn [starts_with]. rewrite N.eqb_refl. cbn [andb negb].
    destruct (is_nil (a_query a)); repeat first [rewrite <- app_assoc | progress cbn [app]]; rewrite ?app_nil_r; reflexivity.
  - pose proof (strip_head _ _ _ _ Estrip) as Hc.
    assert (H1 : starts_with [SLASH; SLASH] (c :: s ++ SLASH :: lstrip_slash pi) = false).
    { cbn [starts_with]. rewrite Hc. reflexivity. }
    rewrite H1. cbn [negb]. rewrite orb_true_r.
    assert (H2 : starts_with [SLASH] (c :: s ++ SLASH :: lstrip_slash pi) = false).
    { cbn [starts_with]. rewrite Hc. reflexivity. }
    rewrite H2. cbn [negb andb].
    destruct (is_nil (a_query a)); repeat first [rewrite <- app_assoc | progress cbn [app]]; rewrite ?app_nil_r; reflexivity.
Qed.

Lemma safe_redirect_no_delims : mem QMARK safe_redirect = false /\ mem HASH safe_redirect = false.
Proof. split; vm_compute; reflexivity. Qed.

Lemma hex_digit_no_delim n : (hex_digit n =? QMARK) = false /\ (hex_digit n =? HASH) = false.
Proof.
  unfold hex_digit, QMARK, HASH. destruct (n <? 10) eqn:E.
  - apply N.ltb_lt in E. split; apply N.eqb_neq; lia.
  - apply N.ltb_ge in E. split; apply N.eqb_neq; lia.
Qed.

Lemma always_safe_no_delim : always_safe QMARK = false /\ always_safe HASH = false.
Proof. split; vm_compute; reflexivity. Qed.

Lemma quote_byte_no_delims b c :
  In c (quote_byte safe_redirect b) -> (c =? QMARK) = false /\ (c =? HASH) = false.
Proof.
  unfold quote_byte.
  destruct ((b <? 128) && (always_safe b || mem b safe_redirect)) eqn:E.
  - intros [<-|[]]. apply andb_prop in E. destruct E as [_ E].
    split; apply N.eqb_neq; intro Hb; subst b.
    + destruct always_safe_no_delim as [H1 _]. destruct safe_redirect_no_delims as [H2 _].
      rewrite H1, H2 in E. discriminate.
    + destruct always_safe_no_delim as [_ H1]. destruct safe_redirect_no_delims as [_ H2].
      rewrite H1, H2 in E. discriminate.
  - intros [<-|[<-|[<-|[]]]].
    + split; reflexivity.
    + apply hex_digit_no_delim.
    + apply hex_digit_no_delim.
Qed.

Lemma quote_no_delims s :
  forallb (fun c => negb (c =? QMARK) && negb (c =? HASH)) (quote safe_redirect s) = true.
Proof.
  apply forallb_forall. intros c Hin. unfold quote in Hin. apply in_flat_map in Hin.
  destruct Hin as (b & _ & Hc). destruct (quote_byte_no_delims _ _ Hc) as [H1 H2]. rewrite H1, H2. reflexivity.
Qed.

Lemma forallb_drop_while (p q : N -> bool) s : forallb p s = true -> forallb p (drop_while q s) = true.
Proof.
  induction s as [|x s IH]; cbn [drop_while forallb]; [reflexivity|]. intro H.
  apply andb_prop in H. destruct H as [Hx Hs]. destruct (q x); [exact (IH Hs)|].
  cbn [forallb]. rewrite Hx, Hs. reflexivity.
Qed.

(* the slash / merged-slash redirects (RequestPath) *)
Lemma path_redirect_on_host m a p' :
  has (eff_scheme a) uses_netloc = true ->
  on_host m a None (make_redirect_url m a (quote safe_redirect p') None).
Proof.
  intro Hs. exists (lstrip_slash (quote safe_redirect p')). split; [apply make_redirect_url_shape; exact Hs|].
  split; [apply lstrip_no_slash|]. apply forallb_drop_while. apply quote_no_delims.
Qed.

Theorem on_host_or_builder h m a p me u :
  has (eff_scheme a) uses_netloc = true ->
  map_match h m a p me = RedirectTo u ->
  on_host m a None u
  \/ exists r v, In r (m_rules m) /\ admits m r (request_parts m a p) = ADirect _ v
       /\ m_redirect_defaults m = true
       /\ (r_alias r = true /\ h_alias h m a (upper me) r (dict_update v (r_defaults r)) = BOk u
           \/ h_default h m a (upper me) r (dict_update v (r_defaults r)) = BOk (Some u)).
Proof.
  intros Hs H. apply redirect_sound in H. destruct H as [p' Hp ->|r v Hin Ha Hm Hw Hrd Hb].
  - left. apply path_redirect_on_host. exact Hs.
  - right. exists r, v. auto.
Qed.

Definition ex_adapter_app : adapter :=
  {| a_scheme := [104; 116; 116; 112; 115]; a_server := a_server ex_adapter; a_script := [47; 97; 112; 112];
     a_subdomain := None; a_query := [113; 61; 49] |}.
(* '//evil.com/3' under Rule('/evil.com/<int(max=5):a>/'), bound to https://example.com/app with ?q=1 *)
Definition ex_r3 : rule := mk_rule 0 [SLit [101; 118; 105; 108; 46; 99; 111; 109]; SDyn [] (CInt 0 None (Some 5%Z) false) [97] []] None true None.
Lemma ex_evil :
  map_match no_hooks (mk_map [ex_r3]) ex_adapter_app [47; 47; 101; 118; 105; 108; 46; 99; 111; 109; 47; 51] GET
  = RedirectTo ([104; 116; 116; 112; 115; 58; 47; 47] ++ a_server ex_adapter ++ [47; 97; 112; 112; 47]
                ++ [101; 118; 105; 108; 46; 99; 111; 109; 47; 51; 47] ++ [63; 113; 61; 49])
  /\ has (eff_scheme ex_adapter_app) uses_netloc = true.
Proof. split; vm_compute; reflexivity. Qed.

(* ================================================================== the builder's redirects *)
From Wz Require Import C04.Model.

Lemma insert_rule_in x l y : In y (insert_rule x l) -> y = x \/ In y l.
Proof.
  induction l as [|z l IH]; cbn [insert_rule].
  - intros [H|[]]. left. symmetry. exact H.
  - destruct (key_lt (build_key z) (build_key x)).
    + intros [H|H]; [right; left; exact H|]. destruct (IH H) as [H'|H']; [left; exact H'|right; right; exact H'].
    + intros [H|H]; [left; symmetry; exact H|right; exact H].
Qed.

Lemma rules_for_in m e r : In r (rules_for m e) -> In r (m_rules m) /\ r_endpoint r = e.
Proof.
  unfold rules_for. intro H.
  assert (Hf : In r (filter (fun r => r_endpoint r =? e) (m_rules m))).
  { revert H. generalize (filter (fun r => r_endpoint r =? e) (m_rules m)). intro l.
    induction l as [|x l IH]; cbn [fold_right]; [intros []|]. intro H. apply insert_rule_in in H.
    destruct H as [->|H]; [left; reflexivity|right; exact (IH H)]. }
  apply filter_In in Hf. destruct Hf as [H1 H2]. apply N.eqb_eq in H2. split; assumption.
Qed.

(* scheme: + // + host + script root, as MapAdapter.build assembles an external URL *)
Definition build_scheme (a : adapter) (ws_rule : bool) : str :=
  let secure := list_eqb (a_scheme a) HTTPS || list_eqb (a_scheme a) WSS in
  if ws_rule then (if secure then WSS else WS)
  else if is_nil (a_scheme a) then [] else (if secure then HTTPS else HTTP).
Definition alias_root (m : rmap) (a : adapter) (ws_rule : bool) (dp : str) : str :=
  (if is_nil (build_scheme a ws_rule) then [] else build_scheme a ws_rule ++ [COLON]) ++ [SLASH; SLASH]
  ++ get_host m a (Some dp) ++ removelast (script_name a) ++ [SLASH].

Inductive builder_target (m : rmap) (a : adapter) (endpoint : N) (u : str) : Prop :=
| BT_default r dp path vals :
    In r (m_rules m) -> r_endpoint r = endpoint -> build_rule r vals = BOk (dp, path) ->
    u = url_root m a (Some dp) ++ lstrip_slash path ++ query_suffix a -> builder_target m a endpoint u
| BT_alias r dp path vals :
    In r (m_rules m) -> r_endpoint r = endpoint -> build_rule r vals = BOk (dp, path) ->
    u = alias_root m a (r_websocket r) dp ++ lstrip_slash path ++ query_suffix a -> builder_target m a endpoint u.

Lemma default_loop_target m a meth rule0 vals rs u :
  has (eff_scheme a) uses_netloc = true ->
  (forall r, In r rs -> In r (m_rules m) /\ r_endpoint r = r_endpoint rule0) ->
  default_redirect_loop m a meth rule0 vals rs = BOk (Some u) -> builder_target m a (r_endpoint rule0) u.
Proof.
  intros Hs. induction rs as [|r rs IH]; intros Hin; cbn [default_redirect_loop]; [discriminate|].
  destruct (r_idx r =? r_idx rule0); [discriminate|].
  destruct (provides_defaults_for r rule0 && suitable_for r vals (Some meth)).
  - destruct (build_rule r (dict_update vals (r_defaults r))) as [[dp path]| |] eqn:Eb; cbn [bbind]; try discriminate.
    intro H. injection H as <-. destruct (Hin r (or_introl eq_refl)) as [H1 H2].
    eapply BT_default; [exact H1|exact H2|exact Eb|]. cbn [fst snd]. apply make_redirect_url_shape. exact Hs.
  - apply IH. intros r' Hr'. apply Hin. right. exact Hr'.
Qed.

Lemma partial_build_sound rs vals meth r dp path :
  partial_build rs vals meth = BOk (Some (r, dp, path)) -> In r rs /\ build_rule r vals = BOk (dp, path).
Proof.
  induction rs as [|r0 rs IH]; cbn [partial_build]; [discriminate|].
  destruct (suitable_for r0 vals meth).
  - destruct (build_rule r0 vals) as [[dp0 path0]| |] eqn:Eb; cbn [bbind]; try discriminate.
    intro H. injection H as <- <- <-. split; [left; reflexivity|exact Eb].
  - intro H. destruct (IH H) as [H1 H2]. split; [right; exact H1|exact H2].
Qed.

Lemma alias_target m a meth rule0 vals u :
  alias_redirect_url m a meth rule0 vals = BOk u -> builder_target m a (r_endpoint rule0) u.
Proof.
  unfold alias_redirect_url, adapter_build.
  destruct (partial_build (rules_for m (r_endpoint rule0)) vals (Some meth)) as [[[[r dp] path]|]| |] eqn:Ep; cbn [bbind]; try discriminate.
  apply partial_build_sound in Ep. destruct Ep as [Hin Hb]. apply rules_for_in in Hin. destruct Hin as [H1 H2].
  cbn [orb negb andb bbind]. intro H. injection H as <-.
  eapply BT_alias; [exact H1|exact H2|exact Hb|]. unfold alias_root, build_scheme.
  repeat first [rewrite <- app_assoc | progress cbn [app]]. reflexivity.
Qed.

(* C12_on_host at full strength *)
Theorem router_on_host m a p me u :
  has (eff_scheme a) uses_netloc = true ->
  router_match m a p me = RedirectTo u ->
  on_host m a None u
  \/ exists r v, In r (m_rules m) /\ admits m r (request_parts m a p) = ADirect _ v
       /\ builder_target m a (r_endpoint r) u.
Proof.
  intros Hs H. unfold router_match in H. destruct (on_host_or_builder _ _ _ _ _ _ Hs H) as [Ho|(r & v & Hin & Ha & Hrd & Hb)].
  - left. exact Ho.
  - right. exists r, v. split; [exact Hin|]. split; [exact Ha|]. destruct Hb as [[Hal Hu]|Hd].
    + cbn [router_hooks h_alias] in Hu. exact (alias_target _ _ _ _ _ _ Hu).
    + cbn [router_hooks h_default] in Hd. unfold get_default_redirect in Hd.
      eapply default_loop_target; [exact Hs| |exact Hd]. intros r' Hr'. exact (rules_for_in _ _ _ Hr').
Qed.

(* without host matching every host the router names is the bound server name, possibly behind a subdomain *)
Lemma get_host_bound m a dp :
  m_host_matching m = false ->
  exists sub, get_host m a dp = (if is_nil sub then [] else sub ++ [DOT]) ++ a_server a.
Proof.
  intro Hh. unfold get_host. rewrite Hh.
  destruct (match dp with None => bound_subdomain m a | Some d => Some d end) as [[|c s]|].
  - exists []. reflexivity.
  - exists (c :: s). cbn [is_nil]. rewrite <- app_assoc. reflexivity.
  - exists []. reflexivity.
Qed.

(* the documented defaults idiom: Rule('/all/', defaults={'page': 1}), Rule('/all/page/<int:page>'), same endpoint,
   bound to https://example.com/app with ?q=1 : '/all/page/1' is redirected to https://example.com/app/all/?q=1 *)
Definition ALL : str := [97; 108; 108].
Definition PAGE : str := [112; 97; 103; 101].
Definition ex_all : rule :=
  {| r_idx := 0; r_endpoint := 0; r_dom := SLit []; r_segs := [SLit ALL]; r_tail := None; r_branch := true;
     r_methods := None; r_strict_opt := None; r_merge_opt := None; r_websocket := false; r_alias := false;
     r_defaults := [(PAGE, VInt 1)] |}.
Definition ex_page : rule :=
  {| r_idx := 1; r_endpoint := 0; r_dom := SLit []; r_segs := [SLit ALL; SLit PAGE; SDyn [] (CInt 0 None None false) PAGE []];
     r_tail := None; r_branch := false; r_methods := None; r_strict_opt := None; r_merge_opt := None;
     r_websocket := false; r_alias := false; r_defaults := [] |}.
Lemma ex_defaults :
  router_match (mk_map [ex_all; ex_page]) ex_adapter_app ([47] ++ ALL ++ [47] ++ PAGE ++ [47; 49]) GET
  = RedirectTo ([104; 116; 116; 112; 115; 58; 47; 47] ++ a_server ex_adapter ++ [47; 97; 112; 112; 47] ++ ALL ++ [47; 63; 113; 61; 49])
  /\ router_match (mk_map [ex_all; ex_page]) ex_adapter_app ([47] ++ ALL ++ [47] ++ PAGE ++ [47; 50]) GET
     = Match ex_page [(PAGE, VInt 2)].
Proof. split; vm_compute; reflexivity. Qed.

(* ================================================================== convergence: the target of a
   slash / merged-slash redirect is admitted directly, with the same arguments, by the rule that
   caused the redirect *)
Notation cwalk := (Trie.walk dpart pmatch).

Lemma split_slash_nonempty s : split_slash s <> [].
Proof.
  induction s as [|c s IH]; [discriminate|]. cbn [split_slash]. destruct (c =? SLASH); [discriminate|].
  destruct (split_slash s); discriminate.
Qed.

Lemma split_slash_snoc s : split_slash (s ++ [SLASH]) = split_slash s ++ [[]].
Proof.
  induction s as [|c s IH]; [reflexivity|]. cbn [app split_slash]. destruct (c =? SLASH); rewrite IH; [reflexivity|].
  pose proof (split_slash_nonempty s) as Hn. destruct (split_slash s) as [|hd tl]; [contradiction|reflexivity].
Qed.

Lemma join_slash_snoc l : l <> [] -> join_slash (l ++ [[]]) = join_slash l ++ [SLASH].
Proof.
  induction l as [|x l IH]; [contradiction|]. intros _. destruct l as [|y l].
  - cbn [app join_slash]. reflexivity.
  - change ((x :: y :: l) ++ [[]]) with (x :: ((y :: l) ++ [[]])).
    change (join_slash (x :: (y :: l) ++ [[]])) with (x ++ SLASH :: join_slash ((y :: l) ++ [[]])).
    rewrite IH by discriminate. change (join_slash (x :: y :: l)) with (x ++ SLASH :: join_slash (y :: l)).
    rewrite <- app_assoc. reflexivity.
Qed.

Lemma starts_with_app p s x : starts_with p s = true -> starts_with p (s ++ x) = true.
Proof.
  revert s. induction p as [|c p IH]; intros s H; [reflexivity|]. destruct s as [|d s]; [discriminate|].
  cbn [starts_with app] in *. apply andb_prop in H. destruct H as [H1 H2]. rewrite H1, (IH _ H2). reflexivity.
Qed.
Lemma starts_with_length p s : starts_with p s = true -> (length p <= length s)%nat.
Proof.
  revert s. induction p as [|c p IH]; intros s H; [cbn; lia|]. destruct s as [|d s]; [discriminate|].
  cbn [starts_with] in H. apply andb_prop in H. cbn [length]. pose proof (IH _ (proj2 H)). lia.
Qed.

Lemma strip_prefix_app p s t x : strip_prefix p s = Some t -> strip_prefix p (s ++ x) = Some (t ++ x).
Proof.
  unfold strip_prefix. destruct (starts_with p s) eqn:E; [|discriminate]. intro H. injection H as <-.
  rewrite (starts_with_app _ _ x E). f_equal. rewrite skipn_app.
  replace (length p - length s)%nat with O by (pose proof (starts_with_length _ _ E); lia). reflexivity.
Qed.

Lemma ends_with_slash_snoc t : ends_with_slash (t ++ [SLASH]) = true.
Proof. unfold ends_with_slash. rewrite rev_unit. apply N.eqb_refl. Qed.

(* a part that is not final looks at its own segment only *)
Lemma pmatch_nonfinal d p rest :
  d_final d = false -> d_suffixed d = false ->
  pmatch d p rest = match pmatch d p [] with Some (g, _) => Some (g, rest) | None => None end.
Proof.
  intros Hf Hs. unfold pmatch. rewrite Hf, Hs. destruct (strip_prefix (d_pre d) p) as [t1|]; [|reflexivity].
  destruct (strip_suffix (d_post d) t1) as [mid|]; [|reflexivity]. destruct (in_lang (d_lang d) mid); reflexivity.
Qed.

(* a suffixed final part that consumed a path without trailing slash consumes the same text from the
   path with the slash appended and hands the slash on *)
Lemma pmatch_suffixed_ext d p rest g :
  d_final d = true -> d_suffixed d = true ->
  pmatch d p rest = Some (g, []) -> pmatch d p (rest ++ [[]]) = Some (g, [[]]).
Proof.
  intros Hf Hs. unfold pmatch. rewrite Hf, Hs.
  change (p :: rest ++ [[]]) with ((p :: rest) ++ [[]]). rewrite join_slash_snoc by discriminate.
  destruct (strip_prefix (d_pre d) (join_slash (p :: rest))) as [t1|] eqn:E; [|discriminate].
  rewrite (strip_prefix_app _ _ _ [SLASH] E). rewrite ends_with_slash_snoc, removelast_app_one.
  destruct (ends_with_slash t1) eqn:Ee.
  - destruct (in_lang (d_lang d) (removelast t1) && negb (ends_with_slash (removelast t1))); discriminate.
  - destruct (in_lang (d_lang d) t1); [|discriminate]. intro H. injection H as <-. reflexivity.
Qed.

(* final parts occur only as the last part, and then suffixed *)
Definition plain (d : dpart) : bool := negb (d_final d) && negb (d_suffixed d).
Fixpoint snoc_ok (sigma : list (cpart dpart)) : bool :=
  match sigma with
  | [] => true
  | PStatic _ _ :: s' => snoc_ok s'
  | PDyn _ d :: s' => match s' with
                     | [] => plain d || (d_final d && d_suffixed d)
                     | _ :: _ => plain d && snoc_ok s'
                     end
  end.

Lemma plain_facts d : plain d = true -> d_final d = false /\ d_suffixed d = false.
Proof. unfold plain. intro H. apply andb_prop in H. destruct H as [H1 H2]. apply negb_true_iff in H1, H2. auto. Qed.

Lemma walk_snoc sigma : forall P caps,
  snoc_ok sigma = true -> cwalk sigma P = Some (caps, []) -> cwalk sigma (P ++ [[]]) = Some (caps, [[]]).
Proof.
  induction sigma as [|c sigma IH]; intros P caps Hok Hw.
  - cbn [Trie.walk] in *. injection Hw as <- ->. reflexivity.
  - destruct c as [k|d]; cbn [Trie.walk] in *; destruct P as [|p ps]; try discriminate; cbn [app].
    + destruct (list_eqb k p); [|discriminate]. apply IH; [exact Hok|exact Hw].
    + destruct (pmatch d p ps) as [[g rem]|] eqn:Ep; [|discriminate].
      destruct (cwalk sigma rem) as [[caps' lo]|] eqn:Ew; [|discriminate]. injection Hw as <- ->.
      destruct sigma as [|c2 sigma2].
      * cbn [Trie.walk] in Ew. injection Ew as <- ->. cbn [snoc_ok] in Hok.
        apply orb_prop in Hok. destruct Hok as [Hp|Hfs].
        -- destruct (plain_facts _ Hp) as [Hf Hs]. rewrite pmatch_nonfinal in Ep |- * by assumption.
           destruct (pmatch d p []) as [[g0 r0]|]; [|discriminate]. injection Ep as Hg Hps. subst g ps.
           cbn [app Trie.walk]. reflexivity.
        -- apply andb_prop in Hfs. destruct Hfs as [Hf Hs]. rewrite (pmatch_suffixed_ext _ _ _ _ Hf Hs Ep). reflexivity.
      * cbn [snoc_ok] in Hok. apply andb_prop in Hok. destruct Hok as [Hp Hok]. destruct (plain_facts _ Hp) as [Hf Hs].
        rewrite pmatch_nonfinal in Ep |- * by assumption. destruct (pmatch d p []) as [[g0 r0]|]; [|discriminate].
        injection Ep as Hg Hps. subst g rem. rewrite (IH _ _ Hok Ew). reflexivity.
Qed.

(* rules of the C03 grammar: the path converter only as the trailing segment *)
Definition seg_isolating (s : seg) : bool := match s with SLit _ => true | SDyn _ c _ _ => conv_isolating c end.
Definition rule_wf (r : rule) : bool := seg_isolating (r_dom r) && forallb seg_isolating (r_segs r).

Lemma snoc_ok_static_segs l tailp :
  forallb seg_isolating l = true -> snoc_ok tailp = true ->
  (forall d t, tailp = PDyn _ d :: t -> t = [] ) ->
  snoc_ok (map to_cpart (map seg_part l) ++ tailp) = true.
Proof.
  intros Hl Ht Hshape. induction l as [|s l IH]; [exact Ht|]. cbn [forallb] in Hl. apply andb_prop in Hl. destruct Hl as [Hs Hl].
  cbn [map app]. destruct s as [k|pre c n post]; cbn [seg_part to_cpart snoc_ok]; [exact (IH Hl)|].
  cbn [seg_isolating] in Hs. unfold plain. cbn [d_final d_suffixed]. rewrite Hs. cbn [negb andb orb].
  destruct (map to_cpart (map seg_part l) ++ tailp) eqn:E; [reflexivity|]. exact (IH Hl).
Qed.

(* a rule that ends with a slash: its parts are sigma ++ [PStatic ""] with sigma extendable *)
Lemma branch_parts r :
  rule_wf r = true -> is_branch r = true ->
  exists sigma, rparts r = sigma ++ [PStatic _ []] /\ snoc_ok sigma = true.
Proof.
  unfold rule_wf. intros Hwf Hb. apply andb_prop in Hwf. destruct Hwf as [Hd Hs].
  unfold rparts, rule_parts. rewrite Hb. destruct (r_tail r) as [n|].
  - cbn [tail_parts]. rewrite !map_app. cbn [map to_cpart].
    exists (to_cpart (seg_part (r_dom r)) :: PStatic _ [] :: map to_cpart (map seg_part (r_segs r))
            ++ [PDyn _ {| d_pre := []; d_lang := LPath; d_post := []; d_final := negb (conv_isolating CPath); d_suffixed := true; d_weight := path_weight |}]).
    split; [cbn [app]; rewrite <- app_assoc; reflexivity|].
    assert (H2 : snoc_ok (PStatic _ [] :: map to_cpart (map seg_part (r_segs r)) ++ [PDyn _ {| d_pre := []; d_lang := LPath; d_post := []; d_final := negb (conv_isolating CPath); d_suffixed := true; d_weight := path_weight |}]) = true).
    { cbn [snoc_ok]. apply snoc_ok_static_segs; [exact Hs| |].
      - cbn [snoc_ok d_final d_suffixed]. rewrite (proj2 (proj1 (andb_true_iff _ _) weights_pinned)). reflexivity.
      - intros d t H. injection H as _ <-. reflexivity. }
    destruct (r_dom r) as [k|pre c n0 post]; cbn [seg_part to_cpart]; [exact H2|].
    cbn [seg_isolating] in Hd. change (snoc_ok (PDyn _ ?d :: ?x :: ?y)) with (plain d && snoc_ok (x :: y)).
    unfold plain. cbn [d_final d_suffixed]. rewrite Hd. cbn [negb andb]. exact H2.
  - rewrite !map_app. cbn [map to_cpart].
    exists (to_cpart (seg_part (r_dom r)) :: PStatic _ [] :: map to_cpart (map seg_part (r_segs r))).
    split; [reflexivity|].
    assert (H2 : snoc_ok (PStatic _ [] :: map to_cpart (map seg_part (r_segs r))) = true).
    { cbn [snoc_ok]. rewrite <- (app_nil_r (map to_cpart _)). apply snoc_ok_static_segs; [exact Hs|reflexivity|discriminate]. }
    destruct (r_dom r) as [k|pre c n0 post]; cbn [seg_part to_cpart]; [exact H2|].
    cbn [seg_isolating] in Hd. change (snoc_ok (PDyn _ ?d :: ?x :: ?y)) with (plain d && snoc_ok (x :: y)).
    unfold plain. cbn [d_final d_suffixed]. rewrite Hd. cbn [negb andb]. exact H2.
Qed.
