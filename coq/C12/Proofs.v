(* C12 proofs. *)
From Coq Require Import ZArith Lia.
From Wz Require Import lib.Bytes lib.BytesFacts lib.Utf8 C03.Gen C03.Trie C03.TrieFacts C03.Model C03.Proofs C12.Model.
Open Scope N_scope.

Lemma drop_while_head (p : N -> bool) s x r : drop_while p s = x :: r -> p x = false.
Proof.
  induction s as [|y s IH]; cbn [drop_while]; [discriminate|].
  destruct (p y) eqn:E; [exact IH|]. intro H. injection H as <- _. exact E.
Qed.

Lemma rstrip_head (p : N -> bool) x r y t : p x = false -> rstrip p (x :: r) = y :: t -> y = x.
Proof.
  intros Hx. cbn [rstrip]. destruct (rstrip p r); [rewrite Hx|]; intro H; injection H as <- _; reflexivity.
Qed.

Lemma strip_head (p : N -> bool) s y t : strip p s = y :: t -> p y = false.
Proof.
  unfold strip. destruct (drop_while p s) as [|x r] eqn:E; [discriminate|].
  pose proof (drop_while_head _ _ _ _ E) as Hx. intro H.
  rewrite (rstrip_head _ _ _ _ _ Hx H). exact Hx.
Qed.

Lemma lstrip_no_slash s : starts_with [SLASH] (lstrip_slash s) = false.
Proof.
  unfold lstrip_slash. destruct (drop_while (N.eqb SLASH) s) as [|x r] eqn:E; [reflexivity|].
  apply drop_while_head in E. cbn [starts_with]. rewrite E. reflexivity.
Qed.

Lemma eff_scheme_nonempty a : is_nil (eff_scheme a) = false.
Proof. unfold eff_scheme. destruct (a_scheme a) eqn:E; reflexivity. Qed.

(* MapAdapter.make_redirect_url always yields root ++ (path without leading slashes) ++ ?query *)
Lemma make_redirect_url_shape m a pi dp :
  has (eff_scheme a) uses_netloc = true ->
  make_redirect_url m a pi dp = url_root m a dp ++ lstrip_slash pi ++ query_suffix a.
Proof.
  intro Hs. unfold make_redirect_url, urlunsplit, url_root, script_root, query_suffix.
  fold (eff_scheme a). rewrite eff_scheme_nonempty. cbn [negb]. rewrite Hs. cbn [andb].
  pose proof (lstrip_no_slash pi) as Hl.
  destruct (strip_slash (script_name a)) as [|c s] eqn:Estrip; cbn [is_nil app].
  - assert (H1 : starts_with [SLASH; SLASH] (SLASH :: lstrip_slash pi) = false).
    { cbn [starts_with]. rewrite N.eqb_refl. cbn [andb]. destruct (lstrip_slash pi) as [|x r]; [reflexivity|].
      cbn [starts_with] in Hl |- *. destruct (SLASH =? x); [discriminate|reflexivity]. }
    rewrite H1. cbn [negb]. rewrite orb_true_r.
    cbn [starts_with]. rewrite N.eqb_refl. cbn [andb negb].
    destruct (is_nil (a_query a)); repeat first [rewrite <- app_assoc | progress cbn [app]]; rewrite ?app_nil_r; reflexivity.
  - pose proof (strip_head _ _ _ _ Estrip) as Hc.
    assert (H1 : starts_with [SLASH; SLASH] (c :: s ++ SLASH :: lstrip_slash pi) = false).
    { cbn [starts_with]. rewrite Hc. reflexivity. }
    rewrite H1. cbn [negb]. rewrite orb_true_r.
    assert (H2 : starts_with [SLASH] (c :: s ++ SLASH :: lstrip_slash pi) = false).
    { cbn [starts_with]. rewrite Hc. reflexivity. }
    rewrite H2. cbn [negb andb].
    destruct (is_nil (a_query a)); repeat first [rewrite <- app_assoc | progress cbn [app]]; rewrite ?app_nil_r; reflexivity.
Qed.

Lemma safe_redirect_no_delims : mem QMARK safe_redirect = false /\ mem HASH safe_redirect = false.
Proof. split; vm_compute; reflexivity. Qed.

Lemma hex_digit_no_delim n : (hex_digit n =? QMARK) = false /\ (hex_digit n =? HASH) = false.
Proof.
  unfold hex_digit, QMARK, HASH. destruct (n <? 10) eqn:E.
  - apply N.ltb_lt in E. split; apply N.eqb_neq; lia.
  - apply N.ltb_ge in E. split; apply N.eqb_neq; lia.
Qed.

Lemma always_safe_no_delim : always_safe QMARK = false /\ always_safe HASH = false.
Proof. split; vm_compute; reflexivity. Qed.

Lemma quote_byte_no_delims b c :
  In c (quote_byte safe_redirect b) -> (c =? QMARK) = false /\ (c =? HASH) = false.
Proof.
  unfold quote_byte.
  destruct ((b <? 128) && (always_safe b || mem b safe_redirect)) eqn:E.
  - intros [<-|[]]. apply andb_prop in E. destruct E as [_ E].
    split; apply N.eqb_neq; intro Hb; subst b.
    + destruct always_safe_no_delim as [H1 _]. destruct safe_redirect_no_delims as [H2 _].
      rewrite H1, H2 in E. discriminate.
    + destruct always_safe_no_delim as [_ H1]. destruct safe_redirect_no_delims as [_ H2].
      rewrite H1, H2 in E. discriminate.
  - intros [<-|[<-|[<-|[]]]].
    + split; reflexivity.
    + apply hex_digit_no_delim.
    + apply hex_digit_no_delim.
Qed.

Lemma quote_no_delims s :
  forallb (fun c => negb (c =? QMARK) && negb (c =? HASH)) (quote safe_redirect s) = true.
Proof.
  apply forallb_forall. intros c Hin. unfold quote in Hin. apply in_flat_map in Hin.
  destruct Hin as (b & _ & Hc). destruct (quote_byte_no_delims _ _ Hc) as [H1 H2]. rewrite H1, H2. reflexivity.
Qed.

Lemma forallb_drop_while (p q : N -> bool) s : forallb p s = true -> forallb p (drop_while q s) = true.
Proof.
  induction s as [|x s IH]; cbn [drop_while forallb]; [reflexivity|]. intro H.
  apply andb_prop in H. destruct H as [Hx Hs]. destruct (q x); [exact (IH Hs)|].
  cbn [forallb]. rewrite Hx, Hs. reflexivity.
Qed.

(* the slash / merged-slash redirects (RequestPath) *)
Lemma path_redirect_on_host m a p' :
  has (eff_scheme a) uses_netloc = true ->
  on_host m a None (make_redirect_url m a (quote safe_redirect p') None).
Proof.
  intro Hs. exists (lstrip_slash (quote safe_redirect p')). split; [apply make_redirect_url_shape; exact Hs|].
  split; [apply lstrip_no_slash|]. apply forallb_drop_while. apply quote_no_delims.
Qed.

Theorem on_host_or_builder h m a p me u :
  has (eff_scheme a) uses_netloc = true ->
  map_match h m a p me = RedirectTo u ->
  on_host m a None u
  \/ exists r v, In r (m_rules m) /\ admits m r (request_parts m a p) = ADirect _ v
       /\ m_redirect_defaults m = true
       /\ (r_alias r = true /\ h_alias h m a (upper me) r (dict_update v (r_defaults r)) = BOk u
           \/ h_default h m a (upper me) r (dict_update v (r_defaults r)) = BOk (Some u)).
Proof.
  intros Hs H. apply redirect_sound in H. destruct H as [p' Hp ->|r v Hin Ha Hm Hw Hrd Hb].
  - left. apply path_redirect_on_host. exact Hs.
  - right. exists r, v. auto.
Qed.

Definition ex_adapter_app : adapter :=
  {| a_scheme := [104; 116; 116; 112; 115]; a_server := a_server ex_adapter; a_script := [47; 97; 112; 112];
     a_subdomain := None; a_query := [113; 61; 49] |}.
(* '//evil.com/3' under Rule('/evil.com/<int(max=5):a>/'), bound to https://example.com/app with ?q=1 *)
Definition ex_r3 : rule := mk_rule 0 [SLit [101; 118; 105; 108; 46; 99; 111; 109]; SDyn [] (CInt 0 None (Some 5%Z) false) [97] []] None true None.
Lemma ex_evil :
  map_match no_hooks (mk_map [ex_r3]) ex_adapter_app [47; 47; 101; 118; 105; 108; 46; 99; 111; 109; 47; 51] GET
  = RedirectTo ([104; 116; 116; 112; 115; 58; 47; 47] ++ a_server ex_adapter ++ [47; 97; 112; 112; 47]
                ++ [101; 118; 105; 108; 46; 99; 111; 109; 47; 51; 47] ++ [63; 113; 61; 49])
  /\ has (eff_scheme ex_adapter_app) uses_netloc = true.
Proof. split; vm_compute; reflexivity. Qed.

(* ================================================================== the builder's redirects *)
From Wz Require Import C04.Model C04.Proofs.

Lemma insert_rule_in x l y : In y (insert_rule x l) -> y = x \/ In y l.
Proof.
  induction l as [|z l IH]; cbn [insert_rule].
  - intros [H|[]]. left. symmetry. exact H.
  - destruct (key_lt (build_key z) (build_key x)).
    + intros [H|H]; [right; left; exact H|]. destruct (IH H) as [H'|H']; [left; exact H'|right; right; exact H'].
    + intros [H|H]; [left; symmetry; exact H|right; exact H].
Qed.

Lemma rules_for_in m e r : In r (rules_for m e) -> In r (m_rules m) /\ r_endpoint r = e.
Proof.
  unfold rules_for. intro H.
  assert (Hf : In r (filter (fun r => r_endpoint r =? e) (m_rules m))).
  { revert H. generalize (filter (fun r => r_endpoint r =? e) (m_rules m)). intro l.
    induction l as [|x l IH]; cbn [fold_right]; [intros []|]. intro H. apply insert_rule_in in H.
    destruct H as [->|H]; [left; reflexivity|right; exact (IH H)]. }
  apply filter_In in Hf. destruct Hf as [H1 H2]. apply N.eqb_eq in H2. split; assumption.
Qed.

(* scheme: + // + host + script root, as MapAdapter.build assembles an external URL *)
Definition build_scheme (a : adapter) (ws_rule : bool) : str :=
  let secure := list_eqb (a_scheme a) HTTPS || list_eqb (a_scheme a) WSS in
  if ws_rule then (if secure then WSS else WS)
  else if is_nil (a_scheme a) then [] else (if secure then HTTPS else HTTP).
Definition alias_root (m : rmap) (a : adapter) (ws_rule : bool) (dp : str) : str :=
  (if is_nil (build_scheme a ws_rule) then [] else build_scheme a ws_rule ++ [COLON]) ++ [SLASH; SLASH]
  ++ get_host m a (Some dp) ++ removelast (script_name a) ++ [SLASH].

Inductive builder_target (m : rmap) (a : adapter) (endpoint : N) (u : str) : Prop :=
| BT_default r dp path vals :
    In r (m_rules m) -> r_endpoint r = endpoint -> build_rule r vals = BOk (dp, path) ->
    u = url_root m a (Some dp) ++ lstrip_slash path ++ query_suffix a -> builder_target m a endpoint u
| BT_alias r dp path vals :
    In r (m_rules m) -> r_endpoint r = endpoint -> build_rule r vals = BOk (dp, path) ->
    u = alias_root m a (r_websocket r) dp ++ lstrip_slash path ++ query_suffix a -> builder_target m a endpoint u.

Lemma default_loop_target m a meth rule0 vals rs u :
  has (eff_scheme a) uses_netloc = true ->
  (forall r, In r rs -> In r (m_rules m) /\ r_endpoint r = r_endpoint rule0) ->
  default_redirect_loop m a meth rule0 vals rs = BOk (Some u) -> builder_target m a (r_endpoint rule0) u.
Proof.
  intros Hs. induction rs as [|r rs IH]; intros Hin; cbn [default_redirect_loop]; [discriminate|].
  destruct (r_idx r =? r_idx rule0); [discriminate|].
  destruct (provides_defaults_for r rule0 && suitable_for r vals (Some meth)).
  - destruct (build_rule r (dict_update vals (r_defaults r))) as [[dp path]| |] eqn:Eb; cbn [bbind]; try discriminate.
    intro H. injection H as <-. destruct (Hin r (or_introl eq_refl)) as [H1 H2].
    eapply BT_default; [exact H1|exact H2|exact Eb|]. cbn [fst snd]. apply make_redirect_url_shape. exact Hs.
  - apply IH. intros r' Hr'. apply Hin. right. exact Hr'.
Qed.

Lemma partial_build_sound rs vals meth r dp path :
  partial_build rs vals meth = BOk (Some (r, dp, path)) -> In r rs /\ build_rule r vals = BOk (dp, path).
Proof.
  induction rs as [|r0 rs IH]; cbn [partial_build]; [discriminate|].
  destruct (suitable_for r0 vals meth).
  - destruct (build_rule r0 vals) as [[dp0 path0]| |] eqn:Eb; cbn [bbind]; try discriminate.
    intro H. injection H as <- <- <-. split; [left; reflexivity|exact Eb].
  - intro H. destruct (IH H) as [H1 H2]. split; [right; exact H1|exact H2].
Qed.

Lemma partial_build_hm_sound sn rs vals meth first x :
  partial_build_hm sn rs vals meth first = BOk (Some x) ->
  first = Some x \/ (In (fst (fst x)) rs /\ build_rule (fst (fst x)) vals = BOk (snd (fst x), snd x)).
Proof.
  revert first. induction rs as [|r0 rs IH]; intro first; cbn [partial_build_hm].
  - intro H. injection H as ->. left. reflexivity.
  - destruct (suitable_for r0 vals meth).
    + destruct (build_rule r0 vals) as [[dp0 path0]| |] eqn:Eb; cbn [bbind fst snd]; try discriminate.
      destruct (list_eqb dp0 sn).
      * intro H. injection H as <-. right. cbn [fst snd]. split; [left; reflexivity|exact Eb].
      * intro H. destruct (IH _ H) as [Hf|[H1 H2]].
        -- destruct first as [f|]; [left; exact Hf|]. injection Hf as <-. right. cbn [fst snd]. split; [left; reflexivity|exact Eb].
        -- right. split; [right; exact H1|exact H2].
    + intro H. destruct (IH _ H) as [Hf|[H1 H2]]; [left; exact Hf|right; split; [right; exact H1|exact H2]].
Qed.

Lemma pbuild_sound m a rs vals meth r dp path :
  pbuild m a rs vals meth = BOk (Some (r, dp, path)) -> In r rs /\ build_rule r vals = BOk (dp, path).
Proof.
  unfold pbuild. destruct (m_host_matching m).
  - intro H. destruct (partial_build_hm_sound _ _ _ _ _ _ H) as [Hf|Hx]; [discriminate|exact Hx].
  - apply partial_build_sound.
Qed.

Lemma alias_target m a meth rule0 vals u :
  alias_redirect_url m a meth rule0 vals = BOk u -> builder_target m a (r_endpoint rule0) u.
Proof.
  unfold alias_redirect_url, adapter_build.
  destruct (pbuild m a (rules_for m (r_endpoint rule0)) vals (Some meth)) as [[[[r dp] path]|]| |] eqn:Ep; cbn [bbind]; try discriminate.
  apply pbuild_sound in Ep. destruct Ep as [Hin Hb]. apply rules_for_in in Hin. destruct Hin as [H1 H2].
  cbn [orb negb andb bbind]. intro H. injection H as <-.
  eapply BT_alias; [exact H1|exact H2|exact Hb|]. unfold alias_root, build_scheme.
  repeat first [rewrite <- app_assoc | progress cbn [app]]. reflexivity.
Qed.

(* C12_on_host at full strength *)
Theorem router_on_host m a p me u :
  has (eff_scheme a) uses_netloc = true ->
  router_match m a p me = RedirectTo u ->
  on_host m a None u
  \/ exists r v, In r (m_rules m) /\ admits m r (request_parts m a p) = ADirect _ v
       /\ builder_target m a (r_endpoint r) u.
Proof.
  intros Hs H. unfold router_match in H. destruct (on_host_or_builder _ _ _ _ _ _ Hs H) as [Ho|(r & v & Hin & Ha & Hrd & Hb)].
  - left. exact Ho.
  - right. exists r, v. split; [exact Hin|]. split; [exact Ha|]. destruct Hb as [[Hal Hu]|Hd].
    + cbn [router_hooks h_alias] in Hu. exact (alias_target _ _ _ _ _ _ Hu).
    + cbn [router_hooks h_default] in Hd. unfold get_default_redirect in Hd.
      eapply default_loop_target; [exact Hs| |exact Hd]. intros r' Hr'. exact (rules_for_in _ _ _ Hr').
Qed.

(* without host matching every host the router names is the bound server name, possibly behind a subdomain *)
Lemma get_host_bound m a dp :
  m_host_matching m = false ->
  exists sub, get_host m a dp = (if is_nil sub then [] else sub ++ [DOT]) ++ a_server a.
Proof.
  intro Hh. unfold get_host. rewrite Hh.
  destruct (match dp with None => bound_subdomain m a | Some d => Some d end) as [[|c s]|].
  - exists []. reflexivity.
  - exists (c :: s). cbn [is_nil]. rewrite <- app_assoc. reflexivity.
  - exists []. reflexivity.
Qed.

(* the documented defaults idiom: Rule('/all/', defaults={'page': 1}), Rule('/all/page/<int:page>'), same endpoint,
   bound to https://example.com/app with ?q=1 : '/all/page/1' is redirected to https://example.com/app/all/?q=1 *)
Definition ALL : str := [97; 108; 108].
Definition PAGE : str := [112; 97; 103; 101].
Definition ex_all : rule :=
  {| r_idx := 0; r_endpoint := 0; r_dom := SLit []; r_segs := [SLit ALL]; r_tail := None; r_branch := true;
     r_methods := None; r_strict_opt := None; r_merge_opt := None; r_websocket := false; r_alias := false;
     r_defaults := [(PAGE, VInt 1)] |}.
Definition ex_page : rule :=
  {| r_idx := 1; r_endpoint := 0; r_dom := SLit []; r_segs := [SLit ALL; SLit PAGE; SDyn [] (CInt 0 None None false) PAGE []];
     r_tail := None; r_branch := false; r_methods := None; r_strict_opt := None; r_merge_opt := None;
     r_websocket := false; r_alias := false; r_defaults := [] |}.
Lemma ex_defaults :
  router_match (mk_map [ex_all; ex_page]) ex_adapter_app ([47] ++ ALL ++ [47] ++ PAGE ++ [47; 49]) GET
  = RedirectTo ([104; 116; 116; 112; 115; 58; 47; 47] ++ a_server ex_adapter ++ [47; 97; 112; 112; 47] ++ ALL ++ [47; 63; 113; 61; 49])
  /\ router_match (mk_map [ex_all; ex_page]) ex_adapter_app ([47] ++ ALL ++ [47] ++ PAGE ++ [47; 50]) GET
     = Match ex_page [(PAGE, VInt 2)].
Proof. split; vm_compute; reflexivity. Qed.

(* ================================================================== convergence: the target of a
   slash / merged-slash redirect is admitted directly, with the same arguments, by the rule that
   caused the redirect *)
Notation cwalk := (Trie.walk dpart pmatch).

Lemma split_slash_nonempty s : split_slash s <> [].
Proof.
  induction s as [|c s IH]; [discriminate|]. cbn [split_slash]. destruct (c =? SLASH); [discriminate|].
  destruct (split_slash s); discriminate.
Qed.

Lemma split_slash_snoc s : split_slash (s ++ [SLASH]) = split_slash s ++ [[]].
Proof.
  induction s as [|c s IH]; [reflexivity|]. cbn [app split_slash]. destruct (c =? SLASH); rewrite IH; [reflexivity|].
  pose proof (split_slash_nonempty s) as Hn. destruct (split_slash s) as [|hd tl]; [contradiction|reflexivity].
Qed.

Lemma join_slash_snoc l : l <> [] -> join_slash (l ++ [[]]) = join_slash l ++ [SLASH].
Proof.
  induction l as [|x l IH]; [contradiction|]. intros _. destruct l as [|y l].
  - cbn [app join_slash]. reflexivity.
  - change ((x :: y :: l) ++ [[]]) with (x :: ((y :: l) ++ [[]])).
    change (join_slash (x :: (y :: l) ++ [[]])) with (x ++ SLASH :: join_slash ((y :: l) ++ [[]])).
    rewrite IH by discriminate. change (join_slash (x :: y :: l)) with (x ++ SLASH :: join_slash (y :: l)).
    rewrite <- app_assoc. reflexivity.
Qed.

Lemma starts_with_app p s x : starts_with p s = true -> starts_with p (s ++ x) = true.
Proof.
  revert s. induction p as [|c p IH]; intros s H; [reflexivity|]. destruct s as [|d s]; [discriminate|].
  cbn [starts_with app] in *. apply andb_prop in H. destruct H as [H1 H2]. rewrite H1, (IH _ H2). reflexivity.
Qed.
Lemma starts_with_length p s : starts_with p s = true -> (length p <= length s)%nat.
Proof.
  revert s. induction p as [|c p IH]; intros s H; [cbn; lia|]. destruct s as [|d s]; [discriminate|].
  cbn [starts_with] in H. apply andb_prop in H. cbn [length]. pose proof (IH _ (proj2 H)). lia.
Qed.

Lemma strip_prefix_app p s t x : strip_prefix p s = Some t -> strip_prefix p (s ++ x) = Some (t ++ x).
Proof.
  unfold strip_prefix. destruct (starts_with p s) eqn:E; [|discriminate]. intro H. injection H as <-.
  rewrite (starts_with_app _ _ x E). f_equal. rewrite skipn_app.
  replace (length p - length s)%nat with O by (pose proof (starts_with_length _ _ E); lia). reflexivity.
Qed.

Lemma ends_with_slash_snoc t : ends_with_slash (t ++ [SLASH]) = true.
Proof. unfold ends_with_slash. rewrite rev_unit. apply N.eqb_refl. Qed.

(* a part that is not final looks at its own segment only *)
Lemma pmatch_nonfinal d p rest :
  d_final d = false -> d_suffixed d = false ->
  pmatch d p rest = match pmatch d p [] with Some (g, _) => Some (g, rest) | None => None end.
Proof.
  intros Hf Hs. unfold pmatch. rewrite Hf, Hs. destruct (strip_prefix (d_pre d) p) as [t1|]; [|reflexivity].
  destruct (strip_suffix (d_post d) t1) as [mid|]; [|reflexivity]. destruct (in_lang (d_lang d) mid); reflexivity.
Qed.

(* a suffixed final part that consumed a path without trailing slash consumes the same text from the
   path with the slash appended and hands the slash on *)
Lemma pmatch_suffixed_ext d p rest g :
  d_final d = true -> d_suffixed d = true ->
  pmatch d p rest = Some (g, []) -> pmatch d p (rest ++ [[]]) = Some (g, [[]]).
Proof.
  intros Hf Hs. unfold pmatch. rewrite Hf, Hs.
  change (p :: rest ++ [[]]) with ((p :: rest) ++ [[]]). rewrite join_slash_snoc by discriminate.
  destruct (strip_prefix (d_pre d) (join_slash (p :: rest))) as [t1|] eqn:E; [|discriminate].
  rewrite (strip_prefix_app _ _ _ [SLASH] E). rewrite ends_with_slash_snoc, removelast_app_one.
  destruct (ends_with_slash t1) eqn:Ee.
  - destruct (in_lang (d_lang d) (removelast t1) && negb (ends_with_slash (removelast t1))); discriminate.
  - destruct (in_lang (d_lang d) t1); [|discriminate]. intro H. injection H as <-. reflexivity.
Qed.

(* final parts occur only as the last part, and then suffixed *)
Definition plain (d : dpart) : bool := negb (d_final d) && negb (d_suffixed d).
Fixpoint snoc_ok (sigma : list (cpart dpart)) : bool :=
  match sigma with
  | [] => true
  | PStatic _ _ :: s' => snoc_ok s'
  | PDyn _ d :: s' => match s' with
                     | [] => plain d || (d_final d && d_suffixed d)
                     | _ :: _ => plain d && snoc_ok s'
                     end
  end.

Lemma plain_facts d : plain d = true -> d_final d = false /\ d_suffixed d = false.
Proof. unfold plain. intro H. apply andb_prop in H. destruct H as [H1 H2]. apply negb_true_iff in H1, H2. auto. Qed.

Lemma walk_snoc sigma : forall P caps,
  snoc_ok sigma = true -> cwalk sigma P = Some (caps, []) -> cwalk sigma (P ++ [[]]) = Some (caps, [[]]).
Proof.
  induction sigma as [|c sigma IH]; intros P caps Hok Hw.
  - cbn [Trie.walk] in *. injection Hw as <- ->. reflexivity.
  - destruct c as [k|d]; cbn [Trie.walk] in *; destruct P as [|p ps]; try discriminate; cbn [app].
    + destruct (list_eqb k p); [|discriminate]. apply IH; [exact Hok|exact Hw].
    + destruct (pmatch d p ps) as [[g rem]|] eqn:Ep; [|discriminate].
      destruct (cwalk sigma rem) as [[caps' lo]|] eqn:Ew; [|discriminate]. injection Hw as <- ->.
      destruct sigma as [|c2 sigma2].
      * cbn [Trie.walk] in Ew. injection Ew as <- ->. cbn [snoc_ok] in Hok.
        apply orb_prop in Hok. destruct Hok as [Hp|Hfs].
        -- destruct (plain_facts _ Hp) as [Hf Hs]. rewrite pmatch_nonfinal in Ep |- * by assumption.
           destruct (pmatch d p []) as [[g0 r0]|]; [|discriminate]. injection Ep as Hg Hps. subst g ps.
           cbn [app Trie.walk]. reflexivity.
        -- apply andb_prop in Hfs. destruct Hfs as [Hf Hs]. rewrite (pmatch_suffixed_ext _ _ _ _ Hf Hs Ep). reflexivity.
      * cbn [snoc_ok] in Hok. apply andb_prop in Hok. destruct Hok as [Hp Hok]. destruct (plain_facts _ Hp) as [Hf Hs].
        rewrite pmatch_nonfinal in Ep |- * by assumption. destruct (pmatch d p []) as [[g0 r0]|]; [|discriminate].
        injection Ep as Hg Hps. subst g rem. rewrite (IH _ _ Hok Ew). reflexivity.
Qed.

(* rules of the C03 grammar: the path converter only as the trailing segment *)
Definition seg_isolating (s : seg) : bool := match s with SLit _ => true | SDyn _ c _ _ => conv_isolating c end.
Definition seg_nonempty (s : seg) : bool := match s with SLit k => negb (is_nil k) | SDyn _ _ _ _ => true end.
Definition rule_wf (r : rule) : bool :=
  seg_isolating (r_dom r) && forallb seg_isolating (r_segs r) && forallb seg_nonempty (r_segs r).

Lemma snoc_ok_static_segs l tailp :
  forallb seg_isolating l = true -> snoc_ok tailp = true ->
  (forall d t, tailp = PDyn _ d :: t -> t = [] ) ->
  snoc_ok (map to_cpart (map seg_part l) ++ tailp) = true.
Proof.
  intros Hl Ht Hshape. induction l as [|s l IH]; [exact Ht|]. cbn [forallb] in Hl. apply andb_prop in Hl. destruct Hl as [Hs Hl].
  cbn [map app]. destruct s as [k|pre c n post]; cbn [seg_part to_cpart snoc_ok]; [exact (IH Hl)|].
  cbn [seg_isolating] in Hs. unfold plain. cbn [d_final d_suffixed]. rewrite Hs. cbn [negb andb orb].
  destruct (map to_cpart (map seg_part l) ++ tailp) eqn:E; [reflexivity|]. exact (IH Hl).
Qed.

(* a rule that ends with a slash: its parts are sigma ++ [PStatic ""] with sigma extendable *)
Lemma branch_parts r :
  rule_wf r = true -> is_branch r = true ->
  exists sigma, rparts r = sigma ++ [PStatic _ []] /\ snoc_ok sigma = true.
Proof.
  unfold rule_wf. intros Hwf Hb. apply andb_prop in Hwf. destruct Hwf as [Hwf _]. apply andb_prop in Hwf. destruct Hwf as [Hd Hs].
  unfold rparts, rule_parts. rewrite Hb. destruct (r_tail r) as [n|].
  - cbn [tail_parts map]. rewrite map_app. cbn [map to_cpart].
    exists (to_cpart (seg_part (r_dom r)) :: PStatic _ [] :: map to_cpart (map seg_part (r_segs r))
            ++ [PDyn _ {| d_pre := []; d_lang := LPath; d_post := []; d_final := negb (conv_isolating CPath); d_suffixed := true; d_weight := path_weight |}]).
    split; [cbn [app]; rewrite <- app_assoc; reflexivity|].
    assert (H2 : snoc_ok (PStatic _ [] :: map to_cpart (map seg_part (r_segs r)) ++ [PDyn _ {| d_pre := []; d_lang := LPath; d_post := []; d_final := negb (conv_isolating CPath); d_suffixed := true; d_weight := path_weight |}]) = true).
    { cbn [snoc_ok]. apply snoc_ok_static_segs; [exact Hs| |].
      - vm_compute. reflexivity.
      - intros d t H. injection H as _ <-. reflexivity. }
    destruct (r_dom r) as [k|pre c n0 post]; cbn [seg_part to_cpart]; [exact H2|].
    cbn [seg_isolating] in Hd. change (snoc_ok (PDyn _ ?d :: ?x :: ?y)) with (plain d && snoc_ok (x :: y)).
    unfold plain. cbn [d_final d_suffixed]. rewrite Hd. cbn [negb andb]. exact H2.
  - cbn [map]. rewrite map_app. cbn [map to_cpart].
    exists (to_cpart (seg_part (r_dom r)) :: PStatic _ [] :: map to_cpart (map seg_part (r_segs r))).
    split; [reflexivity|].
    assert (H2 : snoc_ok (PStatic _ [] :: map to_cpart (map seg_part (r_segs r))) = true).
    { cbn [snoc_ok]. rewrite <- (app_nil_r (map to_cpart _)). apply snoc_ok_static_segs; [exact Hs|reflexivity|discriminate]. }
    destruct (r_dom r) as [k|pre c n0 post]; cbn [seg_part to_cpart]; [exact H2|].
    cbn [seg_isolating] in Hd. change (snoc_ok (PDyn _ ?d :: ?x :: ?y)) with (plain d && snoc_ok (x :: y)).
    unfold plain. cbn [d_final d_suffixed]. rewrite Hd. cbn [negb andb]. exact H2.
Qed.

Lemma last_seg_not_empty l :
  l <> [] -> forallb seg_nonempty l = true ->
  exists X y, map to_cpart (map seg_part l) = X ++ [y] /\ y <> PStatic _ [].
Proof.
  intros Hn Hl. destruct (exists_last Hn) as (l' & s & ->). rewrite forallb_app in Hl. apply andb_prop in Hl.
  destruct Hl as [_ Hs]. cbn [forallb] in Hs. rewrite andb_true_r in Hs.
  exists (map to_cpart (map seg_part l')), (to_cpart (seg_part s)). split; [rewrite !map_app; reflexivity|].
  destruct s as [k|pre c n post]; cbn [seg_part to_cpart]; [|discriminate].
  cbn [seg_nonempty] in Hs. destruct k; [discriminate|]. discriminate.
Qed.

(* a rule whose parts end with the empty static part is a rule that ends with a slash *)
Lemma slash_parts_branch r cs' :
  rule_wf r = true -> rparts r = cs' ++ [PStatic _ []] -> is_branch r = true.
Proof.
  intros Hwf Hp. destruct (is_branch r) eqn:Hb; [reflexivity|]. exfalso.
  unfold rule_wf in Hwf. apply andb_prop in Hwf. destruct Hwf as [_ Hne].
  unfold rparts, rule_parts in Hp. rewrite Hb in Hp. cbn [map] in Hp. rewrite map_app in Hp.
  destruct (r_tail r) as [n|] eqn:Et.
  - cbn [tail_parts map to_cpart] in Hp.
    rewrite !app_comm_cons in Hp. apply app_inj_tail in Hp. destruct Hp as [_ Hp]. discriminate.
  - cbn [map] in Hp. rewrite app_nil_r in Hp. unfold is_branch in Hb. rewrite Et in Hb.
    destruct (r_segs r) as [|s0 l0] eqn:Es; [rewrite orb_true_r in Hb; discriminate|].
    destruct (last_seg_not_empty (s0 :: l0) ltac:(discriminate) Hne) as (X & y & HX & Hy).
    rewrite HX in Hp. rewrite !app_comm_cons in Hp. apply app_inj_tail in Hp. destruct Hp as [_ Hp]. exact (Hy Hp).
Qed.

Lemma slash_target_admitted m r P :
  rule_wf r = true -> admits m r P = ASlash _ -> exists v, admits m r (P ++ [[]]) = ADirect _ v.
Proof.
  intros Hwf Ha. unfold admits, Trie.admits in Ha.
  assert (Hcase : exists cs' caps v, rparts r = cs' ++ [PStatic _ []] /\ cwalk cs' P = Some (caps, []) /\ rconvert r caps = Some v).
  { unfold Trie.convert_adm in Ha.
    destruct (cwalk (rparts r) P) as [[caps lo]|] eqn:Ew.
    - destruct lo as [|l0 lo].
      + destruct (rconvert r caps); discriminate.
      + destruct l0 as [|x l0]; [destruct lo as [|l1 lo]|].
        * destruct (rstrict m r); [discriminate|]. destruct (rconvert r caps); discriminate.
        * destruct (Trie.strip_last_empty dpart (rparts r)) as [cs'|] eqn:Es; [|discriminate].
          destruct (cwalk cs' P) as [[caps2 lo2]|] eqn:Ew2; [|discriminate]. destruct lo2; [|discriminate].
          destruct (rconvert r caps2) as [v|] eqn:Ec; [|discriminate].
          apply (strip_last_empty_some dpart) in Es. exists cs', caps2, v. auto.
        * destruct (Trie.strip_last_empty dpart (rparts r)) as [cs'|] eqn:Es; [|discriminate].
          destruct (cwalk cs' P) as [[caps2 lo2]|] eqn:Ew2; [|discriminate]. destruct lo2; [|discriminate].
          destruct (rconvert r caps2) as [v|] eqn:Ec; [|discriminate].
          apply (strip_last_empty_some dpart) in Es. exists cs', caps2, v. auto.
    - destruct (Trie.strip_last_empty dpart (rparts r)) as [cs'|] eqn:Es; [|discriminate].
      destruct (cwalk cs' P) as [[caps2 lo2]|] eqn:Ew2; [|discriminate]. destruct lo2; [|discriminate].
      destruct (rconvert r caps2) as [v|] eqn:Ec; [|discriminate].
      apply (strip_last_empty_some dpart) in Es. exists cs', caps2, v. auto. }
  destruct Hcase as (cs' & caps & v & Hp & Hw & Hc).
  pose proof (slash_parts_branch r cs' Hwf Hp) as Hb.
  destruct (branch_parts r Hwf Hb) as (sigma & Hp2 & Hok). rewrite Hp2 in Hp. apply app_inj_tail in Hp. destruct Hp as [<- _].
  exists v. unfold admits, Trie.admits, Trie.convert_adm.
  rewrite Hp2, (walk_app dpart pmatch), (walk_snoc _ _ _ Hok Hw). cbn [Trie.walk list_eqb]. rewrite app_nil_r, Hc. reflexivity.
Qed.

(* the target of a slash / merged-slash redirect is admitted directly by the rule that caused it *)
Theorem path_redirect_target m domain path meth ws p' :
  (forall r, In r (m_rules m) -> rule_wf r = true) ->
  path_reason m domain path meth ws p' ->
  exists r v, In r (m_rules m) /\ admits m r (domain :: split_slash p') = ADirect _ v
              /\ rmethod_ok r meth = true /\ r_websocket r = ws.
Proof.
  intros Hwf [r Hin Ha Hm Hw ->|r Hmg Hin Ha Hm Hw ->|r v Hmg Hin Hrm Ha Hm Hw ->].
  - destruct (slash_target_admitted m r _ (Hwf r Hin) Ha) as (v & Hv). exists r, v.
    rewrite split_slash_snoc. cbn [app] in Hv. auto.
  - destruct (slash_target_admitted m r _ (Hwf r Hin) Ha) as (v & Hv). exists r, v.
    rewrite split_slash_snoc. cbn [app] in Hv. auto.
  - exists r, v. auto.
Qed.

(* the request a client sends for the redirect URL addresses the target path: stripping the root
   and percent-decoding gives the redirect's path back *)
Lemma quote_cons_slash safe r : mem SLASH safe = true -> quote safe (SLASH :: r) = SLASH :: quote safe r.
Proof.
  intro H. unfold quote, utf8_encode. cbn [flat_map]. change (enc1 SLASH) with [SLASH]. cbn [flat_map app].
  unfold quote_byte at 1. change (SLASH <? 128) with true. cbn [andb]. rewrite H, orb_true_r. reflexivity.
Qed.

Lemma quote_head_not_slash safe c r : valid_cp c = true -> (c =? SLASH) = false ->
  starts_with [SLASH] (quote safe (c :: r)) = false.
Proof.
  intros Hv Hc. unfold quote, utf8_encode. cbn [flat_map]. unfold enc1.
  destruct (c <? 128) eqn:E1.
  - cbn [flat_map app]. unfold quote_byte at 1. destruct ((c <? 128) && (always_safe c || mem c safe)); cbn [app starts_with].
    + rewrite N.eqb_sym, Hc. reflexivity.
    + reflexivity.
  - assert (Hq : forall b rest, 128 <= b -> starts_with [SLASH] (quote_byte safe b ++ rest) = false).
    { intros b rest Hb. unfold quote_byte. replace (b <? 128) with false by (symmetry; apply N.ltb_ge; exact Hb). reflexivity. }
    apply N.ltb_ge in E1.
    destruct (c <? 2048); [cbn [app flat_map]; apply Hq; lia|].
    destruct (c <? 65536); cbn [app flat_map]; apply Hq; lia.
Qed.

Lemma lstrip_quote safe s :
  mem SLASH safe = true -> valid_text s = true -> lstrip_slash (quote safe s) = quote safe (lstrip_slash s).
Proof.
  intros Hs. induction s as [|c s IH]; intro Hv; [reflexivity|].
  cbn [valid_text forallb] in Hv. apply andb_prop in Hv. destruct Hv as [Hc Hv].
  unfold lstrip_slash. cbn [drop_while]. destruct (SLASH =? c) eqn:E.
  - apply N.eqb_eq in E. subst c. rewrite quote_cons_slash by exact Hs. cbn [drop_while]. rewrite N.eqb_refl. exact (IH Hv).
  - rewrite N.eqb_sym in E. pose proof (quote_head_not_slash safe c s Hc E) as Hq.
    destruct (quote safe (c :: s)) as [|x q]; [reflexivity|]. cbn [starts_with] in Hq. cbn [drop_while].
    rewrite andb_true_r in Hq. rewrite Hq. reflexivity.
Qed.

Lemma valid_text_drop_while p s : valid_text s = true -> valid_text (drop_while p s) = true.
Proof. unfold valid_text. apply forallb_drop_while. Qed.

Lemma safe_redirect_slash : mem SLASH safe_redirect = true /\ mem PERCENT safe_redirect = false.
Proof. split; vm_compute; reflexivity. Qed.

Theorem redirect_url_addresses_target m a p' :
  has (eff_scheme a) uses_netloc = true -> valid_text p' = true ->
  exists rest, make_redirect_url m a (quote safe_redirect p') None = url_root m a None ++ rest ++ query_suffix a
               /\ unquote rest = lstrip_slash p'.
Proof.
  intros Hs Hv. destruct safe_redirect_slash as [H1 H2].
  exists (lstrip_slash (quote safe_redirect p')). split; [apply make_redirect_url_shape; exact Hs|].
  rewrite (lstrip_quote _ _ H1 Hv). apply C04.Proofs.unquote_quote; [exact H2|]. apply valid_text_drop_while. exact Hv.
Qed.

(* following a slash / merged-slash redirect: the rule that caused it admits the target path directly
   for the same method and protocol, so the follow-up request is not refused *)
Theorem converges_partial m a p me u :
  (forall r, In r (m_rules m) -> rule_wf r = true) -> uniform_merge m ->
  router_match m a p me = RedirectTo u ->
  (exists p', u = make_redirect_url m a (quote safe_redirect p') None
     /\ (exists r v, In r (m_rules m) /\ admits m r (domain_part m a :: split_slash p') = ADirect _ v
                     /\ rmethod_ok r (upper me) = true /\ r_websocket r = a_websocket a)
     /\ forall p2, path_part p2 = p' ->
          (exists r' vs, router_match m a p2 me = Match r' vs) \/ (exists u', router_match m a p2 me = RedirectTo u')
          \/ (exists e, router_match m a p2 me = Raised e))
  \/ (exists r v, In r (m_rules m) /\ admits m r (request_parts m a p) = ADirect _ v /\ m_redirect_defaults m = true
        /\ (r_alias r = true /\ alias_redirect_url m a (upper me) r (dict_update v (r_defaults r)) = BOk u
            \/ get_default_redirect m a (upper me) r (dict_update v (r_defaults r)) = BOk (Some u))).
Proof.
  intros Hwf Hum H. unfold router_match in H. apply redirect_sound in H.
  destruct H as [p' Hp ->|r v Hin Ha Hm Hw Hrd Hb].
  - left. exists p'. split; [reflexivity|].
    destruct (path_redirect_target _ _ _ _ _ _ Hwf Hp) as (r & v & Hin & Ha & Hm & Hw).
    split; [exists r, v; auto|]. intros p2 Hp2. unfold router_match.
    apply (served_never_refused router_hooks m a p2 me r Hum Hin). left.
    unfold request_parts. rewrite Hp2. eapply serves_of_direct; eassumption.
  - right. exists r, v. auto.
Qed.

Lemma ex_converges_hyps :
  (forall r, In r (m_rules (mk_map [ex_r3])) -> rule_wf r = true) /\ uniform_merge (mk_map [ex_r3])
  /\ exists u, router_match (mk_map [ex_r3]) ex_adapter_app [47; 47; 101; 118; 105; 108; 46; 99; 111; 109; 47; 51] GET = RedirectTo u.
Proof.
  split; [|split].
  - intros r [<-|[]]. vm_compute. reflexivity.
  - intros r [<-|[]]. reflexivity.
  - eexists. vm_compute. reflexivity.
Qed.

(* ================================================================== one hop: the follow-up of a slash /
   merged-slash redirect is answered by a direct match, not by another redirect of that kind *)
(* a variable segment never matches the empty path segment (string(minlength=0) and any() with an empty
   item are outside the grammar) *)
Definition seg_no_empty_match (s : seg) : bool :=
  match s with
  | SLit _ => true
  | SDyn pre c _ post => negb (is_nil pre && is_nil post && in_lang (lang_of c) [])
  end.
Definition rule_wf2 (r : rule) : bool := rule_wf r && forallb seg_no_empty_match (r_segs r).

Lemma isolating_path_false' : conv_isolating CPath = false.
Proof. vm_compute. reflexivity. Qed.
Lemma strip_suffix_nil' s : strip_suffix [] s = Some s.
Proof.
  unfold strip_suffix. cbn [length]. rewrite Nat.sub_0_r. cbn [Nat.leb]. rewrite skipn_all. cbn [list_eqb andb]. rewrite firstn_all. reflexivity.
Qed.

Definition ne_part (c : cpart dpart) : Prop :=
  match c with
  | PStatic _ k => k <> []
  | PDyn _ d => forall rest, pmatch d [] rest = None
  end.

Lemma pmatch_suffixed_rem d p rest g rem :
  d_final d = true -> d_suffixed d = true -> d_pre d = [] ->
  pmatch d p (rest ++ [[]]) = Some (g, rem) -> rem = [[]].
Proof.
  intros Hf Hs Hp. unfold pmatch. rewrite Hf, Hs, Hp.
  change (p :: rest ++ [[]]) with ((p :: rest) ++ [[]]). rewrite join_slash_snoc by discriminate.
  unfold strip_prefix. cbn [starts_with length skipn]. rewrite ends_with_slash_snoc.
  destruct (in_lang (d_lang d) (removelast (join_slash (p :: rest) ++ [SLASH])) && _); [|discriminate].
  intro H. injection H as _ <-. reflexivity.
Qed.

(* the parts of a branch rule between the leading slash and the trailing slash never end on the empty segment *)
Definition tail_ok (c : cpart dpart) : bool :=
  match c with PDyn _ d => negb (d_final d) || is_nil (d_pre d) | PStatic _ _ => true end.

Lemma body_never_ends_empty body : forall R caps,
  Forall ne_part body -> snoc_ok body = true -> forallb tail_ok body = true ->
  cwalk body (R ++ [[]]) = Some (caps, []) -> False.
Proof.
  induction body as [|c body IH]; intros R caps Hne Hok Htl Hw.
  - cbn [Trie.walk] in Hw. injection Hw as _ Hw. destruct R; discriminate.
  - inversion Hne as [|? ? Hc Hne']; subst. cbn [forallb] in Htl. apply andb_prop in Htl. destruct Htl as [Htc Htl].
    destruct R as [|x R'].
    + cbn [app] in Hw. destruct c as [k|d]; cbn [Trie.walk] in Hw.
      * destruct (list_eqb k []) eqn:E; [|discriminate]. apply list_eqb_eq in E. exact (Hc E).
      * cbn [ne_part] in Hc. rewrite Hc in Hw. discriminate.
    + cbn [app] in Hw. destruct c as [k|d]; cbn [Trie.walk] in Hw.
      * destruct (list_eqb k x); [|discriminate]. exact (IH R' caps Hne' Hok Htl Hw).
      * destruct (pmatch d x (R' ++ [[]])) as [[g rem]|] eqn:Ep; [|discriminate].
        destruct (cwalk body rem) as [[caps' lo]|] eqn:Ew; [|discriminate]. injection Hw as _ ->.
        destruct body as [|c2 body2].
        -- cbn [Trie.walk] in Ew. injection Ew as _ ->. cbn [snoc_ok] in Hok. apply orb_prop in Hok. destruct Hok as [Hp|Hfs].
           ++ destruct (plain_facts _ Hp) as [Hf Hs]. rewrite pmatch_nonfinal in Ep by assumption.
              destruct (pmatch d x []) as [[g0 r0]|]; [|discriminate]. injection Ep as _ Hrem. destruct R'; discriminate.
           ++ apply andb_prop in Hfs. destruct Hfs as [Hf Hs]. cbn [tail_ok] in Htc. rewrite Hf in Htc. cbn [negb orb] in Htc.
              assert (Hpre : d_pre d = []) by (destruct (d_pre d); [reflexivity|discriminate]).
              pose proof (pmatch_suffixed_rem _ _ _ _ _ Hf Hs Hpre Ep). discriminate.
        -- cbn [snoc_ok] in Hok. apply andb_prop in Hok. destruct Hok as [Hp Hok]. destruct (plain_facts _ Hp) as [Hf Hs].
           rewrite pmatch_nonfinal in Ep by assumption. destruct (pmatch d x []) as [[g0 r0]|]; [|discriminate].
           injection Ep as _ <-. exact (IH R' caps' Hne' Hok Htl Ew).
Qed.

Lemma seg_part_ne s : seg_nonempty s = true -> seg_no_empty_match s = true -> seg_isolating s = true ->
  ne_part (to_cpart (seg_part s)).
Proof.
  destruct s as [k|pre c n post]; cbn [seg_part to_cpart ne_part seg_nonempty seg_no_empty_match seg_isolating].
  - intros H _ _. destruct k; [discriminate|discriminate].
  - intros _ H Hiso rest. unfold pmatch. cbn [d_final d_suffixed d_pre d_post d_lang]. rewrite Hiso. cbn [negb].
    unfold strip_prefix. destruct pre as [|a pre]; [|reflexivity]. cbn [starts_with length skipn].
    destruct post as [|b post]; [|reflexivity].
    change (strip_suffix [] []) with (Some (@nil N)). cbn [is_nil andb] in H. apply negb_true_iff in H. cbv beta iota. rewrite H. reflexivity.
Qed.

Lemma path_part_ne branch :
  ne_part (PDyn dpart {| d_pre := []; d_lang := LPath; d_post := []; d_final := negb (conv_isolating CPath); d_suffixed := branch; d_weight := path_weight |}).
Proof.
  cbn [ne_part]. intro rest. unfold pmatch. cbn [d_final d_suffixed d_pre d_post d_lang]. rewrite isolating_path_false'. cbn [negb].
  cbv beta iota zeta. unfold strip_prefix. cbn [starts_with length skipn]. cbv beta iota.
  destruct rest as [|r0 rest].
  - cbn [join_slash]. destruct branch; cbn [ends_with_slash rev in_lang]; [reflexivity|]. unfold strip_suffix. reflexivity.
  - change (join_slash ([] :: r0 :: rest)) with (SLASH :: join_slash (r0 :: rest)). generalize (join_slash (r0 :: rest)). intro J.
    assert (Hl : forall t, in_lang LPath (SLASH :: t) = false) by (intro t; cbn [in_lang]; rewrite N.eqb_refl; reflexivity).
    destruct branch.
    + destruct (ends_with_slash (SLASH :: J)).
      * destruct J as [|c J']; [reflexivity|]. change (removelast (SLASH :: c :: J')) with (SLASH :: removelast (c :: J')).
        rewrite Hl. reflexivity.
      * rewrite Hl. reflexivity.
    + rewrite strip_suffix_nil', Hl. reflexivity.
Qed.

Lemma segs_ne l :
  forallb seg_isolating l = true -> forallb seg_nonempty l = true -> forallb seg_no_empty_match l = true ->
  Forall ne_part (map to_cpart (map seg_part l)) /\ forallb tail_ok (map to_cpart (map seg_part l)) = true.
Proof.
  induction l as [|s l IH]; cbn [forallb map]; intros H1 H2 H3; [split; [constructor|reflexivity]|].
  apply andb_prop in H1, H2, H3. destruct H1 as [A1 B1], H2 as [A2 B2], H3 as [A3 B3].
  destruct (IH B1 B2 B3) as [I1 I2]. split.
  - constructor; [apply seg_part_ne; assumption|exact I1].
  - cbn [forallb]. rewrite I2, andb_true_r. destruct s as [k|pre c n post]; cbn [seg_part to_cpart tail_ok d_final]; [reflexivity|].
    cbn [seg_isolating] in A1. rewrite A1. reflexivity.
Qed.

(* the parts of a rule that ends with a slash: domain part, leading slash, body, trailing slash *)
Lemma branch_body r :
  rule_wf2 r = true -> is_branch r = true ->
  exists body, rparts r = to_cpart (seg_part (r_dom r)) :: PStatic _ [] :: body ++ [PStatic _ []]
    /\ snoc_ok body = true /\ Forall ne_part body /\ forallb tail_ok body = true.
Proof.
  unfold rule_wf2, rule_wf. intros Hwf Hb. apply andb_prop in Hwf. destruct Hwf as [Hwf Hnm].
  apply andb_prop in Hwf. destruct Hwf as [Hwf Hne]. apply andb_prop in Hwf. destruct Hwf as [Hd Hs].
  destruct (segs_ne _ Hs Hne Hnm) as [Hn1 Hn2].
  unfold rparts, rule_parts. rewrite Hb. destruct (r_tail r) as [n|].
  - cbn [tail_parts map]. rewrite map_app. cbn [map to_cpart].
    exists (map to_cpart (map seg_part (r_segs r)) ++ [PDyn _ {| d_pre := []; d_lang := LPath; d_post := []; d_final := negb (conv_isolating CPath); d_suffixed := true; d_weight := path_weight |}]).
    split; [rewrite <- app_assoc; reflexivity|]. split; [|split].
    + apply snoc_ok_static_segs; [exact Hs|vm_compute; reflexivity|]. intros d t H. injection H as _ <-. reflexivity.
    + apply Forall_app. split; [exact Hn1|]. constructor; [apply path_part_ne|constructor].
    + rewrite forallb_app, Hn2. reflexivity.
  - cbn [map]. rewrite map_app. cbn [map to_cpart].
    exists (map to_cpart (map seg_part (r_segs r))). split; [reflexivity|]. split; [|split; assumption].
    rewrite <- (app_nil_r (map to_cpart _)). apply snoc_ok_static_segs; [exact Hs|reflexivity|discriminate].
Qed.

(* what a slash admission consists of *)
Lemma aslash_inv m r P :
  admits m r P = ASlash rres ->
  exists cs' caps v, rparts r = cs' ++ [PStatic _ []] /\ cwalk cs' P = Some (caps, []) /\ rconvert r caps = Some v.
Proof.
  intro Ha. unfold admits, Trie.admits in Ha.
 unfold Trie.convert_adm in Ha.
    destruct (cwalk (rparts r) P) as [[caps lo]|] eqn:Ew.
    - destruct lo as [|l0 lo].
      + destruct (rconvert r caps); discriminate.
      + destruct l0 as [|x l0]; [destruct lo as [|l1 lo]|].
        * destruct (rstrict m r); [discriminate|]. destruct (rconvert r caps); discriminate.
        * destruct (Trie.strip_last_empty dpart (rparts r)) as [cs'|] eqn:Es; [|discriminate].
          destruct (cwalk cs' P) as [[caps2 lo2]|] eqn:Ew2; [|discriminate]. destruct lo2; [|discriminate].
          destruct (rconvert r caps2) as [v|] eqn:Ec; [|discriminate].
          apply (strip_last_empty_some dpart) in Es. exists cs', caps2, v. auto.
        * destruct (Trie.strip_last_empty dpart (rparts r)) as [cs'|] eqn:Es; [|discriminate].
          destruct (cwalk cs' P) as [[caps2 lo2]|] eqn:Ew2; [|discriminate]. destruct lo2; [|discriminate].
          destruct (rconvert r caps2) as [v|] eqn:Ec; [|discriminate].
          apply (strip_last_empty_some dpart) in Es. exists cs', caps2, v. auto.
    - destruct (Trie.strip_last_empty dpart (rparts r)) as [cs'|] eqn:Es; [|discriminate].
      destruct (cwalk cs' P) as [[caps2 lo2]|] eqn:Ew2; [|discriminate]. destruct lo2; [|discriminate].
      destruct (rconvert r caps2) as [v|] eqn:Ec; [|discriminate].
      apply (strip_last_empty_some dpart) in Es. exists cs', caps2, v. auto.
Qed.

(* no rule admits a path that ends with an empty segment "but for its trailing slash" *)
Lemma dom_part_plain r d :
  rule_wf r = true -> to_cpart (seg_part (r_dom r)) = PDyn _ d -> plain d = true.
Proof.
  unfold rule_wf. intros Hwf Hd. apply andb_prop in Hwf. destruct Hwf as [Hwf _]. apply andb_prop in Hwf. destruct Hwf as [Hiso _].
  destruct (r_dom r) as [k|pre c n post]; cbn [seg_part to_cpart] in Hd; [discriminate|]. injection Hd as <-.
  cbn [seg_isolating] in Hiso. unfold plain. cbn [d_final d_suffixed]. rewrite Hiso. reflexivity.
Qed.

Lemma no_slash_admission m r q0 q1 Q :
  rule_wf2 r = true -> admits m r (q0 :: q1 :: Q ++ [[]]) <> ASlash rres.
Proof.
  intros Hwf Ha. destruct (aslash_inv _ _ _ Ha) as (cs' & caps & v & Hp & Hw & _).
  assert (Hwf1 : rule_wf r = true) by (unfold rule_wf2 in Hwf; apply andb_prop in Hwf; exact (proj1 Hwf)).
  pose proof (slash_parts_branch r cs' Hwf1 Hp) as Hb.
  destruct (branch_body r Hwf Hb) as (body & Hp2 & Hok & Hne & Htl).
  rewrite Hp2 in Hp. rewrite !app_comm_cons in Hp. apply app_inj_tail in Hp. destruct Hp as [<- _].
  assert (Hbody : forall c0, match cwalk (PStatic _ [] :: body) (q1 :: Q ++ [[]]) with Some (c2, lo) => Some (c0 ++ c2, lo) | None => None end = Some (caps, []) -> False).
  { intros c0 H. cbn [Trie.walk] in H. destruct (list_eqb [] q1); [|discriminate].
    destruct (cwalk body (Q ++ [[]])) as [[c2 lo]|] eqn:Eb; [|discriminate]. injection H as _ ->.
    exact (body_never_ends_empty body Q c2 Hne Hok Htl Eb). }
  destruct (to_cpart (seg_part (r_dom r))) as [k|d] eqn:Ed.
  - cbn [Trie.walk] in Hw. destruct (list_eqb k q0); [|discriminate]. apply (Hbody []). cbn [Trie.walk].
    destruct (list_eqb [] q1); [|discriminate]. destruct (cwalk body (Q ++ [[]])) as [[c2 lo]|]; [|discriminate]. exact Hw.
  - destruct (plain_facts _ (dom_part_plain r d Hwf1 Ed)) as [Hf Hs].
    change (cwalk (PDyn _ d :: PStatic _ [] :: body) (q0 :: q1 :: Q ++ [[]]))
      with (match pmatch d q0 (q1 :: Q ++ [[]]) with
            | Some (g, rem) => match cwalk (PStatic _ [] :: body) rem with Some (c2, lo) => Some (g ++ c2, lo) | None => None end
            | None => None end) in Hw.
    rewrite pmatch_nonfinal in Hw by assumption. destruct (pmatch d q0 []) as [[g0 r0]|]; [|discriminate].
    exact (Hbody g0 Hw).
Qed.

Lemma merge_slashes_length_aux n : forall s, (length s <= n)%nat -> (length (merge_slashes s) <= length s)%nat.
Proof.
  induction n as [|n IH]; intros s Hs.
  - destruct s; [apply Nat.le_refl|cbn [length] in Hs; lia].
  - destruct s as [|a t]; [apply Nat.le_refl|]. destruct t as [|b r]; [apply Nat.le_refl|].
    assert (H1 : (length r <= n)%nat) by (cbn [length] in Hs; lia).
    assert (H2 : (length (b :: r) <= n)%nat) by (cbn [length] in *; lia).
    pose proof (IH r H1) as I1. pose proof (IH (b :: r) H2) as I2.
    change (merge_slashes (a :: b :: r)) with (if (a =? SLASH) && (b =? SLASH) then SLASH :: merge_slashes r else a :: merge_slashes (b :: r)).
    destruct ((a =? SLASH) && (b =? SLASH)); cbn [length] in *; lia.
Qed.
Lemma merge_slashes_length s : (length (merge_slashes s) <= length s)%nat.
Proof. apply (merge_slashes_length_aux (length s)). lia. Qed.

Lemma split_slash_cons_nonempty s : exists x l, split_slash s = x :: l.
Proof. pose proof (split_slash_nonempty s) as H. destruct (split_slash s) as [|x l]; [contradiction|eauto]. Qed.

(* the first pass over a path that ends with a slash never asks for another slash *)
Lemma no_second_slash m domain path meth ws h w :
  (forall r, In r (m_rules m) -> rule_wf2 r = true) ->
  smatch dpart rule rres pmatch rmethods r_websocket (rstrict m) rconvert meth ws (trie_of m)
         (domain :: split_slash (path ++ [SLASH])) [] <> (MSlash rule rres, h, w).
Proof.
  intros Hwf E. unfold trie_of in E.
  destruct (root_slash_sound dpart rule rres pmatch dpart_eqb dpart_wlt rmethods r_websocket (rstrict m) rconvert rparts
              dpart_eqb_eq _ _ _ _ _ _ E) as (r & Hin & Ha & _ & _).
  rewrite split_slash_snoc in Ha. destruct (split_slash_cons_nonempty path) as (x & l & Hs). rewrite Hs in Ha. cbn [app] in Ha.
  exact (no_slash_admission m r domain x l (Hwf r Hin) Ha).
Qed.

(* C12_converges, one hop: the target of a slash / merged-slash redirect is answered by the matcher with a
   direct match - no further redirect of that kind *)
Theorem matcher_follow m domain path meth ws p' :
  (forall r, In r (m_rules m) -> rule_wf2 r = true) ->
  matcher_run m (trie_of m) domain path meth ws = MPath rule rres p' ->
  exists r' v', matcher_run m (trie_of m) domain p' meth ws = MOk rule rres r' v'.
Proof.
  intros Hwf H.
  assert (Hwf1 : forall r, In r (m_rules m) -> rule_wf r = true).
  { intros r Hr. specialize (Hwf r Hr). unfold rule_wf2 in Hwf. apply andb_prop in Hwf. exact (proj1 Hwf). }
  (* after a slash redirect: some rule serves the target directly, and no slash is asked for again *)
  assert (Hslash : forall q r, In r (m_rules m) -> admits m r (domain :: split_slash q) = ASlash rres ->
                     rmethod_ok r meth = true -> r_websocket r = ws ->
                     exists r' v', matcher_run m (trie_of m) domain (q ++ [SLASH]) meth ws = MOk rule rres r' v').
  { intros q r Hin Ha Hm Hw. destruct (slash_target_admitted m r _ (Hwf1 r Hin) Ha) as (v & Hv).
    assert (Hs : serves m meth ws r (domain :: split_slash (q ++ [SLASH]))).
    { rewrite split_slash_snoc. cbn [app] in Hv. split; [rewrite Hv; discriminate|split; assumption]. }
    destruct (matcher_first_pass m domain (q ++ [SLASH]) meth ws r Hin Hs) as [Hok|[E _]]; [exact Hok|].
    exfalso. unfold matcher_run, matcher_match in E.
    destruct (smatch _ _ _ _ _ _ _ _ _ _ (trie_of m) (domain :: split_slash (q ++ [SLASH])) []) as [[x h1] w1] eqn:E1.
    destruct x as [|r1 v1|].
    - destruct (m_merge m); [|discriminate].
      destruct (smatch _ _ _ _ _ _ _ _ _ _ (trie_of m) (domain :: split_slash (merge_slashes (q ++ [SLASH]))) []) as [[x2 h2] w2].
      destruct x2 as [|r2 v2|]; try discriminate.
      + destruct (rmerge m r2); [|discriminate].
        (* a found first pass cannot be MNone: r serves the path *)
        pose proof (root_complete_hit dpart rule rres pmatch dpart_eqb dpart_wlt rmethods r_websocket (rstrict m) rconvert rparts
                      dpart_eqb_eq (m_rules m) meth ws (domain :: split_slash (q ++ [SLASH])) r Hin (proj1 Hs) (proj1 (proj2 Hs)) (proj2 (proj2 Hs))) as Hc.
        unfold trie_of in E1. rewrite E1 in Hc. exact (Hc eq_refl).
      + pose proof (root_complete_hit dpart rule rres pmatch dpart_eqb dpart_wlt rmethods r_websocket (rstrict m) rconvert rparts
                      dpart_eqb_eq (m_rules m) meth ws (domain :: split_slash (q ++ [SLASH])) r Hin (proj1 Hs) (proj1 (proj2 Hs)) (proj2 (proj2 Hs))) as Hc.
        unfold trie_of in E1. rewrite E1 in Hc. exact (Hc eq_refl).
    - discriminate.
    - exact (no_second_slash m domain q meth ws h1 w1 Hwf E1). }
  pose proof (matcher_path_sound _ _ _ _ _ _ H) as Hp.
  destruct Hp as [r Hin Ha Hm Hw ->|r Hmg Hin Ha Hm Hw ->|r v Hmg Hin Hrm Ha Hm Hw ->].
  - exact (Hslash path r Hin Ha Hm Hw).
  - exact (Hslash (merge_slashes path) r Hin Ha Hm Hw).
  - (* merged slashes: the follow-up repeats the search that found the rule *)
    assert (Hs : serves m meth ws r (domain :: split_slash (merge_slashes path))) by (eapply serves_of_direct; eassumption).
    destruct (matcher_first_pass m domain (merge_slashes path) meth ws r Hin Hs) as [Hok|[E (r2 & Hin2 & Ha2)]]; [exact Hok|].
    (* a slash redirect for the merged path would have been the answer to the original request as well *)
    exfalso. unfold matcher_run, matcher_match in H, E.
    destruct (smatch _ _ _ _ _ _ _ _ _ _ (trie_of m) (domain :: split_slash path) []) as [[x h1] w1].
    destruct (smatch _ _ _ _ _ _ _ _ _ _ (trie_of m) (domain :: split_slash (merge_slashes path)) []) as [[x2 h2] w2].
    destruct x as [|r1 v1|]; try discriminate.
    + rewrite Hmg in H. destruct x2 as [|r3 v3|].
      * discriminate.
      * discriminate E.
      * injection H as H. (* merge_slashes path ++ [SLASH] = merge_slashes path *)
        apply (f_equal (@length N)) in H. rewrite app_length in H. cbn [length] in H. lia.
    + injection H as H. apply (f_equal (@length N)) in H. rewrite app_length in H. cbn [length] in H.
      pose proof (merge_slashes_length path). lia.
Qed.

Lemma adapter_of_matcher h m a p2 me r v :
  matcher_run m (trie_of m) (domain_part m a) (path_part p2) (upper me) (a_websocket a) = MOk rule rres r v ->
  map_match h m a p2 me = Match r (dict_update v (r_defaults r))
  \/ (m_redirect_defaults m = true
      /\ ((exists u, map_match h m a p2 me = RedirectTo u) \/ (exists e, map_match h m a p2 me = Raised e))).
Proof.
  intro E. unfold map_match, adapter_match. fold (upper me). rewrite E.
  destruct (m_redirect_defaults m) eqn:Erd; [|rewrite andb_false_r; left; reflexivity].
  rewrite andb_true_r. destruct (r_alias r).
  - right. split; [reflexivity|]. destruct (h_alias h m a (upper me) r _); eauto.
  - destruct (h_default h m a (upper me) r _) as [[u|]| |]; eauto 6.
Qed.

Theorem converges_one_hop m a p me u :
  (forall r, In r (m_rules m) -> rule_wf2 r = true) ->
  router_match m a p me = RedirectTo u ->
  (exists p', u = make_redirect_url m a (quote safe_redirect p') None
     /\ exists r' v', matcher_run m (trie_of m) (domain_part m a) p' (upper me) (a_websocket a) = MOk rule rres r' v'
        /\ forall p2, path_part p2 = p' ->
             router_match m a p2 me = Match r' (dict_update v' (r_defaults r'))
             \/ (m_redirect_defaults m = true
                 /\ ((exists u', router_match m a p2 me = RedirectTo u') \/ (exists e, router_match m a p2 me = Raised e))))
  \/ (exists r v, In r (m_rules m) /\ admits m r (request_parts m a p) = ADirect _ v /\ m_redirect_defaults m = true
        /\ (r_alias r = true /\ alias_redirect_url m a (upper me) r (dict_update v (r_defaults r)) = BOk u
            \/ get_default_redirect m a (upper me) r (dict_update v (r_defaults r)) = BOk (Some u))).
Proof.
  intros Hwf H. unfold router_match, map_match, adapter_match in H. fold (upper me) in H.
  destruct (matcher_run m (trie_of m) (domain_part m a) (path_part p) (upper me) (a_websocket a)) as [r0 v0|p'|hm wsm] eqn:E.
  - right. apply matcher_ok_sound in E. destruct E as (Hin & Ha & Hm & Hw). exists r0, v0.
    split; [exact Hin|]. split; [exact Ha|].
    destruct (r_alias r0) eqn:Eal; cbn [andb] in H.
    + destruct (m_redirect_defaults m) eqn:Erd; [|discriminate]. split; [reflexivity|].
      cbn [router_hooks h_alias] in H. destruct (alias_redirect_url m a (upper me) r0 _) as [u0| |] eqn:Eh; try discriminate.
      injection H as <-. left. auto.
    + destruct (m_redirect_defaults m) eqn:Erd; [|discriminate]. split; [reflexivity|].
      cbn [router_hooks h_default] in H. destruct (get_default_redirect m a (upper me) r0 _) as [[u0|]| |] eqn:Ed; try discriminate.
      injection H as <-. right. reflexivity.
  - left. injection H as <-. exists p'. split; [reflexivity|].
    destruct (matcher_follow _ _ _ _ _ _ Hwf E) as (r' & v' & Hf). exists r', v'. split; [exact Hf|].
    intros p2 Hp2. unfold router_match. apply adapter_of_matcher. rewrite Hp2. exact Hf.
  - destruct (negb (is_nil hm)); [discriminate|]. destruct wsm; discriminate.
Qed.

Lemma ex_one_hop_hyps :
  (forall r, In r (m_rules (mk_map [ex_r3])) -> rule_wf2 r = true)
  /\ exists u, router_match (mk_map [ex_r3]) ex_adapter_app [47; 47; 101; 118; 105; 108; 46; 99; 111; 109; 47; 51] GET = RedirectTo u.
Proof. split; [intros r [<-|[]]; vm_compute; reflexivity|eexists; vm_compute; reflexivity]. Qed.
