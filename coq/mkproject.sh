#!/bin/sh
# regenerate _CoqProject and Makefile.coq from the .v files on disk
cd "$(dirname "$0")"
{ echo "-Q . Wz"; echo "-arg -w -arg -notation-overridden,-deprecated-hint-without-locality,-deprecated-instance-without-locality"; find . -name '*.v' ! -name '.*' | sed 's|^\./||' | LC_ALL=C sort; } > _CoqProject.new
if ! cmp -s _CoqProject.new _CoqProject 2>/dev/null; then mv _CoqProject.new _CoqProject; coq_makefile -f _CoqProject -o Makefile.coq >/dev/null; else rm _CoqProject.new; fi
[ -f Makefile.coq ] || coq_makefile -f _CoqProject -o Makefile.coq >/dev/null
