From Wz Require Import C19.Base C19.Gen C19.Model C19.Proofs.
Open Scope N_scope.
