(* C19 property theorems.  Nothing but statements, each closed by `exact <lemma>.`, with
   Print Assumptions beneath.  Definitions: C19/Model.v (generated comparisons, constants and the
   chunked-framing decision: C19/Gen.v, regenerated from serving.py on every run); spec side
   (ref_dechunk / ref, cenc / fenc / wire / body, chop, sumN, pct_enc) at the end of Model.v;
   Dof / Cof / Tof (deliverable data, completeness, tail of a reference decoding), qpart / qtext /
   query_ok in Proofs.v. *)
From Wz Require Import lib.Bytes lib.Utf8 C19.Base C19.Gen C19.Model C19.Proofs.
Open Scope N_scope.

(* the chunk-size pattern, its flags and the int() base are those of the current source *)
Theorem C19_source_pins :
  list_eqb chunk_size_re_text [91; 48; 45; 57; 65; 45; 70; 97; 45; 102; 93; 43] && (chunk_size_re_flags =? 256)
  && (dc_int_base =? 16) = true.
Proof. exact source_pins. Qed.
Print Assumptions C19_source_pins.

(* the reference decoder accepts every well-framed encoding: any hexadecimal spelling of the sizes
   (letter case, leading zeros, blanks around), LF or CRLF after size lines and data, any zero
   chunk spelling, and leaves what follows untouched *)
Theorem C19_wellframed_reference : forall cs f tail, forallb cenc_ok cs = true -> fenc_ok f = true ->
  ref (wire cs f tail) = (body cs, true, tail).
Proof. exact ref_wire. Qed.
Print Assumptions C19_wellframed_reference.

(* de-chunking is exact: for every chunk list, every such encoding and EVERY sequence of read
   sizes, no read fails, the reads return the body cut at the requested sizes, and once more than
   the body was asked for the stream is finished with the cursor just past the final line break
   (what follows is untouched) and every further read returns nothing *)
Theorem C19_dechunk : forall cs f tail sizes, forallb cenc_ok cs = true -> fenc_ok f = true ->
  match dc_reads (dst_init (wire cs f tail)) sizes with
  | (outs, e, st) =>
    e = None /\ outs = chop sizes (body cs) /\
    (lenN (body cs) < sumN sizes -> d_done st = true /\ d_rest st = tail /\
                                    forall n, dc_read st n = Ok ([], st))
  end.
Proof. exact dechunk_exact. Qed.
Print Assumptions C19_dechunk.

Example C19_dechunk_example :
  let c1 := {| c_pad1 := []; c_hex := [48; 65]; c_pad2 := [32]; c_t1 := [LF];
               c_data := [1; 2; 3; 4; 5; 6; 7; 8; 9; 10]; c_t2 := CRLF |} in
  let c2 := {| c_pad1 := [9]; c_hex := [50]; c_pad2 := []; c_t1 := CRLF; c_data := [11; 12]; c_t2 := [LF] |} in
  let f := {| f_pad1 := []; f_zeros := [48; 48]; f_pad2 := []; f_t1 := CRLF; f_t2 := [LF] |} in
  forallb cenc_ok [c1; c2] && fenc_ok f = true /\
  dc_reads (dst_init (wire [c1; c2] f [78])) [3; 8; 5; 1]
  = ([[1; 2; 3]; [4; 5; 6; 7; 8; 9; 10; 11]; [12]; []], None, {| d_len := 0; d_done := true; d_rest := [78] |}).
Proof. split; vm_compute; reflexivity. Qed.
Print Assumptions C19_dechunk_example.

(* ANY input, any read sizes: only OSError is ever raised (never out of fuel), an error means the
   framing is not complete, the data delivered is cut from the front of what the reference decoder
   finds deliverable, and the stream only finishes on a complete framing, after delivering all of it,
   with the cursor at the reference tail *)
Theorem C19_dechunk_safe : forall w sizes,
  match dc_reads (dst_init w) sizes with
  | (outs, e, st) =>
    (exists rest, Dof (ref w) = concat outs ++ rest) /\
    outs = chop (firstn (length outs) sizes) (Dof (ref w)) /\
    match e with
    | None => length outs = length sizes
    | Some e => e = OSErrorE /\ Cof (ref w) = false
    end /\
    (d_done st = true -> Cof (ref w) = true /\ concat outs = Dof (ref w) /\ d_rest st = Tof (ref w))
  end.
Proof. exact dechunk_safe. Qed.
Print Assumptions C19_dechunk_safe.

(* malformed framing (truncated, negative, non-hex, unterminated: whatever makes the reference
   framing incomplete) is reported as an I/O error as soon as more than the genuine chunk data is
   asked for, and what was delivered before is a prefix of that data *)
Theorem C19_dechunk_malformed : forall w sizes, Cof (ref w) = false -> lenN (Dof (ref w)) < sumN sizes ->
  match dc_reads (dst_init w) sizes with
  | (outs, e, st) => e = Some OSErrorE /\ exists rest, Dof (ref w) = concat outs ++ rest
  end.
Proof. exact dechunk_malformed. Qed.
Print Assumptions C19_dechunk_malformed.

(* the classes named by the property are incomplete for the reference decoder:
   5 CRLF ab (truncated) / -2 (negative) / 0x2, +2, 1_0, g (non-hex) / 2 CRLF ab XX (unterminated) / empty *)
Example C19_dechunk_malformed_classes :
  ref [53; 13; 10; 97; 98] = ([97; 98], false, [])
  /\ Cof (ref [45; 50; 13; 10; 97; 98; 13; 10; 48; 13; 10; 13; 10]) = false
  /\ Cof (ref [48; 120; 50; 13; 10; 97; 98; 13; 10; 48; 13; 10; 13; 10]) = false
  /\ Cof (ref [43; 50; 13; 10; 97; 98; 13; 10; 48; 13; 10; 13; 10]) = false
  /\ Cof (ref [49; 95; 48; 13; 10]) = false
  /\ Cof (ref [103; 13; 10]) = false
  /\ ref [50; 13; 10; 97; 98; 88; 88; 48; 13; 10; 13; 10] = ([97; 98], false, [])
  /\ Cof (ref []) = false
  /\ dc_reads (dst_init [53; 13; 10; 97; 98]) [2; 3] = ([[97; 98]], Some OSErrorE, {| d_len := 3; d_done := false; d_rest := [] |}).
Proof. vm_compute. repeat split. Qed.
Print Assumptions C19_dechunk_malformed_classes.

(* response framing: whatever run_wsgi writes is head ++ body; without chunked framing the body is
   the concatenation of the application's pieces; with it, the reference decoder reads exactly
   that concatenation back, complete, leaving whatever follows *)
Theorem C19_response_framing : forall proto method expect server date status headers pieces out,
  respond proto method expect server date status headers pieces = Some out ->
  exists code msg, split_status status = Some (code, msg) /\
    let chunked := uses_chunked proto method code headers in
    out = response_head proto expect server date code msg headers chunked ++ response_body chunked pieces /\
    (chunked = false -> response_body chunked pieces = concat pieces) /\
    (chunked = true -> forall tail, ref (response_body chunked pieces ++ tail) = (concat pieces, true, tail)).
Proof. exact response_framing. Qed.
Print Assumptions C19_response_framing.

(* and the request-side decoder model reads a chunked response body back under every read pattern *)
Theorem C19_response_roundtrip : forall pieces tail sizes,
  match dc_reads (dst_init (response_body true pieces ++ tail)) sizes with
  | (outs, e, st) => e = None /\ outs = chop sizes (concat pieces)
  end.
Proof. exact response_roundtrip. Qed.
Print Assumptions C19_response_roundtrip.

(* the chunked-framing decision generated from run_wsgi.write: exactly when there is no
   Content-Length header (any letter case), the method is not HEAD, the status is outside 1xx, 204
   and 304, and the server speaks HTTP/1.1 *)
Theorem C19_chunked_decision : forall proto method code headers,
  uses_chunked proto method code headers =
    negb (mem_str CONTENT_LENGTH_LC (lower_keys headers)) && negb (list_eqb method HEAD)
    && negb ((100 <=? code) && (code <? 200)) && negb ((code =? 204) || (code =? 304))
    && str_geb proto HTTP11.
Proof. exact chunked_decision. Qed.
Print Assumptions C19_chunked_decision.

Example C19_response_example :
  respond HTTP11 [71; 69; 84] None [83] [68] [50; 48; 48; 32; 79; 75] [([88], [49])] [[97; 98]; []; [99]]
  = Some (HTTP11 ++ [32; 50; 48; 48; 32; 79; 75; 13; 10] ++ [83; 101; 114; 118; 101; 114; 58; 32; 83; 13; 10]
          ++ [68; 97; 116; 101; 58; 32; 68; 13; 10] ++ [88; 58; 32; 49; 13; 10]
          ++ [84; 114; 97; 110; 115; 102; 101; 114; 45; 69; 110; 99; 111; 100; 105; 110; 103; 58; 32; 99; 104; 117; 110; 107; 101; 100; 13; 10]
          ++ [67; 111; 110; 110; 101; 99; 116; 105; 111; 110; 58; 32; 99; 108; 111; 115; 101; 13; 10; 13; 10]
          ++ [50; 13; 10; 97; 98; 13; 10; 49; 13; 10; 99; 13; 10; 48; 13; 10; 13; 10])
  /\ uses_chunked [72; 84; 84; 80; 47; 49; 46; 48] [71; 69; 84] 200 [] = false
  /\ uses_chunked HTTP11 HEAD 200 [] = false
  /\ uses_chunked HTTP11 [71; 69; 84] 204 [] = false
  /\ uses_chunked HTTP11 [71; 69; 84] 200 [([67; 79; 78; 84; 69; 78; 84; 45; 108; 101; 110; 103; 116; 104], [51])] = false.
Proof. vm_compute. repeat split. Qed.
Print Assumptions C19_response_example.

(* make_environ on an origin-form target: however the client percent-encodes the path bytes
   (keep: which bytes it leaves literal), PATH_INFO is the percent-decoded path and QUERY_STRING the
   text after the first question mark *)
Theorem C19_environ_path : forall keep b q hs,
  forallb (fun c => c <? 256) b = true -> query_ok q = true ->
  match b with c :: _ => negb (c =? SLASH) | [] => true end = true ->
  exists e, make_environ (SLASH :: pct_enc keep b ++ qpart q) hs = Some e /\
            en_path_info e = wsgi_encoding_dance (utf8_decode_replace (SLASH :: b)) /\
            en_query_string e = qtext q.
Proof. exact environ_path. Qed.
Print Assumptions C19_environ_path.

(* for a path that is UTF-8 text, PATH_INFO carries exactly the bytes of the path *)
Theorem C19_environ_path_utf8 : forall keep s q hs,
  valid_text s = true -> query_ok q = true ->
  match s with c :: _ => negb (c =? SLASH) | [] => true end = true ->
  exists e, make_environ (SLASH :: pct_enc keep (utf8_encode s) ++ qpart q) hs = Some e /\
            en_path_info e = utf8_encode (SLASH :: s) /\ en_query_string e = qtext q.
Proof. exact environ_path_utf8. Qed.
Print Assumptions C19_environ_path_utf8.

(* /caf%C3%A9/x?a=1 with Host, a repeated header, an underscore name and Content-Type *)
Example C19_environ_example :
  make_environ [47; 99; 97; 102; 37; 67; 51; 37; 65; 57; 47; 120; 63; 97; 61; 49]
    [([72; 111; 115; 116], [104]); ([88; 45; 65], [49]); ([120; 45; 97], [50]); ([88; 95; 66], [51]);
     ([67; 111; 110; 116; 101; 110; 116; 45; 84; 121; 112; 101], [116])]
  = Some {| en_path_info := [47; 99; 97; 102; 195; 169; 47; 120]; en_query_string := [97; 61; 49];
            en_request_uri := [47; 99; 97; 102; 37; 67; 51; 37; 65; 57; 47; 120; 63; 97; 61; 49];
            en_headers := [(HTTP_HOST, [104]); (HTTP_ ++ [88; 95; 65], [49; 44; 50]);
                           ([67; 79; 78; 84; 69; 78; 84; 95; 84; 89; 80; 69], [116])];
            en_chunked := false |}.
Proof. vm_compute. reflexivity. Qed.
Print Assumptions C19_environ_example.

(* absolute-form target  scheme://netloc/path?query  (any scheme of letters, digits, + - . starting
   with a letter; any netloc of printable characters without / ? # [ ] %): PATH_INFO and
   QUERY_STRING are those of the path part, however it is percent-encoded, and HTTP_HOST is the
   netloc whatever Host header was sent (generated path_info_gen / host_override_gen) *)
Theorem C19_environ_absolute : forall keep b q a sch hs,
  forallb (fun c => c <? 256) b = true -> query_ok q = true -> netloc_ok a = true -> scheme_ok sch = true ->
  exists e, make_environ (sch ++ COLON :: [SLASH; SLASH] ++ a ++ SLASH :: pct_enc keep b ++ qpart q) hs = Some e /\
            en_path_info e = wsgi_encoding_dance (utf8_decode_replace (SLASH :: b)) /\
            en_query_string e = qtext q /\
            env_get HTTP_HOST (en_headers e) = Some a.
Proof. exact environ_absolute. Qed.
Print Assumptions C19_environ_absolute.

(* the repair for a target that starts with two slashes (urlsplit takes the first segment for an
   authority): the segment is put back in front of the path, the headers are untouched *)
Theorem C19_environ_double_slash : forall keep b q a hs,
  forallb (fun c => c <? 256) b = true -> query_ok q = true -> netloc_ok a = true ->
  exists e, make_environ ([SLASH; SLASH] ++ a ++ SLASH :: pct_enc keep b ++ qpart q) hs = Some e /\
            en_path_info e = wsgi_encoding_dance (utf8_decode_replace (SLASH :: a ++ SLASH :: b)) /\
            en_query_string e = qtext q /\
            en_headers e = env_headers hs [].
Proof. exact environ_double_slash. Qed.
Print Assumptions C19_environ_double_slash.

(* absolute-form target http://h:80/a%20b?q : path and query split after the authority, Host taken
   from the target (generated path_info_gen / host_override_gen) *)
Example C19_environ_absolute_example :
  make_environ [104; 116; 116; 112; 58; 47; 47; 104; 58; 56; 48; 47; 97; 37; 50; 48; 98; 63; 113]
               [([72; 111; 115; 116], [120])]
  = Some {| en_path_info := [47; 97; 32; 98]; en_query_string := [113];
            en_request_uri := [104; 116; 116; 112; 58; 47; 47; 104; 58; 56; 48; 47; 97; 37; 50; 48; 98; 63; 113];
            en_headers := [(HTTP_HOST, [104; 58; 56; 48])]; en_chunked := false |}.
Proof. vm_compute. reflexivity. Qed.
Print Assumptions C19_environ_absolute_example.

(* request headers (the generated body of make_environ's header loop, folded over the headers):
   every header whose name has no underscore appears under HTTP_<NAME> with the values the client
   sent under that name, in order, joined by commas (absent when there were none); Content-Type and
   Content-Length appear unprefixed with the last value sent; names with an underscore are dropped *)
Theorem C19_environ_headers : forall hs,
  (forall K, env_get (HTTP_ ++ K) (env_headers hs []) = join_comma (sent_values (HTTP_ ++ K) hs)) /\
  (forall E, exempt E = true -> env_get E (env_headers hs []) = last_value (sent_values E hs)).
Proof. exact environ_headers. Qed.
Print Assumptions C19_environ_headers.

(* X-A: 1 / x-a: 2 / X_A: 3 / Content-Type: t / content-type: u *)
Example C19_environ_headers_example :
  let hs := [([88; 45; 65], [49]); ([120; 45; 97], [50]); ([88; 95; 65], [51]);
             ([67; 111; 110; 116; 101; 110; 116; 45; 84; 121; 112; 101], [116]);
             ([99; 111; 110; 116; 101; 110; 116; 45; 116; 121; 112; 101], [117])] in
  sent_values (HTTP_ ++ [88; 95; 65]) hs = [[49]; [50]]
  /\ env_get (HTTP_ ++ [88; 95; 65]) (env_headers hs []) = Some [49; 44; 50]
  /\ env_get CONTENT_TYPE (env_headers hs []) = Some [117]
  /\ env_get (HTTP_ ++ CONTENT_TYPE) (env_headers hs []) = None.
Proof. vm_compute. repeat split. Qed.
Print Assumptions C19_environ_headers_example.

(* response head (emission plan generated from run_wsgi.write in source order, formats from the
   running http.server): optional interim 100 Continue, status line = protocol, decimal code and
   the reason text, Server and Date, exactly the application's headers in their order,
   Transfer-Encoding: chunked iff chunked framing is used, Connection: close, blank line *)
Theorem C19_response_headers : forall proto expect server date code msg headers chunked,
  response_head proto expect server date code msg headers chunked
  = response_head_spec proto expect server date code msg headers chunked.
Proof. exact response_head_eq. Qed.
Print Assumptions C19_response_headers.

(* C19 x C09.  With max_content_length set, the request wrappers read the de-chunking stream through
   LimitedStream(DechunkedInput(rfile), max_content_length, is_max=True) (C19/Limited.v, built from
   the regenerated C09/Gen.v).  Malformed framing still surfaces as an error there: on an incomplete
   framing no read returns an empty result (the end-of-stream signal), what is delivered is cut from
   the front of the genuine chunk data, every error is ClientDisconnected or RequestEntityTooLarge,
   and an unbounded read() (Request.get_data) always ends in one of them *)
From Wz Require Import C19.Limited C19.LimitedProofs.
Theorem C19_limited_malformed : forall w mx ops, Cof (ref w) = false -> Forall pos_op ops ->
  match lim_run (lim_init mx) (dst_init w) ops with
  | (outs, e) =>
    Forall (fun d => d <> []) outs /\
    (exists rest, Dof (ref w) = concat outs ++ rest) /\
    match e with Some e => allowed e | None => ~ In LReadAll ops end
  end.
Proof. exact limited_malformed. Qed.
Print Assumptions C19_limited_malformed.

(* 5 CRLF ab, maximum 100: read(2) delivers ab, read() raises ClientDisconnected; g CRLF: at once *)
Example C19_limited_malformed_example :
  lim_run (lim_init 100) (dst_init [53; 13; 10; 97; 98]) [LRead 2; LReadAll] = ([[97; 98]], Some ClientDisconnected)
  /\ lim_run (lim_init 100) (dst_init [103; 13; 10]) [LReadAll] = ([], Some ClientDisconnected)
  /\ lim_run (lim_init 100) (dst_init [50; 13; 10; 97; 98; 13; 10; 48; 13; 10; 13; 10]) [LReadAll; LRead 1]
     = ([[97; 98]; []], None).
Proof. vm_compute. repeat split. Qed.
Print Assumptions C19_limited_malformed_example.

(* run_wsgi as a state machine (C19/App.v over the generated start_response / write / execute
   decisions).  An application that calls start_response, possibly again with exc_info before
   anything was sent, and then produces body pieces through write() and/or by iteration: what
   reaches the socket is exactly the response (C19_response_framing, C19_response_headers) carrying
   the status and headers of the LAST accepted start_response and the pieces in order; a status
   outside <digits>[ <reason>] stops before anything is written *)
From Wz Require Import C19.App C19.AppProofs.
Theorem C19_app_response : forall proto method expect server date s0 h0 e0 more body,
  forallb is_piece body = true ->
  let sL := fst (last_sr s0 h0 more) in let hL := snd (last_sr s0 h0 more) in
  let acts := ASR s0 h0 e0 :: map (fun sh => ASR (fst sh) (snd sh) true) more ++ body in
  match respond proto method expect server date sL hL (map data_of body) with
  | Some out => run_app proto method expect server date acts = (out, None)
  | None => run_app proto method expect server date acts = (expect_prefix expect, Some EBadStatus)
  end.
Proof. exact app_normal. Qed.
Print Assumptions C19_app_response.

(* the assertion / exception cases are exactly the documented ones: a piece before any
   start_response is AssertionError (write() before start_response) with nothing written;
   start_response again without exc_info after a non-empty header list was set is AssertionError
   (Headers already set); with exc_info after a non-empty header list was sent it re-raises the
   application's exception; with exc_info before anything was sent it replaces status and headers *)
Theorem C19_app_errors : forall proto method expect server date,
  (forall a rest, is_piece a = true ->
     run_app proto method expect server date (a :: rest) = (expect_prefix expect, Some EWriteBeforeStart)) /\
  (forall st s h x hs, w_headers_set st = Some (x :: hs) ->
     do_act proto method server date st (ASR s h false) = inr EHeadersAlreadySet) /\
  (forall st s h x hs, w_headers_sent st = Some (x :: hs) ->
     do_act proto method server date st (ASR s h true) = inr EReraised) /\
  (forall st s h, w_headers_sent st = None ->
     exists st', do_act proto method server date st (ASR s h true) = inl st' /\ w_status_set st' = Some s /\
                 w_headers_set st' = Some h /\ w_out st' = w_out st).
Proof. exact app_errors. Qed.
Print Assumptions C19_app_errors.

(* the generated decision of start_response, spelled out (an empty header list counts as not set / not sent) *)
Theorem C19_start_response_cases : forall exc sent set_,
  start_response_gen exc sent set_ = if exc then (if sent then SRReraise else SRAccept) else (if set_ then SRAssert else SRAccept).
Proof. exact start_response_cases. Qed.
Print Assumptions C19_start_response_cases.
