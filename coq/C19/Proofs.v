(* C19 proofs.  The generated definitions of Gen.v are unfolded here: an edit of the source that
   changes a comparison, a constant or the framing decision breaks these proofs. *)
From Coq Require Import ZArith Lia ZifyBool ZifyN.
From Wz Require Import lib.Bytes lib.BytesFacts lib.Utf8 lib.Utf8Facts C09.BaseFacts C19.Base C19.Gen C19.Model.
Open Scope N_scope.

Ltac spl := repeat match goal with |- _ /\ _ => split end.

(* ------------------------------------------------------------------ pins and generated comparisons *)
Lemma source_pins :
  list_eqb chunk_size_re_text [91; 48; 45; 57; 65; 45; 70; 97; 45; 102; 93; 43] && (chunk_size_re_flags =? 256)
  && (dc_int_base =? 16) = true.
Proof. vm_compute. reflexivity. Qed.

Lemma dc_continue_eq d r s : dc_continue d (Z.of_N r) (Z.of_N s) = negb d && (r <? s).
Proof. unfold dc_continue. destruct d; cbn [negb andb]; lia. Qed.
Lemma dc_zero1_eq l : dc_zero1 (Z.of_N l) = (l =? 0).
Proof. unfold dc_zero1. lia. Qed.
Lemma dc_zero2_eq l : dc_zero2 (Z.of_N l) = (l =? 0).
Proof. unfold dc_zero2. lia. Qed.
Lemma dc_zero3_eq l : dc_zero3 (Z.of_N l) = (l =? 0).
Proof. unfold dc_zero3. lia. Qed.
Lemma dc_pos_eq l : dc_pos (Z.of_N l) = (0 <? l).
Proof. unfold dc_pos. lia. Qed.
Lemma dc_n_eq s r l : r < s -> Z.to_N (dc_n (Z.of_N s) (Z.of_N r) (Z.of_N l)) = N.min (s - r) l.
Proof. unfold dc_n. lia. Qed.
Lemma dc_short_eq a b : dc_short (Z.of_N a) (Z.of_N b) = negb (a =? b).
Proof. unfold dc_short. lia. Qed.
Lemma dc_neg_eq v : dc_neg (Z.of_N v) = false.
Proof. unfold dc_neg. lia. Qed.
Lemma terminators_eq t : mem_bytes t dc_terminators = is_term t.
Proof.
  unfold mem_bytes, dc_terminators, is_term, CRLF, LF, CR. cbn [existsb].
  destruct (list_eqb t [10]); destruct (list_eqb t [13; 10]); destruct (list_eqb t [13]); reflexivity.
Qed.

(* ------------------------------------------------------------------ readline *)
Lemma partition1_some x s a b : partition1 x s = (a, Some b) -> s = a ++ x :: b.
Proof.
  revert a b. induction s as [|y s IH]; cbn [partition1]; intros a b H; [discriminate|].
  destruct (x =? y) eqn:E.
  - inversion H; subst. apply N.eqb_eq in E. subst y. reflexivity.
  - destruct (partition1 x s) as [a' b'] eqn:P. inversion H; subst. cbn [app]. f_equal. apply IH. reflexivity.
Qed.

Lemma partition1_none x s a : partition1 x s = (a, None) -> s = a.
Proof.
  revert a. induction s as [|y s IH]; cbn [partition1]; intros a H; [inversion H; reflexivity|].
  destruct (x =? y); [discriminate|].
  destruct (partition1 x s) as [a' b'] eqn:P. inversion H; subst. f_equal. apply IH. reflexivity.
Qed.

Lemma readline_split w line r : rf_readline w = (line, r) -> w = line ++ r /\ (w <> [] -> line <> []).
Proof.
  unfold rf_readline. destruct (partition1 LF w) as [a [b|]] eqn:P; intro H; inversion H; subst.
  - apply partition1_some in P. split; [rewrite P, <- app_assoc; reflexivity|].
    intros _. destruct a; discriminate.
  - apply partition1_none in P. rewrite app_nil_r. split; [exact P|]. intro Hw. rewrite <- P. exact Hw.
Qed.

Lemma readline_len w line r : rf_readline w = (line, r) ->
  (length r <= length w)%nat /\ (line <> [] -> (length r < length w)%nat).
Proof.
  intro H. apply readline_split in H. destruct H as [H _]. subst w. rewrite app_length. split; [lia|].
  intro Hl. destruct line; [congruence|]. cbn [length]. lia.
Qed.

Lemma hex_line_nonempty line : hex_str (strip uni_ws line) = true -> line <> [].
Proof. intros H E. subst line. discriminate. Qed.

(* read_chunk_len with the unreachable negative test removed *)
Lemma read_chunk_len_eq rest :
  read_chunk_len rest =
    (let '(line, r) := rf_readline rest in
     if hex_str (strip uni_ws line) then Ok (hex_value (strip uni_ws line), r) else Err OSErrorE).
Proof.
  unfold read_chunk_len. destruct (rf_readline rest) as [line r].
  destruct (hex_str (strip uni_ws line)); [rewrite dc_neg_eq|]; reflexivity.
Qed.

Lemma read_chunk_len_progress rest v r : read_chunk_len rest = Ok (v, r) -> (length r < length rest)%nat.
Proof.
  rewrite read_chunk_len_eq. destruct (rf_readline rest) as [line r'] eqn:R.
  destruct (hex_str (strip uni_ws line)) eqn:Hh; intro H; inversion H; subst.
  apply readline_len in R. apply R. apply hex_line_nonempty. exact Hh.
Qed.

(* ------------------------------------------------------------------ the reference decoder *)
Definition Dof (x : bytes * bool * bytes) : bytes := fst (fst x).
Definition Cof (x : bytes * bool * bytes) : bool := snd (fst x).
Definition Tof (x : bytes * bool * bytes) : bytes := snd x.
Definition prepend (d : bytes) (x : bytes * bool * bytes) : bytes * bool * bytes := (d ++ Dof x, Cof x, Tof x).

Lemma prepend_let d x : (let '(b, c, tl) := x in (d ++ b, c, tl)) = prepend d x.
Proof. destruct x as [[b c] tl]. reflexivity. Qed.

Lemma ref_fuel : forall f1 f2 w, (length w < f1)%nat -> (length w < f2)%nat -> ref_dechunk f1 w = ref_dechunk f2 w.
Proof.
  induction f1 as [|f1 IH]; intros f2 w H1 H2; [inversion H1|]. destruct f2 as [|f2]; [inversion H2|].
  cbn [ref_dechunk]. destruct (rf_readline w) as [line r] eqn:R.
  destruct (hex_str (strip uni_ws line)) eqn:Hh; [|reflexivity].
  destruct (hex_value (strip uni_ws line) =? 0); [reflexivity|].
  destruct (lenN (takeN (hex_value (strip uni_ws line)) r) <? hex_value (strip uni_ws line)); [reflexivity|].
  destruct (rf_readline (dropN (hex_value (strip uni_ws line)) r)) as [term r2] eqn:R2.
  destruct (is_term term); [|reflexivity].
  assert (Hlen : (length r2 < length w)%nat).
  { apply readline_len in R. destruct R as [_ R]. specialize (R (hex_line_nonempty _ Hh)).
    apply readline_len in R2. destruct R2 as [R2 _]. unfold dropN in R2. rewrite skipn_length in R2. lia. }
  rewrite (IH f2 r2) by lia. reflexivity.
Qed.

(* the decoding of what follows when n bytes of the current chunk are still due *)
Definition ref_mid (n : N) (r : bytes) : bytes * bool * bytes :=
  let data := takeN n r in
  if lenN data <? n then (data, false, [])
  else let '(term, r2) := rf_readline (dropN n r) in
       if is_term term then prepend data (ref r2) else (data, false, []).

Lemma ref_unfold w :
  ref w = (let '(line, r) := rf_readline w in
           let t := strip uni_ws line in
           if hex_str t then
             if hex_value t =? 0
             then let '(term, r2) := rf_readline r in if is_term term then ([], true, r2) else ([], false, [])
             else ref_mid (hex_value t) r
           else ([], false, [])).
Proof.
  unfold ref at 1. cbn [ref_dechunk]. destruct (rf_readline w) as [line r] eqn:R. cbv zeta.
  destruct (hex_str (strip uni_ws line)) eqn:Hh; [|reflexivity].
  destruct (hex_value (strip uni_ws line) =? 0); [reflexivity|].
  unfold ref_mid. cbv zeta.
  destruct (lenN (takeN (hex_value (strip uni_ws line)) r) <? hex_value (strip uni_ws line)); [reflexivity|].
  destruct (rf_readline (dropN (hex_value (strip uni_ws line)) r)) as [term r2] eqn:R2.
  destruct (is_term term); [|reflexivity].
  rewrite prepend_let. unfold ref. f_equal. apply ref_fuel; [|lia].
  apply readline_len in R. destruct R as [_ R]. specialize (R (hex_line_nonempty _ Hh)).
  apply readline_len in R2. destruct R2 as [R2 _]. unfold dropN in R2. rewrite skipn_length in R2. lia.
Qed.

(* ------------------------------------------------------------------ the stateful decoder against the reference *)
Definition final_of (r : bytes) : bytes * bool * bytes :=
  let '(term, r2) := rf_readline r in if is_term term then ([], true, r2) else ([], false, []).

(* what the reference decoder makes of the input still ahead of a DechunkedInput state *)
Definition ref_state (st : dst) : bytes * bool * bytes :=
  if d_done st then ([], true, d_rest st)
  else if d_len st =? 0 then ref (d_rest st) else ref_mid (d_len st) (d_rest st).

Definition peel (d : bytes) (x y : bytes * bool * bytes) : Prop :=
  Dof x = d ++ Dof y /\ Cof x = Cof y /\ Tof x = Tof y.

Lemma peel_refl x : peel [] x x.
Proof. unfold peel. auto. Qed.
Lemma peel_trans d1 d2 x y z : peel d1 x y -> peel d2 y z -> peel (d1 ++ d2) x z.
Proof. unfold peel. intros [A [B C]] [A' [B' C']]. spl; try congruence. rewrite A, A', app_assoc. reflexivity. Qed.
Lemma peel_prepend d x : peel d (prepend d x) x.
Proof. unfold peel, prepend, Dof, Cof, Tof. cbn [fst snd]. auto. Qed.
Lemma prepend_nil x : prepend [] x = x.
Proof. destruct x as [[b c] t]. reflexivity. Qed.
Lemma prepend_app a b x : prepend (a ++ b) x = prepend a (prepend b x).
Proof. unfold prepend, Dof, Cof, Tof. cbn [fst snd]. rewrite app_assoc. reflexivity. Qed.

Lemma takeN_split n len r : n <= len -> takeN len r = takeN n r ++ takeN (len - n) (dropN n r).
Proof.
  unfold takeN, dropN. intro H. replace (N.to_nat len) with (N.to_nat n + N.to_nat (len - n))%nat by lia.
  generalize (N.to_nat (len - n)) as k. generalize (N.to_nat n) as m. clear.
  induction m as [|m IH]; intros k; [reflexivity|]. destruct r as [|x r]; cbn [Nat.add firstn skipn app].
  - destruct k; reflexivity.
  - f_equal.
    assert (G : forall (l : list N), firstn (m + k) l = firstn m l ++ firstn k (skipn m l)).
    { clear. induction m as [|m IHm]; intro l; [reflexivity|]. destruct l as [|y l]; cbn [Nat.add firstn skipn app].
      - destruct k; reflexivity.
      - f_equal. apply IHm. }
    apply G.
Qed.

Lemma ref_mid_split n len r : n <= len -> lenN (takeN n r) = n ->
  ref_mid len r = prepend (takeN n r) (ref_mid (len - n) (dropN n r)).
Proof.
  intros Hle Hn. unfold ref_mid. cbv zeta. rewrite (takeN_split n len r Hle).
  rewrite lenN_app, Hn.
  replace (n + lenN (takeN (len - n) (dropN n r)) <? len) with (lenN (takeN (len - n) (dropN n r)) <? len - n) by lia.
  destruct (lenN (takeN (len - n) (dropN n r)) <? len - n).
  - unfold prepend, Dof, Cof, Tof. reflexivity.
  - rewrite dropN_dropN. replace (n + (len - n)) with len by lia.
    destruct (rf_readline (dropN len r)) as [term r2]. destruct (is_term term).
    + rewrite prepend_app. reflexivity.
    + unfold prepend, Dof, Cof, Tof. reflexivity.
Qed.

Lemma ref_mid_zero r : ref_mid 0 r = (let '(term, r2) := rf_readline r in
                                      if is_term term then ref r2 else ([], false, [])).
Proof.
  unfold ref_mid. cbv zeta. rewrite takeN_0, dropN_0. cbn [lenN length N.of_nat N.ltb N.compare].
  destruct (rf_readline r) as [term r2]. destruct (is_term term); [apply prepend_nil|reflexivity].
Qed.

Definition err_ok {A} (r : rs A) : Prop := match r with Err FuelE => False | _ => True end.

Lemma header_inv st : d_done st = false ->
  match dc_header st with
  | Err e => e = OSErrorE /\ Cof (ref_state st) = false
  | Ok (len1, rest1) =>
    ref_state st = (if len1 =? 0 then final_of rest1 else ref_mid len1 rest1) /\
    (length rest1 <= length (d_rest st))%nat /\
    (d_len st = 0 -> (length rest1 < length (d_rest st))%nat)
  end.
Proof.
  intro Hd. unfold dc_header, ref_state. rewrite Hd, dc_zero1_eq.
  destruct (d_len st =? 0) eqn:Hz.
  - rewrite read_chunk_len_eq, ref_unfold. destruct (rf_readline (d_rest st)) as [line r] eqn:R. cbv zeta.
    destruct (hex_str (strip uni_ws line)) eqn:Hh; [|split; reflexivity].
    apply readline_len in R. destruct R as [R1 R2]. specialize (R2 (hex_line_nonempty _ Hh)).
    spl; [|lia|intros _; exact R2].
    unfold final_of. destruct (hex_value (strip uni_ws line) =? 0); reflexivity.
  - rewrite Hz. spl; [reflexivity|lia|intro H; lia].
Qed.

Lemma data_inv len1 rest1 size read acc : 0 < len1 -> read < size ->
  match dc_data len1 rest1 size read acc with
  | Err e => e = OSErrorE /\ Cof (ref_mid len1 rest1) = false
  | Ok (len2, rest2, read2, acc2) =>
    exists data, data <> [] /\ acc2 = acc ++ data /\ read2 = read + lenN data /\ read2 <= size /\
      len2 = len1 - lenN data /\ lenN data <= len1 /\
      ref_mid len1 rest1 = prepend data (ref_mid len2 rest2) /\
      (length rest2 < length rest1)%nat
  end.
Proof.
  intros Hl Hr. unfold dc_data. rewrite dc_pos_eq. replace (0 <? len1) with true by lia.
  rewrite dc_n_eq by exact Hr. cbv zeta. remember (N.min (size - read) len1) as n eqn:En.
  rewrite dc_short_eq. destruct (lenN (takeN n rest1) =? n) eqn:Hs; cbn [negb].
  2:{ split; [reflexivity|]. unfold ref_mid. cbv zeta. rewrite lenN_takeN in *.
      replace (N.min len1 (lenN rest1) <? len1) with true by lia. reflexivity. }
  assert (Hn : lenN (takeN n rest1) = n) by lia.
  exists (takeN n rest1). rewrite Hn.
  split; [intro E; rewrite E in Hn; cbn [lenN length N.of_nat] in Hn; lia|].
  split; [reflexivity|]. split; [reflexivity|]. split; [lia|]. split; [reflexivity|]. split; [lia|].
  split; [apply ref_mid_split; [lia|exact Hn]|].
  unfold dropN. rewrite skipn_length. rewrite lenN_takeN in Hn. unfold lenN in Hn. lia.
Qed.

Lemma data_zero rest1 size read acc : dc_data 0 rest1 size read acc = Ok (0, rest1, read, acc).
Proof. unfold dc_data. rewrite dc_pos_eq. reflexivity. Qed.

Lemma term_inv len2 rest2 :
  match dc_term len2 rest2 with
  | Err e => e = OSErrorE /\ len2 = 0 /\ Cof (final_of rest2) = false /\ Cof (ref_mid 0 rest2) = false
  | Ok rest3 =>
    (length rest3 <= length rest2)%nat /\
    (if len2 =? 0 then exists term, rf_readline rest2 = (term, rest3) /\ is_term term = true else rest3 = rest2)
  end.
Proof.
  unfold dc_term. rewrite dc_zero3_eq. destruct (len2 =? 0) eqn:Hz.
  - destruct (rf_readline rest2) as [term rest3] eqn:R. rewrite terminators_eq.
    destruct (is_term term) eqn:Ht.
    2:{ spl; [reflexivity|lia| |]; [unfold final_of|rewrite ref_mid_zero]; rewrite R, Ht; reflexivity. }
    split; [apply readline_len in R; apply R|]. exists term. auto.
  - split; [lia|reflexivity].
Qed.

Lemma loop_done f st size read acc : d_done st = true -> dc_loop f st size read acc = Ok (acc, st).
Proof. intro H. destruct f; cbn [dc_loop]; rewrite dc_continue_eq, H; reflexivity. Qed.

Lemma loop_inv : forall fuel st size read acc, (length (d_rest st) < fuel)%nat -> read <= size ->
  match dc_loop fuel st size read acc with
  | Ok (acc', st') =>
    exists d, acc' = acc ++ d /\ peel d (ref_state st) (ref_state st') /\
              (read + lenN d = size \/ d_done st' = true) /\
              (length (d_rest st') <= length (d_rest st))%nat /\ read + lenN d <= size /\
              (d <> [] -> (length (d_rest st') < length (d_rest st))%nat)
  | Err e => e = OSErrorE /\ Cof (ref_state st) = false
  end.
Proof.
  induction fuel as [|f IH]; intros st size read acc Hf Hr; [inversion Hf|].
  cbn [dc_loop]. rewrite dc_continue_eq.
  destruct (negb (d_done st) && (read <? size)) eqn:Hc; cbn [negb].
  2:{ exists []. rewrite app_nil_r. cbn [lenN length N.of_nat]. spl; auto; [apply peel_refl| |lia|congruence].
      destruct (d_done st); [right; reflexivity|left]. cbn [negb andb] in *. lia. }
  apply andb_prop in Hc. destruct Hc as [Hd Hlt].
  assert (Hdone : d_done st = false) by (destruct (d_done st); [discriminate|reflexivity]).
  assert (Hrs : read < size) by lia.
  pose proof (header_inv st Hdone) as HH. destruct (dc_header st) as [[len1 rest1]|e]; [|exact HH].
  destruct HH as [Href [Hlen1 Hlen1']]. rewrite dc_zero2_eq.
  destruct (len1 =? 0) eqn:Hz.
  - (* the zero chunk *)
    assert (len1 = 0) by lia. subst len1. rewrite data_zero.
    pose proof (term_inv 0 rest1) as HT. destruct (dc_term 0 rest1) as [rest3|e].
    2:{ destruct HT as [He [_ [Hc _]]]. split; [exact He|]. rewrite Href. exact Hc. }
    destruct HT as [Hl3 [term [HR Hterm]]].
    rewrite loop_done by reflexivity.
    exists []. rewrite app_nil_r. spl; auto.
    + rewrite Href. unfold final_of, ref_state. cbn [d_done d_rest]. rewrite HR, Hterm. apply peel_refl.
    + cbn [d_rest]. lia.
    + cbn [lenN length N.of_nat]. lia.
    + congruence.
  - (* a data chunk, fresh or continued *)
    assert (Hpos : 0 < len1) by lia.
    pose proof (data_inv len1 rest1 size read acc Hpos Hrs) as HD.
    destruct (dc_data len1 rest1 size read acc) as [[[[len2 rest2] read2] acc2]|e].
    2:{ destruct HD as [He Hc]. split; [exact He|]. rewrite Href. exact Hc. }
    destruct HD as [data [Hne [Hacc [Hread [Hle [Hlen2 [Hdl [Hmid Hl2]]]]]]]].
    pose proof (term_inv len2 rest2) as HT. destruct (dc_term len2 rest2) as [rest3|e].
    2:{ destruct HT as [He [Hz2 [_ Hc]]]. split; [exact He|]. rewrite Href, Hmid, Hz2.
        unfold prepend, Cof in *. cbn [fst snd]. exact Hc. }
    destruct HT as [Hl3 HT]. rewrite Hdone.
    assert (Hst : peel data (ref_state st) (ref_state {| d_len := len2; d_done := false; d_rest := rest3 |})).
    { rewrite Href, Hmid. unfold ref_state. cbn [d_done d_len d_rest].
      destruct (len2 =? 0) eqn:Hz2.
      - assert (len2 = 0) by lia. subst len2. destruct HT as [term [HR Hterm]].
        rewrite H, ref_mid_zero, HR, Hterm. apply peel_prepend.
      - subst rest3. apply peel_prepend. }
    specialize (IH {| d_len := len2; d_done := false; d_rest := rest3 |} size read2 acc2).
    cbn [d_rest] in IH. assert (Hf3 : (length rest3 < f)%nat) by lia. specialize (IH Hf3 Hle).
    destruct (dc_loop f {| d_len := len2; d_done := false; d_rest := rest3 |} size read2 acc2) as [[acc' st']|e].
    2:{ destruct IH as [He Hc]. split; [exact He|]. destruct Hst as [_ [Hcc _]]. rewrite Hcc. exact Hc. }
    destruct IH as [d [Ha [Hp [Hor [Hl [Hsz _]]]]]]. exists (data ++ d). spl.
    + rewrite Ha, Hacc, app_assoc. reflexivity.
    + eapply peel_trans; [exact Hst|exact Hp].
    + destruct Hor as [Hor|Hor]; [left|right; exact Hor]. rewrite lenN_app. lia.
    + cbn [d_rest] in Hl. lia.
    + rewrite lenN_app. lia.
    + intros _. cbn [d_rest] in Hl. lia.
Qed.


(* ------------------------------------------------------------------ read(size) and sequences of reads *)
Lemma read_inv st size :
  match dc_read st size with
  | Ok (d, st') =>
    peel d (ref_state st) (ref_state st') /\ (lenN d = size \/ d_done st' = true) /\ lenN d <= size /\
    (d <> [] -> (length (d_rest st') < length (d_rest st))%nat)
  | Err e => e = OSErrorE /\ Cof (ref_state st) = false
  end.
Proof.
  unfold dc_read. pose proof (loop_inv (S (length (d_rest st))) st size 0 [] (Nat.lt_succ_diag_r _)) as H.
  assert (H0 : 0 <= size) by lia. specialize (H H0).
  destruct (dc_loop (S (length (d_rest st))) st size 0 []) as [[acc' st']|e]; [|exact H].
  destruct H as [d [Ha [Hp [Hor [_ [Hsz Hstrict]]]]]]. cbn [app] in Ha. subst acc'. spl; auto; lia.
Qed.

(* a finished stream stays finished and yields nothing *)
Lemma read_done st size : d_done st = true -> dc_read st size = Ok ([], st).
Proof. intro H. unfold dc_read. apply loop_done. exact H. Qed.

Lemma done_ref st : d_done st = true -> ref_state st = ([], true, d_rest st).
Proof. intro H. unfold ref_state. rewrite H. reflexivity. Qed.

(* one read returns exactly the next min(size, remaining) bytes of the reference body *)
Lemma read_exact st size d st' : dc_read st size = Ok (d, st') -> d = takeN size (Dof (ref_state st)).
Proof.
  intro H. pose proof (read_inv st size) as G. rewrite H in G. destruct G as [[HD _] [Hor [Hle _]]].
  rewrite HD. destruct Hor as [Hs|Hdone].
  - rewrite <- Hs. symmetry. apply takeN_app_exact.
  - rewrite (done_ref st' Hdone). unfold Dof. cbn [fst]. rewrite app_nil_r. symmetry. apply takeN_all. exact Hle.
Qed.

Lemma reads_inv : forall sizes st,
  match dc_reads st sizes with
  | (outs, e, st') =>
    peel (concat outs) (ref_state st) (ref_state st') /\
    outs = chop (firstn (length outs) sizes) (Dof (ref_state st)) /\
    match e with
    | None => length outs = length sizes
    | Some e => e = OSErrorE /\ Cof (ref_state st) = false
    end
  end.
Proof.
  induction sizes as [|n r IH]; intro st; cbn [dc_reads].
  - spl; auto. apply peel_refl.
  - pose proof (read_inv st n) as G. pose proof (read_exact st n) as E.
    destruct (dc_read st n) as [[d st1]|e].
    + specialize (IH st1). destruct (dc_reads st1 r) as [[l e] st2]. destruct IH as [Hp [Hc He]].
      destruct G as [Hp1 _]. specialize (E d st1 eq_refl). spl.
      * cbn [concat]. eapply peel_trans; [exact Hp1|exact Hp].
      * cbn [length firstn chop]. rewrite <- E. f_equal.
        assert (HB : dropN n (Dof (ref_state st)) = Dof (ref_state st1)).
        { destruct Hp1 as [HD _]. pose proof (takeN_dropN n (Dof (ref_state st))) as HB.
          rewrite <- E in HB. rewrite HD in HB at 2. apply app_inv_head in HB. exact HB. }
        rewrite HB. exact Hc.
      * destruct e as [e|]; [|cbn [length]; lia].
        destruct He as [He Hcf]. split; [exact He|]. destruct Hp1 as [_ [Hcc _]]. rewrite Hcc. exact Hcf.
    + cbn [concat length firstn chop]. spl; auto; try apply peel_refl; apply G.
Qed.

Lemma reads_done : forall sizes st, d_done st = true ->
  dc_reads st sizes = (map (fun _ => []) sizes, None, st).
Proof.
  induction sizes as [|n r IH]; intros st H; cbn [dc_reads map]; [reflexivity|].
  rewrite read_done by exact H. rewrite IH by exact H. reflexivity.
Qed.

Lemma concat_nils (A B : Type) (l : list A) : concat (map (fun _ => @nil B) l) = [].
Proof. induction l; cbn [map concat app]; auto. Qed.

Lemma reads_sum : forall sizes st,
  match dc_reads st sizes with
  | (outs, None, st') => d_done st' = true \/ lenN (concat outs) = sumN sizes
  | _ => True
  end.
Proof.
  induction sizes as [|n r IH]; intro st; cbn [dc_reads]; [right; reflexivity|].
  pose proof (read_inv st n) as G. destruct (dc_read st n) as [[d st1]|e]; [|exact I].
  destruct G as [_ [Hor _]]. destruct Hor as [Hn|Hdone].
  - specialize (IH st1). destruct (dc_reads st1 r) as [[l e] st2]. destruct e; [exact I|].
    destruct IH as [IH|IH]; [left; exact IH|right]. cbn [concat sumN fold_right]. rewrite lenN_app.
    unfold sumN in IH. lia.
  - rewrite (reads_done r st1 Hdone). left. exact Hdone.
Qed.

(* ------------------------------------------------------------------ every well-framed encoding *)
Lemma list_eqb_eq a b : list_eqb a b = true -> a = b.
Proof.
  revert b. induction a as [|x a IH]; destruct b as [|y b]; cbn [list_eqb]; intro H;
    try discriminate; [reflexivity|].
  apply andb_prop in H. destruct H as [Hx Hab]. apply N.eqb_eq in Hx. subst y.
  f_equal. apply IH. exact Hab.
Qed.

Lemma term_cases t : term_ok t = true -> t = [LF] \/ t = CRLF.
Proof.
  unfold term_ok. intro H. apply orb_prop in H. destruct H as [H|H]; apply list_eqb_eq in H; auto.
Qed.

Lemma pad_ws p : pad_ok p = true -> forallb uni_ws p = true.
Proof. unfold pad_ok. apply forallb_impl. intros c H. unfold uni_ws. lia. Qed.
Lemma pad_nolf p : pad_ok p = true -> forallb (fun c => negb (LF =? c)) p = true.
Proof. unfold pad_ok. apply forallb_impl. intros c H. unfold LF. lia. Qed.
Lemma hex_nows h : forallb is_hex h = true -> forallb (fun c => negb (uni_ws c)) h = true.
Proof. apply forallb_impl. intros c H. unfold is_hex, is_digit, uni_ws in *. lia. Qed.
Lemma hex_nolf h : forallb is_hex h = true -> forallb (fun c => negb (LF =? c)) h = true.
Proof. apply forallb_impl. intros c H. unfold is_hex, is_digit, LF in *. lia. Qed.
Lemma hex_str_all h : hex_str h = true -> h <> [] /\ forallb is_hex h = true.
Proof. destruct h; [discriminate|]. intro H. split; [discriminate|exact H]. Qed.

Lemma readline_line k r : forallb (fun c => negb (LF =? c)) k = true -> rf_readline (k ++ LF :: r) = (k ++ [LF], r).
Proof. intro H. unfold rf_readline. rewrite partition1_app_stop by exact H. reflexivity. Qed.

Lemma rstrip_all (p : N -> bool) z : forallb p z = true -> rstrip p z = [].
Proof.
  induction z as [|x z IH]; cbn [rstrip forallb]; intro H; [reflexivity|].
  apply andb_prop in H. destruct H as [Hx Hz]. rewrite (IH Hz), Hx. reflexivity.
Qed.

Lemma rstrip_app_all (p : N -> bool) m z : forallb p z = true -> rstrip p (m ++ z) = rstrip p m.
Proof.
  intro H. induction m as [|x m IH]; cbn [app rstrip]; [apply rstrip_all; exact H|]. rewrite IH. reflexivity.
Qed.

Lemma strip_mid (p : N -> bool) a h z : forallb p a = true -> forallb p z = true -> h <> [] ->
  forallb (fun c => negb (p c)) h = true -> strip p (a ++ h ++ z) = h.
Proof.
  intros Ha Hz Hne Hh. unfold strip. destruct h as [|x h]; [congruence|].
  cbn [forallb] in Hh. apply andb_prop in Hh. destruct Hh as [Hx Hh'].
  change (a ++ (x :: h) ++ z) with (a ++ x :: (h ++ z)).
  rewrite drop_while_app_stop; [|exact Ha|destruct (p x); [discriminate|reflexivity]].
  change (x :: h ++ z) with ((x :: h) ++ z). rewrite rstrip_app_all by exact Hz.
  apply rstrip_none. cbn [forallb]. rewrite Hx, Hh'. reflexivity.
Qed.

(* a size line: blanks, hexadecimal digits, blanks, LF or CRLF *)
Lemma header_line_ok pad1 h pad2 t1 R :
  pad_ok pad1 = true -> pad_ok pad2 = true -> hex_str h = true -> term_ok t1 = true ->
  rf_readline (pad1 ++ h ++ pad2 ++ t1 ++ R) = (pad1 ++ h ++ pad2 ++ t1, R) /\
  strip uni_ws (pad1 ++ h ++ pad2 ++ t1) = h.
Proof.
  intros H1 H2 Hh Ht. apply hex_str_all in Hh. destruct Hh as [Hne Hh].
  apply term_cases in Ht. split.
  - destruct Ht as [Ht|Ht]; subst t1.
    + replace (pad1 ++ h ++ pad2 ++ [LF] ++ R) with ((pad1 ++ h ++ pad2) ++ LF :: R)
        by (rewrite <- !app_assoc; reflexivity).
      rewrite readline_line.
      * rewrite <- !app_assoc. reflexivity.
      * rewrite !forallb_app, (pad_nolf _ H1), (pad_nolf _ H2), (hex_nolf _ Hh). reflexivity.
    + unfold CRLF. replace (pad1 ++ h ++ pad2 ++ [CR; LF] ++ R) with ((pad1 ++ h ++ pad2 ++ [CR]) ++ LF :: R)
        by (rewrite <- !app_assoc; reflexivity).
      rewrite readline_line.
      * rewrite <- !app_assoc. reflexivity.
      * rewrite !forallb_app, (pad_nolf _ H1), (pad_nolf _ H2), (hex_nolf _ Hh). reflexivity.
  - apply strip_mid; auto.
    + apply pad_ws. exact H1.
    + rewrite forallb_app, (pad_ws _ H2). destruct Ht as [Ht|Ht]; subst t1; reflexivity.
    + apply hex_nows. exact Hh.
Qed.

Lemma term_line_ok t R : term_ok t = true -> rf_readline (t ++ R) = (t, R) /\ is_term t = true.
Proof.
  intro H. apply term_cases in H. destruct H as [H|H]; subst t.
  - split; [apply (readline_line [] R); reflexivity|reflexivity].
  - split; [apply (readline_line [CR] R); reflexivity|reflexivity].
Qed.

Lemma cenc_ok_parts c : cenc_ok c = true ->
  pad_ok (c_pad1 c) = true /\ pad_ok (c_pad2 c) = true /\ hex_str (c_hex c) = true /\
  hex_value (c_hex c) = lenN (c_data c) /\ 0 < lenN (c_data c) /\ term_ok (c_t1 c) = true /\ term_ok (c_t2 c) = true.
Proof. unfold cenc_ok. intro H. repeat (apply andb_prop in H; destruct H as [H ?]). spl; auto; lia. Qed.

Lemma ref_frame c R : cenc_ok c = true -> ref (frame c ++ R) = prepend (c_data c) (ref R).
Proof.
  intro H. apply cenc_ok_parts in H. destruct H as [H1 [H2 [Hh [Hv [Hpos [Ht1 Ht2]]]]]].
  rewrite ref_unfold. unfold frame. rewrite <- !app_assoc.
  destruct (header_line_ok (c_pad1 c) (c_hex c) (c_pad2 c) (c_t1 c) (c_data c ++ c_t2 c ++ R) H1 H2 Hh Ht1) as [HR HS].
  rewrite HR. cbv zeta. rewrite HS, Hh, Hv. replace (lenN (c_data c) =? 0) with false by lia.
  unfold ref_mid. cbv zeta. rewrite takeN_app_exact, dropN_app_exact.
  replace (lenN (c_data c) <? lenN (c_data c)) with false by lia.
  destruct (term_line_ok (c_t2 c) R Ht2) as [HR2 HT2]. rewrite HR2, HT2. reflexivity.
Qed.

Lemma fenc_ok_parts f : fenc_ok f = true ->
  pad_ok (f_pad1 f) = true /\ pad_ok (f_pad2 f) = true /\ hex_str (f_zeros f) = true /\
  hex_value (f_zeros f) = 0 /\ term_ok (f_t1 f) = true /\ term_ok (f_t2 f) = true.
Proof. unfold fenc_ok. intro H. repeat (apply andb_prop in H; destruct H as [H ?]). spl; auto; lia. Qed.

Lemma ref_final f tail : fenc_ok f = true -> ref (frame_final f ++ tail) = ([], true, tail).
Proof.
  intro H. apply fenc_ok_parts in H. destruct H as [H1 [H2 [Hh [Hv [Ht1 Ht2]]]]].
  rewrite ref_unfold. unfold frame_final. rewrite <- !app_assoc.
  destruct (header_line_ok (f_pad1 f) (f_zeros f) (f_pad2 f) (f_t1 f) (f_t2 f ++ tail) H1 H2 Hh Ht1) as [HR HS].
  rewrite HR. cbv zeta. rewrite HS, Hh, Hv. cbn [N.eqb].
  destruct (term_line_ok (f_t2 f) tail Ht2) as [HR2 HT2]. rewrite HR2, HT2. reflexivity.
Qed.

Lemma ref_wire cs f tail : forallb cenc_ok cs = true -> fenc_ok f = true ->
  ref (wire cs f tail) = (body cs, true, tail).
Proof.
  intros Hcs Hf. unfold wire, body. induction cs as [|c cs IH]; cbn [map concat app].
  - apply ref_final. exact Hf.
  - cbn [forallb] in Hcs. apply andb_prop in Hcs. destruct Hcs as [Hc Hcs].
    rewrite <- app_assoc, (ref_frame c _ Hc), (IH Hcs). reflexivity.
Qed.

(* ------------------------------------------------------------------ the property theorems *)
Lemma init_ref w : ref_state (dst_init w) = ref w.
Proof. reflexivity. Qed.

Lemma dechunk_exact cs f tail sizes : forallb cenc_ok cs = true -> fenc_ok f = true ->
  match dc_reads (dst_init (wire cs f tail)) sizes with
  | (outs, e, st) =>
    e = None /\ outs = chop sizes (body cs) /\
    (lenN (body cs) < sumN sizes -> d_done st = true /\ d_rest st = tail /\
                                    forall n, dc_read st n = Ok ([], st))
  end.
Proof.
  intros Hcs Hf. pose proof (reads_inv sizes (dst_init (wire cs f tail))) as H.
  pose proof (reads_sum sizes (dst_init (wire cs f tail))) as S.
  destruct (dc_reads (dst_init (wire cs f tail)) sizes) as [[outs e] st].
  rewrite init_ref, (ref_wire cs f tail Hcs Hf) in H. destruct H as [Hp [Hc He]].
  destruct e as [e|]; [destruct He as [_ He]; discriminate|].
  unfold Dof in Hc. cbn [fst] in Hc. rewrite He, firstn_all in Hc. spl; auto.
  intro Hlt. assert (Hdone : d_done st = true).
  { destruct S as [S|S]; [exact S|]. destruct Hp as [HD _]. unfold Dof at 1 in HD. cbn [fst] in HD.
    rewrite HD, lenN_app in Hlt. lia. }
  spl; auto.
  - destruct Hp as [_ [_ HT]]. rewrite (done_ref st Hdone) in HT. unfold Tof in HT. cbn [snd] in HT. auto.
  - intro n. apply read_done. exact Hdone.
Qed.

Lemma dechunk_safe w sizes :
  match dc_reads (dst_init w) sizes with
  | (outs, e, st) =>
    (exists rest, Dof (ref w) = concat outs ++ rest) /\
    outs = chop (firstn (length outs) sizes) (Dof (ref w)) /\
    match e with
    | None => length outs = length sizes
    | Some e => e = OSErrorE /\ Cof (ref w) = false
    end /\
    (d_done st = true -> Cof (ref w) = true /\ concat outs = Dof (ref w) /\ d_rest st = Tof (ref w))
  end.
Proof.
  pose proof (reads_inv sizes (dst_init w)) as H.
  destruct (dc_reads (dst_init w) sizes) as [[outs e] st]. rewrite init_ref in H.
  destruct H as [[HD [HC HT]] [Hc He]]. spl; auto.
  - eexists. exact HD.
  - intro Hdone. rewrite (done_ref st Hdone) in *. unfold Dof, Cof, Tof in *. cbn [fst snd] in *.
    rewrite app_nil_r in HD. auto.
Qed.

Lemma dechunk_malformed w sizes : Cof (ref w) = false -> lenN (Dof (ref w)) < sumN sizes ->
  match dc_reads (dst_init w) sizes with
  | (outs, e, st) => e = Some OSErrorE /\ exists rest, Dof (ref w) = concat outs ++ rest
  end.
Proof.
  intros Hc Hlt. pose proof (dechunk_safe w sizes) as H. pose proof (reads_sum sizes (dst_init w)) as S.
  destruct (dc_reads (dst_init w) sizes) as [[outs e] st]. destruct H as [Hpre [_ [He Hdone]]].
  split; [|exact Hpre]. destruct e as [e|]; [destruct He as [He _]; subst e; reflexivity|].
  exfalso. destruct S as [S|S].
  - destruct (Hdone S) as [Hc' _]. congruence.
  - destruct Hpre as [rest HD]. rewrite HD, lenN_app in Hlt. lia.
Qed.

(* ------------------------------------------------------------------ response framing *)
Definition hv (a0 : N) (s : str) : N := fold_left (fun acc c => acc * 16 + hex_val c) s a0.

Lemma hex_digit_val d : d < 16 -> hex_val (hex_digit d) = d /\ is_hex (hex_digit d) = true.
Proof.
  intro H. unfold hex_digit. destruct (d <? 10) eqn:E; unfold hex_val, is_hex, is_digit.
  - replace ((48 <=? 48 + d) && (48 + d <=? 57)) with true by lia. cbn [orb]. split; [lia|reflexivity].
  - replace ((48 <=? 87 + d) && (87 + d <=? 57)) with false by lia.
    replace ((65 <=? 87 + d) && (87 + d <=? 70)) with false by lia.
    replace ((97 <=? 87 + d) && (87 + d <=? 102)) with true by lia. cbn [orb]. split; [lia|reflexivity].
Qed.

Lemma hex_digits_spec : forall fuel n acc, n < 16 ^ N.of_nat fuel ->
  hv 0 (hex_digits fuel n acc) = hv n acc /\
  (forallb is_hex acc = true -> forallb is_hex (hex_digits fuel n acc) = true) /\
  (fuel <> O -> hex_digits fuel n acc <> []).
Proof.
  induction fuel as [|f IH]; intros n acc Hn.
  - cbn [N.of_nat N.pow] in Hn. assert (n = 0) by lia. subst n. cbn [hex_digits]. spl; auto; try congruence.
  - cbn [hex_digits]. assert (Hd : n mod 16 < 16) by (apply N.mod_lt; lia).
    destruct (hex_digit_val _ Hd) as [Hv Hh].
    assert (Hstep : hv (n / 16) (hex_digit (n mod 16) :: acc) = hv n acc).
    { unfold hv. cbn [fold_left]. rewrite Hv. f_equal. pose proof (N.div_mod n 16). lia. }
    destruct (n / 16 =? 0) eqn:Hz.
    + spl.
      * rewrite <- Hstep. replace (n / 16) with 0 by lia. reflexivity.
      * intro Ha. cbn [forallb]. rewrite Hh, Ha. reflexivity.
      * intros _. discriminate.
    + assert (Hlt : n / 16 < 16 ^ N.of_nat f).
      { apply N.div_lt_upper_bound; [lia|]. rewrite Nat2N.inj_succ, N.pow_succ_r in Hn by lia. exact Hn. }
      destruct (IH (n / 16) (hex_digit (n mod 16) :: acc) Hlt) as [I1 [I2 I3]]. spl.
      * rewrite I1. exact Hstep.
      * intro Ha. apply I2. cbn [forallb]. rewrite Hh, Ha. reflexivity.
      * intros _. destruct f as [|f'].
        -- cbn [N.of_nat N.pow] in Hlt. lia.
        -- apply I3. discriminate.
Qed.

Lemma hex_of_N_ok n : hex_str (hex_of_N n) = true /\ hex_value (hex_of_N n) = n.
Proof.
  unfold hex_of_N.
  assert (Hn : n < 16 ^ N.of_nat (S (N.to_nat (N.log2 n)))).
  { rewrite Nat2N.inj_succ, N2Nat.id. destruct (N.eq_dec n 0) as [->|Hnz]; [reflexivity|].
    assert (Hpos : 0 < n) by lia. pose proof (N.log2_spec n Hpos) as [_ H2].
    eapply N.lt_le_trans; [exact H2|]. apply N.pow_le_mono_l. lia. }
  destruct (hex_digits_spec _ n [] Hn) as [H1 [H2 H3]].
  split.
  - unfold hex_str. destruct (hex_digits (S (N.to_nat (N.log2 n))) n []) eqn:E.
    + exfalso. apply H3; [discriminate|reflexivity].
    + apply H2. reflexivity.
  - exact H1.
Qed.

Lemma seps_pinned : chunk_sep1 = CRLF /\ chunk_sep2 = CRLF /\ final_chunk = [48] ++ CRLF ++ CRLF.
Proof. repeat split. Qed.

Definition enc_piece (p : bytes) : cenc :=
  {| c_pad1 := []; c_hex := hex_of_N (lenN p); c_pad2 := []; c_t1 := CRLF; c_data := p; c_t2 := CRLF |}.
Definition fin_enc : fenc := {| f_pad1 := []; f_zeros := [48]; f_pad2 := []; f_t1 := CRLF; f_t2 := CRLF |}.
Definition nonempty (p : bytes) : bool := match p with [] => false | _ => true end.

Lemma body_is_wire pieces tail :
  response_body true pieces ++ tail = wire (map enc_piece (filter nonempty pieces)) fin_enc tail /\
  forallb cenc_ok (map enc_piece (filter nonempty pieces)) = true /\
  body (map enc_piece (filter nonempty pieces)) = concat pieces.
Proof.
  unfold response_body, wire, body. destruct seps_pinned as [S1 [S2 S3]].
  induction pieces as [|p ps IH]; cbn [map filter concat app forallb].
  - rewrite S3. spl; reflexivity.
  - destruct IH as [I1 [I2 I3]]. destruct p as [|x p]; cbn [nonempty chunk_frame map concat app forallb].
    + spl; auto.
    + spl.
      * transitivity ((hex_of_N (lenN (x :: p)) ++ CRLF ++ (x :: p) ++ CRLF)
                      ++ ((concat (map (chunk_frame true) ps) ++ final_chunk) ++ tail)).
        { rewrite S1, S2. repeat rewrite <- app_assoc. cbn [app]. repeat rewrite <- app_assoc. reflexivity. }
        rewrite <- (app_assoc (frame (enc_piece (x :: p)))).
        apply f_equal2; [|exact I1].
        unfold frame, enc_piece. cbn [c_pad1 c_hex c_pad2 c_t1 c_data c_t2 app]. reflexivity.
      * rewrite I2. unfold cenc_ok, enc_piece. cbn [c_pad1 c_hex c_pad2 c_t1 c_data c_t2 pad_ok forallb].
        destruct (hex_of_N_ok (lenN (x :: p))) as [H1 H2]. rewrite H1, H2, N.eqb_refl.
        replace (0 <? lenN (x :: p)) with true by (rewrite lenN_cons; lia). reflexivity.
      * unfold enc_piece at 1. cbn [c_data]. rewrite I3. reflexivity.
Qed.

Lemma body_unchunked pieces : response_body false pieces = concat pieces.
Proof.
  unfold response_body. rewrite app_nil_r.
  induction pieces as [|p ps IH]; cbn [map concat]; [reflexivity|]. rewrite IH.
  destruct p; reflexivity.
Qed.

Lemma response_framing proto method expect server date status headers pieces out :
  respond proto method expect server date status headers pieces = Some out ->
  exists code msg, split_status status = Some (code, msg) /\
    let chunked := uses_chunked proto method code headers in
    out = response_head proto expect server date code msg headers chunked ++ response_body chunked pieces /\
    (chunked = false -> response_body chunked pieces = concat pieces) /\
    (chunked = true -> forall tail, ref (response_body chunked pieces ++ tail) = (concat pieces, true, tail)).
Proof.
  unfold respond. destruct (split_status status) as [[code msg]|]; [|discriminate].
  intro H. inversion H; subst. exists code, msg. split; [reflexivity|]. cbv zeta. spl; auto.
  - intro Hc. rewrite Hc. apply body_unchunked.
  - intros Hc tail. rewrite Hc. destruct (body_is_wire pieces tail) as [H1 [H2 H3]].
    rewrite H1, ref_wire by (auto; reflexivity). rewrite H3. reflexivity.
Qed.

(* the decoder of the request side reads the response body back, under every read pattern *)
Lemma response_roundtrip pieces tail sizes :
  match dc_reads (dst_init (response_body true pieces ++ tail)) sizes with
  | (outs, e, st) => e = None /\ outs = chop sizes (concat pieces)
  end.
Proof.
  destruct (body_is_wire pieces tail) as [H1 [H2 H3]]. rewrite H1.
  pose proof (dechunk_exact _ fin_enc tail sizes H2 eq_refl) as H.
  destruct (dc_reads _ sizes) as [[outs e] st]. destruct H as [He [Ho _]]. rewrite H3 in Ho. auto.
Qed.

Definition CONTENT_LENGTH_LC : str := [99; 111; 110; 116; 101; 110; 116; 45; 108; 101; 110; 103; 116; 104].
Definition HEAD : str := [72; 69; 65; 68].
Definition HTTP11 : str := [72; 84; 84; 80; 47; 49; 46; 49].

Lemma chunked_decision proto method code headers :
  uses_chunked proto method code headers =
    negb (mem_str CONTENT_LENGTH_LC (lower_keys headers)) && negb (list_eqb method HEAD)
    && negb ((100 <=? code) && (code <? 200)) && negb ((code =? 204) || (code =? 304))
    && str_geb proto HTTP11.
Proof.
  unfold uses_chunked, chunk_condition_gen, CONTENT_LENGTH_LC, HEAD, HTTP11.
  destruct (mem_str _ (lower_keys headers)); destruct (list_eqb method _); destruct (str_geb proto _);
    cbn [negb andb orb]; try reflexivity; lia.
Qed.

(* ------------------------------------------------------------------ make_environ: the path *)
Lemma upper_hex_digit_val d : d < 16 -> hex_val (upper_hex_digit d) = d /\ is_hex (upper_hex_digit d) = true
                                       /\ printable (upper_hex_digit d) = true.
Proof.
  intro H. unfold upper_hex_digit. destruct (d <? 10) eqn:E; unfold hex_val, is_hex, is_digit, printable.
  - replace ((48 <=? 48 + d) && (48 + d <=? 57)) with true by lia. cbn [orb]. spl; [lia|reflexivity|lia].
  - replace ((48 <=? 55 + d) && (55 + d <=? 57)) with false by lia.
    replace ((65 <=? 55 + d) && (55 + d <=? 70)) with true by lia. cbn [orb]. spl; [lia|reflexivity|lia].
Qed.

Lemma pct_decode_enc keep b : forallb (fun c => c <? 256) b = true -> pct_decode (pct_enc keep b) = b.
Proof.
  induction b as [|c r IH]; cbn [forallb pct_enc]; intro H; [reflexivity|].
  apply andb_prop in H. destruct H as [Hc Hr].
  destruct (keep c && lit_ok c) eqn:K.
  - cbn [pct_decode]. apply andb_prop in K. destruct K as [_ K]. unfold lit_ok in K.
    replace (c =? PCT) with false by lia. rewrite IH by exact Hr. reflexivity.
  - cbn [pct_decode]. rewrite N.eqb_refl.
    assert (H1 : c / 16 < 16) by (apply N.div_lt_upper_bound; lia).
    assert (H2 : c mod 16 < 16) by (apply N.mod_lt; lia).
    destruct (upper_hex_digit_val _ H1) as [V1 [X1 _]]. destruct (upper_hex_digit_val _ H2) as [V2 [X2 _]].
    rewrite X1, X2, V1, V2. cbn [andb]. rewrite IH by exact Hr. f_equal.
    pose proof (N.div_mod c 16). lia.
Qed.

Lemma pct_enc_chars keep b : forallb (fun c => c <? 256) b = true ->
  forallb (fun c => printable c && negb (QMARK =? c) && negb (HASH =? c)) (pct_enc keep b) = true.
Proof.
  induction b as [|c r IH]; cbn [forallb pct_enc]; intro H; [reflexivity|].
  apply andb_prop in H. destruct H as [Hc Hr].
  destruct (keep c && lit_ok c) eqn:K; cbn [forallb]; rewrite IH by exact Hr.
  - apply andb_prop in K. destruct K as [_ K]. unfold lit_ok, printable, PCT, QMARK, HASH in *. rewrite andb_true_r. lia.
  - assert (H1 : c / 16 < 16) by (apply N.div_lt_upper_bound; lia).
    assert (H2 : c mod 16 < 16) by (apply N.mod_lt; lia).
    destruct (upper_hex_digit_val _ H1) as [_ [X1 P1]]. destruct (upper_hex_digit_val _ H2) as [_ [X2 P2]].
    rewrite P1, P2. rewrite !andb_true_r.
    assert (G : forall d, is_hex d = true -> negb (QMARK =? d) && negb (HASH =? d) = true).
    { intros d Hd. unfold is_hex, is_digit, QMARK, HASH in *. lia. }
    pose proof (G _ X1). pose proof (G _ X2). unfold printable, PCT, QMARK, HASH in *. lia.
Qed.

Lemma partition1_absent x s : forallb (fun c => negb (x =? c)) s = true -> partition1 x s = (s, None).
Proof.
  induction s as [|y s IH]; cbn [partition1 forallb]; intro H; [reflexivity|].
  apply andb_prop in H. destruct H as [Hy Hs]. destruct (x =? y); [discriminate|].
  rewrite IH by exact Hs. reflexivity.
Qed.

Definition qpart (q : option str) : str := match q with Some s => QMARK :: s | None => [] end.
Definition qtext (q : option str) : str := match q with Some s => s | None => [] end.
Definition query_ok (q : option str) : bool :=
  forallb (fun c => printable c && negb (HASH =? c)) (qtext q).

Lemma urlsplit_origin_form keep b q :
  forallb (fun c => c <? 256) b = true -> query_ok q = true ->
  match b with c :: _ => negb (c =? SLASH) | [] => true end = true ->
  urlsplit (SLASH :: pct_enc keep b ++ qpart q)
  = Some {| u_scheme := []; u_netloc := []; u_path := SLASH :: pct_enc keep b; u_query := qtext q; u_fragment := [] |}.
Proof.
  intros Hb Hq Hfirst. pose proof (pct_enc_chars keep b Hb) as HE. set (E := pct_enc keep b) in *.
  assert (HEp : forallb printable E = true).
  { eapply forallb_impl; [|exact HE]. intros c Hc. cbv beta in Hc.
    apply andb_prop in Hc. destruct Hc as [Hc _]. apply andb_prop in Hc. apply Hc. }
  assert (HEh : forallb (fun c => negb (HASH =? c)) E = true).
  { eapply forallb_impl; [|exact HE]. intros c Hc. cbv beta in Hc. apply andb_prop in Hc. apply Hc. }
  assert (HEq : forallb (fun c => negb (QMARK =? c)) E = true).
  { eapply forallb_impl; [|exact HE]. intros c Hc. cbv beta in Hc.
    apply andb_prop in Hc. destruct Hc as [Hc _]. apply andb_prop in Hc. apply Hc. }
  assert (Hqp : forallb printable (qtext q) = true).
  { unfold query_ok in Hq. eapply forallb_impl; [|exact Hq]. intros c Hc. cbv beta in Hc. apply andb_prop in Hc. apply Hc. }
  assert (Hqh : forallb (fun c => negb (HASH =? c)) (qtext q) = true).
  { unfold query_ok in Hq. eapply forallb_impl; [|exact Hq]. intros c Hc. cbv beta in Hc. apply andb_prop in Hc. apply Hc. }
  assert (Hprint : forallb printable (SLASH :: E ++ qpart q) = true).
  { cbn [forallb]. rewrite forallb_app, HEp. replace (printable SLASH) with true by reflexivity. cbn [andb].
    destruct q as [s|]; cbn [qpart qtext forallb] in *; [|reflexivity].
    replace (printable QMARK) with true by reflexivity. exact Hqp. }
  unfold urlsplit. rewrite Hprint. cbn [negb].
  (* no scheme: the text before a colon starts with a slash *)
  assert (Hscheme : (let '(scheme, url1) :=
            match partition1 COLON (SLASH :: E ++ qpart q) with
            | (before, Some after) =>
              match before with
              | c :: _ => if is_alpha c && forallb scheme_char before then (lower before, after)
                          else ([], SLASH :: E ++ qpart q)
              | [] => ([], SLASH :: E ++ qpart q)
              end
            | (_, None) => ([], SLASH :: E ++ qpart q)
            end in (scheme, url1)) = ([], SLASH :: E ++ qpart q)).
  { cbn [partition1]. replace (COLON =? SLASH) with false by reflexivity.
    destruct (partition1 COLON (E ++ qpart q)) as [a [bb|]]; reflexivity. }
  destruct (match partition1 COLON (SLASH :: E ++ qpart q) with
            | (before, Some after) => _ | (_, None) => _ end) as [scheme url1] eqn:Es.
  inversion Hscheme; subst scheme url1. clear Hscheme Es.
  (* no authority: the second character is not a slash *)
  assert (Hss : starts_with [SLASH; SLASH] (SLASH :: E ++ qpart q) = false).
  { cbn [starts_with]. rewrite N.eqb_refl. cbn [andb]. unfold E.
    destruct b as [|c r]; cbn [pct_enc app].
    - destruct q; cbn [qpart]; reflexivity.
    - destruct (keep c && lit_ok c); cbn [app]; [|reflexivity].
      replace (SLASH =? c) with false by lia. reflexivity. }
  rewrite Hss. cbn [mem existsb orb].
  (* no fragment; the query starts at the first question mark *)
  assert (Hnohash : forallb (fun c => negb (HASH =? c)) (SLASH :: E ++ qpart q) = true).
  { cbn [forallb]. rewrite forallb_app, HEh. replace (negb (HASH =? SLASH)) with true by reflexivity. cbn [andb].
    destruct q as [s|]; cbn [qpart qtext forallb] in *; [|reflexivity].
    replace (negb (HASH =? QMARK)) with true by reflexivity. exact Hqh. }
  rewrite (partition1_absent HASH _ Hnohash).
  assert (Hnoq : forallb (fun c => negb (QMARK =? c)) (SLASH :: E) = true).
  { cbn [forallb]. rewrite HEq. reflexivity. }
  destruct q as [s|]; cbn [qpart qtext].
  - change (SLASH :: E ++ QMARK :: s) with ((SLASH :: E) ++ QMARK :: s).
    rewrite (partition1_app_stop QMARK (SLASH :: E) s Hnoq). reflexivity.
  - rewrite app_nil_r. rewrite (partition1_absent QMARK _ Hnoq). reflexivity.
Qed.

Lemma printable_ascii s : forallb printable s = true -> forallb (fun c => c <? 128) s = true.
Proof. apply forallb_impl. intros c H. unfold printable in H. lia. Qed.

(* PATH_INFO is the percent-decoded path (decoded as UTF-8 with replacement and re-encoded, i.e.
   unchanged when it was valid UTF-8), QUERY_STRING the text after the first question mark *)
Lemma environ_path keep b q hs :
  forallb (fun c => c <? 256) b = true -> query_ok q = true ->
  match b with c :: _ => negb (c =? SLASH) | [] => true end = true ->
  exists e, make_environ (SLASH :: pct_enc keep b ++ qpart q) hs = Some e /\
            en_path_info e = wsgi_encoding_dance (utf8_decode_replace (SLASH :: b)) /\
            en_query_string e = qtext q.
Proof.
  intros Hb Hq Hf. unfold make_environ. rewrite (urlsplit_origin_form keep b q Hb Hq Hf).
  cbn [u_scheme u_netloc u_path u_query]. unfold path_info_gen. cbn [nonempty_str negb andb].
  eexists. split; [reflexivity|].
  cbn [en_path_info en_query_string]. split.
  - unfold unquote. cbn [pct_decode]. replace (SLASH =? PCT) with false by reflexivity.
    rewrite pct_decode_enc by exact Hb. reflexivity.
  - unfold wsgi_encoding_dance, latin1_decode. apply utf8_encode_ascii. apply printable_ascii.
    unfold query_ok in Hq. eapply forallb_impl; [|exact Hq]. intros c Hc. cbv beta in Hc. apply andb_prop in Hc. apply Hc.
Qed.

Lemma environ_path_utf8 keep s q hs :
  valid_text s = true -> query_ok q = true ->
  match s with c :: _ => negb (c =? SLASH) | [] => true end = true ->
  exists e, make_environ (SLASH :: pct_enc keep (utf8_encode s) ++ qpart q) hs = Some e /\
            en_path_info e = utf8_encode (SLASH :: s) /\ en_query_string e = qtext q.
Proof.
  intros Hv Hq Hf.
  assert (Hb : forallb (fun c => c <? 256) (utf8_encode s) = true).
  { apply forallb_forall. intros c Hc. pose proof (utf8_encode_bytes s c Hv Hc). lia. }
  assert (Hf' : match utf8_encode s with c :: _ => negb (c =? SLASH) | [] => true end = true).
  { destruct s as [|c r]; [reflexivity|]. unfold utf8_encode. cbn [flat_map].
    destruct (enc1 c) as [|x xs] eqn:E.
    - exfalso. unfold enc1 in E. repeat (destruct (_ <? _) in E; try discriminate).
    - cbn [app]. destruct (x =? SLASH) eqn:Ex; [|reflexivity]. exfalso.
      assert (Hin : In x (enc1 c)) by (rewrite E; left; reflexivity).
      assert (Hx : x < 128) by (unfold SLASH in Ex; lia).
      destruct (enc1_ascii c x Hin Hx) as [_ Hcx]. unfold SLASH in *. lia. }
  destruct (environ_path keep (utf8_encode s) q hs Hb Hq Hf') as [e [He [Hp Hqs]]].
  exists e. spl; auto. rewrite Hp.
  change (SLASH :: utf8_encode s) with (utf8_encode [SLASH] ++ utf8_encode s).
  rewrite <- utf8_encode_app. cbn [app].
  rewrite utf8_decode_replace_encode; [reflexivity|]. unfold valid_text in *. cbn [forallb]. rewrite Hv. reflexivity.
Qed.

(* ------------------------------------------------------------------ response head *)
Lemma fmt_header k v : fmt header_fmt [k; v] = header_line (k, v).
Proof. unfold header_line. cbn [fst snd]. reflexivity. Qed.

Lemma fmt_status proto code msg : fmt status_line_fmt [proto; code; msg] = proto ++ [SP] ++ code ++ [SP] ++ msg ++ CRLF.
Proof. reflexivity. Qed.

Lemma response_head_eq proto expect server date code msg headers chunked :
  response_head proto expect server date code msg headers chunked
  = response_head_spec proto expect server date code msg headers chunked.
Proof.
  unfold response_head, response_head_spec. f_equal.
  unfold head_plan. cbn [map concat emit_item default_headers]. rewrite fmt_status, !fmt_header.
  replace (default_value server date [83; 101; 114; 118; 101; 114]) with server by reflexivity.
  replace (default_value server date [68; 97; 116; 101]) with date by reflexivity.
  replace (map (fun kv : str * str => fmt header_fmt [fst kv; snd kv]) headers) with (map header_line headers).
  2:{ apply map_ext. intros [k v]. symmetry. apply fmt_header. }
  destruct chunked; rewrite ?fmt_header; unfold end_headers_bytes; repeat rewrite <- app_assoc; cbn [app];
    repeat rewrite <- app_assoc; reflexivity.
Qed.

(* ------------------------------------------------------------------ request headers *)
Lemma list_eqb_refl a : list_eqb a a = true.
Proof. induction a as [|x a IH]; cbn [list_eqb]; [reflexivity|]. rewrite N.eqb_refl, IH. reflexivity. Qed.

Lemma list_eqb_neq a b : a <> b -> list_eqb a b = false.
Proof. intro H. destruct (list_eqb a b) eqn:E; [|reflexivity]. apply list_eqb_eq in E. congruence. Qed.

Lemma env_get_set K K' v e : env_get K (env_set K' v e) = if list_eqb K K' then Some v else env_get K e.
Proof.
  induction e as [|[k' v'] r IH]; cbn [env_set env_get]; [reflexivity|].
  destruct (list_eqb K' k') eqn:E1; cbn [env_get].
  - apply list_eqb_eq in E1. subst k'. destruct (list_eqb K K'); reflexivity.
  - rewrite IH. destruct (list_eqb K k') eqn:E2; [|reflexivity].
    apply list_eqb_eq in E2. subst k'. destruct (list_eqb K K') eqn:E3; [|reflexivity].
    apply list_eqb_eq in E3. subst K'. rewrite list_eqb_refl in E1. discriminate.
Qed.

(* what one header does to the value stored under the environ key E *)
Definition upd (E : str) (cur : option str) (kv : str * str) : option str :=
  if hidden (fst kv) then cur
  else if list_eqb (env_key (fst kv)) E
       then if exempt (norm_name (fst kv)) then Some (clean_value (snd kv)) else join_step cur (clean_value (snd kv))
       else cur.

Lemma step_get E k v env : env_get E (env_header_step_gen k v env) = upd E (env_get E env) (k, v).
Proof.
  unfold env_header_step_gen, upd, hidden, env_key, exempt, norm_name, clean_value, CONTENT_TYPE, CONTENT_LENGTH, HTTP_.
  cbn [fst snd]. destruct (str_contains [95] k); [reflexivity|]. cbv zeta.
  set (K := str_replace (str_upper k) [45] [95]). set (V := str_replace v [13; 10] []).
  destruct (mem_str K _) eqn:Hex; cbn [negb].
  - rewrite env_get_set. destruct (list_eqb E K) eqn:E1.
    + apply list_eqb_eq in E1. subst E. rewrite list_eqb_refl. reflexivity.
    + rewrite list_eqb_neq; [reflexivity|]. intro H. subst E. rewrite list_eqb_refl in E1. discriminate.
  - destruct (list_eqb ([72; 84; 84; 80; 95] ++ K) E) eqn:E1.
    + apply list_eqb_eq in E1. subst E. destruct (env_get ([72; 84; 84; 80; 95] ++ K) env) as [cur|];
        rewrite env_get_set, list_eqb_refl; reflexivity.
    + assert (E2 : list_eqb E ([72; 84; 84; 80; 95] ++ K) = false).
      { apply list_eqb_neq. intro H. subst E. rewrite list_eqb_refl in E1. discriminate. }
      destruct (env_get ([72; 84; 84; 80; 95] ++ K) env) as [cur|]; rewrite env_get_set, E2; reflexivity.
Qed.

Lemma headers_get E : forall hs env, env_get E (env_headers hs env) = fold_left (upd E) hs (env_get E env).
Proof.
  induction hs as [|[k v] r IH]; intro env; cbn [env_headers fold_left]; [reflexivity|].
  rewrite IH, step_get. reflexivity.
Qed.

Lemma exempt_not_http X K : exempt X = true -> list_eqb X (HTTP_ ++ K) = false.
Proof.
  unfold exempt, mem_str, mem_bytes. cbn [existsb]. intro H.
  apply orb_prop in H. destruct H as [H|H]; [|apply orb_prop in H; destruct H as [H|H]; [|discriminate]];
    apply list_eqb_eq in H; subst X; reflexivity.
Qed.

Lemma fold_join K : forall hs cur, 
  fold_left (upd (HTTP_ ++ K)) hs cur = fold_left join_step (sent_values (HTTP_ ++ K) hs) cur.
Proof.
  induction hs as [|[k v] r IH]; intro cur; [reflexivity|].
  cbn [fold_left]. rewrite IH. unfold sent_values. cbn [filter fst snd]. unfold upd. cbn [fst snd].
  destruct (hidden k); cbn [negb andb]; [reflexivity|].
  destruct (list_eqb (env_key k) (HTTP_ ++ K)) eqn:E1; [|reflexivity].
  cbn [map fold_left fst snd]. destruct (exempt (norm_name k)) eqn:Hx; [|reflexivity].
  exfalso. unfold env_key in E1. cbv zeta in E1. rewrite Hx in E1. rewrite (exempt_not_http _ K Hx) in E1. discriminate.
Qed.

Lemma fold_last E : exempt E = true -> forall hs cur,
  fold_left (upd E) hs cur = fold_left (fun _ v => Some v) (sent_values E hs) cur.
Proof.
  intros HE. induction hs as [|[k v] r IH]; intro cur; [reflexivity|].
  cbn [fold_left]. rewrite IH. unfold sent_values. cbn [filter fst snd]. unfold upd. cbn [fst snd].
  destruct (hidden k); cbn [negb andb]; [reflexivity|].
  destruct (list_eqb (env_key k) E) eqn:E1; [|reflexivity].
  cbn [map fold_left fst snd]. destruct (exempt (norm_name k)) eqn:Hx; [reflexivity|].
  exfalso. unfold env_key in E1. cbv zeta in E1. rewrite Hx in E1. apply list_eqb_eq in E1. subst E.
  pose proof (exempt_not_http _ (norm_name k) HE) as H. rewrite list_eqb_refl in H. discriminate.
Qed.

Lemma environ_headers hs :
  (forall K, env_get (HTTP_ ++ K) (env_headers hs []) = join_comma (sent_values (HTTP_ ++ K) hs)) /\
  (forall E, exempt E = true -> env_get E (env_headers hs []) = last_value (sent_values E hs)).
Proof.
  split.
  - intro K. rewrite headers_get. cbn [env_get]. apply fold_join.
  - intros E HE. rewrite headers_get. cbn [env_get]. apply fold_last. exact HE.
Qed.

(* ------------------------------------------------------------------ make_environ: targets with an authority *)
Definition scheme_ok (s : str) : bool := match s with c :: _ => is_alpha c && forallb scheme_char s | [] => false end.
Definition netloc_char (c : N) : bool :=
  printable c && negb (c =? SLASH) && negb (c =? QMARK) && negb (c =? HASH) && negb (c =? LBRACK) && negb (c =? RBRACK)
  && negb (c =? PCT).
Definition netloc_ok (a : str) : bool := nonempty_str a && forallb netloc_char a.

Lemma pct_enc_split keep b q : forallb (fun c => c <? 256) b = true -> query_ok q = true ->
  let E := pct_enc keep b in
  forallb printable (SLASH :: E ++ qpart q) = true /\
  partition1 HASH (SLASH :: E ++ qpart q) = (SLASH :: E ++ qpart q, None) /\
  partition1 QMARK (SLASH :: E ++ qpart q) = (SLASH :: E, match q with Some s => Some s | None => None end).
Proof.
  intros Hb Hq E. pose proof (pct_enc_chars keep b Hb) as HE. fold E in HE.
  assert (HEp : forallb printable E = true).
  { eapply forallb_impl; [|exact HE]. intros c Hc. cbv beta in Hc.
    apply andb_prop in Hc. destruct Hc as [Hc _]. apply andb_prop in Hc. apply Hc. }
  assert (HEh : forallb (fun c => negb (HASH =? c)) E = true).
  { eapply forallb_impl; [|exact HE]. intros c Hc. cbv beta in Hc. apply andb_prop in Hc. apply Hc. }
  assert (HEq : forallb (fun c => negb (QMARK =? c)) E = true).
  { eapply forallb_impl; [|exact HE]. intros c Hc. cbv beta in Hc.
    apply andb_prop in Hc. destruct Hc as [Hc _]. apply andb_prop in Hc. apply Hc. }
  assert (Hqp : forallb printable (qtext q) = true).
  { unfold query_ok in Hq. eapply forallb_impl; [|exact Hq]. intros c Hc. cbv beta in Hc. apply andb_prop in Hc. apply Hc. }
  assert (Hqh : forallb (fun c => negb (HASH =? c)) (qtext q) = true).
  { unfold query_ok in Hq. eapply forallb_impl; [|exact Hq]. intros c Hc. cbv beta in Hc. apply andb_prop in Hc. apply Hc. }
  assert (Hnoq : forallb (fun c => negb (QMARK =? c)) (SLASH :: E) = true).
  { cbn [forallb]. rewrite HEq. reflexivity. }
  spl.
  - cbn [forallb]. rewrite forallb_app, HEp. replace (printable SLASH) with true by reflexivity. cbn [andb].
    destruct q as [s|]; cbn [qpart qtext forallb] in *; [|reflexivity].
    replace (printable QMARK) with true by reflexivity. exact Hqp.
  - apply partition1_absent. cbn [forallb]. rewrite forallb_app, HEh.
    replace (negb (HASH =? SLASH)) with true by reflexivity. cbn [andb].
    destruct q as [s|]; cbn [qpart qtext forallb] in *; [|reflexivity].
    replace (negb (HASH =? QMARK)) with true by reflexivity. exact Hqh.
  - destruct q as [s|]; cbn [qpart].
    + change (SLASH :: E ++ QMARK :: s) with ((SLASH :: E) ++ QMARK :: s).
      apply (partition1_app_stop QMARK (SLASH :: E) s Hnoq).
    + rewrite app_nil_r. apply (partition1_absent QMARK _ Hnoq).
Qed.

Lemma netloc_facts a : netloc_ok a = true ->
  a <> [] /\ forallb printable a = true /\
  forallb (fun c => negb ((c =? SLASH) || (c =? QMARK) || (c =? HASH))) a = true /\
  mem LBRACK a = false /\ mem RBRACK a = false /\ forallb (fun c => negb (c =? PCT)) a = true.
Proof.
  unfold netloc_ok. intro H. apply andb_prop in H. destruct H as [Hne H].
  assert (G : forall (P : N -> bool), (forall c, netloc_char c = true -> P c = true) -> forallb P a = true).
  { intros P HP. eapply forallb_impl; [|exact H]. exact HP. }
  spl.
  - destruct a; [discriminate|discriminate].
  - apply G. intros c Hc. unfold netloc_char, printable in *. lia.
  - apply G. intros c Hc. unfold netloc_char, printable, SLASH, QMARK, HASH, LBRACK, RBRACK, PCT in *. lia.
  - apply mem_false_forall. apply G. intros c Hc. unfold netloc_char, printable, SLASH, QMARK, HASH, LBRACK, RBRACK, PCT in *. lia.
  - apply mem_false_forall. apply G. intros c Hc. unfold netloc_char, printable, SLASH, QMARK, HASH, LBRACK, RBRACK, PCT in *. lia.
  - apply G. intros c Hc. unfold netloc_char, printable, SLASH, QMARK, HASH, LBRACK, RBRACK, PCT in *. lia.
Qed.

(* the part of urlsplit after the scheme has been taken off, on //authority/path?query *)
Lemma authority_split keep b q a : forallb (fun c => c <? 256) b = true -> query_ok q = true -> netloc_ok a = true ->
  let url1 := [SLASH; SLASH] ++ a ++ SLASH :: pct_enc keep b ++ qpart q in
  starts_with [SLASH; SLASH] url1 = true /\
  take_while (fun c => negb ((c =? SLASH) || (c =? QMARK) || (c =? HASH))) (skipn 2 url1) = a /\
  drop_while (fun c => negb ((c =? SLASH) || (c =? QMARK) || (c =? HASH))) (skipn 2 url1) = SLASH :: pct_enc keep b ++ qpart q.
Proof.
  intros Hb Hq Ha url1. destruct (netloc_facts a Ha) as [_ [_ [Hstop _]]]. unfold url1. cbn [app starts_with skipn].
  rewrite !N.eqb_refl. cbn [andb]. spl; [reflexivity| |].
  - apply take_while_app_stop; [exact Hstop|]. rewrite N.eqb_refl. reflexivity.
  - apply drop_while_app_stop; [exact Hstop|]. rewrite N.eqb_refl. reflexivity.
Qed.

Lemma scheme_facts sch : scheme_ok sch = true ->
  forallb printable sch = true /\ forallb (fun c => negb (COLON =? c)) sch = true /\ nonempty_str (lower sch) = true.
Proof.
  unfold scheme_ok. destruct sch as [|c r]; [discriminate|]. intro H. apply andb_prop in H. destruct H as [_ H].
  spl.
  - eapply forallb_impl; [|exact H]. intros x Hx. unfold scheme_char, is_alpha, is_upper, is_lower, is_digit, printable in *. lia.
  - eapply forallb_impl; [|exact H]. intros x Hx. unfold scheme_char, is_alpha, is_upper, is_lower, is_digit, COLON in *. lia.
  - reflexivity.
Qed.

Lemma urlsplit_absolute keep b q a sch :
  forallb (fun c => c <? 256) b = true -> query_ok q = true -> netloc_ok a = true -> scheme_ok sch = true ->
  urlsplit (sch ++ COLON :: [SLASH; SLASH] ++ a ++ SLASH :: pct_enc keep b ++ qpart q)
  = Some {| u_scheme := lower sch; u_netloc := a; u_path := SLASH :: pct_enc keep b; u_query := qtext q; u_fragment := [] |}.
Proof.
  intros Hb Hq Ha Hs. destruct (pct_enc_split keep b q Hb Hq) as [Hp [Hh Hqm]].
  destruct (netloc_facts a Ha) as [_ [Hap [_ [Hlb [Hrb _]]]]].
  destruct (scheme_facts sch Hs) as [Hsp [Hsc _]].
  destruct (authority_split keep b q a Hb Hq Ha) as [Hss [Htw Hdw]].
  set (E := pct_enc keep b) in *. set (url1 := [SLASH; SLASH] ++ a ++ SLASH :: E ++ qpart q) in *.
  unfold urlsplit.
  assert (Hall : forallb printable (sch ++ COLON :: url1) = true).
  { rewrite forallb_app, Hsp. cbn [forallb andb]. replace (printable COLON) with true by reflexivity.
    unfold url1. cbn [app forallb]. replace (printable SLASH) with true by reflexivity. cbn [andb].
    rewrite forallb_app, Hap. exact Hp. }
  rewrite Hall. cbn [negb]. rewrite (partition1_app_stop COLON sch url1 Hsc).
  unfold scheme_ok in Hs. destruct sch as [|c r]; [discriminate|]. rewrite Hs.
  rewrite Hss, Htw, Hdw, Hlb, Hrb. cbn [orb]. rewrite Hh, Hqm.
  destruct q; reflexivity.
Qed.

Lemma urlsplit_double_slash keep b q a :
  forallb (fun c => c <? 256) b = true -> query_ok q = true -> netloc_ok a = true ->
  urlsplit ([SLASH; SLASH] ++ a ++ SLASH :: pct_enc keep b ++ qpart q)
  = Some {| u_scheme := []; u_netloc := a; u_path := SLASH :: pct_enc keep b; u_query := qtext q; u_fragment := [] |}.
Proof.
  intros Hb Hq Ha. destruct (pct_enc_split keep b q Hb Hq) as [Hp [Hh Hqm]].
  destruct (netloc_facts a Ha) as [_ [Hap [_ [Hlb [Hrb _]]]]].
  destruct (authority_split keep b q a Hb Hq Ha) as [Hss [Htw Hdw]].
  set (E := pct_enc keep b) in *. set (url1 := [SLASH; SLASH] ++ a ++ SLASH :: E ++ qpart q) in *.
  unfold urlsplit.
  assert (Hall : forallb printable url1 = true).
  { unfold url1. cbn [app forallb]. replace (printable SLASH) with true by reflexivity. cbn [andb].
    rewrite forallb_app, Hap. exact Hp. }
  rewrite Hall. cbn [negb]. unfold url1 in *. clear url1. cbn [app] in *.
  cbn [partition1]. replace (COLON =? SLASH) with false by reflexivity.
  destruct (partition1 COLON (a ++ SLASH :: E ++ qpart q)) as [a0 [bb|]];
    cbn [is_alpha is_upper is_lower andb]; replace (is_alpha SLASH) with false by reflexivity; cbn [andb];
    rewrite Hss, Htw, Hdw, Hlb, Hrb; cbn [orb]; rewrite Hh, Hqm; destruct q; reflexivity.
Qed.

Lemma pct_decode_lit a r : forallb (fun c => negb (c =? PCT)) a = true -> pct_decode (a ++ r) = a ++ pct_decode r.
Proof.
  induction a as [|c a IH]; cbn [app forallb]; intro H; [reflexivity|].
  apply andb_prop in H. destruct H as [Hc Ha]. cbn [pct_decode].
  destruct (c =? PCT); [discriminate|]. rewrite IH by exact Ha. reflexivity.
Qed.

Lemma query_dance q : query_ok q = true -> wsgi_encoding_dance (qtext q) = qtext q.
Proof.
  intro Hq. unfold wsgi_encoding_dance, latin1_decode. apply utf8_encode_ascii. apply printable_ascii.
  unfold query_ok in Hq. eapply forallb_impl; [|exact Hq]. intros c Hc. cbv beta in Hc. apply andb_prop in Hc. apply Hc.
Qed.

(* absolute-form target scheme://netloc/path?query: PATH_INFO / QUERY_STRING are those of the path
   part and HTTP_HOST is the netloc, whatever Host header was sent *)
Lemma environ_absolute keep b q a sch hs :
  forallb (fun c => c <? 256) b = true -> query_ok q = true -> netloc_ok a = true -> scheme_ok sch = true ->
  exists e, make_environ (sch ++ COLON :: [SLASH; SLASH] ++ a ++ SLASH :: pct_enc keep b ++ qpart q) hs = Some e /\
            en_path_info e = wsgi_encoding_dance (utf8_decode_replace (SLASH :: b)) /\
            en_query_string e = qtext q /\
            env_get HTTP_HOST (en_headers e) = Some a.
Proof.
  intros Hb Hq Ha Hs. unfold make_environ. rewrite (urlsplit_absolute keep b q a sch Hb Hq Ha Hs).
  cbn [u_scheme u_netloc u_path u_query]. destruct (scheme_facts sch Hs) as [_ [_ Hne]].
  destruct (netloc_facts a Ha) as [Hane _].
  unfold path_info_gen, host_override_gen. rewrite Hne.
  replace (nonempty_str a) with true by (destruct a; [congruence|reflexivity]). cbn [negb andb].
  eexists. split; [reflexivity|]. cbn [en_path_info en_query_string en_headers]. spl.
  - unfold unquote. cbn [pct_decode]. replace (SLASH =? PCT) with false by reflexivity.
    rewrite pct_decode_enc by exact Hb. reflexivity.
  - apply query_dance. exact Hq.
  - rewrite env_get_set. unfold HTTP_HOST, HTTP_. cbn [app]. rewrite list_eqb_refl. reflexivity.
Qed.

(* the repair for a target starting with two slashes (urlsplit takes the first segment for an
   authority): the segment is put back in front of the path *)
Lemma environ_double_slash keep b q a hs :
  forallb (fun c => c <? 256) b = true -> query_ok q = true -> netloc_ok a = true ->
  exists e, make_environ ([SLASH; SLASH] ++ a ++ SLASH :: pct_enc keep b ++ qpart q) hs = Some e /\
            en_path_info e = wsgi_encoding_dance (utf8_decode_replace (SLASH :: a ++ SLASH :: b)) /\
            en_query_string e = qtext q /\
            en_headers e = env_headers hs [].
Proof.
  intros Hb Hq Ha. unfold make_environ. rewrite (urlsplit_double_slash keep b q a Hb Hq Ha).
  cbn [u_scheme u_netloc u_path u_query]. destruct (netloc_facts a Ha) as [Hane [_ [_ [_ [_ Hpct]]]]].
  unfold path_info_gen, host_override_gen.
  replace (nonempty_str a) with true by (destruct a; [congruence|reflexivity]). cbn [nonempty_str negb andb].
  eexists. split; [reflexivity|]. cbn [en_path_info en_query_string en_headers]. spl.
  - unfold unquote. cbn [app pct_decode]. replace (SLASH =? PCT) with false by reflexivity.
    rewrite pct_decode_lit by exact Hpct. cbn [pct_decode]. replace (SLASH =? PCT) with false by reflexivity.
    rewrite pct_decode_enc by exact Hb. reflexivity.
  - apply query_dance. exact Hq.
  - reflexivity.
Qed.
