From Coq Require Import ZArith Lia ZifyBool ZifyN.
From Wz Require Import lib.Bytes lib.BytesFacts C09.BaseFacts C19.Base C19.Gen C19.Model.
Open Scope N_scope.
