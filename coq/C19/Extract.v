From Coq Require Extraction ExtrOcamlBasic.
From Wz Require Import lib.Bytes lib.ExtractBase C19.Base C19.Gen C19.Model C19.Limited C19.App.
Extraction Language OCaml.
Extraction "C19/model_extracted.ml" force_types dst_init dc_run respond make_environ lim_run lim_init run_app.
