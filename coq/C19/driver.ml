let err_s = function OSErrorE -> "OS" | FuelE -> "FUEL"
let dop_of s = match String.split_on_char ':' s with
  | ["r"; n] -> DRead (n_of_int (int_of_string n))
  | ["a"] -> DReadAll
  | ["l"] -> DReadLine
  | _ -> failwith "bad op"
let hx s = if s = "-" then [] else nlist_of_hex s
let pairs s = if s = "-" then [] else
  List.map (fun kv -> match String.split_on_char ':' kv with
    | [k; v] -> (hx k, hx v) | _ -> failwith "bad pair") (String.split_on_char ',' s)
let () = iter_lines (fun line ->
  match fields line with
  | ["dc"; wire; ops] ->
      let (l, e) = dc_run (dst_init (hx wire)) (List.map dop_of (String.split_on_char ';' ops)) in
      String.concat "|" (List.map (fun (d, left) -> hex_of_nlist d ^ "@" ^ string_of_int (int_of_n left)) l
                         @ (match e with Some e -> ["!" ^ err_s e] | None -> []))
  | ["resp"; proto; meth; expect; status; headers; pieces] ->
      let ex = if expect = "~" then None else Some (hx expect) in
      let ps = if pieces = "~" then [] else List.map hx (String.split_on_char ',' pieces) in
      (match respond (hx proto) (hx meth) ex (hx "53") (hx "44") (hx status) (pairs headers) ps with
       | Some b -> hex_of_nlist b | None -> "unsupported")
  | ["env"; target; headers] ->
      (match make_environ (hx target) (pairs headers) with
       | None -> "unsupported"
       | Some e -> Printf.sprintf "path=%s query=%s uri=%s chunked=%d hdrs=%s"
           (hex_of_nlist e.en_path_info) (hex_of_nlist e.en_query_string) (hex_of_nlist e.en_request_uri)
           (if e.en_chunked then 1 else 0)
           (if e.en_headers = [] then "-" else
            String.concat "," (List.map (fun (k, v) -> hex_of_nlist k ^ ":" ^ hex_of_nlist v) e.en_headers)))
  | ["ldc"; wire; mx; ops] ->
      let lop_of t = match String.split_on_char ':' t with
        | ["r"; n] -> LRead (n_of_int (int_of_string n)) | ["a"] -> LReadAll | _ -> failwith "bad op" in
      let (l, e) = lim_run (lim_init (n_of_int (int_of_string mx))) (dst_init (hx wire))
                     (List.map lop_of (String.split_on_char ';' ops)) in
      String.concat "|" (List.map hex_of_nlist l
        @ (match e with
           | Some ClientDisconnected -> ["!CD"] | Some RequestEntityTooLarge -> ["!413"]
           | Some OutOfFuel -> ["!FUEL"] | Some _ -> ["!OTHER"] | None -> []))
  | ["app"; proto; meth; expect; acts] ->
      let ex = if expect = "~" then None else Some (hx expect) in
      let act_of t = match String.split_on_char '/' t with
        | ["s"; st; hs; exc] -> ASR (hx st, pairs hs, exc = "1")
        | ["w"; d] -> AWrite (hx d) | ["y"; d] -> AYield (hx d) | _ -> failwith "bad act" in
      let al = if acts = "~" then [] else List.map act_of (String.split_on_char '+' acts) in
      let (out, e) = run_app (hx proto) (hx meth) ex (hx "53") (hx "44") al in
      hex_of_nlist out ^ (match e with None -> "" | Some EWriteBeforeStart -> "!write-before-start"
                                      | Some EHeadersAlreadySet -> "!headers-already-set" | Some EReraised -> "!reraised"
                                      | Some EBadStatus -> "!bad-status")
  | _ -> "bad-command")
