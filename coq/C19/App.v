(* C19: run_wsgi as a state machine over what an application does: calls of start_response
   (with or without exc_info), calls of the write() callable, items it yields.  State: status_set /
   headers_set, status_sent / headers_sent, chunk_response and the bytes written to the socket.
   The decisions (start_response, the assertions and the first-call test of write(), the flush and
   terminator tests of execute()) are the generated definitions of C19/Gen.v.  Definitions only. *)
From Wz Require Import C19.Base C19.Gen C19.Model.
Open Scope N_scope.

Inductive act :=
  | ASR (status : str) (headers : list (str * str)) (exc_info : bool)   (* start_response(status, headers[, exc_info]) *)
  | AWrite (d : bytes)                                                   (* write(d) through the returned callable *)
  | AYield (d : bytes).                                                  (* an item of the returned iterable *)

Inductive werr :=
  | EWriteBeforeStart     (* AssertionError: write() before start_response *)
  | EHeadersAlreadySet    (* AssertionError: Headers already set *)
  | EReraised             (* the application's own exception, re-raised by start_response *)
  | EBadStatus.           (* a status string outside <digits>[ <reason>] (ValueError from int()) *)

Record wst := { w_status_set : option str; w_headers_set : option (list (str * str));
                w_status_sent : bool; w_headers_sent : option (list (str * str));
                w_chunked : bool; w_out : bytes }.

Definition truthy_list {A} (o : option (list A)) : bool := match o with Some (_ :: _) => true | _ => false end.

(* write(data) *)
Definition do_write (proto method server date : str) (st : wst) (data : bytes) : wst + werr :=
  if negb (write_allowed_gen (is_some (w_status_set st)) (is_some (w_headers_set st))) then inr EWriteBeforeStart
  else
    let first :=
      if write_first_gen (w_status_sent st) then
        match w_status_set st, w_headers_set st with
        | Some status, Some headers =>
          match split_status status with
          | None => inr EBadStatus
          | Some (code, msg) =>
            let chunked := uses_chunked proto method code headers in
            inl {| w_status_set := w_status_set st; w_headers_set := w_headers_set st;
                   w_status_sent := true; w_headers_sent := Some headers; w_chunked := chunked;
                   w_out := w_out st ++ response_head proto None server date code msg headers chunked |}
          end
        | _, _ => inr EWriteBeforeStart
        end
      else inl st in
    match first with
    | inr e => inr e
    | inl st1 =>
      inl {| w_status_set := w_status_set st1; w_headers_set := w_headers_set st1;
             w_status_sent := w_status_sent st1; w_headers_sent := w_headers_sent st1; w_chunked := w_chunked st1;
             w_out := w_out st1 ++ chunk_frame (w_chunked st1) data |}
    end.

Definition do_act (proto method server date : str) (st : wst) (a : act) : wst + werr :=
  match a with
  | ASR status headers exc =>
    match start_response_gen exc (truthy_list (w_headers_sent st)) (truthy_list (w_headers_set st)) with
    | SRAccept => inl {| w_status_set := Some status; w_headers_set := Some headers;
                         w_status_sent := w_status_sent st; w_headers_sent := w_headers_sent st;
                         w_chunked := w_chunked st; w_out := w_out st |}
    | SRReraise => inr EReraised
    | SRAssert => inr EHeadersAlreadySet
    end
  | AWrite d => do_write proto method server date st d
  | AYield d => do_write proto method server date st d
  end.

Fixpoint do_acts (proto method server date : str) (st : wst) (acts : list act) : wst * option werr :=
  match acts with
  | [] => (st, None)
  | a :: r => match do_act proto method server date st a with
              | inl st' => do_acts proto method server date st' r
              | inr e => (st, Some e)
              end
  end.

Definition app_init (expect : option str) : wst :=
  {| w_status_set := None; w_headers_set := None; w_status_sent := false; w_headers_sent := None; w_chunked := false;
     w_out := match expect with
              | Some v => if list_eqb (strip uni_ws (lower v)) expect_value then continue_bytes else []
              | None => [] end |}.

(* execute(app) up to the first exception: the bytes that reached the socket and the exception, if any *)
Definition run_app (proto method : str) (expect : option str) (server date : str) (acts : list act) : bytes * option werr :=
  match do_acts proto method server date (app_init expect) acts with
  | (st, Some e) => (w_out st, Some e)
  | (st, None) =>
    match (if exec_flush_gen (truthy_list (w_headers_sent st)) then do_write proto method server date st [] else inl st) with
    | inr e => (w_out st, Some e)
    | inl st' => (w_out st' ++ (if exec_final_gen (w_chunked st') then final_chunk else []), None)
    end
  end.

Definition piece_of (d : bytes) : act := AYield d.
