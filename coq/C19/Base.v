(* C19: types and primitive atoms the generated definitions of Gen.v are written over.
   Definitions only. *)
From Wz Require Export lib.Bytes lib.Utf8 C09.Base.
Open Scope N_scope.

Inductive err := OSErrorE | FuelE.
Inductive rs (A : Type) := Ok (a : A) | Err (e : err).
Arguments Ok {A} a.
Arguments Err {A} e.

Definition CR : N := 13.
Definition LF : N := 10.
Definition SP : N := 32.
Definition CRLF : bytes := [CR; LF].

(* rfile.readline(): up to and including the first LF, or everything left *)
Definition rf_readline (rest : bytes) : bytes * bytes :=
  match partition1 LF rest with
  | (a, Some b) => (a ++ [LF], b)
  | (a, None) => (a, [])
  end.

(* re.compile(r"[0-9A-Fa-f]+", re.ASCII).fullmatch(s) is not None *)
Definition hex_str (s : str) : bool := match s with [] => false | _ => forallb is_hex s end.
(* int(s, 16) for s matching [0-9A-Fa-f]+ *)
Definition hex_value (s : str) : N := fold_left (fun acc c => acc * 16 + hex_val c) s 0.

Definition mem_bytes (x : bytes) (l : list bytes) : bool := existsb (list_eqb x) l.
Definition mem_str := mem_bytes.

(* Python string comparison a >= b (code point lexicographic) *)
Fixpoint str_geb (a b : str) : bool :=
  match a, b with
  | _, [] => true
  | [], _ :: _ => false
  | x :: a', y :: b' => if x =? y then str_geb a' b' else y <? x
  end.

(* decimal text of a non-negative integer ("%d") *)
Fixpoint dec_digits (fuel : nat) (n : N) (acc : str) : str :=
  match fuel with
  | O => acc
  | S f => let acc' := (48 + n mod 10) :: acc in
           if n / 10 =? 0 then acc' else dec_digits f (n / 10) acc'
  end.
Definition dec_of_N (n : N) : str := dec_digits (S (N.to_nat (N.log2 n))) n [].

(* hex(n)[2:] : lower-case hexadecimal text *)
Definition hex_digit (d : N) : N := if d <? 10 then 48 + d else 87 + d.
Fixpoint hex_digits (fuel : nat) (n : N) (acc : str) : str :=
  match fuel with
  | O => acc
  | S f => let acc' := hex_digit (n mod 16) :: acc in
           if n / 16 =? 0 then acc' else hex_digits f (n / 16) acc'
  end.
Definition hex_of_N (n : N) : str := hex_digits (S (N.to_nat (N.log2 n))) n [].

(* ------------------------------------------------------------------ atoms of the generated make_environ / writer definitions *)
(* sub in s *)
Fixpoint str_contains (sub s : str) : bool :=
  starts_with sub s || match s with [] => false | _ :: r => str_contains sub r end.

(* s.replace(a, b) for a non-empty a: leftmost, non-overlapping *)
Fixpoint replace_go (a b : str) (skip : nat) (s : str) : str :=
  match s with
  | [] => []
  | c :: r =>
    match skip with
    | S k => replace_go a b k r
    | O => if starts_with a s then b ++ replace_go a b (length a - 1) r else c :: replace_go a b 0 r
    end
  end.
Definition str_replace (s a b : str) : str := replace_go a b 0 s.
Definition str_upper (s : str) : str := map ascii_upper s.     (* ASCII header names *)
Definition str_lower (s : str) : str := map ascii_lower s.
Definition str_strip (s : str) : str := strip uni_ws s.
Definition nonempty_str (s : str) : bool := match s with [] => false | _ => true end.

(* the environ dict restricted to its str -> str entries, in insertion order *)
Fixpoint env_get (k : str) (env : list (str * str)) : option str :=
  match env with [] => None | (k', v) :: r => if list_eqb k k' then Some v else env_get k r end.
Fixpoint env_set (k v : str) (env : list (str * str)) : list (str * str) :=
  match env with
  | [] => [(k, v)]
  | (k', v') :: r => if list_eqb k k' then (k, v) :: r else (k', v') :: env_set k v r
  end.
Definition env_get_d (k d : str) (env : list (str * str)) : str :=
  match env_get k env with Some v => v | None => d end.

(* "%s ... %d ..." % args: %s and %d take the next argument (already text) *)
Fixpoint fmt (f : str) (args : list str) : str :=
  match f with
  | [] => []
  | c :: r =>
    if c =? 37 then
      match r with
      | d :: r' => if (d =? 115) || (d =? 100)
                   then match args with a :: args' => a ++ fmt r' args' | [] => fmt r' [] end
                   else c :: fmt r args
      | [] => [c]
      end
    else c :: fmt r args
  end.

(* what run_wsgi.write emits on its first call, in source order *)
Inductive hitem :=
  | PStatus                       (* self.send_response(code, msg) *)
  | PAppHeaders                   (* for key, value in headers_sent: self.send_header(key, value) *)
  | PIfChunked (k v : str)        (* if <chunked-framing condition>: self.send_header(k, v) *)
  | PHeader (k v : str)           (* self.send_header(k, v) *)
  | PEnd.                         (* self.end_headers() *)

(* what a call of start_response does *)
Inductive sr_outcome :=
  | SRAccept        (* status_set / headers_set replaced, write returned *)
  | SRReraise       (* raise exc_info[1].with_traceback(exc_info[2]) *)
  | SRAssert.       (* raise AssertionError("Headers already set") *)
