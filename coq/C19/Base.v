(* C19: types and primitive atoms the generated definitions of Gen.v are written over.
   Definitions only. *)
From Wz Require Export lib.Bytes lib.Utf8 C09.Base.
Open Scope N_scope.

Inductive err := OSErrorE | FuelE.
Inductive rs (A : Type) := Ok (a : A) | Err (e : err).
Arguments Ok {A} a.
Arguments Err {A} e.

Definition CR : N := 13.
Definition LF : N := 10.
Definition SP : N := 32.
Definition CRLF : bytes := [CR; LF].

(* rfile.readline(): up to and including the first LF, or everything left *)
Definition rf_readline (rest : bytes) : bytes * bytes :=
  match partition1 LF rest with
  | (a, Some b) => (a ++ [LF], b)
  | (a, None) => (a, [])
  end.

(* re.compile(r"[0-9A-Fa-f]+", re.ASCII).fullmatch(s) is not None *)
Definition hex_str (s : str) : bool := match s with [] => false | _ => forallb is_hex s end.
(* int(s, 16) for s matching [0-9A-Fa-f]+ *)
Definition hex_value (s : str) : N := fold_left (fun acc c => acc * 16 + hex_val c) s 0.

Definition mem_bytes (x : bytes) (l : list bytes) : bool := existsb (list_eqb x) l.
Definition mem_str := mem_bytes.

(* Python string comparison a >= b (code point lexicographic) *)
Fixpoint str_geb (a b : str) : bool :=
  match a, b with
  | _, [] => true
  | [], _ :: _ => false
  | x :: a', y :: b' => if x =? y then str_geb a' b' else y <? x
  end.

(* decimal text of a non-negative integer ("%d") *)
Fixpoint dec_digits (fuel : nat) (n : N) (acc : str) : str :=
  match fuel with
  | O => acc
  | S f => let acc' := (48 + n mod 10) :: acc in
           if n / 10 =? 0 then acc' else dec_digits f (n / 10) acc'
  end.
Definition dec_of_N (n : N) : str := dec_digits (S (N.to_nat (N.log2 n))) n [].

(* hex(n)[2:] : lower-case hexadecimal text *)
Definition hex_digit (d : N) : N := if d <? 10 then 48 + d else 87 + d.
Fixpoint hex_digits (fuel : nat) (n : N) (acc : str) : str :=
  match fuel with
  | O => acc
  | S f => let acc' := hex_digit (n mod 16) :: acc in
           if n / 16 =? 0 then acc' else hex_digits f (n / 16) acc'
  end.
Definition hex_of_N (n : N) : str := hex_digits (S (N.to_nat (N.log2 n))) n [].
