(* C19: executable model of serving.DechunkedInput, of the response writer of
   WSGIRequestHandler.run_wsgi and of make_environ.  Definitions only.
   Comparisons, constants and the chunked-framing decision come from C19/Gen.v (regenerated). *)
From Wz Require Import C19.Base C19.Gen.
Open Scope N_scope.

(* ================================================================== DechunkedInput *)
(* _len, _done and what is left in the buffered reader (rfile) *)
Record dst := { d_len : N; d_done : bool; d_rest : bytes }.
Definition dst_init (wire : bytes) : dst := {| d_len := 0; d_done := false; d_rest := wire |}.

(* read_chunk_len: one line, latin-1 decoded, stripped; OSError unless it is a hexadecimal number *)
Definition read_chunk_len (rest : bytes) : rs (N * bytes) :=
  let '(line, rest') := rf_readline rest in
  let t := strip uni_ws line in
  if hex_str t
  then let v := hex_value t in
       if dc_neg (Z.of_N v) then Err OSErrorE else Ok (v, rest')
  else Err OSErrorE.

(* one pass of the while loop of DechunkedInput.readinto(buf), in its three parts *)
(* if self._len == 0: self._len = self.read_chunk_len() *)
Definition dc_header (st : dst) : rs (N * bytes) :=
  if dc_zero1 (Z.of_N (d_len st)) then read_chunk_len (d_rest st) else Ok (d_len st, d_rest st).

(* if self._len > 0: n = min(len(buf) - read, self._len); data = rfile.read(n); short -> OSError;
   buf[read:read+n] = data; self._len -= n; read += n *)
Definition dc_data (len1 : N) (rest1 : bytes) (size read : N) (acc : bytes) : rs (N * bytes * N * bytes) :=
  if dc_pos (Z.of_N len1)
  then let n := Z.to_N (dc_n (Z.of_N size) (Z.of_N read) (Z.of_N len1)) in
       let data := takeN n rest1 in
       if dc_short (Z.of_N (lenN data)) (Z.of_N n) then Err OSErrorE
       else Ok (len1 - n, dropN n rest1, read + n, acc ++ data)
  else Ok (len1, rest1, read, acc).

(* if self._len == 0: terminator = rfile.readline(); not in (LF, CRLF, CR) -> OSError *)
Definition dc_term (len2 : N) (rest2 : bytes) : rs bytes :=
  if dc_zero3 (Z.of_N len2)
  then let '(term, rest3) := rf_readline rest2 in
       if mem_bytes term dc_terminators then Ok rest3 else Err OSErrorE
  else Ok rest2.

(* the while loop of DechunkedInput.readinto(buf), len(buf) = size; acc = buf[:read] *)
Fixpoint dc_loop (fuel : nat) (st : dst) (size read : N) (acc : bytes) : rs (bytes * dst) :=
  if negb (dc_continue (d_done st) (Z.of_N read) (Z.of_N size)) then Ok (acc, st)
  else
    match fuel with
    | O => Err FuelE
    | S f =>
      match dc_header st with
      | Err e => Err e
      | Ok (len1, rest1) =>
        let done1 := if dc_zero2 (Z.of_N len1) then true else d_done st in
        match dc_data len1 rest1 size read acc with
        | Err e => Err e
        | Ok (len2, rest2, read2, acc2) =>
          match dc_term len2 rest2 with
          | Err e => Err e
          | Ok rest3 => dc_loop f {| d_len := len2; d_done := done1; d_rest := rest3 |} size read2 acc2
          end
        end
      end
    end.

(* io.RawIOBase.read(size) on top of readinto: the bytes placed in the buffer *)
Definition dc_read (st : dst) (size : N) : rs (bytes * dst) :=
  dc_loop (S (length (d_rest st))) st size 0 [].

(* a sequence of read(size) calls; stops at the first error *)
Fixpoint dc_reads (st : dst) (sizes : list N) : list bytes * option err * dst :=
  match sizes with
  | [] => ([], None, st)
  | n :: r =>
    match dc_read st n with
    | Ok (d, st') => let '(l, e, st'') := dc_reads st' r in (d :: l, e, st'')
    | Err e => ([], Some e, st)
    end
  end.

(* io.RawIOBase.readall(): read(DEFAULT_BUFFER_SIZE) until an empty result *)
Definition DEFAULT_BUFFER_SIZE : N := 8192.
Fixpoint dc_readall_loop (fuel : nat) (st : dst) (acc : bytes) : rs (bytes * dst) :=
  match fuel with
  | O => Err FuelE
  | S f =>
    match dc_read st DEFAULT_BUFFER_SIZE with
    | Ok (d, st') => match d with [] => Ok (acc, st') | _ => dc_readall_loop f st' (acc ++ d) end
    | Err e => Err e
    end
  end.
Definition dc_readall (st : dst) : rs (bytes * dst) := dc_readall_loop (S (S (length (d_rest st)))) st [].

(* io.IOBase.readline() via read(1) *)
Fixpoint dc_readline_loop (fuel : nat) (st : dst) (acc : bytes) : rs (bytes * dst) :=
  match fuel with
  | O => Err FuelE
  | S f =>
    match dc_read st 1 with
    | Ok (d, st') =>
      match d with
      | [] => Ok (acc, st')
      | _ => if match rev d with c :: _ => c =? LF | [] => false end then Ok (acc ++ d, st')
             else dc_readline_loop f st' (acc ++ d)
      end
    | Err e => Err e
    end
  end.
Definition dc_readline (st : dst) : rs (bytes * dst) := dc_readline_loop (S (S (length (d_rest st)))) st [].

Inductive dop := DRead (n : N) | DReadAll | DReadLine.
Definition dc_step (st : dst) (o : dop) : rs (bytes * dst) :=
  match o with DRead n => dc_read st n | DReadAll => dc_readall st | DReadLine => dc_readline st end.
(* results with the number of bytes left in rfile after each operation; stops at the first error *)
Fixpoint dc_run (st : dst) (ops : list dop) : list (bytes * N) * option err :=
  match ops with
  | [] => ([], None)
  | o :: r =>
    match dc_step st o with
    | Ok (d, st') => let '(l, e) := dc_run st' r in ((d, lenN (d_rest st')) :: l, e)
    | Err e => ([], Some e)
    end
  end.

(* ================================================================== response writer *)
(* status_sent.split(None, 1); int(code_str): supported shape <digits>[<white space><reason>] *)
Definition split_status (status : str) : option (N * str) :=
  let s := drop_while uni_ws status in
  let code_str := take_while (fun c => negb (uni_ws c)) s in
  let rest := drop_while (fun c => negb (uni_ws c)) s in
  let msg := drop_while uni_ws rest in
  match code_str with
  | [] => None
  | _ => if forallb is_digit code_str then Some (dec_val code_str, msg) else None
  end.

Definition COLON : N := 58.
(* spec side: a header line *)
Definition header_line (kv : str * str) : bytes := fst kv ++ [COLON; SP] ++ snd kv ++ CRLF.

Definition chunk_frame (chunked : bool) (data : bytes) : bytes :=
  match data with
  | [] => []
  | _ => if chunked then hex_of_N (lenN data) ++ chunk_sep1 ++ data ++ chunk_sep2 else data
  end.

Definition lower_keys (headers : list (str * str)) : list str := map (fun kv => lower (fst kv)) headers.

Definition uses_chunked (proto method : str) (code : N) (headers : list (str * str)) : bool :=
  chunk_condition_gen (lower_keys headers) method (Z.of_N code) proto.

Definition server_name : str := [83; 101; 114; 118; 101; 114].   (* Server *)
Definition date_name : str := [68; 97; 116; 101].                (* Date *)

(* the body part: one frame per non-empty piece, then the final chunk when chunked *)
Definition response_body (chunked : bool) (pieces : list bytes) : bytes :=
  concat (map (chunk_frame chunked) pieces) ++ (if chunked then final_chunk else []).

(* one item of the emission plan generated from run_wsgi.write (head_plan); the formats and the
   default headers are those of http.server's send_response_only / send_header / end_headers *)
Definition default_value (server date : str) (name : str) : str :=
  if list_eqb name server_name then server else date.
Definition emit_item (proto server date : str) (code : N) (msg : str) (headers : list (str * str))
                     (chunked : bool) (it : hitem) : bytes :=
  match it with
  | PStatus => fmt status_line_fmt [proto; dec_of_N code; msg]
               ++ concat (map (fun n => fmt header_fmt [n; default_value server date n]) default_headers)
  | PAppHeaders => concat (map (fun kv => fmt header_fmt [fst kv; snd kv]) headers)
  | PIfChunked k v => if chunked then fmt header_fmt [k; v] else []
  | PHeader k v => fmt header_fmt [k; v]
  | PEnd => end_headers_bytes
  end.

(* interim response, status line and header block *)
Definition response_head (proto : str) (expect : option str) (server date : str) (code : N) (msg : str)
                         (headers : list (str * str)) (chunked : bool) : bytes :=
  (match expect with
   | Some v => if list_eqb (strip uni_ws (lower v)) expect_value then continue_bytes else []
   | None => [] end)
  ++ concat (map (emit_item proto server date code msg headers chunked) head_plan).

(* everything run_wsgi writes for an application that calls start_response(status, headers) and
   produces the body pieces (through write() and/or by iteration, in this order);
   server / date: the values http.server puts into its Server and Date headers *)
Definition respond (proto method : str) (expect : option str) (server date : str)
                   (status : str) (headers : list (str * str)) (pieces : list bytes) : option bytes :=
  match split_status status with
  | None => None
  | Some (code, msg) =>
    let chunked := uses_chunked proto method code headers in
    Some (response_head proto expect server date code msg headers chunked ++ response_body chunked pieces)
  end.

(* ================================================================== make_environ *)
Definition SLASH : N := 47.
Definition QMARK : N := 63.
Definition HASH : N := 35.
Definition PCT : N := 37.
Definition LBRACK : N := 91.
Definition RBRACK : N := 93.

Definition scheme_char (c : N) : bool := is_alpha c || is_digit c || (c =? 43) || (c =? 45) || (c =? 46).
Definition printable (c : N) : bool := (33 <=? c) && (c <=? 126).

Record split := { u_scheme : str; u_netloc : str; u_path : str; u_query : str; u_fragment : str }.

(* urllib.parse.urlsplit on printable-ASCII text; None = outside the modelled domain
   (other characters, or a bracket in the authority where urlsplit may raise ValueError) *)
Definition urlsplit (url : str) : option split :=
  if negb (forallb printable url) then None else
  let '(scheme, url1) :=
    match partition1 COLON url with
    | (before, Some after) =>
      match before with
      | c :: _ => if is_alpha c && forallb scheme_char before then (lower before, after) else ([], url)
      | [] => ([], url)
      end
    | (_, None) => ([], url)
    end in
  let '(netloc, url2) :=
    if starts_with [SLASH; SLASH] url1
    then let r := skipn 2 url1 in
         let stop c := (c =? SLASH) || (c =? QMARK) || (c =? HASH) in
         (take_while (fun c => negb (stop c)) r, drop_while (fun c => negb (stop c)) r)
    else ([], url1) in
  if mem LBRACK netloc || mem RBRACK netloc then None else
  let '(url3, fragment) := match partition1 HASH url2 with (a, Some b) => (a, b) | (a, None) => (a, []) end in
  let '(path, query) := match partition1 QMARK url3 with (a, Some b) => (a, b) | (a, None) => (a, []) end in
  Some {| u_scheme := scheme; u_netloc := netloc; u_path := path; u_query := query; u_fragment := fragment |}.

(* urllib.parse.unquote_to_bytes on ASCII text *)
Fixpoint pct_decode (s : str) : bytes :=
  match s with
  | [] => []
  | c :: r =>
    if c =? PCT then
      match r with
      | h :: (l :: r') => if is_hex h && is_hex l then (hex_val h * 16 + hex_val l) :: pct_decode r'
                          else c :: pct_decode r
      | _ => c :: pct_decode r
      end
    else c :: pct_decode r
  end.
(* urllib.parse.unquote(s) (errors="replace") on ASCII text *)
Definition unquote (s : str) : str := utf8_decode_replace (pct_decode s).

Definition is_empty (s : str) : bool := match s with [] => true | _ => false end.

(* the header loop of make_environ over self.headers.items(): the generated loop body folded over the headers *)
Fixpoint env_headers (hs : list (str * str)) (env : list (str * str)) : list (str * str) :=
  match hs with
  | [] => env
  | (key, value) :: r => env_headers r (env_header_step_gen key value env)
  end.

Definition HTTP_ : str := [72; 84; 84; 80; 95].
Definition HTTP_HOST : str := HTTP_ ++ [72; 79; 83; 84].

Record environ := { en_path_info : str; en_query_string : str; en_request_uri : str;
                    en_headers : list (str * str); en_chunked : bool }.

(* make_environ: what the application sees of the request target and the headers *)
Definition make_environ (target : str) (headers : list (str * str)) : option environ :=
  match urlsplit target with
  | None => None
  | Some u =>
    let path_info := path_info_gen (u_scheme u) (u_netloc u) (u_path u) in
    let env := env_headers headers [] in
    let chunked := chunked_request_gen env in
    let env := host_override_gen (u_scheme u) (u_netloc u) env in
    Some {| en_path_info := wsgi_encoding_dance (unquote path_info);
            en_query_string := wsgi_encoding_dance (u_query u);
            en_request_uri := wsgi_encoding_dance target;
            en_headers := env; en_chunked := chunked |}
  end.

(* ================================================================== spec side *)
(* --- chunked framing, read off RFC 9112 as the property uses it: a one-shot decoder of a whole
   input.  Result: the chunk data that may be handed to the application before the framing stops
   being valid, whether the framing is complete, and what follows it.
   Size lines are hexadecimal digits only (white space around them tolerated); a chunk is followed
   by LF or CRLF (a lone CR at the very end of the input is tolerated) *)
Definition is_term (t : bytes) : bool := list_eqb t [LF] || list_eqb t CRLF || list_eqb t [CR].

Fixpoint ref_dechunk (fuel : nat) (w : bytes) : bytes * bool * bytes :=
  match fuel with
  | O => ([], false, [])
  | S f =>
    let '(line, r) := rf_readline w in
    let t := strip uni_ws line in
    if hex_str t then
      let n := hex_value t in
      if n =? 0 then
        let '(term, r2) := rf_readline r in
        if is_term term then ([], true, r2) else ([], false, [])
      else
        let data := takeN n r in
        if lenN data <? n then (data, false, [])
        else let '(term, r2) := rf_readline (dropN n r) in
             if is_term term
             then let '(b, c, tl) := ref_dechunk f r2 in (data ++ b, c, tl)
             else (data, false, [])
    else ([], false, [])
  end.
Definition ref (w : bytes) : bytes * bool * bytes := ref_dechunk (S (length w)) w.

(* --- every well-framed encoding: per chunk optional blanks around a hexadecimal size in any
   letter case with any leading zeros, LF or CRLF after the size line and after the data *)
Definition term_ok (t : bytes) : bool := list_eqb t [LF] || list_eqb t CRLF.
Definition pad_ok (p : bytes) : bool := forallb (fun c => (c =? 32) || (c =? 9)) p.
Record cenc := { c_pad1 : bytes; c_hex : str; c_pad2 : bytes; c_t1 : bytes; c_data : bytes; c_t2 : bytes }.
Definition cenc_ok (c : cenc) : bool :=
  pad_ok (c_pad1 c) && pad_ok (c_pad2 c) && hex_str (c_hex c) && (hex_value (c_hex c) =? lenN (c_data c))
  && (0 <? lenN (c_data c)) && term_ok (c_t1 c) && term_ok (c_t2 c).
Definition frame (c : cenc) : bytes :=
  c_pad1 c ++ c_hex c ++ c_pad2 c ++ c_t1 c ++ c_data c ++ c_t2 c.
Record fenc := { f_pad1 : bytes; f_zeros : str; f_pad2 : bytes; f_t1 : bytes; f_t2 : bytes }.
Definition fenc_ok (f : fenc) : bool :=
  pad_ok (f_pad1 f) && pad_ok (f_pad2 f) && hex_str (f_zeros f) && (hex_value (f_zeros f) =? 0)
  && term_ok (f_t1 f) && term_ok (f_t2 f).
Definition frame_final (f : fenc) : bytes := f_pad1 f ++ f_zeros f ++ f_pad2 f ++ f_t1 f ++ f_t2 f.
Definition wire (cs : list cenc) (f : fenc) (tail : bytes) : bytes :=
  concat (map frame cs) ++ frame_final f ++ tail.
Definition body (cs : list cenc) : bytes := concat (map c_data cs).

(* split a body the way a sequence of read sizes does *)
Fixpoint chop (sizes : list N) (b : bytes) : list bytes :=
  match sizes with [] => [] | n :: r => takeN n b :: chop r (dropN n b) end.
Definition sumN (l : list N) : N := fold_right N.add 0 l.
Fixpoint is_prefix (a b : bytes) : bool :=
  match a, b with
  | [], _ => true
  | x :: a', y :: b' => (x =? y) && is_prefix a' b'
  | _ :: _, [] => false
  end.

(* --- percent-encoding of path bytes as a client may spell it: a byte is written literally when
   `keep` says so and it is a printable ASCII character other than % ? #, else as %XX *)
Definition upper_hex_digit (d : N) : N := if d <? 10 then 48 + d else 55 + d.
Definition lit_ok (c : N) : bool := printable c && negb (c =? PCT) && negb (c =? QMARK) && negb (c =? HASH).
Fixpoint pct_enc (keep : N -> bool) (b : bytes) : str :=
  match b with
  | [] => []
  | c :: r => if keep c && lit_ok c then c :: pct_enc keep r
              else PCT :: upper_hex_digit (c / 16) :: upper_hex_digit (c mod 16) :: pct_enc keep r
  end.

(* --- request headers as the application must see them (spec) *)
Definition CONTENT_TYPE : str := [67; 79; 78; 84; 69; 78; 84; 95; 84; 89; 80; 69].
Definition CONTENT_LENGTH : str := [67; 79; 78; 84; 69; 78; 84; 95; 76; 69; 78; 71; 84; 72].
Definition exempt (K : str) : bool := mem_str K [CONTENT_TYPE; CONTENT_LENGTH].
(* NAME upper-cased with dashes turned into underscores; values lose folded line breaks *)
Definition norm_name (k : str) : str := str_replace (str_upper k) [45] [95].
Definition clean_value (v : str) : str := str_replace v [13; 10] [].
(* a name containing an underscore is dropped (it would alias a dashed name) *)
Definition hidden (k : str) : bool := str_contains [95] k.
Definition env_key (k : str) : str := let K := norm_name k in if exempt K then K else HTTP_ ++ K.
(* the values the client sent under names that map to the environ key E, in order *)
Definition sent_values (E : str) (hs : list (str * str)) : list str :=
  map (fun kv => clean_value (snd kv))
      (filter (fun kv => negb (hidden (fst kv)) && list_eqb (env_key (fst kv)) E) hs).
Definition join_step (cur : option str) (v : str) : option str :=
  Some (match cur with Some o => o ++ [44] ++ v | None => v end).
Definition join_comma (vs : list str) : option str := fold_left join_step vs None.       (* None when empty *)
Definition last_value (vs : list str) : option str := fold_left (fun _ v => Some v) vs None.

(* --- the head of a response, byte for byte (spec) *)
Definition response_head_spec (proto : str) (expect : option str) (server date : str) (code : N) (msg : str)
                              (headers : list (str * str)) (chunked : bool) : bytes :=
  (match expect with
   | Some v => if list_eqb (strip uni_ws (lower v)) [49; 48; 48; 45; 99; 111; 110; 116; 105; 110; 117; 101]
               then [72; 84; 84; 80; 47; 49; 46; 49; 32; 49; 48; 48; 32; 67; 111; 110; 116; 105; 110; 117; 101; 13; 10; 13; 10]
               else []
   | None => [] end)
  ++ proto ++ [SP] ++ dec_of_N code ++ [SP] ++ msg ++ CRLF
  ++ header_line ([83; 101; 114; 118; 101; 114], server) ++ header_line ([68; 97; 116; 101], date)
  ++ concat (map header_line headers)
  ++ (if chunked then header_line ([84; 114; 97; 110; 115; 102; 101; 114; 45; 69; 110; 99; 111; 100; 105; 110; 103],
                                   [99; 104; 117; 110; 107; 101; 100]) else [])
  ++ header_line ([67; 111; 110; 110; 101; 99; 116; 105; 111; 110], [99; 108; 111; 115; 101]) ++ CRLF.
