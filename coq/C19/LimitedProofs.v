(* malformed chunk framing behind LimitedStream(is_max=True): never a clean end of stream *)
From Coq Require Import ZArith Lia ZifyBool ZifyN.
From Wz Require Import lib.Bytes C09.BaseFacts C19.Base C19.Gen C19.Model C19.Proofs C19.Limited.
Open Scope N_scope.

Definition allowed (e : exn) : Prop := e = ClientDisconnected \/ e = RequestEntityTooLarge.

Lemma chunk_pos : 0 < C09.Gen.readall_chunk.
Proof. vm_compute. reflexivity. Qed.

Lemma lim_exhausted_eq s : lim_exhausted s = (C09.Model.limit s <=? C09.Model.pos s).
Proof. unfold lim_exhausted, C09.Gen.is_exhausted_gen. lia. Qed.

(* one read on an incomplete framing: data (never an empty result), or one of the two errors;
   an I/O error of the de-chunking stream becomes ClientDisconnected although the limit is a maximum *)
Lemma lim_read_incomplete s st size : C09.Model.is_max s = true -> Cof (ref_state st) = false -> 0 < size ->
  match lim_read s st size with
  | (LOk d, s', st') =>
    d <> [] /\ peel d (ref_state st) (ref_state st') /\ Cof (ref_state st') = false /\
    (length (d_rest st') < length (d_rest st))%nat /\ C09.Model.is_max s' = true
  | (LExn e, _, _) => allowed e
  end.
Proof.
  intros Hm Hc Hs. unfold lim_read, C09.Gen.ri_size, C09.Gen.ri_remaining, C09.Gen.ri_exhausted, C09.Gen.ri_fits, C09.Gen.ri_tempsize.
  rewrite Hm.
  destruct (Z.of_N (C09.Model.limit s) - Z.of_N (C09.Model.pos s) <=? 0)%Z eqn:Hex.
  - cbv [C09.Gen.on_exhausted_gen hookl]. right. reflexivity.
  - set (req := if (Z.of_N size <=? Z.of_N (C09.Model.limit s) - Z.of_N (C09.Model.pos s))%Z then Z.to_N (Z.of_N size)
                else Z.to_N (Z.of_N (C09.Model.limit s) - Z.of_N (C09.Model.pos s))).
    assert (Hreq : 0 < req) by (unfold req; destruct (Z.of_N size <=? _)%Z; lia).
    pose proof (read_inv st req) as R. destruct (dc_read st req) as [[d st']|e].
    + destruct R as [Hp [Hor [Hle Hstrict]]].
      assert (Hc' : Cof (ref_state st') = false) by (destruct Hp as [_ [Hcc _]]; congruence).
      assert (Hne : d <> []).
      { intro E. subst d. destruct Hor as [Hor|Hor]; [cbn [lenN length N.of_nat] in Hor; lia|].
        rewrite (done_ref st' Hor) in Hc'. discriminate. }
      replace (lenN d =? 0) with false by (destruct d; [congruence|rewrite lenN_cons; lia]).
      spl; auto.
    + destruct R as [He _]. subst e. cbv [C09.Gen.on_disconnect_gen hookl negb orb]. left. reflexivity.
Qed.

Lemma lim_readall_loop_incomplete : forall fuel s st acc,
  C09.Model.is_max s = true -> Cof (ref_state st) = false -> (length (d_rest st) < fuel)%nat ->
  match lim_readall_loop fuel s st acc with
  | (LOk _, s', _) => lim_exhausted s' = true /\ C09.Model.is_max s' = true
  | (LExn e, _, _) => allowed e
  end.
Proof.
  induction fuel as [|f IH]; intros s st acc Hm Hc Hf; [inversion Hf|].
  cbn [lim_readall_loop]. destruct (lim_exhausted s) eqn:Hex; [auto|].
  pose proof (lim_read_incomplete s st C09.Gen.readall_chunk Hm Hc chunk_pos) as R.
  destruct (lim_read s st C09.Gen.readall_chunk) as [[[d|e] s1] st1]; [|exact R].
  destruct R as [Hne [_ [Hc1 [Hlt Hm1]]]]. destruct d as [|x d]; [congruence|].
  apply IH; auto. lia.
Qed.

(* an unbounded read() of an incomplete framing never returns *)
Lemma lim_readall_incomplete s st : C09.Model.is_max s = true -> Cof (ref_state st) = false ->
  match lim_readall s st with
  | (LOk _, _, _) => False
  | (LExn e, _, _) => allowed e
  end.
Proof.
  intros Hm Hc. unfold lim_readall. destruct (lim_exhausted s) eqn:Hex.
  - rewrite Hm. cbv [C09.Gen.on_exhausted_gen hookl]. right. reflexivity.
  - pose proof (lim_readall_loop_incomplete (S (length (d_rest st))) s st [] Hm Hc (Nat.lt_succ_diag_r _)) as R.
    destruct (lim_readall_loop (S (length (d_rest st))) s st []) as [[[acc|e] s1] st1]; [|exact R].
    destruct R as [He Hm1]. rewrite He, Hm1. cbv [C09.Gen.readall_post andb C09.Gen.on_exhausted_gen hookl]. right. reflexivity.
Qed.

Definition pos_op (o : lop) : Prop := match o with LRead n => 0 < n | LReadAll => True end.

Lemma lim_run_incomplete : forall ops s st, C09.Model.is_max s = true -> Cof (ref_state st) = false ->
  Forall pos_op ops ->
  match lim_run s st ops with
  | (outs, e) =>
    Forall (fun d => d <> []) outs /\
    (exists rest, Dof (ref_state st) = concat outs ++ rest) /\
    match e with Some e => allowed e | None => ~ In LReadAll ops end
  end.
Proof.
  induction ops as [|o ops IH]; intros s st Hm Hc Hall; cbn [lim_run].
  - spl; auto. exists (Dof (ref_state st)). reflexivity.
  - inversion Hall as [|? ? Ho Hrest]; subst. destruct o as [n|]; cbn [lim_step].
    + pose proof (lim_read_incomplete s st n Hm Hc Ho) as R.
      destruct (lim_read s st n) as [[[d|e] s1] st1].
      * destruct R as [Hne [Hp [Hc1 [_ Hm1]]]]. specialize (IH s1 st1 Hm1 Hc1 Hrest).
        destruct (lim_run s1 st1 ops) as [outs e]. destruct IH as [I1 [[rest I2] I3]]. spl.
        -- constructor; auto.
        -- exists rest. destruct Hp as [HD _]. rewrite HD, I2. cbn [concat]. rewrite app_assoc. reflexivity.
        -- destruct e; auto. intros [H|H]; [discriminate|auto].
      * spl; auto. exists (Dof (ref_state st)). reflexivity.
    + pose proof (lim_readall_incomplete s st Hm Hc) as R.
      destruct (lim_readall s st) as [[[d|e] s1] st1]; [contradiction|].
      spl; auto. exists (Dof (ref_state st)). reflexivity.
Qed.

Lemma limited_malformed w mx ops : Cof (ref w) = false -> Forall pos_op ops ->
  match lim_run (lim_init mx) (dst_init w) ops with
  | (outs, e) =>
    Forall (fun d => d <> []) outs /\
    (exists rest, Dof (ref w) = concat outs ++ rest) /\
    match e with Some e => allowed e | None => ~ In LReadAll ops end
  end.
Proof. intros Hc Hall. apply (lim_run_incomplete ops (lim_init mx) (dst_init w)); auto. Qed.
