(* C19: run_wsgi as a state machine - proofs *)
From Coq Require Import ZArith Lia ZifyBool ZifyN.
From Wz Require Import lib.Bytes C19.Base C19.Gen C19.Model C19.Proofs C19.App.
Open Scope N_scope.

Definition is_piece (a : act) : bool := match a with ASR _ _ _ => false | _ => true end.
Definition data_of (a : act) : bytes := match a with ASR _ _ _ => [] | AWrite d => d | AYield d => d end.
Definition expect_prefix (expect : option str) : bytes := w_out (app_init expect).

Lemma start_response_cases exc sent set_ :
  start_response_gen exc sent set_ = if exc then (if sent then SRReraise else SRAccept) else (if set_ then SRAssert else SRAccept).
Proof. reflexivity. Qed.

Lemma head_prefix proto expect server date code msg headers chunked :
  response_head proto expect server date code msg headers chunked
  = expect_prefix expect ++ response_head proto None server date code msg headers chunked.
Proof. unfold response_head, expect_prefix, app_init. cbn [w_out]. destruct expect; reflexivity. Qed.

(* pieces after the head has been sent *)
Lemma pieces_started proto method server date : forall body st, forallb is_piece body = true ->
  w_status_sent st = true -> is_some (w_status_set st) = true -> is_some (w_headers_set st) = true ->
  exists st', do_acts proto method server date st body = (st', None) /\
    w_out st' = w_out st ++ concat (map (chunk_frame (w_chunked st)) (map data_of body)) /\
    w_chunked st' = w_chunked st /\ w_status_sent st' = true /\ w_headers_sent st' = w_headers_sent st /\
    w_status_set st' = w_status_set st /\ w_headers_set st' = w_headers_set st.
Proof.
  induction body as [|a r IH]; intros st Hp Hs H1 H2; cbn [do_acts map concat].
  - exists st. rewrite app_nil_r. spl; auto.
  - cbn [forallb] in Hp. apply andb_prop in Hp. destruct Hp as [Ha Hr].
    assert (Hw : do_act proto method server date st a =
                 inl {| w_status_set := w_status_set st; w_headers_set := w_headers_set st; w_status_sent := w_status_sent st;
                        w_headers_sent := w_headers_sent st; w_chunked := w_chunked st;
                        w_out := w_out st ++ chunk_frame (w_chunked st) (data_of a) |}).
    { destruct a as [? ? ?|d|d]; [discriminate| |]; cbn [do_act data_of]; unfold do_write, write_allowed_gen, write_first_gen;
        rewrite H1, H2, Hs; cbn [negb andb]; rewrite ?Hs; reflexivity. }
    rewrite Hw. set (st1 := {| w_status_set := w_status_set st; w_headers_set := w_headers_set st; w_status_sent := w_status_sent st;
                               w_headers_sent := w_headers_sent st; w_chunked := w_chunked st;
                               w_out := w_out st ++ chunk_frame (w_chunked st) (data_of a) |}).
    destruct (IH st1 Hr Hs H1 H2) as [st' [Hd [Ho [Hc [Hss [Hhs [Hst Hhd]]]]]]].
    exists st'. unfold st1 in *. cbn [w_out w_chunked w_headers_sent w_status_set w_headers_set] in *. spl; auto.
    rewrite Ho. cbn [map concat]. rewrite <- app_assoc. reflexivity.
Qed.

(* a run of start_response calls before anything was sent: the last one counts *)
Fixpoint last_sr (s0 : str) (h0 : list (str * str)) (more : list (str * list (str * str))) : str * list (str * str) :=
  match more with [] => (s0, h0) | (s, h) :: r => last_sr s h r end.

Lemma srs_accept proto method server date : forall more s0 h0 st rest,
  w_headers_sent st = None -> w_status_set st = Some s0 -> w_headers_set st = Some h0 ->
  do_acts proto method server date st (map (fun sh => ASR (fst sh) (snd sh) true) more ++ rest)
  = do_acts proto method server date
      {| w_status_set := Some (fst (last_sr s0 h0 more)); w_headers_set := Some (snd (last_sr s0 h0 more));
         w_status_sent := w_status_sent st; w_headers_sent := None; w_chunked := w_chunked st; w_out := w_out st |} rest.
Proof.
  induction more as [|[s h] r IH]; intros s0 h0 st rest Hn H1 H2; cbn [map app last_sr].
  - destruct st. cbn in *. subst. reflexivity.
  - cbn [do_acts do_act fst snd]. rewrite Hn. cbn [truthy_list start_response_gen].
    rewrite (IH s h); cbn [w_headers_sent w_status_set w_headers_set w_status_sent w_chunked w_out]; auto.
Qed.

Lemma app_normal proto method expect server date s0 h0 e0 more body :
  forallb is_piece body = true ->
  let sL := fst (last_sr s0 h0 more) in let hL := snd (last_sr s0 h0 more) in
  let acts := ASR s0 h0 e0 :: map (fun sh => ASR (fst sh) (snd sh) true) more ++ body in
  match respond proto method expect server date sL hL (map data_of body) with
  | Some out => run_app proto method expect server date acts = (out, None)
  | None => run_app proto method expect server date acts = (expect_prefix expect, Some EBadStatus)
  end.
Proof.
  intros Hp sL hL acts. unfold run_app, acts. cbn [do_acts do_act].
  replace (start_response_gen e0 (truthy_list (w_headers_sent (app_init expect))) (truthy_list (w_headers_set (app_init expect))))
    with SRAccept by (destruct e0; reflexivity).
  rewrite (srs_accept proto method server date more s0 h0) by reflexivity.
  fold sL hL. cbn [w_status_sent w_chunked w_out].
  replace (w_status_sent (app_init expect)) with false by reflexivity.
  replace (w_chunked (app_init expect)) with false by reflexivity.
  change (w_out (app_init expect)) with (expect_prefix expect).
  unfold respond. destruct (split_status sL) as [[code msg]|] eqn:Hst.
  - set (c := uses_chunked proto method code hL).
    set (started := {| w_status_set := Some sL; w_headers_set := Some hL; w_status_sent := true; w_headers_sent := Some hL;
                       w_chunked := c; w_out := expect_prefix expect ++ response_head proto None server date code msg hL c |}).
    destruct body as [|a r].
    + cbn [do_acts map concat]. cbn [w_headers_sent truthy_list exec_flush_gen negb].
      unfold do_write, write_allowed_gen, write_first_gen. cbn [w_status_set w_headers_set w_status_sent is_some negb andb].
      rewrite Hst. fold c. cbn [w_out w_chunked chunk_frame]. unfold exec_final_gen, response_body. cbn [map concat app].
      rewrite (head_prefix proto expect), app_nil_r, <- app_assoc. reflexivity.
    + cbn [forallb] in Hp. apply andb_prop in Hp. destruct Hp as [Ha Hr].
      assert (Hfirst : do_act proto method server date
                {| w_status_set := Some sL; w_headers_set := Some hL; w_status_sent := false; w_headers_sent := None;
                   w_chunked := false; w_out := expect_prefix expect |} a
              = inl {| w_status_set := Some sL; w_headers_set := Some hL; w_status_sent := true; w_headers_sent := Some hL;
                       w_chunked := c; w_out := w_out started ++ chunk_frame c (data_of a) |}).
      { destruct a as [? ? ?|d|d]; [discriminate| |]; cbn [do_act data_of]; unfold do_write, write_allowed_gen, write_first_gen;
          cbn [w_status_set w_headers_set w_status_sent is_some negb andb]; rewrite Hst; reflexivity. }
      cbn [do_acts]. rewrite Hfirst.
      destruct (pieces_started proto method server date r
                  {| w_status_set := Some sL; w_headers_set := Some hL; w_status_sent := true; w_headers_sent := Some hL;
                     w_chunked := c; w_out := w_out started ++ chunk_frame c (data_of a) |} Hr eq_refl eq_refl eq_refl)
        as [st' [Hd [Ho [Hc [Hss [Hhs [Hs1 Hs2]]]]]]].
      rewrite Hd. cbn [w_out w_chunked w_headers_sent w_status_set w_headers_set] in *. rewrite Hhs.
      assert (Hflush : exists st2, (if exec_flush_gen (truthy_list (Some hL)) then do_write proto method server date st' [] else inl st')
                                   = inl st2 /\ w_out st2 = w_out st' /\ w_chunked st2 = c).
      { destruct (exec_flush_gen (truthy_list (Some hL))); [|exists st'; auto].
        unfold do_write, write_allowed_gen, write_first_gen. rewrite Hs1, Hs2, Hss. cbn [is_some negb andb].
        eexists. split; [reflexivity|]. cbn [w_out w_chunked chunk_frame]. rewrite app_nil_r. auto. }
      destruct Hflush as [st2 [Hf [Ho2 Hc2]]]. rewrite Hf, Ho2, Hc2, Ho. unfold exec_final_gen, response_body.
      cbn [map concat]. rewrite (head_prefix proto expect). unfold started. cbn [w_out]. repeat rewrite <- app_assoc. reflexivity.
  - destruct body as [|a r].
    + cbn [do_acts]. cbn [w_headers_sent truthy_list exec_flush_gen negb].
      unfold do_write, write_allowed_gen, write_first_gen. cbn [w_status_set w_headers_set w_status_sent is_some negb andb].
      rewrite Hst. reflexivity.
    + cbn [forallb] in Hp. apply andb_prop in Hp. destruct Hp as [Ha _].
      cbn [do_acts]. destruct a as [? ? ?|d|d]; [discriminate| |]; cbn [do_act]; unfold do_write, write_allowed_gen, write_first_gen;
        cbn [w_status_set w_headers_set w_status_sent is_some negb andb]; rewrite Hst; reflexivity.
Qed.

(* the assertion / exception cases *)
Lemma app_errors proto method expect server date :
  (* an item yielded (or written) before any start_response *)
  (forall a rest, is_piece a = true ->
     run_app proto method expect server date (a :: rest) = (expect_prefix expect, Some EWriteBeforeStart)) /\
  (* start_response again without exc_info after a non-empty header list was set *)
  (forall st s h x hs, w_headers_set st = Some (x :: hs) ->
     do_act proto method server date st (ASR s h false) = inr EHeadersAlreadySet) /\
  (* start_response with exc_info after a non-empty header list was sent: the application's exception *)
  (forall st s h x hs, w_headers_sent st = Some (x :: hs) ->
     do_act proto method server date st (ASR s h true) = inr EReraised) /\
  (* start_response with exc_info before anything was sent replaces status and headers *)
  (forall st s h, w_headers_sent st = None ->
     exists st', do_act proto method server date st (ASR s h true) = inl st' /\ w_status_set st' = Some s /\
                 w_headers_set st' = Some h /\ w_out st' = w_out st).
Proof.
  spl.
  - intros a rest Ha. unfold run_app. cbn [do_acts]. destruct a as [? ? ?|d|d]; [discriminate| |]; reflexivity.
  - intros st s h x hs H. cbn [do_act]. rewrite H. cbn [truthy_list]. reflexivity.
  - intros st s h x hs H. cbn [do_act]. rewrite H. cbn [truthy_list]. reflexivity.
  - intros st s h H. cbn [do_act]. rewrite H. cbn [truthy_list start_response_gen]. eexists. spl; reflexivity.
Qed.
