(* C19 x C09: the de-chunking stream behind wsgi.get_input_stream when the request class sets
   max_content_length: LimitedStream(DechunkedInput(rfile), max_content_length, is_max=True).
   LimitedStream.readinto / readall as in C09/Model.v (same generated comparisons and hooks of
   C09/Gen.v, regenerated from wsgi.py), with DechunkedInput (C19/Model.v) as the wrapped stream,
   which has a readinto method.  Definitions only. *)
From Wz Require Import C19.Base C19.Gen C19.Model.
From Wz Require C09.Gen C09.Model.
Open Scope N_scope.

Inductive lres := LOk (d : bytes) | LExn (e : exn).
Definition hookl (h : option exn) (k : lres) : lres := match h with Some e => LExn e | None => k end.

(* io.RawIOBase.read(size) on the LimitedStream: LimitedStream.readinto(bytearray(size)) *)
Definition lim_read (s : C09.Model.ls) (st : dst) (size : N) : lres * C09.Model.ls * dst :=
  let sz := C09.Gen.ri_size (Z.of_N size) in
  let remaining := C09.Gen.ri_remaining (Z.of_N (C09.Model.limit s)) (Z.of_N (C09.Model.pos s)) in
  if C09.Gen.ri_exhausted sz remaining then (hookl (C09.Gen.on_exhausted_gen (C09.Model.is_max s)) (LOk []), s, st)
  else
    (* hasattr(self._stream, "readinto"): directly into b when it fits, else into a temp buffer *)
    let req := if C09.Gen.ri_fits sz remaining then Z.to_N sz else Z.to_N (C09.Gen.ri_tempsize sz remaining) in
    match dc_read st req with
    | Err OSErrorE => (hookl (C09.Gen.on_disconnect_gen (C09.Model.is_max s) true) (LOk []), s, st)
    | Err FuelE => (LExn OutOfFuel, s, st)
    | Ok (d, st') =>
      if lenN d =? 0 then (hookl (C09.Gen.on_disconnect_gen (C09.Model.is_max s) false) (LOk []), s, st')
      else (LOk d, C09.Model.advance s (lenN d), st')
    end.

Definition lim_exhausted (s : C09.Model.ls) : bool := C09.Gen.is_exhausted_gen (Z.of_N (C09.Model.pos s)) (Z.of_N (C09.Model.limit s)).

Fixpoint lim_readall_loop (fuel : nat) (s : C09.Model.ls) (st : dst) (acc : bytes) : lres * C09.Model.ls * dst :=
  if lim_exhausted s then (LOk acc, s, st)
  else match fuel with
       | O => (LExn OutOfFuel, s, st)
       | S f =>
         match lim_read s st C09.Gen.readall_chunk with
         | (LOk d, s', st') =>
           match d with
           | [] => (LOk acc, s', st')
           | _ => lim_readall_loop f s' st' (acc ++ d)
           end
         | r => r
         end
       end.

(* LimitedStream.readall: what Request.get_data() / stream.read() call *)
Definition lim_readall (s : C09.Model.ls) (st : dst) : lres * C09.Model.ls * dst :=
  if lim_exhausted s then (hookl (C09.Gen.on_exhausted_gen (C09.Model.is_max s)) (LOk []), s, st)
  else match lim_readall_loop (S (length (d_rest st))) s st [] with
       | (LOk acc, s', st') =>
         if C09.Gen.readall_post (C09.Model.is_max s') (lim_exhausted s')
         then (hookl (C09.Gen.on_exhausted_gen (C09.Model.is_max s')) (LOk acc), s', st')
         else (LOk acc, s', st')
       | r => r
       end.

Inductive lop := LRead (n : N) | LReadAll.
Definition lim_step (s : C09.Model.ls) (st : dst) (o : lop) : lres * C09.Model.ls * dst :=
  match o with LRead n => lim_read s st n | LReadAll => lim_readall s st end.
(* results until the first exception *)
Fixpoint lim_run (s : C09.Model.ls) (st : dst) (ops : list lop) : list bytes * option exn :=
  match ops with
  | [] => ([], None)
  | o :: r =>
    match lim_step s st o with
    | (LOk d, s', st') => let '(l, e) := lim_run s' st' r in (d :: l, e)
    | (LExn e, _, _) => ([], Some e)
    end
  end.
Definition lim_init (mx : N) : C09.Model.ls := C09.Model.ls_init mx true.
