#!/bin/sh
# offline build of the whole framework from files on disk: regenerate coq/*/Gen.v from /repo,
# full .vo build (coqc via coq_makefile), extraction, OCaml model runners.
HERE="$(cd "$(dirname "$0")" && pwd)"
REPO="${VERIF_REPO:-/repo}"
cd "$HERE" || exit 2
if grep -rnE '\b(Admitted|admit|Axiom|Parameter|Conjecture)\b|Unset Guard|bypass_check' --include='*.v' coq | grep -v '^[^:]*:[0-9]*: *(\*' ; then
  echo "setup: forbidden vernacular found" >&2
fi
exec env PYTHONPATH="$REPO/src:$HERE" PYTHONHASHSEED=0 PYTHONDONTWRITEBYTECODE=1 \
  /venv/bin/python -W ignore -m tools.setup "$@"
